#!/usr/bin/env python3
"""Authoring aid: known_findings.json is generated from this table and committed. Never run by a check."""
import json
F=[]
def fixed(props, key, commit, what):
    for p in props.split(','):
        F.append({"property":p,"key":key,"status":"fixed","commit":commit,"what":what,"line":f"fixed: property={p} {commit} {what}"})
def known(props, key, what):
    for p in props.split(','):
        F.append({"property":p,"key":key,"status":"known","what":what})
fixed("C02,C17","R3:mut:(*opset13.Conv).addBias:Reshape#1","9f1691a","Conv with a bias run twice on one model: addBias reshaped the bias weight in place, second Run fails 'Cannot reshape (1,C,1,1)'")
fixed("C02,C17","R3:mut:(*opset13.LSTM).Apply:Reshape#1","ea62cd1","RNN/GRU/LSTM reshaped initial_h (LSTM also initial_c) in place: a re-used or weight tensor changes shape (1,B,H)->(B,H)")
fixed("C02","R3:mut:(*opset13.ArgMax).Apply:store-elem#1","0a7fbd1","ArgMax keepdims=1 on a (2,3) input wrote into inputs[0].Shape(): the caller's tensor reports shape (2,1)")
fixed("C01","R5:M8","40aa53d","graph output 'nope' produced by no node: Run returned {nope: nil} with a nil error")
fixed("C01","R5:M3","8aba576","graph input that also has an initializer: the tensor passed to Run was replaced by the initializer")
fixed("C01","R4:output-names:(*opset13.LSTM).Apply","00e82c0","LSTM node with outputs named a,b,c returned three nil tensors (outputs looked up by the names Y/Y_h/Y_c)")
fixed("C12","R13:D3:onnx.ReadUint64ArrayFromBytes","e4012e9","raw UINT64 initializer [1] loaded as [0]: 4-byte buffer compared with 8 never decoded an element")
fixed("C12,C18","R13:D6","fa38173","dims [3] with 1 element, dims [-1], dims [0] panicked at load; 6-byte float32 payload with dims [2] loaded as [0 0]; 3 elements without dims loaded as a scalar")
fixed("C12","R13:D5:fallback:any","b960d7f","FLOAT16 tensor with int32_data loaded as an int32 tensor of bit patterns")
known("C12","R13:D5:fallback:UNDEFINED","a tensor with data_type UNDEFINED (0) is loaded through whichever typed field is populated (TensorProto{Dims:[2],Int32Data:[7,9]} -> int32 tensor) instead of being refused; TestConstantOfShape builds its value tensor this way, so removing the fallback breaks the unedited suite (demo: findings/c12_test.go)")
fixed("C07","R9a:Flatten.axis:slice-bound@(*opset13.Flatten).Apply","dfa64ca","Flatten axis=5 on a rank-2 tensor panicked 'slice bounds out of range'")
fixed("C07","R9a:Squeeze.inputs[1]:selection@opset13.keepDim","15c266f","Squeeze of a (1,3) tensor with axes=[5] returned the input unchanged, no error")
fixed("C07","R9c:Squeeze.inputs[1]:duplicates","15c266f","Squeeze with axes=[0,0] was accepted")
fixed("C08","R9a:Slice.inputs[3]:index@(*opset13.Slice).constructSlices","99a2101","Slice with axes=[5] on a rank-2 tensor (or axes longer than starts) panicked 'index out of range'")
fixed("C08","R10:repeat:(*opset13.Expand).Apply#1","dd7c884","Expand([2] -> shape [3]) returned 6 elements; (2,3) -> shape [3] returned shape (6,3)")
fixed("C07","R20:scalarwrap:(*opset13.Reshape).Apply#1","0675bcf","Reshape with a rank-0 int64 shape tensor panicked 'interface {} is int64, not []int64'")
fixed("C09","R20:scalarwrap:(*opset13.ArgMax).Apply#1","8a11d88","ArgMax of [0 1 2] with axis 0, keepdims 0 returned 'type assert error' instead of the scalar 2")
known("C08","R19:Slice:rank-restored","Slice [1:2,0:4] of a 3x4 tensor returns shape (4) instead of (1,4): gorgonia's Tensor.Slice drops every sliced axis whose extent becomes 1 and Slice.Apply returns the view as is; a repair needs the ONNX output-shape computation (clamping, negative steps), not a minimal patch (demo: findings/c08_test.go)")
fixed("C11","R20:scalarwrap:ops.ConvertTensorDtype#8","2e7bd3e","Cast of tensor.New(FromScalar(uint32(7))) to FLOAT panicked 'interface {} is uint32, not []uint32' (IfScalarToSlice had no uint16/uint32/uint64 cases; keys #8..#10)")
fixed("C10","R18:mul-by-mask:ops.ReLU#1","533382f","Relu(-Inf) = NaN (ReLU computed as X * (X > 0))")
fixed("C06","R18:mul-by-mask:ops.ReLU#1","533382f","RNN/GRU/LSTM with a relu activation: -Inf pre-activation gives NaN")
fixed("C10","R20:scalarwrap:opset13.calcPRelu#1","a32be8b","PRelu of a rank-0 tensor returned 'type assert error: expected numeric list, got float32' (keys #1..#3)")
fixed("C05","R11:K2:(*opset13.Conv).applyConv2D:axis1","a566fe4","2x4 image, 1x1 kernel: output columns 2,3 stayed 0 (width loop bounded by the padded height)")
fixed("C05","R11:K1:(*opset13.Conv).setPaddingWithAutoPad#1","8c885fd","x 1x1x6x6, 3x3 kernel, strides 2,2, auto_pad=SAME_UPPER: pads computed from N and C instead of H and W ([14 30 42 75..] instead of [63 81 63 171..])")
fixed("C05","R11:K4:autopad:unknown-refused","1248e3a","auto_pad=BOGUS was computed as SAME_UPPER")
fixed("C05","R21:attr-state:Conv","5448d1e","Conv.Apply stored input-derived defaults (pads, strides, dilations, kernel shape) in the operator: a second Apply on inputs of another rank reused them")
known("C05","R11:K4:autopad:SAME_UPPER~VALID","auto_pad=VALID is computed with the SAME_UPPER padding (1x1x4x4 input, 3x3 kernel: output 4x4 instead of 2x2); TestConv and TestSetPaddingWithAutoPad pin the SAME_UPPER result for VALID, so no repair passes the unedited suite (demo: findings/c05_test.go)")
fixed("C06","R8:LSTM:input_forget","1a3430a","LSTM node with input_forget=1 was computed with independent gates (attribute parsed, never read)")
fixed("C06","R9c:LSTM:activations-length","1a02a55","LSTM with activations=['sigmoid'] panicked 'index out of range [1]' at Run (same for GRU with one, RNN with zero names)")
fixed("C06","R9c:GRU:activations-length","1a02a55","GRU with a one-element activations list panicked at Run")
fixed("C06","R9c:RNN:activations-length","1a02a55","RNN with an empty activations list panicked at Run")
json.dump(F,open('/verif/known_findings.json','w'),indent=1)
print(len(F),"entries")
