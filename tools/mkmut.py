#!/usr/bin/env python3
"""mkmut.py NAME PROPS EXPECT FILE OLD NEW [FILE OLD NEW ...]
Authoring helper (not used by any check): builds /verif/mutants/NAME.patch from literal
replacements applied to a scratch copy of /repo, checks it compiles, records whether the
baseline tests kill it. PROPS = "C02,C17"; EXPECT = key substring or "silent"."""
import os, subprocess, sys, tempfile, shutil
name, props, expect = sys.argv[1:4]
edits = sys.argv[4:]
env = dict(os.environ, GOFLAGS="-mod=mod", GOPROXY="off", GOSUMDB="off", GOTOOLCHAIN="local")
env.pop("GOWORK", None)
tmp = tempfile.mkdtemp(prefix="mkmut-")
try:
    a = os.path.join(tmp, "a"); b = os.path.join(tmp, "b")
    subprocess.check_call(["rsync", "-a", "--exclude", ".git", "/repo/", a + "/"])
    subprocess.check_call(["rsync", "-a", a + "/", b + "/"])
    for i in range(0, len(edits), 3):
        f, old, new = edits[i:i+3]
        p = os.path.join(b, f)
        s = open(p).read()
        if s.count(old) != 1:
            sys.exit(f"{f}: pattern occurs {s.count(old)} times: {old!r}")
        open(p, "w").write(s.replace(old, new))
    r = subprocess.run(["go", "build", "./..."], cwd=b, env=env, capture_output=True, text=True)
    if r.returncode != 0:
        sys.exit("does not compile:\n" + r.stderr)
    r = subprocess.run(["go", "vet", "./..."], cwd=b, env=env, capture_output=True, text=True)
    t = subprocess.run("go test -vet=off -count=1 ./... 2>&1 | grep -E '^(--- FAIL|FAIL|ok)' | grep -v TestOps", shell=True, cwd=b, env=env, capture_output=True, text=True)
    fails = [l for l in t.stdout.splitlines() if l.startswith("--- FAIL")]
    killed = "killed by baseline tests: " + ", ".join(x.split()[2] for x in fails) if fails else "survives the 254 baseline tests"
    d = subprocess.run(["diff", "-ru", "a", "b"], cwd=tmp, capture_output=True, text=True).stdout
    out = f"# properties: {props.replace(',', ' ')}\n# expect: {expect}\n# tests: {killed}\n" + d
    open(f"/verif/mutants/{name}.patch", "w").write(out)
    print(name, "->", killed)
finally:
    shutil.rmtree(tmp)
