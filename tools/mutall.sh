#!/bin/sh
# mutall.sh : run every mutant against every property its header lists; print a one-line verdict each (authoring aid).
(cd /verif/checker && env -u GOWORK GOFLAGS=-mod=mod GOPROXY=off GOSUMDB=off GOTOOLCHAIN=local go build -o ../bin/gonnxcheck .) || exit 2
cd /verif
for m in mutants/*.patch; do
  props=$(sed -n 's/^# properties: //p' "$m"); exp=$(sed -n 's/^# expect: //p' "$m")
  for p in $props; do
    out=$(tools/mutest.sh "$m" "$p" 2>&1)
    if [ "$exp" = "silent" ]; then
      if echo "$out" | grep -q "^OK"; then v=ok; else v="FALSE-ALARM"; fi
    else
      if echo "$out" | grep -E "^(violated|undischarged)" | grep -qF -- "$exp"; then v=ok; elif echo "$out" | grep -qE "^(violated|undischarged)"; then v="other-key"; elif echo "$out" | grep -q "does not apply\|FAILED"; then v="NO-APPLY"; else v="MISSED"; fi
    fi
    echo "$v  $(basename $m .patch)  $p  [$exp]"
  done
done
