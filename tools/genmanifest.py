#!/usr/bin/env python3
"""Regenerates /verif/MANIFEST.json from the table below (authoring aid; the file itself is committed)."""
import json, subprocess
BASE = json.load(open('/root/.vp/BASELINE.json'))
ENV = "env -u GOWORK GOFLAGS=-mod=mod GOPROXY=off GOSUMDB=off GOTOOLCHAIN=local"
CLAIMED = {
 "C02": dict(
   technique="static analysis: interprocedural origin/effect (ownership) analysis over go/ssa with a closed contract table for gorgonia",
   text="Every instruction of the library that writes storage (contract-declared mutators such as Reshape/SetAt/Zero/T and WithReuse/UseUnsafe options, element stores through Shape()/Data() slices, append/copy/sort, map updates, field stores) is enumerated, and an interprocedural origin analysis decides for each whether the written storage can originate from a caller tensor, a model weight, the protobuf or a package variable; package-level state must not be written outside initialisers. History can only travel through such state, so closing every write closes every history. Tests cannot see this because they never call Run twice or look at an input after the call.",
   note="Level 'other': sound modulo the contract table for gorgonia/protobuf/stdlib in checker/contracts.go (unknown externals that receive a non-owned reference make the check undecided, never pass). Context-insensitive, field-based. Not decided: bit-for-bit equality of results (needs gorgonia's determinism, assumed); outputs that alias inputs/weights are not mutations by Run.",
   ref="DESIGN.md §3.2 E2, §4 R1 R3, §5 C02"),
 "C17": dict(
   technique="static analysis: effect analysis restricted to shared roots (weights, protobuf, package variables) + absence of goroutines/locks/unsafe",
   text="Race freedom is decided as an effect property: two concurrent Runs share only the weight tensors, the protobuf and package variables; the origin/effect engine shows that no reachable instruction writes storage with one of those origins and that no package variable is written after initialisation, and the library contains no go statement, lock or unsafe import. Without a conflicting access pair in library code there is no data race, for every schedule - which no finite set of interleavings can establish.",
   note="Level 'other'. Trusted: gorgonia and protobuf-go internals (pools are sync.Pool; getters are reads), the contract table. Each Run's result being a function of its own inputs is C02.",
   ref="DESIGN.md §4 R1 R3, §5 C17"),
 "C15": dict(
   technique="static analysis: exhaustive table evaluation over the operator registry (go/types AST evaluation + go/ssa dominance checks)",
   text="Every registered operator (55) is enumerated from the type-checked program; its arity getters and dtype-constraint table are evaluated statically and checked for the relations the generic gate relies on (0<=min<=max, len(constraints)>=max, delegation, constant input indices < max, nil-guards on optional inputs), the generic gate's own stage order and counter semantics are checked on its SSA form, and the registry/constructor/getter are checked for completeness, freshness and the unsupported-operator miss path. The instance space is finite and walked completely, which is why a table rule is the right level: the property quantifies over 55 x arity x dtype combinations that tests only sample.",
   note="Necessary structural conditions, level 'other'. Trusted: go/types + go/ssa; gorgonia's Dtype(); R1 (no reassignment of package-level arity variables) is checked under C01/C02/C17. Not decided: nil at a required position.",
   ref="DESIGN.md §4 R6, R2; §5 C15"),
}
NOT_YET = "rule set designed (DESIGN §4) but not implemented yet"
ALL = ["C%02d" % i for i in range(1, 19)]
checks = []
for pid in ALL:
    if pid not in CLAIMED: continue
    c = CLAIMED[pid]
    checks.append({
        "property_id": pid,
        "quick_cmd": f"./check {pid} quick",
        "thorough_cmd": f"./check {pid} thorough",
        "evidence_file": f"/verif/evidence/{pid}.json",
        "replay_cmd_template": "bin/gonnxcheck -explain {path}",
        "engine": "gonnxcheck",
        "level_claimed": {"category": "other", "text": c["text"], "design_ref": c["ref"]},
        "level_note": c["note"],
        "technique": c["technique"],
    })
m = {
 "version": 1,
 "setup_cmd": f"cd /verif/checker && {ENV} go build -o /verif/bin/gonnxcheck .",
 "hooks": {"guard": "verif", "enable": "none needed: the checker reads /repo's source; no hook commits exist", "baseline_off_cmd": BASE["cmd"], "source_commits": [], "add_only": True},
 "engines": [{"name": "gonnxcheck", "path": "/verif/checker", "serves_properties": [c["property_id"] for c in checks],
              "kind_free_text": "repository-specific static analyser over go/types + go/ssa + call graph (golang.org/x/tools v0.29.0); never executes gonnx code"}],
 "checks": checks,
 "notes": "All claims are level 'other': static rule sets deciding necessary structural conditions of each property on /repo's current source. See DESIGN.md.",
 "not_applicable": [{"property_id": p, "reason": NOT_YET} for p in ALL if p not in CLAIMED],
}
json.dump(m, open('/verif/MANIFEST.json', 'w'), indent=1)
print("claimed:", [c["property_id"] for c in checks])
