#!/usr/bin/env python3
"""Regenerates /verif/MANIFEST.json from the table below (authoring aid; the file itself is committed)."""
import json, subprocess
BASE = json.load(open('/root/.vp/BASELINE.json'))
ENV = "env -u GOWORK GOFLAGS=-mod=mod GOPROXY=off GOSUMDB=off GOTOOLCHAIN=local"
CLAIMED = {
 "C03": dict(
   technique="static analysis: operator->kernel table evaluation (SSA terms), exhaustive truth-table evaluation of the boolean element closures, provenance of the driver's operands, guarded-Repeat / full-traversal / Shape.Eq rules on the broadcast helpers",
   text="Decides the wiring, not the arithmetic: each of the 12 operators calls the shared driver - on every path, and returns nothing else - with (inputs[0], inputs[1]) in order, its ONNX kernel (tensor.Add/Sub/Mul/Div/ElEq/Gt/Gte/Lt/Lte, or a boolean closure whose truth table is evaluated exhaustively) and the multidirectional mode; the driver broadcasts (A,B) in order and applies op(A',B') in order; the boolean loop reads A, B and writes the output at one iterator coordinate; required dtypes are admitted; the broadcast helpers stretch only extent-1 axes, visit every axis, and never decide shape equality with gorgonia's lax Shape.Eq.",
   note="Level 'other', narrow. Not decided: IEEE-754 / wrap-around values and element placement (gorgonia kernels and Repeat).",
   ref="DESIGN.md §4 R7 R6 R10 R22 R23; §5 C03"),
 "C04": dict(
   technique="static analysis: dependency-shape rules over SSA terms of every success return (which input/attribute reaches which term), guarded-Repeat rule for MatMul's batch broadcasting",
   text="Gemm's, Scaler's and LinearRegressor's success returns are rendered as terms over gorgonia calls, inputs and attribute fields and must be exactly alpha*(op(A) op(B)) [+ unidirectionally broadcast beta*C], (X - offset)*scale and X*coefficients + intercepts, with transposes conditional on their own flags and the coefficient layout (targets, n/targets)^T; any additional result path (a fast path that bypasses the unidirectional broadcast of C) is a violation. MatMul's batch broadcasting starts at axis len-3 and only stretches extent-1 axes. Operands, weights and receiver fields are never written by Apply (E2 with an audited contract table: e.g. gorgonia's Dot transposes its second operand in place for vector x matrix); defaults replace an optional input only where it is absent (R24).",
   note="Level 'other', narrow: a who-must-call rule on today's factoring (a behaviour-equal re-implementation is reported too; stated in DESIGN). Not decided: numeric accuracy, gorgonia's MatMul/Transpose, every rank combination of MatMul's vector promotion.",
   ref="DESIGN.md §4 R16 R10; §5 C04"),
 "C05": dict(
   technique="static analysis: abstract dimension-index kinds over every index expression of Conv (FULL/SPATIAL/PADS lists x index kinds), loop/coordinate pairing rules on the sliding-window nests, partition rule on auto_pad comparisons, ownership and attribute-state rules",
   text="Square fixtures cannot tell axes apart; the rules constrain which axis an expression may talk about: K1 classifies all ~60 index expressions in Conv's methods (a per-tensor-axis list may only be indexed by a constant, a non-spatial, a full-range or a spatial+2 index, ...); K2 pairs, per spatial axis k, the window start (step strides[k], bound = padded extent 2+k), the output index (start/strides[k], limited by output extent 2+k) and its SetAt position 2+k; K3 pairs batch and kernel indices; K4 requires every auto_pad mode to be told apart and unknown modes refused; K7 requires every derived padding to be provably non-negative (auto_pad with stride > kernel extent otherwise panics in padInput; found and repaired); K6 requires every reader of the kernel extents (auto_pad paddings, output shape) to be given the dilated kernel; bias and kernel are not modified (R3); Apply does not overwrite attributes (R21); the bias default only replaces an absent bias (R24).",
   note="Level 'other'. One known finding (auto_pad=VALID computed as SAME_UPPER, pinned by the suite). Not decided: the multiply-accumulate itself, zero insertion for dilation, padding by concatenation.",
   ref="DESIGN.md §4 R11 R24; §0a round 2; §5 C05"),
 "C06": dict(
   technique="static analysis: slot-provenance rules over SSA def-use (which block of the packed W/R/B/P tensors reaches which gate operand), role derivation from the callee's Gemm operands, term rules for state updates and output shapes, attribute honoured-or-refused rule",
   text="Gate-order and bias-slot swaps pass zero-bias fixtures; provenance sees them whatever the values: extractors return block k as result k (P1); every gate uses W[k], R[k] and the bias pair {B[k], B[k+n]} of one slot, each slot exactly once (P3); LSTM: C_t = f(.)C_{t-1} + i(.)c with f=slot 2, peepholes Pi,Po,Pf on slots 0,1,2, o reads C_t, activations f/g/h; GRU: H_t = (1-z)(.)h~ + z(.)H_{t-1}, reset gate and linear_before_reset forms (P4); state threading and fresh clones of the final state (P5); output shapes from X.Shape()[0], X.Shape()[1] (P6); per-step slice on axis 0 only (P7); attributes honoured or refused (R8), activations length checked (R9c); each optional input is defaulted only on its own nil edge, independently of the others (R24). 'Consistent under splitting' is reduced to: the step has no state besides the loop-carried tensors and the final state returned is what the next call receives as initial state.",
   note="Level 'other'. Not decided: the arithmetic of a step, float64, numeric agreement of whole vs split runs beyond the structural argument.",
   ref="DESIGN.md §4 R12 R8 R9 R24; §5 C06"),
 "C10": dict(
   technique="static analysis: operator->function table over SSA terms, dtype-case/generic-instantiation pairing, truth-table evaluation (Not), control-dependence rule for PRelu's kernel, mask-multiplication rule",
   text="Each of the 17 operators is tied to its function: 11 generic closures must be T(math.F(float64(x))) with the [float32] instance under case Float32 and [float64] under Float64; Abs/Tanh delegate to gorgonia; Sigmoid has the dependency shape 1/(1+exp(-x)); Relu is max(x,0) - never x*(x>0), which is NaN at -Inf (R18); Not's closure has truth table 10; PRelu broadcasts the slope unidirectionally on every path, feeds the kernel both broadcast results, and the kernel applies the slope only on the x<0 branch, reading both factors at the element's own index; Data() of possibly rank-0 operands passes the scalar wrapper.",
   note="Level 'other', narrow. Not decided: rounding error bounds, gorgonia's Tanh/Exp/Abs.",
   ref="DESIGN.md §4 R7 R18 R20; §5 C10"),
 "C11": dict(
   technique="static analysis: exhaustive enum<->Go-type table evaluation (AST + go/types) for Cast's 10 targets x 10 sources, alias-flow rule for direct conversion, Constant attribute table, ConstantOfShape gates",
   text="The 10x10 Cast pairs are a finite table read off the code: each numeric target code instantiates the element converter with its Go type, non-numeric and unknown targets return an error; each source dtype asserts its own []T; the converter is fed the input's own backing (not a widened copy, which loses 64-bit integers); out[i] = R(in[i]); the scalar wrapper covers every source type Cast admits. Constant: attribute name -> getter -> ONNX element type, refusals, exactly one attribute, list attributes given the explicit 1-D shape. ConstantOfShape: float32(0) default, one-element value, positive extents, result type from the value; Apply keeps no state in the operator (R21: no memoised result) and does not compare shapes with gorgonia's lax Shape.Eq (R22).",
   note="Level 'other', exhaustive over the tables. Value conversion semantics are Go's conversion (= C conversion) by the language spec. Not decided: out-of-range float->int conversions (implementation-defined in Go).",
   ref="DESIGN.md §4 R14; §5 C11"),
 "C16": dict(
   technique="static analysis: structural necessary conditions only (Conv batch-index pairing, recurrent time-slice on axis 0, output reshape provenance, guarded Repeat in per-sample operators, attribute state)",
   text="The statement is a numeric equivalence between batched and single evaluation, which this family cannot decide. Claimed are seven structural conditions whose violation provably breaks per-sample independence: the Conv window's sample index is the output's sample index; the recurrent per-step slice cuts axis 0 only; recurrent outputs are reshaped with batch = X.Shape()[1]; every Repeat in Conv/Gemm/MatMul/recurrent code stretches only extent-1 axes (a tiled peephole vector makes weights depend on batch position); Apply does not carry input-derived state between calls; Transpose.Apply is the single gorgonia Transpose on the requested permutation on every success path (no shape-dependent shortcut); the broadcast step of elementwise operators is not decided by gorgonia's lax Shape.Eq and visits every axis.",
   note="Level 'other', very narrow: NOT decided - the property itself (numeric equality of batched and single evaluation).",
   ref="DESIGN.md §5 C16"),
 "C07": dict(
   technique="static analysis: forward taint of user-supplied axes with dominance checks for two-sided range validation, negative normalisation and duplicate rejection; ownership analysis for clone-before-Reshape; scalar-unwrapping rule on Data() assertions",
   text="The refusal clauses of the property ('out-of-range / duplicate axes ... yield an error, never a tensor') are decided on the code shape: every use of a user-supplied axis (attribute or axes tensor) as Go index, slice bound or selection must be dominated - locally, at every call site, or on the err==nil edge of a validating callee - by a rejecting two-sided range check on that same value (not on some other value, which is how the Squeeze defect hid), must have passed the `x + rank` normalisation, and axis sets must be sorted and checked for duplicates. The 'same elements in the same order' clause is reduced to clone-before-Reshape (E2: no Reshape on borrowed storage) plus gorgonia's Reshape contract. Data() of a possibly rank-0 tensor must pass the scalar wrapper before a slice assertion; no shape decision in the five operators goes through gorgonia's lax Shape.Eq.",
   note="Level 'other': necessary conditions. Not decided: that gorgonia's Reshape keeps row-major order and rejects count mismatches (contract); processShape's -1 inference arithmetic. Shape of a rank-0 tensor yields a zero-size tensor that gorgonia builds but cannot read (behavioural, noted in DESIGN).",
   ref="DESIGN.md §4 R9 R3 R20; §5 C07"),
 "C08": dict(
   technique="static analysis: axes/index taint with validation+normalisation dominance (R9), guarded-Repeat rule (R10), rank-restoration rule for Slice (R19), ownership analysis (R3)",
   text="Decides the refusal and axis-plumbing clauses: user axes of Slice/Gather/Concat/Transpose and Gather's index data reach Go indexing only under a rejecting two-sided range check (or a validating gorgonia callee whose error is handled) and after negative normalisation `x + r` under x<0 where r is provably the rank/extent of a tensor (derived through parameters, closures and variable cells); Transpose.Apply is the single gorgonia Transpose on the requested permutation and Expand.Apply the shared multidirectional broadcast of (input, fresh tensor of the requested shape); Expand stretches only through Repeat calls dominated by extent==1 (today via the multidirectional broadcast helper); Slice must restore the axes gorgonia's Slice drops (known finding); operands are never modified.",
   note="Level 'other'. Not decided: the ONNX index formulas themselves (Gather's paired slices, clamping, negative steps), Transpose/Concat data movement (gorgonia). One known finding: Slice drops extent-1 axes.",
   ref="DESIGN.md §4 R9 R10 R19 R3; §5 C08"),
 "C09": dict(
   technique="static analysis: axis taint with per-callee axis contracts (which gorgonia reductions resolve negative axes, which validate which side), control-dependence rule for keepdims, result-type rule",
   text="Only the axis plumbing is decided (the softmax numerics are out of reach of this family): every requested axis reaches gorgonia or a Go index only after `+ rank` normalisation unless the callee resolves negatives itself (SoftMax/LogSoftMax do, Argmax/Max/Min treat -1 as 'all axes'); the reshape that re-inserts reduced axes is control-dependent on the keepdims attribute field; ArgMax's result is backed by []int64; a reduced rank-0 result passes the scalar wrapper; Softmax/LogSoftmax.Apply return the single gorgonia call on (input, normalised axis) on every success path; ReduceMax/ReduceMin pass one entry per requested axis to the reduction (R9d).",
   note="Level 'other', narrow. Not decided: softmax normalisation/finiteness, first-occurrence ties, NaN handling, 'all axes when none given' (ReduceMax/Min without axes is refused today - behavioural). Out-of-range axes are recorded as notes (the statement is silent on them).",
   ref="DESIGN.md §4 R9 R20; §5 C09"),
 "C14": dict(
   technique="static analysis: guarded-Repeat dominance rule, structural rules on the broadcast helpers (rank rule, first operand returned as is, ones prepended, lower-rank operand padded by the rank difference), ownership analysis for 'sources never modified'",
   text="Every tensor.Repeat in the helpers is dominated by extent(t, axis)==1 for the tensor being repeated (otherwise incompatible shapes are tiled instead of refused); the unidirectional rank step succeeds only when rank(A) >= rank(B) and the first operand is returned as is; AddExtraDimsToTensor prepends ones; the multidirectional rank step pads the lower-rank operand by the rank difference; no mutation site reachable from the exported helpers writes a borrowed tensor (E2).",
   note="Level 'other', narrow. Not decided: element placement of gorgonia's Repeat (the bounded-exhaustive element check of the property belongs to a dynamic family).",
   ref="DESIGN.md §4 R10 R20 R3; §5 C14"),
 "C01": dict(
   technique="static analysis: SSA provenance/dominance rules over the interpreter loop (Run, applyOp, gather, bind), registry freshness, taint rule on output names, global-state effect rule",
   text="The interpreter is the same code for every graph, so the property's program quantifier is discharged on the interpreter's own paths: a fresh operator is resolved per node from that node's op_type (M4) by a registry whose constructors return new values (R2); Init -> gather -> ValidateInputs -> Apply -> bind happen in that order with each stage consuming the previous stage's result and every error returned (M5); gather appends exactly one element per input name, nil for the empty name, an error for an unknown name (M6); results are bound by position under a rejecting length check (M7); caller inputs win over initializers (M3); every declared output is non-nil or Run fails (M8); operators never read output names (R4); no package state is written (R1). Tests run four fixed graphs once each and cannot vary graphs.",
   note="Level 'other': necessary conditions on the interpreter. Not decided: that each operator computes the right value (C03-C11), numeric equality with an independent evaluator. Rules recognise the present factoring by role; a re-architecture makes them undecided (exit 2), never pass.",
   ref="DESIGN.md §4 R5 R2 R4 R1; §5 C01"),
 "C12": dict(
   technique="static analysis: exhaustive decoder table evaluation (data_type -> decoder -> element type -> typed field -> byte widths) plus dominance check of the count/dims gate",
   text="The 11 supported element types x 2 encodings are a finite table read off the code: D1 each data_type case calls a decoder of exactly that Go element type; D2 each decoder reads the typed field ONNX prescribes (guarded by that same field being populated) else the raw reader of the same element type; D3 each raw reader's buffer length, compared length and decode width all equal sizeof(element); D4/D6 a short tail cannot be loaded as zeros because a rejecting gate compares the number of decoded elements with the product of the dims and bounds every dim from below before tensor construction; D5 only explicitly supported data_type cases reach tensor construction. With D1-D3 a well-formed payload is reinterpreted (bit exact); with D4-D6 a malformed one ends in an error.",
   note="Level 'other', exhaustive for D1-D3. Trusted: encoding/binary, bytes.Reader, gorgonia's tensor.New when its preconditions hold. One known finding (data_type UNDEFINED falls back on populated typed fields; pinned by TestConstantOfShape). Not decided: narrowing of out-of-range values in widened typed fields of ill-formed files.",
   ref="DESIGN.md §4 R13; §5 C12"),
 "C13": dict(
   technique="static analysis: CFG/dominance rules over the shape validator (loop exits, comparison operands, rejecting edges), must-be-first rule in Run, effect analysis of the validator, call-graph source agreement of introspection methods",
   text="The statement is structural: Run accepts exactly the declared signature. The validator's SSA form is checked for: iteration over the declared input shapes (V1); an iteration ends early only for an initializer name, a dimension is passed only when dynamic or equal (V2); missing input => error (V3); rank inequality => error before any extent is read (V4); declared[i].Size compared with received[i] at the same i for every i, mismatch => error, only for non-dynamic dims (V5); the validator is the first call of Run on Run's own inputs and everything else lies on its nil edge (M1); nothing reachable from it mutates a tensor (R3); IsDynamic <=> dim_value == 0 (V7); InputShapes/InputDimSize/validator all derive shapes from the graph's declared inputs (V8); the initializer map the validator consults to skip names is written only during model construction (R3w), and shape matching never goes through gorgonia's lax Shape.Eq (R22).",
   note="Level 'other'. The rules recognise the validator by role (first callee of Run receiving Run's parameter and returning error). Inputs declared without shape information are not checked by the library at all (outside the quantifier).",
   ref="DESIGN.md §4 R17 R5.M1 R3; §5 C13"),
 "C18": dict(
   technique="static analysis: enumeration and discharge of every potentially panicking instruction reachable from the Model constructors (call graph + dominance + structural bounds idioms + contracts), plus opset/operator refusal rules",
   text="After proto.Unmarshal the only code that sees untrusted data is the load path L (constructors, Params, TensorFromProto, typed getters, raw readers, narrowing helpers, checkDims). Every instruction in L that can panic - explicit panic, unchecked type assertion, integer division, make with a computed size, index/slice expressions, field reads through possibly-nil pointers, map stores, dynamic calls, tensor.New, binary.UintN, reflect.Value.Len - is enumerated and must be discharged by a dominating guard, a structural idiom (range index over a slice of the same length, constant index into a constant-size buffer) or a contract-gated precondition (tensor.New by the count/dims gate). The opset id is the running maximum over all imports, the resolver's miss returns ErrUnsupportedOpsetVersion, an unknown operator's error is returned by Run and no node is skipped, the getter's miss wraps ErrUnsupportedOperator.",
   note="Level 'other'. Trusted never to panic: proto.Unmarshal, os/io/zip readers, bytes.Reader, encoding/binary with a long-enough buffer, gorgonia's tensor.New when dims >= 1 and count == product. Generated getters are checked structurally (dereference only under x != nil).",
   ref="DESIGN.md §4 R15 R13 R5 R2; §5 C18"),
 "C02": dict(
   technique="static analysis: interprocedural origin/effect (ownership) analysis over go/ssa with a closed contract table for gorgonia",
   text="Every instruction of the library that writes storage (contract-declared mutators such as Reshape/SetAt/Zero/T and WithReuse/UseUnsafe options, element stores through Shape()/Data() slices, append/copy/sort, map updates, field stores) is enumerated, and an interprocedural origin analysis decides for each whether the written storage can originate from a caller tensor, a model weight, the protobuf or a package variable; package-level state must not be written outside initialisers. History can only travel through such state, so closing every write closes every history. Tests cannot see this because they never call Run twice or look at an input after the call.",
   note="Level 'other': sound modulo the contract table for gorgonia/protobuf/stdlib in checker/contracts.go (unknown externals that receive a non-owned reference make the check undecided, never pass). Context-insensitive, field-based. Not decided: bit-for-bit equality of results (needs gorgonia's determinism, assumed); outputs that alias inputs/weights are not mutations by Run.",
   ref="DESIGN.md §3.2 E2, §4 R1 R3, §5 C02"),
 "C17": dict(
   technique="static analysis: effect analysis restricted to shared roots (weights, protobuf, package variables) + absence of goroutines/locks/unsafe",
   text="Race freedom is decided as an effect property: two concurrent Runs share only the weight tensors, the protobuf and package variables; the origin/effect engine shows that no reachable instruction writes storage with one of those origins and that no package variable is written after initialisation, and the library contains no go statement, lock or unsafe import. Without a conflicting access pair in library code there is no data race, for every schedule - which no finite set of interleavings can establish.",
   note="Level 'other'. Trusted: gorgonia and protobuf-go internals (pools are sync.Pool; getters are reads), the contract table. Each Run's result being a function of its own inputs is C02.",
   ref="DESIGN.md §4 R1 R3, §5 C17"),
 "C15": dict(
   technique="static analysis: exhaustive table evaluation over the operator registry (go/types AST evaluation + go/ssa dominance checks)",
   text="Every registered operator (55) is enumerated from the type-checked program; its arity getters and dtype-constraint table are evaluated statically and checked for the relations the generic gate relies on (0<=min<=max, len(constraints)>=max, delegation, constant input indices < max, nil-guards on optional inputs), the generic gate's own stage order, counter semantics and full traversal of the dtype loop are checked on its SSA form, and the registry/constructor/getter are checked for completeness, freshness and the unsupported-operator miss path. The instance space is finite and walked completely, which is why a table rule is the right level: the property quantifies over 55 x arity x dtype combinations that tests only sample.",
   note="Necessary structural conditions, level 'other'. Trusted: go/types + go/ssa; gorgonia's Dtype(); R1 (no reassignment of package-level arity variables) is checked under C01/C02/C17. Not decided: nil at a required position.",
   ref="DESIGN.md §4 R6, R2; §5 C15"),
}
NOT_YET = "rule set designed (DESIGN §4) but not implemented yet"
ALL = ["C%02d" % i for i in range(1, 19)]
checks = []
for pid in ALL:
    if pid not in CLAIMED: continue
    c = CLAIMED[pid]
    checks.append({
        "property_id": pid,
        "quick_cmd": f"./check {pid} quick",
        "thorough_cmd": f"./check {pid} thorough",
        "evidence_file": f"/verif/evidence/{pid}.json",
        "replay_cmd_template": "bin/gonnxcheck -explain {path}",
        "engine": "gonnxcheck",
        "level_claimed": {"category": "other", "text": c["text"], "design_ref": c["ref"]},
        "level_note": c["note"],
        "technique": c["technique"],
    })
m = {
 "version": 1,
 "setup_cmd": f"cd /verif/checker && {ENV} go build -o /verif/bin/gonnxcheck .",
 "hooks": {"guard": "verif", "enable": "none needed: the checker reads /repo's source; no hook commits exist", "baseline_off_cmd": BASE["cmd"], "source_commits": [], "add_only": True},
 "engines": [{"name": "gonnxcheck", "path": "/verif/checker", "serves_properties": [c["property_id"] for c in checks],
              "kind_free_text": "repository-specific static analyser over go/types + go/ssa + call graph (golang.org/x/tools v0.29.0); never executes gonnx code"}],
 "checks": checks,
 "notes": "All claims are level 'other': static rule sets deciding necessary structural conditions of each property on /repo's current source. See DESIGN.md.",
 "not_applicable": [{"property_id": p, "reason": NOT_YET} for p in ALL if p not in CLAIMED],
}
json.dump(m, open('/verif/MANIFEST.json', 'w'), indent=1)
print("claimed:", [c["property_id"] for c in checks])
