#!/usr/bin/env python3
"""Regenerates /verif/MANIFEST.json from the table below (authoring aid; the file itself is committed)."""
import json, subprocess
BASE = json.load(open('/root/.vp/BASELINE.json'))
ENV = "env -u GOWORK GOFLAGS=-mod=mod GOPROXY=off GOSUMDB=off GOTOOLCHAIN=local"
CLAIMED = {
 "C15": dict(
   technique="static analysis: exhaustive table evaluation over the operator registry (go/types AST evaluation + go/ssa dominance checks)",
   text="Every registered operator (55) is enumerated from the type-checked program; its arity getters and dtype-constraint table are evaluated statically and checked for the relations the generic gate relies on (0<=min<=max, len(constraints)>=max, delegation, constant input indices < max, nil-guards on optional inputs), the generic gate's own stage order and counter semantics are checked on its SSA form, and the registry/constructor/getter are checked for completeness, freshness and the unsupported-operator miss path. The instance space is finite and walked completely, which is why a table rule is the right level: the property quantifies over 55 x arity x dtype combinations that tests only sample.",
   note="Necessary structural conditions, level 'other'. Trusted: go/types + go/ssa; gorgonia's Dtype(); R1 (no reassignment of package-level arity variables) is checked under C01/C02/C17. Not decided: nil at a required position.",
   ref="DESIGN.md §4 R6, R2; §5 C15"),
}
NOT_YET = "rule set designed (DESIGN §4) but not implemented yet"
ALL = ["C%02d" % i for i in range(1, 19)]
checks = []
for pid in ALL:
    if pid not in CLAIMED: continue
    c = CLAIMED[pid]
    checks.append({
        "property_id": pid,
        "quick_cmd": f"./check {pid} quick",
        "thorough_cmd": f"./check {pid} thorough",
        "evidence_file": f"/verif/evidence/{pid}.json",
        "replay_cmd_template": "bin/gonnxcheck -explain {path}",
        "engine": "gonnxcheck",
        "level_claimed": {"category": "other", "text": c["text"], "design_ref": c["ref"]},
        "level_note": c["note"],
        "technique": c["technique"],
    })
m = {
 "version": 1,
 "setup_cmd": f"cd /verif/checker && {ENV} go build -o /verif/bin/gonnxcheck .",
 "hooks": {"guard": "verif", "enable": "none needed: the checker reads /repo's source; no hook commits exist", "baseline_off_cmd": BASE["cmd"], "source_commits": [], "add_only": True},
 "engines": [{"name": "gonnxcheck", "path": "/verif/checker", "serves_properties": [c["property_id"] for c in checks],
              "kind_free_text": "repository-specific static analyser over go/types + go/ssa + call graph (golang.org/x/tools v0.29.0); never executes gonnx code"}],
 "checks": checks,
 "notes": "All claims are level 'other': static rule sets deciding necessary structural conditions of each property on /repo's current source. See DESIGN.md.",
 "not_applicable": [{"property_id": p, "reason": NOT_YET} for p in ALL if p not in CLAIMED],
}
json.dump(m, open('/verif/MANIFEST.json', 'w'), indent=1)
print("claimed:", [c["property_id"] for c in checks])
