#!/bin/sh
# authoring aid: run the repository's test suite (guard off) in DIR (default /repo) and compare with BASELINE.json's stable_pass list
DIR="${1:-/repo}"
export GOFLAGS=-mod=mod GOPROXY=off GOSUMDB=off GOTOOLCHAIN=local; unset GOWORK
cd "$DIR" && go test -json -vet=off -count=1 -timeout 25m ./... 2>/dev/null | python3 -c '
import json,sys
base=set(json.load(open("/root/.vp/BASELINE.json"))["stable_pass"])
ok=set()
for l in sys.stdin:
    try: e=json.loads(l)
    except: continue
    if e.get("Action")=="pass" and e.get("Test"): ok.add(e["Package"]+"::"+e["Test"])
missing=sorted(base-ok)
print("baseline tests passing: %d/%d"%(len(base&ok),len(base)))
for m in missing[:12]: print("  NOT PASSING:",m)
sys.exit(1 if missing else 0)
'
