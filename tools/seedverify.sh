#!/bin/sh
# seedverify.sh <name> <seed_out dir> : confirm a seeded change myself in a fresh scratch worktree:
#  builds, the 254 baseline tests still pass, the demo fails with the change and passes without it.
# Keeps it under /verif/seeded/<name>/ (patch.diff, demo, meta.json). Authoring aid, not a check.
set -u
NAME="$1"; SRC="$2"
export GOFLAGS=-mod=mod GOPROXY=off GOSUMDB=off GOTOOLCHAIN=local; unset GOWORK
W=$(mktemp -d /tmp/seedverify-XXXX)
git -C /repo worktree add --detach "$W/wt" HEAD >/dev/null 2>&1 || exit 1
trap 'git -C /repo worktree remove --force "$W/wt" >/dev/null 2>&1; rm -rf "$W"' EXIT
cd "$W/wt"
DEMO=$(python3 -c "import json;print(json.load(open('$SRC/meta.json'))['demo_path'])")
CMD=$(python3 -c "import json;print(json.load(open('$SRC/meta.json'))['demo_cmd'])")
DEMOFILE=$(ls "$SRC"/*_test.go | head -1)
cp "$DEMOFILE" "$DEMO"
echo "--- demo WITHOUT the change (must pass)"; sh -c "$CMD" 2>&1 | tail -3
git apply "$SRC/patch.diff" || { echo "PATCH DOES NOT APPLY"; exit 1; }
go build ./... || { echo "DOES NOT BUILD"; exit 1; }
echo "--- demo WITH the change (must fail)"; sh -c "$CMD" 2>&1 | tail -4
rm -f "$DEMO"
echo "--- baseline suite with the change"; /verif/tools/baseline.sh "$W/wt"
mkdir -p /verif/seeded/$NAME && cp "$SRC/patch.diff" "$SRC/meta.json" "$DEMOFILE" /verif/seeded/$NAME/
