#!/bin/sh
# seedcheck.sh <name> PROP... : apply /verif/seeded/<name>/patch.diff to /repo, run the registered quick checks, undo.
NAME="$1"; shift
cd /verif
git -C /repo apply /verif/seeded/$NAME/patch.diff || { echo "patch does not apply"; exit 1; }
for p in "$@"; do ./check $p quick | grep -E "^(violated|undischarged|OK|UNDECIDED|KNOWN)" | cut -c1-260; done
git -C /repo checkout -- .
git -C /repo status --short | head -3
