#!/bin/sh
# seedall.sh : replay every seeded change (seeded/*/patch.diff) on a scratch copy of /repo, in parallel, and compare
# with expect.json. Prints only the rows that are not as expected. Authoring aid (the thorough tier does the same).
(cd /verif/checker && env -u GOWORK GOFLAGS=-mod=mod GOPROXY=off GOSUMDB=off GOTOOLCHAIN=local go build -o ../bin/gonnxcheck .) || exit 2
cd /verif
for d in seeded/*/; do echo "${d%/}"; done | xargs -P 8 -I{} sh -c '
d={}; n=$(basename "$d")
props=$(python3 -c "import json;print(\" \".join(json.load(open(\"$d/expect.json\"))[\"properties\"]))")
exp=$(python3 -c "import json;print(json.load(open(\"$d/expect.json\"))[\"expect\"])")
T=$(mktemp -d)
rsync -a --exclude .git /repo/ "$T/repo/"
(cd "$T/repo" && git init -q . 2>/dev/null && git apply "/verif/$d/patch.diff") || { echo "NOAPPLY $n"; rm -rf "$T"; exit 0; }
mkdir -p "$T/v"; cp /verif/known_findings.json "$T/v/"
out=""
for p in $props; do
  out="$out
$(/verif/bin/gonnxcheck -repo "$T/repo" -property "$p" -tier quick -evidence "$T/ev.json" -verif "$T/v" | grep -E "^(violated|undischarged)")"
done
rm -rf "$T"
if [ "$exp" = silent ]; then
  echo "$out" | grep -qE "^(violated|undischarged)" && echo "NOISY $n" || echo "ok $n"
else
  echo "$out" | grep -qF "$exp" && echo "ok $n" || echo "MISS $n [$exp] :: $(echo "$out" | grep -E "^(violated|undisch)" | head -2 | cut -c1-140 | tr "\n" " ")"
fi
' | grep -v "^ok"
echo "seedall done"
