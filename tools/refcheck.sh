#!/bin/sh
# refcheck.sh DIFF [PROP...] : apply a (behaviour-preserving) patch to a scratch copy of /repo and run the checker
# for the given properties (default: all 18, one load). Every reported line is a false alarm candidate. Authoring aid.
P=$(realpath "$1"); shift
PROPS="$@"
T=$(mktemp -d)
trap 'rm -rf "$T"' EXIT
rsync -a --exclude .git /repo/ "$T/repo/"
(cd "$T/repo" && git init -q . 2>/dev/null && git apply "$P") || { echo "PATCH DOES NOT APPLY: $P"; exit 1; }
mkdir -p "$T/v"; cp /verif/known_findings.json "$T/v/"
if [ -z "$PROPS" ]; then
  ${GONNXCHECK:-/verif/bin/gonnxcheck} -repo "$T/repo" -property all -tier quick -verif "$T/v" | cut -c1-300
else
  for prop in $PROPS; do
    ${GONNXCHECK:-/verif/bin/gonnxcheck} -repo "$T/repo" -property "$prop" -tier quick -evidence "$T/ev.json" -verif "$T/v" | grep -E "^(violated|undischarged|UNDECIDED)" | sed "s/^/$prop /" | cut -c1-300
  done
fi
