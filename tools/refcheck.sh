#!/bin/sh
# refcheck.sh DIFF [PROP...] : apply a (behaviour-preserving) patch to a scratch copy of /repo and run the checker
# for the given properties (default: all 18). Every reported line is a false alarm candidate. Authoring aid.
P=$(realpath "$1"); shift
PROPS="$@"
[ -z "$PROPS" ] && PROPS="C01 C02 C03 C04 C05 C06 C07 C08 C09 C10 C11 C12 C13 C14 C15 C16 C17 C18"
T=$(mktemp -d)
trap 'rm -rf "$T"' EXIT
rsync -a --exclude .git /repo/ "$T/repo/"
(cd "$T/repo" && git init -q . 2>/dev/null && git apply "$P") || { echo "PATCH DOES NOT APPLY: $P"; exit 1; }
mkdir -p "$T/v"; cp /verif/known_findings.json "$T/v/"
for prop in $PROPS; do
  /verif/bin/gonnxcheck -repo "$T/repo" -property "$prop" -tier quick -evidence "$T/ev.json" -verif "$T/v" | grep -E "^(violated|undischarged|UNDECIDED)" | sed "s/^/$prop /" | cut -c1-300
done
