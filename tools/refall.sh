#!/bin/sh
# refall.sh [GLOB] : run refcheck.sh on every behaviour-preserving refactoring under /verif/refactors (8 at a time) and
# print, per patch, "silent" or the distinct rule keys that fire (false alarms). Authoring aid.
cd /verif/refactors
G=${1:-*/r*.diff}
ls $G | xargs -P 8 -I{} sh -c 'o=$(/verif/tools/refcheck.sh /verif/refactors/{} 2>&1); n=$(echo {} | tr "/" "-"); if [ -z "$o" ]; then echo "{} silent"; else echo "$o" | sed "s/ site=.*//" | sort -u | sed "s|^|{} ALARM |"; fi' | sort
