#!/bin/sh
# mutest.sh PATCH PROP... : apply a patch to a scratch copy of /repo and run the checker on it (authoring aid).
(cd /verif/checker && env -u GOWORK GOFLAGS=-mod=mod GOPROXY=off GOSUMDB=off GOTOOLCHAIN=local go build -o ../bin/gonnxcheck .) || exit 2
set -e
P=$(realpath "$1"); shift
T=$(mktemp -d)
trap 'rm -rf "$T"' EXIT
rsync -a --exclude .git /repo/ "$T/repo/"
(cd "$T/repo" && patch -p1 -s --no-backup-if-mismatch -i "$P")
mkdir -p "$T/v"; cp /verif/known_findings.json "$T/v/" 2>/dev/null || true
for prop in "$@"; do
  /verif/bin/gonnxcheck -repo "$T/repo" -property "$prop" -tier quick -evidence "$T/ev.json" -verif "$T/v" | grep -E "^(violated|undischarged|OK|UNDECIDED|KNOWN)" || true
done
