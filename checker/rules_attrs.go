package main

import (
	"fmt"
	"go/ast"
	"go/constant"
	"go/token"
	"go/types"
	"sort"
	"strings"

	"golang.org/x/tools/go/ssa"
)

// R8 — every attribute an operator's Init handles is honoured (assigned to a field that is read
// somewhere) or refused (error); unhandled names reach an error.

type attrCase struct {
	name    string
	body    []ast.Stmt
	pos     token.Pos
	refused bool
	fields  []string // receiver fields assigned in the case body
}

// initAttrCases enumerates `case "<name>":` clauses of the attribute-name switch in Init (AST).
func (c *Ctx) initAttrCases(oi *opInfo) (cases []attrCase, hasDefaultErr bool, positional bool) {
	init := oi.methods["Init"]
	fd := c.astFuncDecl(init)
	if fd == nil {
		return nil, false, false
	}
	info := c.typesInfo(fnPkgPath(init))
	recvName := ""
	if fd.Recv != nil && len(fd.Recv.List) == 1 && len(fd.Recv.List[0].Names) == 1 {
		recvName = fd.Recv.List[0].Names[0].Name
	}
	assigned := func(stmts []ast.Stmt) []string {
		var out []string
		for _, s := range stmts {
			ast.Inspect(s, func(n ast.Node) bool {
				if as, ok := n.(*ast.AssignStmt); ok {
					for _, l := range as.Lhs {
						if sel, ok := l.(*ast.SelectorExpr); ok {
							if id, ok := sel.X.(*ast.Ident); ok && id.Name == recvName {
								out = append(out, sel.Sel.Name)
							}
						}
					}
				}
				return true
			})
		}
		return out
	}
	ast.Inspect(fd.Body, func(n ast.Node) bool {
		switch x := n.(type) {
		case *ast.SwitchStmt:
			if x.Tag == nil {
				return true
			}
			if call, ok := x.Tag.(*ast.CallExpr); !ok || !strings.HasSuffix(types.ExprString(call.Fun), "GetName") {
				return true
			}
			for _, st := range x.Body.List {
				cc := st.(*ast.CaseClause)
				if cc.List == nil {
					hasDefaultErr = bodyReturnsErr(cc.Body)
					continue
				}
				for _, e := range cc.List {
					tv := info.Types[e]
					if tv.Value == nil || tv.Value.Kind() != constant.String {
						continue
					}
					ac := attrCase{name: constant.StringVal(tv.Value), body: cc.Body, pos: cc.Pos()}
					ac.fields = assigned(cc.Body)
					// refused: the body consists of an unconditional error return
					if len(cc.Body) > 0 {
						if r, ok := cc.Body[0].(*ast.ReturnStmt); ok {
							if id, isId := r.Results[len(r.Results)-1].(*ast.Ident); !(isId && id.Name == "nil") {
								ac.refused = true
							}
						}
					}
					cases = append(cases, ac)
				}
			}
			return false
		case *ast.IfStmt:
			// if attr.GetName() == "x" { ... } else { return err }
			if be, ok := x.Cond.(*ast.BinaryExpr); ok && (be.Op == token.EQL || be.Op == token.NEQ) {
				var lit ast.Expr
				if strings.HasSuffix(types.ExprString(be.X), "GetName()") {
					lit = be.Y
				} else if strings.HasSuffix(types.ExprString(be.Y), "GetName()") {
					lit = be.X
				}
				if lit != nil {
					if tv := info.Types[lit]; tv.Value != nil && tv.Value.Kind() == constant.String {
						name := constant.StringVal(tv.Value)
						if be.Op == token.EQL {
							cases = append(cases, attrCase{name: name, body: x.Body.List, pos: x.Pos(), fields: assigned(x.Body.List)})
							if blk, ok := x.Else.(*ast.BlockStmt); ok && bodyReturnsErr(blk.List) {
								hasDefaultErr = true
							}
						} else {
							// != "x" => error; the rest of the function handles "x"
							if bodyReturnsErr(x.Body.List) {
								hasDefaultErr = true
							}
							var rest []ast.Stmt
							ast.Inspect(fd.Body, func(m ast.Node) bool {
								if as, ok := m.(*ast.AssignStmt); ok {
									rest = append(rest, as)
								}
								return true
							})
							cases = append(cases, attrCase{name: name, body: rest, pos: x.Pos(), fields: assigned(rest)})
						}
					}
				}
			}
		}
		return true
	})
	if len(cases) == 0 {
		// positional attribute reads: attributes[0].GetI()
		ast.Inspect(fd.Body, func(n ast.Node) bool {
			if ie, ok := n.(*ast.IndexExpr); ok && strings.Contains(types.ExprString(ie.X), "ttribute") {
				positional = true
			}
			return true
		})
	}
	return
}

// fieldReads: is field `name` of the operator's struct loaded anywhere in the library outside plain stores?
func (c *Ctx) fieldIsRead(named *types.Named, name string) bool {
	idx := fieldIndex(named, name)
	if idx < 0 {
		return false
	}
	for _, f := range c.libFns {
		for _, b := range f.Blocks {
			for _, in := range b.Instrs {
				fa, ok := in.(*ssa.FieldAddr)
				if !ok || fa.Field != idx {
					continue
				}
				if n, _ := structOfPtr(fa.X.Type()); n != named {
					continue
				}
				for _, r := range *fa.Referrers() {
					if ld, ok := r.(*ssa.UnOp); ok && ld.Op == token.MUL {
						// a load that is only used to be stored back does not count; any other use does
						if len(*ld.Referrers()) > 0 {
							return true
						}
					}
				}
			}
		}
	}
	return false
}

func ruleR8(c *Ctx, prop string) {
	scope := map[string][]string{
		"C04": {"Gemm", "LinearRegressor", "Scaler", "MatMul"},
		"C05": {"Conv"},
		"C06": {"RNN", "GRU", "LSTM"},
		"C09": {"ArgMax", "ReduceMax", "ReduceMin", "Softmax", "LogSoftmax"},
		"C11": {"Cast", "Constant", "ConstantOfShape"},
	}
	// exemptions: parameterised-activation coefficients have no meaning while only parameterless activations exist
	exempt := map[string]string{
		"activation_alpha": "only meaningful for parameterised activations; ops.activations has none",
		"activation_beta":  "only meaningful for parameterised activations; ops.activations has none",
	}
	n := 0
	for _, name := range scope[prop] {
		oi := c.opByName(name)
		if oi == nil {
			continue
		}
		cases, hasDefault, positional := c.initAttrCases(oi)
		site := c.pos(oi.methods["Init"].Pos())
		if len(cases) == 0 {
			if positional {
				c.note("R8", "R8:"+name+":positional", site, "attributes are read by position without looking at their names")
			}
			continue
		}
		sort.Slice(cases, func(i, j int) bool { return cases[i].name < cases[j].name })
		for _, ac := range cases {
			n++
			key := fmt.Sprintf("R8:%s:%s", name, ac.name)
			switch {
			case ac.refused:
				c.discharge("R8", key, c.pos(ac.pos), "refused with an error")
			case len(ac.fields) == 0:
				c.violate("R8", key, c.pos(ac.pos), "attribute is accepted but nothing is done with it")
			default:
				read := false
				for _, f := range ac.fields {
					if c.fieldIsRead(oi.named, f) {
						read = true
					}
				}
				if read {
					c.discharge("R8", key, c.pos(ac.pos), "stored in "+strings.Join(ac.fields, ",")+" which the operator reads")
				} else if why, ok := exempt[ac.name]; ok && c.activationsParameterless() {
					c.note("R8", key, c.pos(ac.pos), "stored but never read — exempt: "+why)
				} else {
					c.violate("R8", key, c.pos(ac.pos), "attribute "+ac.name+" is parsed into field "+strings.Join(ac.fields, ",")+" that nothing ever reads: it is silently ignored instead of being honoured or refused")
				}
			}
		}
		c.decide(hasDefault, "R8", "R8:"+name+":unknown-refused", site, "attribute names the operator does not know are refused", "unknown attribute names are silently accepted")
	}
	c.counts["R8.attribute_cases"] += n
}

// activationsParameterless: the activation table only holds tanh/sigmoid/relu-like unary functions.
func (c *Ctx) activationsParameterless() bool {
	if c.activationsParameterlessAST() {
		return true
	}
	// however the table is stored: ops.GetActivation, walked for the names of ONNX's parameterised activations in
	// their usual spellings, refuses every one of them
	var get *ssa.Function
	for _, f := range c.libFns {
		if fnPkgPath(f) == pkgOps && f.Parent() == nil && f.Signature.Recv() == nil && f.Name() == "GetActivation" {
			get = f
		}
	}
	st := c.libInit()
	if get == nil || len(get.Params) != 1 || len(st.failed) > 0 {
		return false
	}
	for _, base := range []string{"Affine", "LeakyRelu", "ThresholdedRelu", "ScaledTanh", "HardSigmoid", "Elu"} {
		for _, name := range []string{base, strings.ToLower(base), strings.ToUpper(base)} {
			p := &pinterp{c: c, budget: 50000, objects: true, globals: st.globals}
			res, _ := p.run(get, []pval{{k: pStr, s: name}}, 0, st.heap.clone())
			if p.aborted || len(res) != 2 || !nonNilKind(res[1].k) {
				return false
			}
		}
	}
	return true
}

func (c *Ctx) activationsParameterlessAST() bool {
	p := c.pkgByPath[pkgOps]
	for _, f := range p.Syntax {
		for _, d := range f.Decls {
			gd, ok := d.(*ast.GenDecl)
			if !ok || gd.Tok != token.VAR {
				continue
			}
			for _, s := range gd.Specs {
				vs := s.(*ast.ValueSpec)
				for i, nm := range vs.Names {
					if nm.Name != "activations" || i >= len(vs.Values) {
						continue
					}
					cl, ok := vs.Values[i].(*ast.CompositeLit)
					if !ok {
						return false
					}
					for _, e := range cl.Elts {
						kv := e.(*ast.KeyValueExpr)
						k := strings.Trim(types.ExprString(kv.Key), `"`)
						switch strings.ToLower(k) {
						case "tanh", "sigmoid", "relu":
						default:
							return false
						}
					}
					return true
				}
			}
		}
	}
	return false
}

// ruleR9c: constant indices into attribute-derived lists (activations[k]) need a dominating length guard.
func ruleR9Activations(c *Ctx, prop string) {
	n := 0
	for _, name := range []string{"RNN", "GRU", "LSTM"} {
		oi := c.opByName(name)
		if oi == nil {
			continue
		}
		apply := oi.methods["Apply"]
		recv := ssa.Value(apply.Params[0])
		bad := ""
		badSite := ""
		for _, b := range apply.Blocks {
			for _, in := range b.Instrs {
				ia, ok := in.(*ssa.IndexAddr)
				if !ok {
					continue
				}
				k, isK := constInt(ia.Index)
				if !isK {
					continue
				}
				ld, ok := ia.X.(*ssa.UnOp)
				if !ok {
					continue
				}
				fa, ok := ld.X.(*ssa.FieldAddr)
				if !ok || fa.X != recv {
					continue
				}
				_, st := structOfPtr(fa.X.Type())
				if st.Field(fa.Field).Name() != "activations" {
					continue
				}
				n++
				// guard: len(recv.activations) >(=) k — in Apply (dominating) or established by Init for every accepted node
				guarded := false
				for _, g := range guardsOf(b) {
					for _, a := range atomsOf(g) {
						if lc, ok := a.x.(*ssa.Call); ok {
							if bi, ok := lc.Common().Value.(*ssa.Builtin); ok && bi.Name() == "len" {
								if l2, ok := lc.Common().Args[0].(*ssa.UnOp); ok {
									if f2, ok := l2.X.(*ssa.FieldAddr); ok && f2.X == recv && f2.Field == fa.Field {
										if kk, ok := constInt(a.y); ok && ((a.op == token.GTR && kk >= k) || (a.op == token.GEQ && kk > k) || (a.op == token.EQL && kk > k)) && c.edgeRejectsAt(g) {
											guarded = true
										}
									}
								}
							}
						}
					}
				}
				if !guarded && !c.initGuardsActivationsLen(oi, k+1) {
					bad = fmt.Sprintf("activations[%d] is read without a check that the activations attribute has more than %d entries: a shorter list panics instead of being refused", k, k)
					badSite = c.pos(ia.Pos())
				}
			}
		}
		c.decide(bad == "", "R9", "R9c:"+name+":activations-length", firstNonEmpty(badSite, c.pos(apply.Pos())), "every activations[k] read is covered by a rejecting length check", bad)
	}
	c.counts["R9.activation_reads"] = n
}

// initGuardsActivationsLen: Init rejects an activations attribute with fewer than `need` entries.
func (c *Ctx) initGuardsActivationsLen(oi *opInfo, need int64) bool {
	init := oi.methods["Init"]
	for _, b := range init.Blocks {
		if len(b.Instrs) == 0 {
			continue
		}
		iff, ok := b.Instrs[len(b.Instrs)-1].(*ssa.If)
		if !ok {
			continue
		}
		bo, ok := iff.Cond.(*ssa.BinOp)
		if !ok {
			continue
		}
		lc, ok := bo.X.(*ssa.Call)
		if !ok {
			continue
		}
		bi, ok := lc.Common().Value.(*ssa.Builtin)
		if !ok || bi.Name() != "len" {
			continue
		}
		k, ok := constInt(bo.Y)
		if !ok {
			continue
		}
		// len(x) != need / < need  => error
		t := c.term(lc.Common().Args[0], 0)
		if !strings.Contains(t, "ctivations") && !strings.Contains(t, "GetStrings") {
			// the local list that is stored into the field
			stored := false
			for _, r := range *lc.Common().Args[0].Referrers() {
				if st, ok := r.(*ssa.Store); ok {
					if fa, ok := st.Addr.(*ssa.FieldAddr); ok {
						_, s2 := structOfPtr(fa.X.Type())
						if s2.Field(fa.Field).Name() == "activations" {
							stored = true
						}
					}
				}
			}
			if !stored {
				continue
			}
		}
		switch {
		case bo.Op == token.NEQ && k >= need && c.edgeRejects(iff, true):
			return true
		case bo.Op == token.LSS && k >= need && c.edgeRejects(iff, true):
			return true
		case bo.Op == token.EQL && k >= need && c.edgeRejects(iff, false):
			return true
		}
	}
	return false
}

// ---------------------------------------------------------------------------------------------
// R27 — attributes are read with the getter of their ONNX type and default to the ONNX default
// ---------------------------------------------------------------------------------------------

type attrSpec struct {
	field  string // receiver field the attribute ends up in
	getter string // AttributeProto getter of the attribute's ONNX type
	dflt   string // ONNX default as Go constant text ("" = no default / not checked); lists as "[a b]"
}

// onnxAttrSpec: opset-13 attribute types and defaults of the operators with attributes (ONNX Operators.md).
var onnxAttrSpec = map[string][]attrSpec{
	"Gemm":            {{"alpha", "GetF", "1"}, {"beta", "GetF", "1"}, {"transA", "GetI", "false"}, {"transB", "GetI", "false"}},
	"Flatten":         {{"axis", "GetI", "1"}},
	"ArgMax":          {{"axis", "GetI", "0"}, {"keepDims", "GetI", "true"}, {"selectLastIndex", "GetI", "false"}},
	"Softmax":         {{"axis", "GetI", "-1"}},
	"LogSoftmax":      {{"axis", "GetI", "-1"}},
	"Concat":          {{"axis", "GetI", ""}},
	"Gather":          {{"axis", "GetI", "0"}},
	"ReduceMax":       {{"axes", "GetInts", "[]"}, {"keepDims", "GetI", "true"}},
	"ReduceMin":       {{"axes", "GetInts", "[]"}, {"keepDims", "GetI", "true"}},
	"Conv":            {{"autoPad", "GetS", `"NOTSET"`}, {"dilations", "GetInts", ""}, {"kernelShape", "GetInts", ""}, {"pads", "GetInts", ""}, {"strides", "GetInts", ""}, {"group", "GetI", ""}},
	"GRU":             {{"linearBeforeReset", "GetI", "false"}, {"hiddenSize", "GetI", ""}, {"activations", "GetStrings", `["sigmoid" "tanh"]`}},
	"LSTM":            {{"inputForget", "GetI", "false"}, {"hiddenSize", "GetI", ""}, {"activations", "GetStrings", `["sigmoid" "tanh" "tanh"]`}},
	"RNN":             {{"hiddenSize", "GetI", ""}, {"activations", "GetStrings", `["tanh"]`}},
	"Cast":            {{"to", "GetI", ""}},
	"Transpose":       {{"perm", "GetInts", ""}},
	"LinearRegressor": {{"targets", "GetI", "1"}, {"coefficients", "GetFloats", ""}, {"intercepts", "GetFloats", ""}},
	"Scaler":          {{"offset", "GetFloats", ""}, {"scale", "GetFloats", ""}},
}

var attrGetters = []string{"GetI", "GetF", "GetS", "GetT", "GetInts", "GetFloats", "GetStrings", "GetG", "GetTensors"}

func ruleAttrSpec(c *Ctx, prop string) {
	scope := map[string][]string{
		"C04": {"Gemm", "LinearRegressor", "Scaler"},
		"C05": {"Conv"},
		"C06": {"RNN", "GRU", "LSTM"},
		"C07": {"Flatten"},
		"C08": {"Concat", "Gather", "Transpose"},
		"C09": {"ArgMax", "ReduceMax", "ReduceMin", "Softmax", "LogSoftmax"},
		"C11": {"Cast"},
		"C16": {"Gemm", "Conv", "GRU", "LSTM", "RNN", "Softmax"},
	}
	n := 0
	for _, name := range scope[prop] {
		oi := c.opByName(name)
		if oi == nil {
			continue
		}
		init := oi.methods["Init"]
		fd := c.astFuncDecl(init)
		if fd == nil {
			continue
		}
		_ = c.typesInfo(fnPkgPath(init))
		recvName := ""
		if fd.Recv != nil && len(fd.Recv.List) == 1 && len(fd.Recv.List[0].Names) == 1 {
			recvName = fd.Recv.List[0].Names[0].Name
		}
		// assignments recv.field = rhs in Init (and in helpers of the same receiver that Init calls, one level)
		type asg struct {
			rhs ast.Expr
			pos token.Pos
		}
		byField := map[string][]asg{}
		collect := func(body *ast.BlockStmt, rn string) {
			ast.Inspect(body, func(nd ast.Node) bool {
				as, ok := nd.(*ast.AssignStmt)
				if !ok {
					return true
				}
				for i, l := range as.Lhs {
					sel, ok := l.(*ast.SelectorExpr)
					if !ok {
						continue
					}
					if id, ok := sel.X.(*ast.Ident); ok && id.Name == rn {
						rhs := as.Rhs[0]
						if len(as.Rhs) == len(as.Lhs) {
							rhs = as.Rhs[i]
						}
						byField[sel.Sel.Name] = append(byField[sel.Sel.Name], asg{rhs, as.Pos()})
					}
				}
				return true
			})
		}
		collect(fd.Body, recvName)
		// constructor literal
		ctorVals := map[string]string{}
		ctorSeen := false
		if ctor := c.constructorOf(oi); ctor != nil {
			if cfd := c.astFuncDecl(ctor); cfd != nil {
				cinfo := c.typesInfo(fnPkgPath(ctor))
				ast.Inspect(cfd.Body, func(nd ast.Node) bool {
					cl, ok := nd.(*ast.CompositeLit)
					if !ok {
						return true
					}
					if tv, ok := cinfo.Types[cl]; !ok || !types.Identical(tv.Type, oi.named) {
						return true
					}
					ctorSeen = true
					for _, el := range cl.Elts {
						kv, ok := el.(*ast.KeyValueExpr)
						if !ok {
							continue
						}
						k, ok := kv.Key.(*ast.Ident)
						if !ok {
							continue
						}
						ctorVals[k.Name] = constText(cinfo, kv.Value)
					}
					return false
				})
			}
		}
		for _, sp := range onnxAttrSpec[name] {
			key := fmt.Sprintf("R27:attr:%s.%s", name, sp.field)
			as := byField[sp.field]
			if len(as) == 0 {
				c.note("R27", key, c.pos(init.Pos()), "field "+sp.field+" is not assigned in Init: rule not applicable to this factoring")
				continue
			}
			n++
			bad, site := "", c.pos(as[0].pos)
			for _, a := range as {
				txt := types.ExprString(a.rhs)
				var used []string
				for _, g := range attrGetters {
					if strings.Contains(txt, "."+g+"()") {
						used = append(used, g)
					}
				}
				if len(used) == 0 {
					continue // derived from another local (e.g. a converted list): judged where that local is read
				}
				if len(used) != 1 || used[0] != sp.getter {
					bad = fmt.Sprintf("attribute field %s is filled with %s(), the attribute's ONNX type is read with %s(): the other getter returns the zero value, i.e. the attribute is silently ignored", sp.field, strings.Join(used, ","), sp.getter)
					site = c.pos(a.pos)
				}
			}
			if bad == "" && sp.dflt != "" && ctorSeen {
				got, ok := ctorVals[sp.field]
				if !ok {
					got = zeroText(oi.named, sp.field)
				}
				if got != sp.dflt {
					bad = fmt.Sprintf("the constructor gives %s the default %s; ONNX's default for the absent attribute is %s", sp.field, got, sp.dflt)
					if ctor := c.constructorOf(oi); ctor != nil {
						site = c.pos(ctor.Pos())
					}
				}
			}
			c.decide(bad == "", "R27", key, site, fmt.Sprintf("read with %s(); default %s", sp.getter, firstNonEmpty(sp.dflt, "(none)")), bad)
		}
	}
	c.counts["R27.attribute_fields"] += n
}

// constText renders a constructor value: constants by value, string/int lists element-wise.
func constText(info *types.Info, e ast.Expr) string {
	if tv, ok := info.Types[e]; ok && tv.Value != nil {
		switch tv.Value.Kind() {
		case constant.Float:
			f, _ := constant.Float64Val(tv.Value)
			return fmt.Sprint(f)
		}
		return tv.Value.ExactString()
	}
	if id, ok := e.(*ast.Ident); ok && (id.Name == "true" || id.Name == "false") {
		return id.Name
	}
	if cl, ok := e.(*ast.CompositeLit); ok {
		var parts []string
		for _, el := range cl.Elts {
			parts = append(parts, constText(info, el))
		}
		return "[" + strings.Join(parts, " ") + "]"
	}
	return types.ExprString(e)
}

func zeroText(named *types.Named, field string) string {
	st, ok := named.Underlying().(*types.Struct)
	if !ok {
		return "?"
	}
	for i := 0; i < st.NumFields(); i++ {
		if st.Field(i).Name() != field {
			continue
		}
		switch t := st.Field(i).Type().Underlying().(type) {
		case *types.Basic:
			switch {
			case t.Info()&types.IsBoolean != 0:
				return "false"
			case t.Info()&types.IsString != 0:
				return `""`
			default:
				return "0"
			}
		case *types.Slice:
			return "[]"
		}
	}
	return "?"
}

// constructorOf: the registry constructor (func() ops.Operator) returning this operator type.
func (c *Ctx) constructorOf(oi *opInfo) *ssa.Function {
	for _, f := range c.libFns {
		if f.Parent() != nil || f.Signature.Recv() != nil || f.Signature.Params().Len() != 0 || f.Signature.Results().Len() != 1 || fnPkgPath(f) != fnPkgPath(oi.methods["Init"]) {
			continue
		}
		for _, r := range returnsOf(f) {
			v := r.Results[0]
			if mi, ok := v.(*ssa.MakeInterface); ok {
				v = mi.X
			}
			if n, _ := structOfPtr(v.Type()); n == oi.named {
				return f
			}
		}
	}
	return nil
}

// ---- R33: optional tensor-valued attributes are nil-tested before use ---------------------------------
//
// An attribute that ONNX declares optional and that the operator keeps as a tensor (an interface value that
// Init only sets inside the attribute's own case) is nil when the node does not carry it. Every use of such a
// field outside Init — as an argument, a receiver, an operand — must be dominated by the non-nil edge of a
// test of that same field, or the constructor must give it a value. Otherwise the operator panics with a nil
// dereference instead of computing the formula without the optional term (or refusing).
var optionalTensorAttrs = map[string][]string{
	"LinearRegressor": {"intercepts"}, // ONNX-ML: intercepts optional, coefficients required
}

func ruleOptionalAttrTensors(c *Ctx, prop string) {
	n := 0
	for _, op := range sortedKeys(optionalTensorAttrs) {
		oi := c.opByName(op)
		if oi == nil {
			c.undecided("R33", "R33:"+op, "", "operator type not found")
			continue
		}
		for _, field := range optionalTensorAttrs[op] {
			key := fmt.Sprintf("R33:optional-attr:%s.%s", op, field)
			fi := fieldIndex(oi.named, field)
			if fi < 0 {
				c.undecided("R33", key, c.pos(oi.named.Obj().Pos()), "attribute field no longer exists: the table of optional tensor attributes must be re-confirmed")
				continue
			}
			n++
			isFieldLoad := func(v ssa.Value) bool {
				ld, ok := v.(*ssa.UnOp)
				if !ok || ld.Op != token.MUL {
					return false
				}
				fa, ok := ld.X.(*ssa.FieldAddr)
				if !ok || fa.Field != fi {
					return false
				}
				nn, _ := structOfPtr(fa.X.Type())
				return nn != nil && nn.Obj() == oi.named.Obj()
			}
			// constructor default
			if ctor := c.constructorOf(oi); ctor != nil {
				set := false
				for _, b := range ctor.Blocks {
					for _, in := range b.Instrs {
						if st, ok := in.(*ssa.Store); ok {
							if fa, ok := st.Addr.(*ssa.FieldAddr); ok && fa.Field == fi && !isNilConst(st.Val) {
								if nn, _ := structOfPtr(fa.X.Type()); nn != nil && nn.Obj() == oi.named.Obj() {
									set = true
								}
							}
						}
					}
				}
				if set {
					c.discharge("R33", key, c.pos(ctor.Pos()), "the constructor gives the optional attribute a value")
					continue
				}
			}
			nonNilAt := func(b *ssa.BasicBlock) bool {
				for _, g := range guardsOf(b) {
					for _, a := range atomsOf(g) {
						if a.op == token.NEQ && ((isFieldLoad(a.x) && isNilConst(a.y)) || (isFieldLoad(a.y) && isNilConst(a.x))) {
							return true
						}
					}
				}
				return false
			}
			bad, uses, tests := "", 0, 0
			for _, m := range c.libFns {
				if m == oi.methods["Init"] || m == c.constructorOf(oi) {
					continue
				}
				for _, b := range m.Blocks {
					for _, in := range b.Instrs {
						v, ok := in.(ssa.Value)
						if !ok || !isFieldLoad(v) {
							continue
						}
						for _, r := range *v.Referrers() {
							// only calls dereference the value (as receiver or in a callee); comparisons, returns,
							// phis and conversions merely pass it on
							if _, isCall := r.(ssa.CallInstruction); !isCall {
								if _, isCmp := r.(*ssa.BinOp); isCmp {
									tests++
								}
								continue
							}
							uses++
							if !nonNilAt(r.Block()) && bad == "" {
								bad = c.pos(r.Pos())
								if r.Pos() == token.NoPos {
									bad = c.pos(v.Pos())
								}
							}
						}
					}
				}
			}
			switch {
			case bad != "":
				c.violate("R33", key, bad, fmt.Sprintf("the optional attribute %s is used here without a dominating `%s != nil` test: for a node without the attribute the field is a nil tensor and the operator panics (nil dereference) instead of computing the formula without the term", field, field))
			case uses == 0 && tests == 0:
				c.undecided("R33", key, c.pos(oi.named.Obj().Pos()), "no use of the field found outside Init")
			default:
				c.discharge("R33", key, c.pos(oi.named.Obj().Pos()), fmt.Sprintf("%d dereferencing uses outside Init, each on the non-nil edge of a test of the field (%d nil tests)", uses, tests))
			}
		}
	}
	c.counts["R33.optional_tensor_attributes"] += n
}
