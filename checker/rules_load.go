package main

import (
	"fmt"
	"go/token"
	"go/types"
	"sort"
	"strings"

	"golang.org/x/tools/go/ssa"
)

// R15 — the load path is panic-free (C18).

func (c *Ctx) loadPath(mi *modelInfo) []*ssa.Function {
	var roots []*ssa.Function
	roots = append(roots, mi.ctors...)
	for _, f := range c.libFns {
		// the bytes -> protobuf step
		if fnPkgPath(f) == modPath && f.Parent() == nil && f.Signature.Recv() == nil && f.Signature.Results().Len() == 2 {
			if pt, ok := f.Signature.Results().At(0).Type().(*types.Pointer); ok {
				if n, ok := pt.Elem().(*types.Named); ok && n.Obj().Name() == "ModelProto" {
					roots = append(roots, f)
				}
			}
		}
	}
	reach := c.reachFrom(roots)
	var out []*ssa.Function
	for f := range reach {
		if strings.HasSuffix(c.fileOf(f.Pos()), ".pb.go") {
			root := f
			for root.Parent() != nil {
				root = root.Parent()
			}
			if !strings.HasPrefix(root.Name(), "Get") {
				continue
			}
		}
		out = append(out, f)
	}
	sort.Slice(out, func(i, j int) bool { return fname(out[i]) < fname(out[j]) })
	return out
}

// externals that are trusted not to panic on any argument the load path can give them
var loadTrusted = map[string]bool{
	"google.golang.org/protobuf/proto.Unmarshal": true,
	"os.ReadFile": true, "io.ReadAll": true, "archive/zip.(File).Open": true,
	"bytes.NewReader": true, "bytes.(Reader).Read": true,
	"math.Float32frombits": true, "math.Float64frombits": true,
	"fmt.Errorf": true, "fmt.Sprintf": true, "errors.New": true,
	"reflect.ValueOf":        true,
	pkgTensor + ".WithShape": true, pkgTensor + ".WithBacking": true,
}

func ruleR15(c *Ctx, prop string) {
	mi := c.findModel()
	if mi == nil || len(mi.ctors) == 0 {
		c.violate("R15", "R15:anchor", "", "no Model constructors found")
		return
	}
	L := c.loadPath(mi)
	c.counts["R15.load_functions"] = len(L)
	// the raw readers' tables (payload lengths 0..2w+1 walked without a panic) stand in for the buffer-length
	// obligations inside the functions they walked in full
	for _, g := range c.libFns {
		if t, ok := c.rawReaderRole(g); ok && t.goT != types.Bool && g.Signature.Results().Len() == 2 {
			c.rawReaderTable(g, t)
		}
	}
	if len(L) < 30 {
		c.undecided("R15", "R15:floor:functions", "", fmt.Sprintf("only %d load-reachable functions (floor 30)", len(L)))
	}
	inL := map[*ssa.Function]bool{}
	for _, f := range L {
		inL[f] = true
	}
	di := c.decodeInfo()
	gateOK := false
	if di != nil && di.newCall != nil {
		gateOK, _ = c.checkD6(di)
	}
	nSites := 0
	perFn := map[string]int{}
	key := func(f *ssa.Function, kind string) string {
		k := fname(f) + ":" + kind
		perFn[k]++
		return fmt.Sprintf("R15:%s:%s#%d", fname(f), kind, perFn[k])
	}
	for _, f := range L {
		// the body of a generic function is only ever run through its instances, which are in the list too
		generic := false
		for g := f; g != nil; g = g.Parent() {
			if g.TypeParams().Len() > 0 && len(g.TypeArgs()) == 0 {
				generic = true
			}
		}
		if generic {
			continue
		}
		if strings.HasSuffix(c.fileOf(f.Pos()), ".pb.go") {
			// generated getters: `if x != nil { return x.F }` — structural check
			ok := c.pbGetterSafe(f)
			c.decide(ok, "R15", "R15:getter:"+fname(f), c.pos(f.Pos()), "generated getter dereferences its receiver only under x != nil", "generated getter dereferences a possibly nil receiver")
			continue
		}
		for _, b := range f.Blocks {
			for _, in := range b.Instrs {
				switch x := in.(type) {
				case *ssa.Panic:
					nSites++
					c.violate("R15", key(f, "panic"), c.pos(x.Pos()), "explicit panic reachable while loading a model")
				case *ssa.TypeAssert:
					if !x.CommaOk {
						nSites++
						c.violate("R15", key(f, "assert"), c.pos(x.Pos()), "type assertion without comma-ok reachable while loading a model")
					}
				case *ssa.BinOp:
					if (x.Op == token.QUO || x.Op == token.REM) && isIntType(x.X.Type()) {
						nSites++
						if k, ok := constInt(x.Y); ok && k != 0 {
							c.discharge("R15", key(f, "div"), c.pos(x.Pos()), "constant non-zero divisor")
						} else {
							c.violate("R15", key(f, "div"), c.pos(x.Pos()), "integer division by a value that file contents can make zero")
						}
					}
				case *ssa.MakeSlice:
					nSites++
					ok, why := c.makeSizeSafe(x)
					c.decide(ok, "R15", key(f, "make"), c.pos(x.Pos()), why, "make with a size derived from file contents (negative or huge sizes panic): "+why)
				case *ssa.IndexAddr:
					nSites++
					ok, why := c.indexSafe(x.X, x.Index, b)
					c.decide(ok, "R15", key(f, "index"), c.pos(x.Pos()), why, "index not provably in range on the load path: "+why)
				case *ssa.Index:
					nSites++
					ok, why := c.indexSafe(x.X, x.Index, b)
					c.decide(ok, "R15", key(f, "index"), c.pos(x.Pos()), why, "index not provably in range on the load path: "+why)
				case *ssa.Slice:
					if x.Low == nil && x.High == nil && x.Max == nil {
						continue
					}
					nSites++
					ok, why := c.sliceSafe(x)
					c.decide(ok, "R15", key(f, "slice"), c.pos(x.Pos()), why, "slice bounds not provably valid on the load path: "+why)
				case *ssa.FieldAddr:
					nSites++
					ok, why := c.nonNilPtr(x.X, b, f, inL, 0)
					c.decide(ok, "R15", key(f, "deref"), c.pos(x.Pos()), why, "field read through a pointer that may be nil for some byte string: "+why)
				case *ssa.MapUpdate:
					nSites++
					_, isMk := x.Map.(*ssa.MakeMap)
					c.decide(isMk, "R15", key(f, "mapupdate"), c.pos(x.Pos()), "map made in this function", "assignment to a map that may be nil")
				case *ssa.Call:
					cc := x.Common()
					if _, isB := cc.Value.(*ssa.Builtin); isB {
						continue
					}
					sc := cc.StaticCallee()
					if sc == nil {
						if cc.IsInvoke() {
							// interface method on a value that may be nil?
							nSites++
							q := qualName(cc.Method)
							if cc.Method.Name() == "Error" || strings.HasPrefix(q, "io.") {
								c.discharge("R15", key(f, "invoke"), c.pos(x.Pos()), "invoke on a non-nil stdlib value")
							} else {
								c.violate("R15", key(f, "invoke"), c.pos(x.Pos()), "dynamic call on the load path ("+q+")")
							}
						} else {
							nSites++
							// a function value of the library's own (a decoder picked from a table, a callback handed to a
							// helper): fine when it cannot be nil and every function it may stand for is library code, which
							// this rule walks as well
							okDyn, whyDyn := c.dynCallSafe(x, b)
							c.decide(okDyn, "R15", key(f, "dyncall"), c.pos(x.Pos()), "the function value is never nil and stands for library functions only (walked by this rule)", "call through a function value on the load path: "+whyDyn)
						}
						continue
					}
					if isLibFn(sc) {
						continue
					}
					q := qualNameOfFn(sc)
					nSites++
					switch {
					case q == pkgTensor+".New":
						c.decide(gateOK, "R15", key(f, "tensor.New"), c.pos(x.Pos()),
							"tensor.New's preconditions (every dim >= 1, product of dims == number of values, backing non-nil slice) are established by the rejecting count/dims gate (R13:D6)",
							"tensor.New panics unless every dim >= 1 and the product of the dims equals the number of values; no rejecting gate establishes that for file-controlled dims and payload")
					case strings.HasPrefix(q, "encoding/binary.(littleEndian).Uint"):
						need := map[string]int64{"Uint16": 2, "Uint32": 4, "Uint64": 8}[sc.Name()]
						buf := cc.Args[len(cc.Args)-1]
						have := sliceConstLen(buf)
						if sl, ok := buf.(*ssa.Slice); ok && have < 0 && sl.High == nil {
							have = c.lowSlack(sl.X, sl.Low, b)
						}
						c.decide(have >= need, "R15", key(f, "binary."+sc.Name()), c.pos(x.Pos()),
							fmt.Sprintf("buffer of %d bytes >= %d", have, need), fmt.Sprintf("binary.%s needs %d bytes but only %d are proven to be there (-1 = nothing is known about the buffer length): index out of range panic for some payload lengths", sc.Name(), need, have))
					case q == "reflect.(Value).Len":
						// Len panics unless the value is array/chan/map/slice/string: operand must be reflect.ValueOf(slice-typed value)
						ok := false
						if len(cc.Args) > 0 {
							if vo, isC := cc.Args[0].(*ssa.Call); isC && vo.Common().StaticCallee() != nil && qualNameOfFn(vo.Common().StaticCallee()) == "reflect.ValueOf" {
								ok = c.alwaysSliceIface(vo.Common().Args[0], 0)
							}
						}
						c.decide(ok, "R15", key(f, "reflect.Len"), c.pos(x.Pos()), "operand of reflect.Value.Len is built from a slice-typed value on every path", "reflect.Value.Len on a value that may not be a slice (panics)")
					case loadTrusted[q]:
						c.discharge("R15", key(f, "ext:"+sc.Name()), c.pos(x.Pos()), q+" is trusted not to panic (contract)")
					default:
						c.undecided("R15", key(f, "ext:"+sc.Name()), c.pos(x.Pos()), "external "+q+" on the load path has no panic contract")
					}
				}
			}
		}
	}
	c.counts["R15.sites"] = nSites
	if nSites < 25 {
		c.undecided("R15", "R15:floor:sites", "", fmt.Sprintf("only %d potentially panicking sites found (floor 25)", nSites))
	}
}

func isIntType(t types.Type) bool {
	b, ok := t.Underlying().(*types.Basic)
	return ok && b.Info()&types.IsInteger != 0
}

func (c *Ctx) pbGetterSafe(f *ssa.Function) bool {
	for _, b := range f.Blocks {
		for _, in := range b.Instrs {
			if fa, ok := in.(*ssa.FieldAddr); ok {
				if !knownNonNil(fa.X, b) {
					return false
				}
			}
		}
	}
	return true
}

// alwaysSliceIface: the interface value is, on every path, a MakeInterface of a slice-typed value.
func (c *Ctx) alwaysSliceIface(v ssa.Value, depth int) bool {
	if depth > 5 {
		return false
	}
	switch x := v.(type) {
	case *ssa.MakeInterface:
		_, ok := x.X.Type().Underlying().(*types.Slice)
		return ok
	case *ssa.Phi:
		for _, e := range x.Edges {
			if !c.alwaysSliceIface(e, depth+1) {
				return false
			}
		}
		return len(x.Edges) > 0
	case *ssa.ChangeInterface:
		return c.alwaysSliceIface(x.X, depth+1)
	case *ssa.Extract:
		// result k of a library helper: every return hands out a slice there, or nil together with an error
		call, ok := x.Tuple.(*ssa.Call)
		if !ok {
			return false
		}
		var callees []*ssa.Function
		if f := call.Common().StaticCallee(); f != nil {
			callees = []*ssa.Function{f}
		} else if node := c.cg.Nodes[call.Parent()]; node != nil && !call.Common().IsInvoke() {
			// a function value: every function the call graph resolves it to
			for _, e := range node.Out {
				if e.Site == ssa.CallInstruction(call) {
					callees = append(callees, e.Callee.Func)
				}
			}
		}
		if len(callees) == 0 {
			return false
		}
		for _, f := range callees {
			if f == nil || !isLibFn(f) || f.Blocks == nil || x.Index >= f.Signature.Results().Len() {
				return false
			}
			ei := errResultIndex(f.Signature)
			n := 0
			for _, r := range returnsOf(f) {
				n++
				if c.alwaysSliceIface(r.Results[x.Index], depth+1) {
					continue
				}
				if isNilConst(r.Results[x.Index]) && ei >= 0 && c.definitelyNonNilErr(r.Results[ei], r.Block(), 0) {
					continue
				}
				return false
			}
			if n == 0 {
				return false
			}
		}
		return true
	}
	return false
}

func (c *Ctx) makeSizeSafe(m *ssa.MakeSlice) (bool, string) {
	ok := func(v ssa.Value) bool {
		if k, isK := constInt(v); isK && k >= 0 {
			return true
		}
		if call, isC := v.(*ssa.Call); isC {
			if b, isB := call.Common().Value.(*ssa.Builtin); isB && (b.Name() == "len" || b.Name() == "cap") {
				return true
			}
		}
		return false
	}
	if (ok(m.Len) || nonNegExpr(m.Len, 0)) && (ok(m.Cap) || nonNegExpr(m.Cap, 0)) {
		return true, "size is a non-negative expression over constants and len() of existing slices"
	}
	return false, "size " + m.Len.String()
}

// lenEquiv: slices a and b have the same length by construction.
func lenEquiv(a, b ssa.Value) bool {
	if a == b {
		return true
	}
	strip := func(v ssa.Value) ssa.Value {
		for {
			switch x := v.(type) {
			case *ssa.ChangeType:
				v = x.X
			case *ssa.Slice:
				if x.Low == nil && x.High == nil {
					v = x.X
				} else {
					return v
				}
			default:
				return v
			}
		}
	}
	a, b = strip(a), strip(b)
	if a == b {
		return true
	}
	// the first result of a library function that answers, whenever it succeeds, with make(T, len(p)) filled in
	// place: as long as the argument handed in for p
	for _, pr := range [][2]ssa.Value{{a, b}, {b, a}} {
		if ex, ok := pr[0].(*ssa.Extract); ok && ex.Index == 0 {
			if call, ok := ex.Tuple.(*ssa.Call); ok {
				if k := sameLengthAsParam(call.Common().StaticCallee()); k >= 0 && k < len(call.Common().Args) && lenEquivDepth < 2 {
					lenEquivDepth++
					eq := lenEquiv(call.Common().Args[k], pr[1])
					lenEquivDepth--
					if eq {
						return true
					}
				}
			}
		}
	}
	// a list grown by exactly one append per iteration of a range loop over the other slice, looked at after the
	// loop ran to completion
	if lenEquivSite != nil {
		for _, pr := range [][2]ssa.Value{{a, b}, {b, a}} {
			if appendedOncePerElement(pr[0], pr[1], lenEquivSite) {
				return true
			}
		}
	}
	if mk, ok := a.(*ssa.MakeSlice); ok && isLenCallOfEquiv(mk.Len, b) {
		return true
	}
	if mk, ok := b.(*ssa.MakeSlice); ok && isLenCallOfEquiv(mk.Len, a) {
		return true
	}
	// two calls of the same pure getter on the same receiver
	ca, ok1 := a.(*ssa.Call)
	cb, ok2 := b.(*ssa.Call)
	if ok1 && ok2 && ca.Common().StaticCallee() != nil && ca.Common().StaticCallee() == cb.Common().StaticCallee() &&
		strings.HasPrefix(ca.Common().StaticCallee().Name(), "Get") && len(ca.Common().Args) == 1 && ca.Common().Args[0] == cb.Common().Args[0] {
		return true
	}
	return false
}

func isLenCallOfEquiv(v, of ssa.Value) bool {
	call, ok := v.(*ssa.Call)
	if !ok {
		return false
	}
	b, ok := call.Common().Value.(*ssa.Builtin)
	if !ok || b.Name() != "len" {
		return false
	}
	x := call.Common().Args[0]
	if x == of {
		return true
	}
	ca, ok1 := x.(*ssa.Call)
	cb, ok2 := of.(*ssa.Call)
	if ok1 && ok2 && ca.Common().StaticCallee() != nil && ca.Common().StaticCallee() == cb.Common().StaticCallee() &&
		strings.HasPrefix(ca.Common().StaticCallee().Name(), "Get") && len(ca.Common().Args) == 1 && ca.Common().Args[0] == cb.Common().Args[0] {
		return true
	}
	return false
}

// indexSafe discharges x[idx] by structural idioms.
func (c *Ctx) indexSafe(x, idx ssa.Value, b *ssa.BasicBlock) (bool, string) {
	lenEquivSite = b
	defer func() { lenEquivSite = nil }()
	// pointer to array: constant index within the array length
	if pt, ok := x.Type().Underlying().(*types.Pointer); ok {
		if arr, ok := pt.Elem().Underlying().(*types.Array); ok {
			if k, ok := constInt(idx); ok && k >= 0 && k < arr.Len() {
				return true, "constant index into a fixed-size array"
			}
		}
	}
	if k, ok := constInt(idx); ok {
		if n := sliceConstLen(x); n > k && k >= 0 {
			return true, "constant index into a buffer of constant length"
		}
		// len guard
		for _, g := range guardsOf(b) {
			for _, a := range atomsOf(g) {
				if lc, ok := a.x.(*ssa.Call); ok && isLenCallOf(lc, x) {
					if kk, ok := constInt(a.y); ok && ((a.op == token.GTR && kk >= k) || (a.op == token.GEQ && kk > k)) {
						return true, "dominated by a length test"
					}
				}
			}
		}
		return false, fmt.Sprintf("constant index %d without a length test", k)
	}
	// range loop over a slice of the same length
	hdr := loopHeaderOfIndex(idx)
	if hdr != nil {
		if iff, ok := hdr.Instrs[len(hdr.Instrs)-1].(*ssa.If); ok {
			if bo, ok := iff.Cond.(*ssa.BinOp); ok && bo.Op == token.LSS && bo.X == idx || ok && bo.Op == token.LSS && isPhiOf(idx, bo.X) {
				if lc, ok := bo.Y.(*ssa.Call); ok {
					if bi, ok := lc.Common().Value.(*ssa.Builtin); ok && bi.Name() == "len" {
						if lenEquiv(lc.Common().Args[0], x) && startsNonNegative(idx) && hdr.Dominates(b) && hdr != b {
							return true, "loop index bounded by len of a slice of the same length"
						}
					}
				}
			}
		}
	}
	// count-down loop: i = phi(len(y) - 1, i - 1) under i >= 0 (or i > -1), y of the same length as x
	if phi, ok := idx.(*ssa.Phi); ok && len(phi.Edges) == 2 {
		var start, step ssa.Value
		for _, e := range phi.Edges {
			if bo, ok := e.(*ssa.BinOp); ok && bo.Op == token.SUB && bo.X == ssa.Value(phi) {
				step = e
			} else {
				start = e
			}
		}
		okStep := false
		if bo, ok := step.(*ssa.BinOp); ok {
			if k, ok := constInt(bo.Y); ok && k == 1 {
				okStep = true
			}
		}
		okStart := false
		if bo, ok := start.(*ssa.BinOp); ok && bo.Op == token.SUB {
			if k, isK := constInt(bo.Y); isK && k >= 1 {
				if lc, ok := bo.X.(*ssa.Call); ok {
					if bi, ok := lc.Common().Value.(*ssa.Builtin); ok && bi.Name() == "len" && lenEquiv(lc.Common().Args[0], x) {
						okStart = true
					}
				}
			}
		}
		okLower := false
		for _, g := range guardsOf(b) {
			for _, a := range atomsOf(g) {
				if a.x != ssa.Value(phi) {
					continue
				}
				if k, ok := constInt(a.y); ok && ((a.op == token.GEQ && k >= 0) || (a.op == token.GTR && k >= -1)) {
					okLower = true
				}
			}
		}
		if okStep && okStart && okLower {
			return true, "count-down loop index from len-1 of a slice of the same length, guarded by >= 0"
		}
	}
	return false, "index " + idx.Name() + " is not a recognised bounded loop index"
}

func isPhiOf(idx, v ssa.Value) bool { return idx == v }

func startsNonNegative(idx ssa.Value) bool {
	if b, ok := idx.(*ssa.BinOp); ok && b.Op == token.ADD {
		if p, ok := b.X.(*ssa.Phi); ok {
			for _, e := range p.Edges {
				if k, ok := constInt(e); ok && k >= -1 {
					return true
				}
			}
		}
	}
	if p, ok := idx.(*ssa.Phi); ok {
		for _, e := range p.Edges {
			if k, ok := constInt(e); ok && k >= 0 {
				return true
			}
		}
	}
	return false
}

func (c *Ctx) sliceSafe(s *ssa.Slice) (bool, string) {
	// new [K]T + slice[:K] (constant make) and s[:] forms
	if al, ok := s.X.(*ssa.Alloc); ok {
		if arr, ok := al.Type().(*types.Pointer).Elem().Underlying().(*types.Array); ok {
			lo, hi := int64(0), arr.Len()
			okc := true
			if s.Low != nil {
				if k, ok := constInt(s.Low); ok {
					lo = k
				} else {
					okc = false
				}
			}
			if s.High != nil {
				if k, ok := constInt(s.High); ok {
					hi = k
				} else {
					okc = false
				}
			}
			if okc && 0 <= lo && lo <= hi && hi <= arr.Len() {
				return true, "constant bounds within a fixed-size array"
			}
		}
	}
	if s.High == nil && s.Max == nil && s.Low != nil {
		if c.lowSlack(s.X, s.Low, s.Block()) >= 0 && (nonNegExpr(s.Low, 0) || startsNonNegative(s.Low)) {
			return true, "low bound proven <= len by a dominating comparison / element-stride idiom"
		}
	}
	return false, "non-constant slice bounds"
}

// nonNilPtr: can pointer v be nil at block b (function f)?
func (c *Ctx) nonNilPtr(v ssa.Value, b *ssa.BasicBlock, f *ssa.Function, inL map[*ssa.Function]bool, depth int) (bool, string) {
	if depth > 4 {
		return false, "too deep"
	}
	if knownNonNil(v, b) {
		return true, "dominated by a != nil test"
	}
	switch x := v.(type) {
	case *ssa.Alloc:
		return true, "address of a local / new value"
	case *ssa.Global:
		return true, "address of a package variable"
	case *ssa.IndexAddr, *ssa.FieldAddr:
		return true, "address computed from a checked base"
	case *ssa.UnOp:
		// element of a repeated protobuf message field: never nil after proto.Unmarshal (contract)
		if ia, ok := x.X.(*ssa.IndexAddr); ok {
			if isRepeatedMsgSource(ia.X) {
				return true, "element of a repeated protobuf field (proto.Unmarshal never leaves nil elements)"
			}
		}
		return false, "loaded pointer " + x.Name()
	case *ssa.Parameter:
		// receiver or parameter: every caller on the load path must pass a non-nil value
		idx := -1
		for i, p := range f.Params {
			if p == x {
				idx = i
			}
		}
		n := c.cg.Nodes[f]
		if n == nil || idx < 0 {
			return false, "parameter without callers"
		}
		found := 0
		for _, e := range n.In {
			cf := e.Caller.Func
			if !inL[cf] || e.Site == nil {
				continue
			}
			args := e.Site.Common().Args
			if e.Site.Common().IsInvoke() {
				continue
			}
			if idx >= len(args) {
				continue
			}
			found++
			ok, why := c.nonNilPtr(args[idx], e.Site.Block(), cf, inL, depth+1)
			if !ok {
				return false, "caller " + fname(cf) + " may pass nil (" + why + ")"
			}
		}
		if found == 0 {
			// an entry point of the load path (exported constructor): the caller's own argument
			if f.Object() != nil && f.Object().Exported() {
				return true, "argument of an exported entry point (a nil model is the caller's error, not a byte string)"
			}
			return false, "no load-path caller"
		}
		return true, "every load-path caller passes a non-nil value"
	case *ssa.Extract:
		// result of a library call whose non-nil-error-free returns are all non-nil, used under err == nil
		call, ok := x.Tuple.(*ssa.Call)
		if !ok {
			return false, "tuple component"
		}
		cal := call.Common().StaticCallee()
		if cal == nil || !isLibFn(cal) {
			return false, "result of " + callName(call)
		}
		ev := errOfCall(call)
		errNil := false
		for _, g := range guardsOf(b) {
			for _, a := range atomsOf(g) {
				if a.op == token.EQL && a.x == ev && isNilConst(a.y) {
					errNil = true
				}
			}
		}
		if !errNil {
			return false, "result of " + callName(call) + " used without its error being nil"
		}
		eidx := errResultIndex(cal.Signature)
		for _, r := range returnsOf(cal) {
			if eidx >= 0 && !isNilConst(r.Results[eidx]) {
				continue
			}
			if ok, why := c.nonNilPtr(r.Results[x.Index], r.Block(), cal, inL, depth+1); !ok {
				return false, why
			}
		}
		return true, "non-nil on every success return of " + fname(cal)
	}
	return false, fmt.Sprintf("%T", v)
}

func isRepeatedMsgSource(v ssa.Value) bool {
	// slice of pointers to generated messages, obtained from a getter or a field
	s, ok := v.Type().Underlying().(*types.Slice)
	if !ok {
		return false
	}
	pt, ok := s.Elem().(*types.Pointer)
	if !ok {
		return false
	}
	n, ok := pt.Elem().(*types.Named)
	return ok && n.Obj().Pkg() != nil && n.Obj().Pkg().Path() == pkgOnnx
}

// nonNegExpr: v is built from len()/cap() calls and non-negative constants with +, *, and division /
// remainder by positive constants — it cannot be negative (overflow aside: operands are slice lengths).
func nonNegExpr(v ssa.Value, depth int) bool {
	if depth > 6 {
		return false
	}
	if k, ok := constInt(v); ok {
		return k >= 0
	}
	if startsNonNegative(v) {
		return true
	}
	switch x := v.(type) {
	case *ssa.Call:
		if b, ok := x.Common().Value.(*ssa.Builtin); ok && (b.Name() == "len" || b.Name() == "cap") {
			return true
		}
	case *ssa.BinOp:
		switch x.Op {
		case token.ADD, token.MUL:
			return nonNegExpr(x.X, depth+1) && nonNegExpr(x.Y, depth+1)
		case token.QUO, token.REM:
			k, ok := constInt(x.Y)
			return ok && k > 0 && nonNegExpr(x.X, depth+1)
		}
	case *ssa.Convert:
		return nonNegExpr(x.X, depth+1)
	}
	return false
}

// lowSlack returns a proven lower bound of len(x) - low for the slice expression x[low:] evaluated in
// block b, or -1 when nothing is known. Recognised: dominating comparisons of low(+k) with len(x);
// low = i*K with i ranging over a slice made with len(x)/K3 elements, K <= K3.
func (c *Ctx) lowSlack(x, low ssa.Value, b *ssa.BasicBlock) int64 {
	best := int64(-1)
	up := func(n int64) {
		if n > best {
			best = n
		}
	}
	if low == nil {
		return 0
	}
	if k, ok := constInt(low); ok {
		if n := sliceConstLen(x); n >= 0 && k >= 0 && k <= n {
			up(n - k)
		}
	}
	for _, g := range guardsOf(b) {
		for _, a := range atomsOf(g) {
			if !isLenCallOf(a.y, x) {
				continue
			}
			lhs, add := a.x, int64(0)
			if bo, ok := lhs.(*ssa.BinOp); ok && bo.Op == token.ADD {
				if k, ok := constInt(bo.Y); ok && bo.X == low {
					lhs, add = bo.X, k
				} else if k, ok := constInt(bo.X); ok && bo.Y == low {
					lhs, add = bo.Y, k
				}
			}
			if lhs != low {
				continue
			}
			switch a.op {
			case token.LSS:
				up(add + 1)
			case token.LEQ:
				up(add)
			}
		}
	}
	if m, ok := low.(*ssa.BinOp); ok && m.Op == token.MUL {
		idx, kv := m.X, m.Y
		if _, isK := constInt(idx); isK {
			idx, kv = m.Y, m.X
		}
		if K, ok := constInt(kv); ok && K > 0 {
			// idx ranges over some slice `vals` (range loop) made with len(x)/K3 elements
			if hdr := loopHeaderOfIndex(idx); hdr != nil && hdr.Dominates(b) {
				if iff, ok := hdr.Instrs[len(hdr.Instrs)-1].(*ssa.If); ok {
					if bo, ok := iff.Cond.(*ssa.BinOp); ok && bo.Op == token.LSS && bo.X == idx {
						var n ssa.Value = bo.Y
						if lc, ok := n.(*ssa.Call); ok {
							if bi, ok := lc.Common().Value.(*ssa.Builtin); ok && bi.Name() == "len" {
								if mk, ok := lc.Common().Args[0].(*ssa.MakeSlice); ok {
									n = mk.Len
								}
							}
						}
						if q, ok := n.(*ssa.BinOp); ok && q.Op == token.QUO && isLenCallOf(q.X, x) {
							if K3, ok := constInt(q.Y); ok && K3 >= K && startsNonNegative(idx) {
								up(K3)
							}
						}
					}
				}
			}
		}
	}
	return best
}

// dynCallSafe: the called function value is provably non-nil and the call graph resolves it to library functions.
func (c *Ctx) dynCallSafe(call *ssa.Call, b *ssa.BasicBlock) (bool, string) {
	if !c.fnValueNonNil(call.Common().Value, b, 0) {
		return false, "the function value may be nil"
	}
	if ts, ok := c.fnTargets(call.Common().Value, 0); ok && len(ts) > 0 {
		for _, t := range ts {
			if !isLibFn(t) {
				return false, "it may stand for " + fname(t)
			}
		}
		return true, ""
	}
	n := 0
	if node := c.cg.Nodes[call.Parent()]; node != nil {
		for _, e := range node.Out {
			if e.Site == ssa.CallInstruction(call) {
				n++
				if !isLibFn(e.Callee.Func) {
					return false, "it may stand for " + fname(e.Callee.Func)
				}
			}
		}
	}
	if n == 0 {
		return false, "the call graph resolves it to nothing"
	}
	return true, ""
}

func (c *Ctx) fnValueNonNil(v ssa.Value, b *ssa.BasicBlock, depth int) bool {
	if depth > 5 {
		return false
	}
	if b != nil && knownNonNil(v, b) {
		return true // a dominating nil test
	}
	switch x := v.(type) {
	case *ssa.Function, *ssa.MakeClosure:
		return true
	case *ssa.ChangeType:
		return c.fnValueNonNil(x.X, b, depth+1)
	case *ssa.MakeInterface:
		return c.fnValueNonNil(x.X, b, depth+1)
	case *ssa.Phi:
		for _, e := range x.Edges {
			if !c.fnValueNonNil(e, b, depth+1) {
				return false
			}
		}
		return len(x.Edges) > 0
	case *ssa.Call:
		f := x.Common().StaticCallee()
		if f == nil || !isLibFn(f) || len(f.Blocks) == 0 || f.Signature.Results().Len() != 1 {
			return false
		}
		for _, r := range returnsOf(f) {
			if !c.fnValueNonNil(r.Results[0], r.Block(), depth+1) {
				return false
			}
		}
		return true
	case *ssa.UnOp:
		if x.Op != token.MUL {
			return false
		}
		// a captured or address-taken variable: every value stored into its cell
		cells := []ssa.Value{}
		switch cell := x.X.(type) {
		case *ssa.Alloc:
			cells = append(cells, cell)
		case *ssa.FreeVar:
			f := cell.Parent()
			idx := -1
			for i, fv := range f.FreeVars {
				if fv == cell {
					idx = i
				}
			}
			for _, g := range c.libFns {
				for _, bb := range g.Blocks {
					for _, in := range bb.Instrs {
						if mc, ok := in.(*ssa.MakeClosure); ok && mc.Fn == ssa.Value(f) && idx >= 0 && idx < len(mc.Bindings) {
							cells = append(cells, mc.Bindings[idx])
						}
					}
				}
			}
		default:
			return false
		}
		if len(cells) == 0 {
			return false
		}
		for _, cell := range cells {
			al, ok := cell.(*ssa.Alloc)
			if !ok {
				return false
			}
			n := 0
			for _, r := range *al.Referrers() {
				switch y := r.(type) {
				case *ssa.Store:
					if y.Addr != ssa.Value(al) {
						return false
					}
					n++
					if !c.fnValueNonNil(y.Val, y.Block(), depth+1) {
						return false
					}
				case *ssa.UnOp, *ssa.MakeClosure, *ssa.DebugRef:
				default:
					return false
				}
			}
			if n == 0 {
				return false
			}
		}
		return true
	case *ssa.Parameter:
		f := x.Parent()
		idx := -1
		for i, p := range f.Params {
			if p == x {
				idx = i
			}
		}
		n := 0
		for _, g := range c.libFns {
			for _, bb := range g.Blocks {
				for _, in := range bb.Instrs {
					cl, ok := in.(*ssa.Call)
					if !ok || cl.Common().StaticCallee() != f {
						continue
					}
					n++
					if idx < 0 || idx >= len(cl.Common().Args) || !c.fnValueNonNil(cl.Common().Args[idx], bb, depth+1) {
						return false
					}
				}
			}
		}
		return n > 0 && (f.Object() == nil || !f.Object().Exported())
	case *ssa.FreeVar:
		f := x.Parent()
		idx := -1
		for i, fv := range f.FreeVars {
			if fv == x {
				idx = i
			}
		}
		n := 0
		for _, g := range c.libFns {
			for _, bb := range g.Blocks {
				for _, in := range bb.Instrs {
					mc, ok := in.(*ssa.MakeClosure)
					if !ok || mc.Fn != ssa.Value(f) {
						continue
					}
					n++
					if idx < 0 || idx >= len(mc.Bindings) || !c.fnValueNonNil(mc.Bindings[idx], bb, depth+1) {
						return false
					}
				}
			}
		}
		return n > 0
	case *ssa.Extract:
		lk, ok := x.Tuple.(*ssa.Lookup)
		if !ok || !lk.CommaOk || x.Index != 0 || b == nil {
			return false
		}
		hit := false
		for val, truth := range boolFacts(b) {
			if e2, ok := val.(*ssa.Extract); ok && e2.Tuple == lk && e2.Index == 1 && truth {
				hit = true
			}
		}
		ld, ok := lk.X.(*ssa.UnOp)
		if !hit || !ok || !isLibGlobal(ld.X) {
			return false
		}
		// every value the package initialiser puts into that table is a function
		g := ld.X.(*ssa.Global)
		init := g.Pkg.Func("init")
		if init == nil {
			return false
		}
		var mk ssa.Value
		for _, bb := range init.Blocks {
			for _, in := range bb.Instrs {
				if st, ok := in.(*ssa.Store); ok && st.Addr == ssa.Value(g) {
					mk = st.Val
				}
			}
		}
		if mk == nil {
			return false
		}
		n := 0
		for _, r := range *mk.Referrers() {
			if mu, ok := r.(*ssa.MapUpdate); ok && mu.Map == mk {
				n++
				if !c.fnValueNonNil(mu.Value, mu.Block(), depth+1) {
					return false
				}
			}
		}
		return n > 0
	}
	return false
}

// fnTargets: the functions a function value can stand for, read off the program (function and closure values,
// parameters through every call site of an unexported function, captured variables through their stores, merges);
// ok=false when some source cannot be named.
func (c *Ctx) fnTargets(v ssa.Value, depth int) ([]*ssa.Function, bool) {
	if depth > 5 {
		return nil, false
	}
	switch x := v.(type) {
	case *ssa.Function:
		return []*ssa.Function{x}, true
	case *ssa.MakeClosure:
		if f, ok := x.Fn.(*ssa.Function); ok {
			return []*ssa.Function{f}, true
		}
	case *ssa.ChangeType:
		return c.fnTargets(x.X, depth+1)
	case *ssa.Phi:
		var out []*ssa.Function
		for _, e := range x.Edges {
			if k, isK := e.(*ssa.Const); isK && k.Value == nil {
				continue // nil-ness is fnValueNonNil's business
			}
			ts, ok := c.fnTargets(e, depth+1)
			if !ok {
				return nil, false
			}
			out = append(out, ts...)
		}
		return out, true
	case *ssa.Parameter:
		f := x.Parent()
		if f.Object() != nil && f.Object().Exported() && f.Signature.Recv() == nil {
			return nil, false
		}
		idx := -1
		for i, p := range f.Params {
			if p == x {
				idx = i
			}
		}
		var out []*ssa.Function
		n := 0
		for _, g := range c.libFns {
			for _, bb := range g.Blocks {
				for _, in := range bb.Instrs {
					cl, ok := in.(*ssa.Call)
					if !ok || cl.Common().StaticCallee() != f || idx < 0 || idx >= len(cl.Common().Args) {
						continue
					}
					n++
					ts, ok := c.fnTargets(cl.Common().Args[idx], depth+1)
					if !ok {
						return nil, false
					}
					out = append(out, ts...)
				}
			}
		}
		return out, n > 0
	case *ssa.UnOp:
		if x.Op != token.MUL {
			return nil, false
		}
		var cells []ssa.Value
		switch cell := x.X.(type) {
		case *ssa.Alloc:
			cells = append(cells, cell)
		case *ssa.FreeVar:
			f := cell.Parent()
			for i, fv := range f.FreeVars {
				if fv != cell {
					continue
				}
				for _, g := range c.libFns {
					for _, bb := range g.Blocks {
						for _, in := range bb.Instrs {
							if mc, ok := in.(*ssa.MakeClosure); ok && mc.Fn == ssa.Value(f) && i < len(mc.Bindings) {
								cells = append(cells, mc.Bindings[i])
							}
						}
					}
				}
			}
		default:
			return nil, false
		}
		var out []*ssa.Function
		for _, cell := range cells {
			al, ok := cell.(*ssa.Alloc)
			if !ok {
				return nil, false
			}
			for _, r := range *al.Referrers() {
				if st, ok := r.(*ssa.Store); ok && st.Addr == ssa.Value(al) {
					ts, ok := c.fnTargets(st.Val, depth+1)
					if !ok {
						return nil, false
					}
					out = append(out, ts...)
				}
			}
		}
		return out, len(out) > 0
	}
	return nil, false
}

// rawReaderRole: a function []byte -> []T (, error) of package onnx, and the ONNX type with that element type.
func (c *Ctx) rawReaderRole(g *ssa.Function) (onnxType, bool) {
	if fnPkgPath(g) != pkgOnnx || g.Parent() != nil || g.Signature.Recv() != nil || len(g.Params) != 1 || g.Origin() != nil || g.TypeParams().Len() > 0 {
		return onnxType{}, false
	}
	if k, ok := basicKindOfSliceElem(g.Params[0].Type()); !ok || k != types.Uint8 {
		return onnxType{}, false
	}
	nr := g.Signature.Results().Len()
	if nr < 1 || nr > 2 || (nr == 2 && !isErrorType(g.Signature.Results().At(1).Type())) {
		return onnxType{}, false
	}
	ek, ok := basicKindOfSliceElem(g.Signature.Results().At(0).Type())
	if !ok {
		return onnxType{}, false
	}
	for _, t := range onnxTypes {
		if t.goT == ek {
			return t, true
		}
	}
	return onnxType{}, false
}

var lenEquivDepth int

// sameLengthAsParam: f returns (slice, error) and every return with a nil error hands out one make([]T, len(p)) of
// the same parameter p that is only written by element (never re-sliced or appended to); the index of p, else -1.
func sameLengthAsParam(f *ssa.Function) int {
	if f == nil || !isLibFn(f) || len(f.Blocks) == 0 || f.Signature.Results().Len() != 2 {
		return -1
	}
	k := -1
	for _, r := range returnsOf(f) {
		if len(r.Results) != 2 {
			return -1
		}
		if !isNilConst(r.Results[1]) {
			continue // an error return
		}
		mk, ok := r.Results[0].(*ssa.MakeSlice)
		if !ok {
			return -1
		}
		lc, ok := mk.Len.(*ssa.Call)
		if !ok {
			return -1
		}
		bi, ok := lc.Common().Value.(*ssa.Builtin)
		if !ok || bi.Name() != "len" {
			return -1
		}
		p, ok := lc.Common().Args[0].(*ssa.Parameter)
		if !ok {
			return -1
		}
		idx := -1
		for i, fp := range f.Params {
			if fp == p {
				idx = i
			}
		}
		if idx < 0 || (k >= 0 && k != idx) {
			return -1
		}
		k = idx
		// the parameter is not reassigned (SSA parameters never are) and the made slice only has element stores
		for _, ref := range *mk.Referrers() {
			switch ref.(type) {
			case *ssa.IndexAddr, *ssa.Return, *ssa.DebugRef:
			default:
				return -1
			}
		}
	}
	return k
}

var lenEquivSite *ssa.BasicBlock

// appendedOncePerElement: grown is phi(make(T, 0, ..) | append(grown, one element)) at the header of a loop
// `for i := 0; i < len(over); i++` (a range loop), the append lies on every path back to the header, and the site is
// outside the loop and dominated by its header (the loop ran to completion, every other exit returns).
func appendedOncePerElement(grown, over ssa.Value, site *ssa.BasicBlock) bool {
	phi, ok := grown.(*ssa.Phi)
	if !ok || len(phi.Edges) != 2 {
		return false
	}
	h := phi.Block()
	lb := loopBlocks(h)
	if len(lb) < 2 || lb[site] || !h.Dominates(site) {
		return false
	}
	var start ssa.Value
	var app *ssa.Call
	for i, e := range phi.Edges {
		if lb[h.Preds[i]] {
			if c, ok := e.(*ssa.Call); ok {
				if bi, ok := c.Common().Value.(*ssa.Builtin); ok && bi.Name() == "append" && c.Common().Args[0] == ssa.Value(phi) {
					app = c
				}
			}
		} else {
			start = e
		}
	}
	if app == nil || start == nil {
		return false
	}
	mk, ok := start.(*ssa.MakeSlice)
	if !ok {
		return false
	}
	if k, ok := constInt(mk.Len); !ok || k != 0 {
		return false
	}
	// one element appended
	if sl, ok := app.Common().Args[1].(*ssa.Slice); !ok || len(varargElems(sl)) != 1 {
		return false
	}
	// the append dominates every back edge
	for i, p := range h.Preds {
		if lb[p] && !app.Block().Dominates(p) {
			return false
		}
		_ = i
	}
	// the header tests i < len(over) with i = phi(0 | i+1)
	iff, ok := h.Instrs[len(h.Instrs)-1].(*ssa.If)
	if !ok {
		return false
	}
	bo, ok := iff.Cond.(*ssa.BinOp)
	if !ok || bo.Op != token.LSS {
		return false
	}
	lc, ok := bo.Y.(*ssa.Call)
	if !ok {
		return false
	}
	if bi, ok := lc.Common().Value.(*ssa.Builtin); !ok || bi.Name() != "len" {
		return false
	}
	saved := lenEquivSite
	lenEquivSite = nil
	same := lenEquiv(lc.Common().Args[0], over)
	lenEquivSite = saved
	if !same {
		return false
	}
	ip, ok := bo.X.(*ssa.Phi)
	rotated := false
	if !ok {
		// the rotated range form: i = phi(-1 | i+1), tested as i+1 < len
		if inc, ok := bo.X.(*ssa.BinOp); ok && inc.Op == token.ADD {
			if one, isK := constInt(inc.Y); isK && one == 1 {
				ip, _ = inc.X.(*ssa.Phi)
				rotated = true
			}
		}
	}
	if ip == nil || ip.Block() != h {
		return false
	}
	if rotated {
		okStart := false
		for i, e := range ip.Edges {
			if !lb[h.Preds[i]] {
				if k, isK := constInt(e); isK && k == -1 {
					okStart = true
				}
			}
		}
		if !okStart {
			return false
		}
	} else if !startsNonNegative(ip) {
		return false
	}
	// every other way out of the loop ends in a return (an error): the site is only reached after completion
	for x := range lb {
		for _, s := range x.Succs {
			if lb[s] || x == h {
				continue
			}
			if !endsInReturn(s, 0) {
				return false
			}
		}
	}
	return true
}

func endsInReturn(b *ssa.BasicBlock, d int) bool {
	if d > 4 || len(b.Instrs) == 0 {
		return false
	}
	switch b.Instrs[len(b.Instrs)-1].(type) {
	case *ssa.Return, *ssa.Panic:
		return true
	case *ssa.Jump:
		return endsInReturn(b.Succs[0], d+1)
	}
	return false
}
