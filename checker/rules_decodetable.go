package main

// The tensor decoder's dispatch by finite table (C12, C11): which storage of a TensorProto ends up, converted how,
// in the tensor that is built.
//
// onnx.TensorFromProto is walked (not executed) with a message whose data_type is one of the codes 1..16 (and one
// that does not exist) and whose payload sits either in raw_data or in exactly one of the five typed fields; the
// typed fields hold tokens, the raw readers (functions []byte -> []T) answer with tokens naming their element type.
// The backing handed to the tensor constructor must consist of the tokens ONNX prescribes for that data_type - the
// raw reader of the type's own element type, or the prescribed typed field converted to that element type, in
// order - and every other combination must be refused. How the dispatch is written does not matter.

import (
	"fmt"
	"go/types"
	"os"
	"strings"

	"golang.org/x/tools/go/ssa"
)

type decodeTableRes struct {
	known bool
	bads  map[string]string // ONNX type name (or "unsupported") -> what is wrong
	cells int
}

func (c *Ctx) decodeTable() decodeTableRes {
	if c.decodeMemo != nil {
		return *c.decodeMemo
	}
	res := c.decodeTable1()
	c.decodeMemo = &res
	return res
}

func (c *Ctx) decodeTable1() decodeTableRes {
	f := c.findTensorFromProto()
	onnxPkg := c.pkgByPath[pkgOnnx]
	if f == nil || onnxPkg == nil {
		return c.decodeUnknown(1)
	}
	p0 := &pinterp{c: c, budget: 5000000, objects: true}
	heap0 := p0.initGlobals(newHeap(), pkgOnnx)
	if len(p0.initFailed) > 0 {
		return c.decodeUnknown(2)
	}
	fields := []string{"FloatData", "Int32Data", "Int64Data", "DoubleData", "Uint64Data"}
	byCode := map[int64]onnxType{}
	for _, t := range onnxTypes {
		for code := int64(0); code <= 20; code++ {
			if nm, ok := c.enumName(code); ok && nm == t.name {
				byCode[code] = t
			}
		}
	}
	if len(byCode) != len(onnxTypes) {
		return c.decodeUnknown(3)
	}
	out := decodeTableRes{bads: map[string]string{}}
	cov := newCover(f)
	setBad := func(k, v string) {
		if out.bads[k] == "" {
			out.bads[k] = v
		}
	}
	codes := []int64{}
	for code := int64(1); code <= 16; code++ {
		codes = append(codes, code)
	}
	codes = append(codes, 99, -1, 0) // 0 (UNDEFINED) is walked for coverage only: its fallback is a finding of its own (D5)
	for _, code := range codes {
		t, supported := byCode[code]
		tname := "unsupported"
		if supported {
			tname = t.name
		}
		for _, storage := range append([]string{"raw"}, fields...) {
			heap := heap0.clone()
			b := &rtBuilder{c: c, heap: heap, onnx: onnxPkg.Types}
			fl := map[string]pval{"DataType": {k: pInt, i: code}, "Dims": b.list(pval{k: pInt, i: 2})}
			if storage == "raw" {
				fl["RawData"] = b.list(pval{k: pInt, i: 1}, pval{k: pInt, i: 2}, pval{k: pInt, i: 3}, pval{k: pInt, i: 4})
			} else {
				fl[storage] = b.list(pval{k: pTok, i: 0, s: "src:" + storage}, pval{k: pTok, i: 1, s: "src:" + storage})
			}
			tp := b.obj(onnxPkg.Types, "TensorProto", fl)
			if tp.k != pObj {
				return c.decodeUnknown(4)
			}
			p := &pinterp{c: c, budget: 400000, objects: true, globals: p0.globals, cover: cov}
			var backings [][]pval
			sawBacking := false
			p.extModel = func(key string, call *ssa.Call, ops []pval, h *pheap) ([]pval, bool) {
				switch key {
				case pkgTensor + ".WithBacking":
					sawBacking = true
					if len(ops) >= 1 && ops[0].k == pList && h.lists[ops[0].i] != nil {
						backings = append(backings, append([]pval{}, h.lists[ops[0].i]...))
					} else {
						backings = append(backings, nil)
					}
					return []pval{{k: pAbs, i: 1, s: "option"}}, true
				case pkgTensor + ".WithShape":
					return []pval{{k: pAbs, i: 2, s: "option"}}, true
				case pkgTensor + ".New":
					return []pval{{k: pAbs, i: 3, s: "tensor"}}, true
				}
				return nil, false
			}
			p.intercept = func(fn *ssa.Function, call *ssa.Call, callee *ssa.Function, args []pval, h *pheap) ([]pval, bool) {
				// raw readers by role: []byte -> []T (, error)
				if fnPkgPath(callee) != pkgOnnx || callee.Parent() != nil || callee.Signature.Recv() != nil || len(callee.Params) != 1 {
					return nil, false
				}
				if k, ok := basicKindOfSliceElem(callee.Params[0].Type()); !ok || k != types.Uint8 {
					return nil, false
				}
				nr := callee.Signature.Results().Len()
				if nr < 1 || nr > 2 || (nr == 2 && !isErrorType(callee.Signature.Results().At(1).Type())) {
					return nil, false
				}
				ek, ok := basicKindOfSliceElem(callee.Signature.Results().At(0).Type())
				if !ok {
					return nil, false
				}
				var l []pval
				if len(args) == 1 && args[0].k == pList && len(h.lists[args[0].i]) > 0 {
					l = []pval{{k: pTok, i: 0, s: "src:raw:" + types.Typ[ek].Name()}, {k: pTok, i: 1, s: "src:raw:" + types.Typ[ek].Name()}}
				}
				lv := pval{k: pNil}
				if l != nil {
					lv = h.alloc(l)
				}
				if nr == 2 {
					return []pval{lv, {k: pNil}}, true
				}
				return []pval{lv}, true
			}
			r, _ := p.run(f, []pval{tp}, 0, heap)
			if p.aborted || len(r) != 2 {
				return c.decodeUnknown(5)
			}
			accepted := r[1].k == pNil || (r[1].k == pUnknown && sawBacking && r[0].k == pAbs)
			refused := nonNilKind(r[1].k)
			if !accepted && !refused {
				return c.decodeUnknown(6)
			}
			if code == 0 {
				continue
			}
			out.cells++
			desc := fmt.Sprintf("data_type %s (%d) with the payload in %s", tname, code, storage)
			wantAccept := supported && (storage == "raw" || storage == t.field)
			switch {
			case !wantAccept && accepted:
				if supported {
					setBad(tname, desc+" is loaded although ONNX stores that type in "+t.field+" (or raw_data): the values come from another field")
				} else {
					setBad("unsupported", desc+" is loaded: a type the library does not implement is not refused")
				}
			case wantAccept && refused:
				setBad(tname, desc+" is refused")
			case wantAccept:
				if len(backings) != 1 || len(backings[0]) != 2 {
					return c.decodeUnknown(7)
				}
				goT := types.Typ[t.goT].Name()
				wantSrc := "src:" + storage
				if storage == "raw" {
					wantSrc = "src:raw:" + goT
				}
				for i, e := range backings[0] {
					if e.k != pTok {
						return c.decodeUnknown(8)
					}
					parts := strings.Split(e.s, "|")
					switch {
					case e.i != int64(i):
						setBad(tname, fmt.Sprintf("%s: element %d of the tensor is element %d of the source", desc, i, e.i))
					case parts[0] != wantSrc:
						setBad(tname, fmt.Sprintf("%s: the values come from %s, ONNX prescribes %s", desc, strings.TrimPrefix(parts[0], "src:"), strings.TrimPrefix(wantSrc, "src:")))
					default:
						last, nCmp := "", 0
						for _, st := range parts[1:] {
							if strings.HasPrefix(st, "conv:") {
								last = strings.TrimPrefix(st, "conv:")
							} else if st != "" {
								nCmp++
							}
						}
						if goT == "bool" {
							if storage != "raw" && nCmp != 1 {
								setBad(tname, desc+": the int32 entries are not turned into booleans by one comparison")
							}
						} else if nCmp > 0 || (last != "" && last != goT) {
							setBad(tname, fmt.Sprintf("%s: the values are converted to %s (operations %q), the tensor's element type must be %s", desc, last, e.s, goT))
						}
					}
				}
			}
		}
	}
	if len(out.bads) == 0 {
		// the code concerned: the decoder and the functions that receive the message (and what is written inside
		// them); the count gate and the element converters have tables of their own
		takesProto := func(fn *ssa.Function) bool {
			for g := fn; g != nil; g = g.Parent() {
				for _, prm := range g.Params {
					if pt, ok := prm.Type().(*types.Pointer); ok {
						if n, ok := pt.Elem().(*types.Named); ok && n.Obj().Name() == "TensorProto" {
							return true
						}
					}
				}
			}
			return false
		}
		cov.skip = map[*ssa.Function]bool{}
		for fn := range cov.fns {
			if !takesProto(fn) {
				cov.skip[fn] = true
			}
		}
		if unc := cov.uncovered(c); len(unc) > 0 {
			c.declined("decoder dispatch table", unc)
			return c.decodeUnknown(9)
		}
	}
	out.known = true
	return out
}

func (c *Ctx) decodeUnknown(n int) decodeTableRes {
	if os.Getenv("DECODEDEBUG") != "" {
		fmt.Println("DECODEDEBUG unknown at", n)
	}
	return decodeTableRes{}
}

// rawReaderTable walks a raw reader ([]byte -> []T (, error)) for payloads of 0..2w+1 token bytes (w: the width of
// T): no length makes it panic; a whole number of elements gives one value per element, element j made of the bytes
// j*w .. j*w+w-1 in little-endian order and of nothing else. tail: what a trailing partial element yields
// ("error", "silent" = values or nil with a nil error). known=false when a length cannot be followed.
func (c *Ctx) rawReaderTable(r *ssa.Function, t onnxType) (known bool, bad, tail string) {
	if m, ok := c.readerMemo[r]; ok {
		for _, k := range m.covered {
			if c.tableCovered == nil {
				c.tableCovered = map[string]string{}
			}
			c.tableCovered[k] = "R13:D3:" + fname(r)
		}
		return m.known, m.bad, m.tail
	}
	known, bad, tail, covered := c.rawReaderTable1(r, t)
	if c.readerMemo == nil {
		c.readerMemo = map[*ssa.Function]readerRes{}
	}
	c.readerMemo[r] = readerRes{known, bad, tail, covered}
	return known, bad, tail
}

type readerRes struct {
	known     bool
	bad, tail string
	covered   []string
}

func (c *Ctx) rawReaderTable1(r *ssa.Function, t onnxType) (known bool, bad, tail string, covered []string) {
	w := t.width
	if w <= 0 || len(r.Params) != 1 {
		return false, "", "", nil
	}
	st := c.onnxInit()
	if st == nil {
		return false, "", "", nil
	}
	cov := newCover(r)
	two := r.Signature.Results().Len() == 2
	tail = "error"
	for n := int64(0); n <= 2*w+1; n++ {
		heap := st.heap.clone()
		data := make([]pval, n)
		for i := range data {
			data[i] = pval{k: pTok, i: int64(i), s: "byte"}
		}
		p := &pinterp{c: c, budget: 200000, objects: true, globals: st.globals, cover: cov}
		panicked := ""
		p.onPanic = func(fn *ssa.Function, in ssa.Instruction, what string) { panicked = what + " at " + c.pos(in.Pos()) }
		res, h := p.run(r, []pval{heap.alloc(data)}, 0, heap)
		if panicked != "" {
			return true, fmt.Sprintf("a payload of %d bytes makes %s panic: %s", n, fname(r), panicked), tail, nil
		}
		if p.aborted || len(res) == 0 || h == nil {
			return false, "", "", nil
		}
		isErr := two && nonNilKind(res[1].k)
		if two && !isErr && res[1].k != pNil {
			return false, "", "", nil
		}
		var vals []pval
		switch res[0].k {
		case pList:
			vals = h.lists[res[0].i]
			if vals == nil {
				return false, "", "", nil
			}
		case pNil:
		default:
			return false, "", "", nil
		}
		if n%w != 0 {
			if !isErr {
				tail = "silent"
			}
			continue
		}
		k := n / w
		if isErr {
			return true, fmt.Sprintf("a payload of %d bytes (%d whole elements of %d bytes) is refused", n, k, w), tail, nil
		}
		if int64(len(vals)) != k {
			return true, fmt.Sprintf("a payload of %d bytes gives %d values, %d elements of %d bytes are in it: the element width is not %d", n, len(vals), k, w, w), tail, nil
		}
		for j, e := range vals {
			if e.k != pTok {
				return false, "", "", nil
			}
			parts := strings.Split(e.s, "|")
			wantHead := fmt.Sprintf("le%d", w*8)
			if w == 1 {
				wantHead = "byte"
			}
			switch {
			case e.i != int64(j)*w:
				return true, fmt.Sprintf("value %d of a payload of %d bytes is read at byte %d, its element starts at byte %d", j, n, e.i, int64(j)*w), tail, nil
			case parts[0] != wantHead:
				return true, fmt.Sprintf("value %d is decoded as %s, the element is %d bytes in little-endian order", j, parts[0], w), tail, nil
			}
			nCmp := 0
			afterBits := false
			for _, st := range parts[1:] {
				if st != "" && st != "bits" && !strings.HasPrefix(st, "conv:") {
					nCmp++
				}
				// every bit pattern must arrive unchanged: integer conversions never below the element's width,
				// and none at all once the word has become a floating point value (float32 -> float64 -> float32
				// turns a signalling NaN into a quiet one)
				if st == "bits" {
					afterBits = true
					continue
				}
				if strings.HasPrefix(st, "conv:") {
					tn := strings.TrimPrefix(st, "conv:")
					if afterBits {
						if tn != types.Typ[t.goT].String() {
							return true, fmt.Sprintf("value %d passes through %s after it was made a floating point value (operations %q): NaN payloads do not survive a float conversion", j, tn, e.s), tail, nil
						}
						continue
					}
					if sz, ok := map[string]int64{"int8": 1, "uint8": 1, "byte": 1, "int16": 2, "uint16": 2, "int32": 4, "uint32": 4, "int64": 8, "uint64": 8, "int": 8, "uint": 8, "float32": -4, "float64": -8}[tn]; ok {
						if sz < 0 {
							return true, fmt.Sprintf("value %d is converted numerically to %s (operations %q): the element's bits are not kept", j, tn, e.s), tail, nil
						}
						if sz < w {
							return true, fmt.Sprintf("value %d passes through %s, which is narrower than the element's %d bytes (operations %q)", j, tn, w, e.s), tail, nil
						}
					}
				}
			}
			if nCmp > 1 || (nCmp == 1 && t.goT != types.Bool) {
				return true, fmt.Sprintf("value %d is not the element itself (operations %q)", j, e.s), tail, nil
			}
		}
	}
	if unc := cov.uncovered(c); len(unc) > 0 {
		c.declined("raw reader table of "+fname(r), unc)
		return false, "", "", nil
	}
	// the functions this table walked in full are free of panics for every payload length it tried
	if c.tableCovered == nil {
		c.tableCovered = map[string]string{}
	}
	for fn := range cov.fns {
		if isLibFn(fn) {
			c.tableCovered["reader:"+fname(fn)] = "R13:D3:" + fname(r)
			covered = append(covered, "reader:"+fname(fn))
		}
	}
	return true, "", tail, covered
}

// onnxInit: the state after the variable initialisers of package onnx (generated registration code skipped).
func (c *Ctx) onnxInit() *initState {
	if c.onnxInitMemo != nil {
		if len(c.onnxInitMemo.failed) > 0 {
			return nil
		}
		return c.onnxInitMemo
	}
	p0 := &pinterp{c: c, budget: 5000000, objects: true}
	h := p0.initGlobals(newHeap(), pkgOnnx)
	c.onnxInitMemo = &initState{globals: p0.globals, heap: h, failed: p0.initFailed}
	if len(p0.initFailed) > 0 {
		return nil
	}
	return c.onnxInitMemo
}
