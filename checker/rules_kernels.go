package main

import (
	"fmt"
	"go/constant"
	"go/token"
	"go/types"
	"sort"
	"strings"

	"golang.org/x/tools/go/ssa"
)

// R7 — operator -> kernel tables (C03 binary, C10 unary); R18 — no select-by-multiplication.

// term renders the value as an expression over external calls, parameters and constants.
func (c *Ctx) term(v ssa.Value, depth int) string {
	if depth > 24 {
		return "..."
	}
	if c.termMemo == nil {
		c.termMemo = map[ssa.Value]string{}
	}
	if len(c.termSubst) == 0 {
		if s, ok := c.termMemo[v]; ok {
			return s
		}
	}
	if c.termBusy == nil {
		c.termBusy = map[ssa.Value]bool{}
	}
	if c.termBusy[v] {
		return "<loop>"
	}
	c.termBusy[v] = true
	s := c.term1(v, depth)
	delete(c.termBusy, v)
	if len(s) > 6000 {
		s = s[:6000] + "...<truncated>"
	}
	if depth <= 12 && !strings.Contains(s, "<loop>") && len(c.termSubst) == 0 {
		c.termMemo[v] = s
	}
	return s
}

func (c *Ctx) term1(v ssa.Value, depth int) string {
	switch x := v.(type) {
	case *ssa.Parameter:
		for i := len(c.termSubst) - 1; i >= 0; i-- {
			if t, ok := c.termSubst[i][x]; ok {
				return t
			}
		}
		for i, p := range x.Parent().Params {
			if p == x {
				return fmt.Sprintf("P%d", i)
			}
		}
	case *ssa.Const:
		if x.Value == nil {
			return "nil"
		}
		return x.Value.ExactString()
	case *ssa.MakeInterface:
		return c.term(x.X, depth+1)
	case *ssa.ChangeType:
		return c.term(x.X, depth+1)
	case *ssa.ChangeInterface:
		return c.term(x.X, depth+1)
	case *ssa.Convert:
		return c.term(x.X, depth+1)
	case *ssa.Extract:
		if x.Index == 0 {
			return c.term(x.Tuple, depth+1)
		}
		return fmt.Sprintf("%s#%d", c.term(x.Tuple, depth+1), x.Index)
	case *ssa.Call:
		cc := x.Common()
		name := ""
		var args []ssa.Value
		if cc.IsInvoke() {
			name = cc.Method.Name()
			args = append(args, cc.Value)
		} else if sc := cc.StaticCallee(); sc != nil {
			name = sc.Name()
			if i := strings.Index(name, "["); i > 0 {
				name = name[:i]
			}
		} else {
			name = "dyn"
			// a call through a function-typed parameter of a helper that is being inlined: the function it was handed
			if pr, ok := cc.Value.(*ssa.Parameter); ok {
				for i := len(c.termSubstVals) - 1; i >= 0; i-- {
					if av, ok := c.termSubstVals[i][pr]; ok {
						if fv := funcValueOf(av); fv != nil && len(fv.FreeVars) == 0 {
							name = fv.Name()
							if j := strings.Index(name, "["); j > 0 {
								name = name[:j]
							}
						}
						break
					}
				}
			}
		}
		args = append(args, cc.Args...)
		// inlining mode: an unexported helper of the operator packages stands for what it returns
		if c.termInline && !cc.IsInvoke() {
			if sc := cc.StaticCallee(); sc != nil && isLibFn(sc) && len(sc.Blocks) > 0 && depth < 16 && len(c.termSubst) < 3 && inlineableHelper(sc) {
				if t, ok := c.inlineTerm(sc, cc.Args, depth); ok {
					return t
				}
			}
		}
		// typed constants built by a library helper (GetValueAsTensorType(1.0, dtype)) render as k(<const>)
		if sc := cc.StaticCallee(); sc != nil && isLibFn(sc) && len(cc.Args) >= 1 {
			if k, ok := cc.Args[0].(*ssa.Const); ok && k.Value != nil && (k.Value.Kind() == constant.Float || k.Value.Kind() == constant.Int) {
				f, _ := constant.Float64Val(k.Value)
				return fmt.Sprintf("k(%g)", f)
			}
		}
		var parts []string
		for _, a := range args {
			if _, isSlice := a.(*ssa.Slice); isSlice {
				els := varargElems(a)
				for _, e := range els {
					parts = append(parts, c.term(e, depth+1))
				}
				continue
			}
			if isNilConst(a) {
				continue
			}
			parts = append(parts, c.term(a, depth+1))
		}
		return name + "(" + strings.Join(parts, ",") + ")"
	case *ssa.UnOp:
		if x.Op == token.MUL {
			if ia, ok := x.X.(*ssa.IndexAddr); ok {
				return c.term(ia.X, depth+1) + "[" + c.term(ia.Index, depth+1) + "]"
			}
			if fa, ok := x.X.(*ssa.FieldAddr); ok {
				_, st := structOfPtr(fa.X.Type())
				if st != nil {
					return "." + st.Field(fa.Field).Name()
				}
			}
			if g, ok := x.X.(*ssa.Global); ok {
				return g.Name()
			}
		}
		return x.Op.String() + c.term(x.X, depth+1)
	case *ssa.BinOp:
		return "(" + c.term(x.X, depth+1) + x.Op.String() + c.term(x.Y, depth+1) + ")"
	case *ssa.Function:
		return "fn:" + x.Name()
	case *ssa.MakeClosure:
		return "fn:" + x.Fn.Name()
	case *ssa.Phi:
		var parts []string
		for _, e := range x.Edges {
			parts = append(parts, c.term(e, depth+1))
		}
		return "phi(" + strings.Join(parts, "|") + ")"
	}
	return fmt.Sprintf("?%T", v)
}

func funcValueOf(v ssa.Value) *ssa.Function {
	switch x := unwrapConv(v).(type) {
	case *ssa.Function:
		return x
	case *ssa.MakeClosure:
		return x.Fn.(*ssa.Function)
	}
	return nil
}

// evalBool evaluates a pure bool function on constant arguments (finite truth table).
func evalBool(fn *ssa.Function, args []bool) (bool, bool) {
	env := map[ssa.Value]bool{}
	for i, p := range fn.Params {
		if i < len(args) {
			env[p] = args[i]
		}
	}
	val := func(v ssa.Value) (bool, bool) {
		if k, ok := v.(*ssa.Const); ok && k.Value != nil && k.Value.Kind() == constant.Bool {
			return constant.BoolVal(k.Value), true
		}
		b, ok := env[v]
		return b, ok
	}
	if len(fn.Blocks) == 0 {
		return false, false
	}
	blk := fn.Blocks[0]
	var prev *ssa.BasicBlock
	for steps := 0; steps < 64; steps++ {
		for _, in := range blk.Instrs {
			switch x := in.(type) {
			case *ssa.Phi:
				for i, p := range blk.Preds {
					if p == prev {
						if b, ok := val(x.Edges[i]); ok {
							env[x] = b
						} else {
							return false, false
						}
					}
				}
			case *ssa.UnOp:
				if x.Op == token.NOT {
					if b, ok := val(x.X); ok {
						env[x] = !b
					} else {
						return false, false
					}
				}
			case *ssa.BinOp:
				a, ok1 := val(x.X)
				b, ok2 := val(x.Y)
				if !ok1 || !ok2 {
					return false, false
				}
				switch x.Op {
				case token.EQL:
					env[x] = a == b
				case token.NEQ:
					env[x] = a != b
				case token.AND:
					env[x] = a && b
				case token.OR:
					env[x] = a || b
				case token.XOR:
					env[x] = a != b
				default:
					return false, false
				}
			case *ssa.If:
				cnd, ok := val(x.Cond)
				if !ok {
					return false, false
				}
				prev = blk
				if cnd {
					blk = blk.Succs[0]
				} else {
					blk = blk.Succs[1]
				}
			case *ssa.Jump:
				prev = blk
				blk = blk.Succs[0]
			case *ssa.Return:
				return val(x.Results[0])
			case *ssa.DebugRef:
			default:
				return false, false
			}
		}
	}
	return false, false
}

func truthTable(fn *ssa.Function, arity int) string {
	if t := truthTable0(fn, arity); !strings.Contains(t, "?") {
		return t
	}
	if theCtx != nil {
		return theCtx.truthTableWalk(fn, arity)
	}
	return truthTable0(fn, arity)
}

// truthTableWalk: the same table by walking the function (a bound method value, a closure, a function that calls a
// helper) on truth values.
func (c *Ctx) truthTableWalk(fn *ssa.Function, arity int) string {
	out := ""
	n := 1 << arity
	for i := 0; i < n; i++ {
		args := make([]pval, arity)
		for j := 0; j < arity; j++ {
			args[j] = pval{k: pBool, b: i&(1<<(arity-1-j)) != 0}
		}
		p := &pinterp{c: c, budget: 20000, objects: true}
		heap := newHeap()
		if len(fn.FreeVars) > 0 {
			binds := make([]pval, len(fn.FreeVars))
			for k := range binds {
				l := heap.alloc([]pval{{}})
				binds[k] = pval{k: pElemAddr, i: l.i, j: 0}
			}
			p.nextFree = binds
		}
		res, _ := p.run(fn, args, 0, heap)
		switch {
		case p.aborted || len(res) != 1 || res[0].k != pBool:
			out += "?"
		case res[0].b:
			out += "1"
		default:
			out += "0"
		}
	}
	return out
}

func truthTable0(fn *ssa.Function, arity int) string {
	out := ""
	n := 1 << arity
	for i := 0; i < n; i++ {
		args := make([]bool, arity)
		for j := 0; j < arity; j++ {
			args[j] = i&(1<<(arity-1-j)) != 0
		}
		r, ok := evalBool(fn, args)
		switch {
		case !ok:
			out += "?"
		case r:
			out += "1"
		default:
			out += "0"
		}
	}
	return out
}

var binaryKernels = map[string]string{
	"Add": "Add(P0,P1)", "Sub": "Sub(P0,P1)", "Mul": "Mul(P0,P1)", "Div": "Div(P0,P1)",
	"Equal": "ElEq(P0,P1)", "Greater": "Gt(P0,P1)", "GreaterOrEqual": "Gte(P0,P1)", "Less": "Lt(P0,P1)", "LessOrEqual": "Lte(P0,P1)",
}
var boolTables = map[string]string{"And": "0001", "Or": "0111", "Xor": "0110"}

func ruleR7Binary(c *Ctx, prop string) {
	regs := c.regNamesByType()
	byReg := map[string]*opInfo{}
	for _, oi := range c.operators() {
		if oi.control {
			continue
		}
		for _, n := range regs[oi.named] {
			byReg[n] = oi
		}
	}
	var driver *ssa.Function
	n := 0
	for _, name := range propOps["C03"] {
		oi := byReg[name]
		key := "R7:binary:" + name
		if oi == nil {
			c.violate("R7", key, "", "operator "+name+" is not registered")
			continue
		}
		apply := oi.methods["Apply"]
		site := c.pos(apply.Pos())
		// every success path: return of a driver call (args: inputs[0], inputs[1], kernel, mode)
		var calls []*ssa.Call
		for _, b := range apply.Blocks {
			for _, in := range b.Instrs {
				if cl, ok := in.(*ssa.Call); ok {
					if sc := cl.Common().StaticCallee(); sc != nil && isLibFn(sc) && len(cl.Common().Args) == 4 && funcValueOf(cl.Common().Args[2]) != nil {
						calls = append(calls, cl)
					}
				}
			}
		}
		if len(calls) == 0 {
			// no direct call: the row by table (Apply walked on two abstract operands, the driver call observed)
			if known, tbad, k, d := c.binaryRowTable(oi); known {
				n++
				if tbad == "" {
					tbad = c.checkBinaryKernel(name, k)
				}
				if d != nil {
					driver = d
				}
				c.decide(tbad == "", "R7", key, site, name+" = driver(inputs[0], inputs[1], "+fname(k)+", multidirectional) with the ONNX kernel (by table: however Apply reaches the driver)", tbad)
				continue
			}
			c.undecided("R7", key, site, "Apply does not delegate to the shared binary-operation driver: unrecognised factoring")
			continue
		}
		n++
		bad := ""
		var kernel *ssa.Function
		for _, call := range calls {
			if bad != "" {
				break
			}
			var k *ssa.Function
			bad, k = c.checkBinaryCall(name, apply, call)
			if kernel == nil {
				kernel = k
			}
			driver = call.Common().StaticCallee()
		}
		// every return hands out the results of one of those calls, or is an error return
		if bad == "" {
			for _, r := range returnsOf(apply) {
				if len(r.Results) != 2 || isNilConst(r.Results[0]) {
					continue
				}
				fromCall := false
				if ex, ok := r.Results[0].(*ssa.Extract); ok && ex.Index == 0 {
					for _, call := range calls {
						if ex.Tuple == ssa.Value(call) {
							fromCall = true
						}
					}
				}
				if !fromCall {
					bad = "a success return of Apply is not the result of the shared driver applied to (inputs[0], inputs[1]) with the ONNX kernel: " + c.term(r.Results[0], 0)
				}
			}
		}
		c.decide(bad == "", "R7", key, site, name+" = driver(inputs[0], inputs[1], "+fname(kernel)+", multidirectional) with the ONNX kernel", bad)
		if _, isBool := boolTables[name]; isBool && kernel != nil {
			if c.boolKernels == nil {
				c.boolKernels = map[string]*ssa.Function{}
			}
			c.boolKernels[name] = kernel
		}
	}
	c.counts["R7.binary_rows"] = n
	if n < 12 {
		c.undecided("R7", "R7:floor:binary", "", fmt.Sprintf("%d binary rows (floor 12)", n))
	}
	if driver != nil {
		c.checkBinaryDriver(driver)
	}
	c.checkBooleanLoop()
}

// checkBinaryCall judges one call of the binary driver in an operator's Apply.
func (c *Ctx) checkBinaryCall(name string, apply *ssa.Function, call *ssa.Call) (string, *ssa.Function) {
	args := call.Common().Args
	bad := ""
	switch {
	case !sameInputLoad(args[0], apply.Params[1], 0) || !sameInputLoad(args[1], apply.Params[1], 1):
		bad = "operands are not (inputs[0], inputs[1]) in that order"
	default:
		if k, ok := constInt(args[3]); !ok || k != c.constValue(pkgOps, "MultidirectionalBroadcasting") {
			bad = "broadcast mode is not multidirectional: shapes that ONNX broadcasts both ways are refused or mis-broadcast"
		}
	}
	kernel := funcValueOf(args[2])
	if bad != "" {
		return bad, kernel
	}
	return c.checkBinaryKernel(name, kernel), kernel
}

// binaryRowTable walks an operator's Apply on two abstract operands and observes the call of the shared driver
// (an exported function of package ops taking two tensors, a kernel and a broadcast mode): the operands in order,
// the multidirectional mode, exactly one call, its result returned as it is.
func (c *Ctx) binaryRowTable(oi *opInfo) (known bool, bad string, kernel, driver *ssa.Function) {
	st := c.libInit()
	apply := oi.methods["Apply"]
	if apply == nil || len(st.failed) > 0 {
		return false, "", nil, nil
	}
	cov := newCover(apply)
	cov.pkgs = map[string]bool{pkgOpset13: true}
	heap := st.heap.clone()
	A, B := pval{k: pAbs, i: 9101, s: "tensor"}, pval{k: pAbs, i: 9102, s: "tensor"}
	out := pval{k: pAbs, i: 9111, s: "tensor"}
	p := &pinterp{c: c, budget: 100000, objects: true, cover: cov, globals: st.globals}
	nCalls := 0
	var got []pval
	var outList pval
	p.intercept = func(fn *ssa.Function, call *ssa.Call, callee *ssa.Function, args []pval, h *pheap) ([]pval, bool) {
		if fnPkgPath(callee) != pkgOps || callee.Parent() != nil || callee.Object() == nil || !callee.Object().Exported() || len(args) != 4 || args[2].k != pFunc {
			return nil, false
		}
		nCalls++
		got = args
		driver = callee
		outList = h.alloc([]pval{out})
		return []pval{outList, {k: pNil}}, true
	}
	recv := heap.newObj(oi.named)
	res, h := p.run(apply, []pval{recv, heap.alloc([]pval{A, B})}, 0, heap)
	if p.aborted || len(res) != 2 || h == nil || nCalls == 0 {
		return false, "", nil, nil
	}
	kernel = got[2].fn
	switch {
	case nCalls != 1:
		return true, fmt.Sprintf("the shared driver is called %d times", nCalls), kernel, driver
	case got[0].k != pAbs || got[1].k != pAbs || got[0].i != A.i || got[1].i != B.i:
		return true, "operands are not (inputs[0], inputs[1]) in that order", kernel, driver
	case got[3].k != pInt || got[3].i != c.constValue(pkgOps, "MultidirectionalBroadcasting"):
		return true, "broadcast mode is not multidirectional: shapes that ONNX broadcasts both ways are refused or mis-broadcast", kernel, driver
	case res[1].k != pNil || res[0].k != pList || res[0].i != outList.i:
		return true, "a success return of Apply is not the result of the shared driver applied to (inputs[0], inputs[1]) with the ONNX kernel", kernel, driver
	}
	if l := h.lists[res[0].i]; len(l) != 1 || l[0].k != pAbs || l[0].i != out.i {
		return true, "the driver's result is changed before it is returned", kernel, driver
	}
	if unc := cov.uncovered(c); len(unc) > 0 {
		c.declined("binary row table of "+oi.name, unc)
		return false, "", nil, nil
	}
	return true, "", kernel, driver
}

// checkBinaryKernel judges the kernel an operator hands to the shared driver.
func (c *Ctx) checkBinaryKernel(name string, kernel *ssa.Function) string {
	bad := ""
	if kernel == nil {
		return "the kernel handed to the shared driver is not a known function"
	}
	if want, isArith := binaryKernels[name]; isArith {
		got := c.kernelTerm(kernel)
		if got != want && !(name == "Div" && c.hasFloatQuotient(kernel) && strings.Contains(got, "P0") && strings.Contains(got, "P1")) {
			bad = fmt.Sprintf("kernel %s computes %s, expected gorgonia %s", fname(kernel), got, want)
		}
		if name == "Div" && bad == "" {
			// gorgonia's float division (vecf32/vecf64 Div, go.go l.36) answers EVERY division by zero with +Inf:
			// -1/0, 0/0 and 1/-0 all give +Inf. The kernel has to contain Go's own IEEE division for those
			// elements (a correction pass or its own element loop).
			c.decide(c.hasFloatQuotient(kernel), "R7", "R7:binary:Div:zero-divisor", c.pos(kernel.Pos()),
				"the Div kernel divides floating point elements with Go's IEEE division",
				"Div hands floating point division to gorgonia's tensor.Div only: its vector kernels (gorgonia.org/vecf32, vecf64 Div) set the quotient to +Inf whenever the divisor is zero, whatever the numerator - Div(-1, 0) = +Inf (IEEE -Inf), Div(0, 0) = +Inf (IEEE NaN)")
		}
	} else {
		// boolean: kernel calls the coordinate iterator helper with a closure; check the truth table
		var closure *ssa.Function
		okOrder := false
		for _, b := range kernel.Blocks {
			for _, in := range b.Instrs {
				if cl, ok := in.(*ssa.Call); ok && len(cl.Common().Args) == 3 {
					if f := funcValueOf(cl.Common().Args[2]); f != nil {
						closure = f
						okOrder = cl.Common().Args[0] == ssa.Value(kernel.Params[0]) && cl.Common().Args[1] == ssa.Value(kernel.Params[1])
					}
				}
			}
		}
		if closure == nil {
			bad = "boolean kernel does not apply an element closure"
		} else if tt := truthTable(closure, 2); tt != boolTables[name] {
			bad = fmt.Sprintf("element function has truth table %s (inputs 00,01,10,11), %s requires %s", tt, name, boolTables[name])
		} else if !okOrder {
			bad = "operands swapped on the way to the element loop"
		}
		if bad != "" {
			// the kernel as a whole on two tensors of truth values, however it reaches its element loop
			if known, tbad := c.booleanKernelTable(kernel, name); known {
				bad = tbad
			}
		}
	}
	return bad
}

// hasFloatQuotient: the function (or a library function it calls, two levels) divides float values with Go's `/`.
func (c *Ctx) hasFloatQuotient(f *ssa.Function) bool {
	seen := map[*ssa.Function]bool{}
	var walk func(g *ssa.Function, depth int) bool
	walk = func(g *ssa.Function, depth int) bool {
		if g == nil || seen[g] || depth > 2 || !isLibFn(g) {
			return false
		}
		seen[g] = true
		for _, b := range g.Blocks {
			for _, in := range b.Instrs {
				switch x := in.(type) {
				case *ssa.BinOp:
					if bt, ok := x.X.Type().Underlying().(*types.Basic); ok && x.Op == token.QUO && bt.Info()&types.IsFloat != 0 {
						return true
					}
				case *ssa.Call:
					if walk(x.Common().StaticCallee(), depth+1) {
						return true
					}
					for _, a := range x.Common().Args {
						if fn := funcValueOf(a); fn != nil && walk(fn, depth+1) {
							return true
						}
					}
				case *ssa.MakeClosure:
					if fn, ok := x.Fn.(*ssa.Function); ok && walk(fn, depth+1) {
						return true
					}
				}
			}
		}
		for _, an := range g.AnonFuncs {
			if walk(an, depth+1) {
				return true
			}
		}
		return false
	}
	return walk(f, 0)
}

func (c *Ctx) constValue(pkg, name string) int64 {
	p := c.pkgByPath[pkg]
	if p == nil {
		return -1
	}
	if k, ok := p.Types.Scope().Lookup(name).(*types.Const); ok {
		if v, ok := constant.Int64Val(k.Val()); ok {
			return v
		}
	}
	return -1
}

// kernelTerm: the single returned expression of a thin wrapper such as ops.Add.
func (c *Ctx) kernelTerm(k *ssa.Function) string {
	rets := returnsOf(k)
	if len(rets) == 1 {
		return c.term(rets[0].Results[0], 0)
	}
	// several returns: the success return is the one whose first result is not the nil constant
	var succ []*ssa.Return
	for _, r := range rets {
		if len(r.Results) > 0 && !isNilConst(r.Results[0]) {
			succ = append(succ, r)
		}
	}
	if len(succ) == 0 {
		return "<no success return>"
	}
	// several success returns are fine when they hand out the same value
	t0 := c.term(succ[0].Results[0], 0)
	for _, r := range succ[1:] {
		if c.term(r.Results[0], 0) != t0 {
			return "<multiple returns>"
		}
	}
	return t0
}

// checkBinaryDriver: broadcast(A,B) in order on the selected mode, then op(A', B') in order.
func (c *Ctx) checkBinaryDriver(d *ssa.Function) {
	key := "R7:driver"
	site := c.pos(d.Pos())
	var dyn *ssa.Call
	for _, b := range d.Blocks {
		for _, in := range b.Instrs {
			if cl, ok := in.(*ssa.Call); ok && cl.Common().StaticCallee() == nil && !cl.Common().IsInvoke() && cl.Common().Value == ssa.Value(d.Params[2]) {
				dyn = cl
			}
		}
	}
	if dyn == nil {
		c.violate("R7", key, site, "the driver never calls the kernel it was given")
		return
	}
	// operand provenance: arg i derives (phi) from param i or extract #i of a broadcast call given (A,B) in order
	okArgs := true
	why := ""
	multi := c.constValue(pkgOps, "MultidirectionalBroadcasting")
	sawMulti := false
	for i := 0; i < 2; i++ {
		seen := map[ssa.Value]bool{}
		var walk func(v ssa.Value)
		walk = func(v ssa.Value) {
			if v == nil || seen[v] {
				return
			}
			seen[v] = true
			switch x := v.(type) {
			case *ssa.Phi:
				for _, e := range x.Edges {
					walk(e)
				}
			case *ssa.Parameter:
				if x != d.Params[i] {
					okArgs, why = false, "the kernel's operand "+fmt.Sprint(i)+" can be the other input"
				}
			case *ssa.Extract:
				call, ok := x.Tuple.(*ssa.Call)
				if !ok || x.Index != i {
					okArgs, why = false, "broadcast results are crossed"
					return
				}
				a := call.Common().Args
				if len(a) != 2 || a[0] != ssa.Value(d.Params[0]) || a[1] != ssa.Value(d.Params[1]) {
					okArgs, why = false, "broadcast helper is not applied to (A, B) in that order"
				}
				// on which mode?
				for _, g := range guardsOf(call.Block()) {
					for _, at := range atomsOf(g) {
						if k, ok := constInt(at.y); ok && at.op == token.EQL && at.x == ssa.Value(d.Params[3]) && k == multi {
							if sc := call.Common().StaticCallee(); sc != nil && strings.Contains(sc.Name(), "Multidirectional") {
								sawMulti = true
							}
						}
					}
				}
			default:
				okArgs, why = false, fmt.Sprintf("kernel operand %d has an unexpected origin", i)
			}
		}
		walk(dyn.Common().Args[i])
	}
	if okArgs && !sawMulti {
		okArgs, why = false, "the multidirectional mode does not run the multidirectional broadcast helper"
	}
	// the same facts over the finite table of modes, however the selection is written
	if known, tbad := c.binaryDriverTable(d); known {
		okArgs, why = tbad == "", tbad
	}
	// result: []Tensor{out} and the kernel's error
	c.decide(okArgs, "R7", key, site, "mode switch -> broadcast(A,B) -> op(A',B') with operands in order", why)
}

// binaryDriverTable walks the driver (A, B, kernel, mode) with abstract operands for the three broadcasting modes,
// with the broadcast helper and the kernel succeeding or failing: the kernel must receive (A, B) as they are, or the
// two results of the mode's helper applied to (A, B), in order; its result is the single output; a failure of
// either is returned as an error. known=false when a cell cannot be followed to one outcome.
func (c *Ctx) binaryDriverTable(d *ssa.Function) (known bool, bad string) {
	if len(d.Params) != 4 {
		return false, ""
	}
	modes := []struct {
		name, helper string
	}{{"NoBroadcasting", ""}, {"UnidirectionalBroadcasting", "UnidirectionalBroadcast"}, {"MultidirectionalBroadcasting", "MultidirectionalBroadcast"}}
	cov := newCover(d)
	st := c.libInit()
	if len(st.failed) > 0 {
		return false, ""
	}
	{
		// a mode the library does not define: only walked, so that the selection's fall-through is seen
		p := &pinterp{c: c, budget: 100000, objects: true, cover: cov, globals: st.globals}
		p.intercept = func(fn *ssa.Function, call *ssa.Call, callee *ssa.Function, args []pval, h *pheap) ([]pval, bool) {
			if fnPkgPath(callee) == pkgOps && callee.Parent() == nil && strings.HasSuffix(callee.Name(), "directionalBroadcast") {
				return []pval{{k: pAbs, i: 9011, s: "tensor"}, {k: pAbs, i: 9012, s: "tensor"}, {k: pNil}}, true
			}
			return nil, false
		}
		p.onDyn = func(fn *ssa.Function, call *ssa.Call, args []pval, h *pheap) ([]pval, bool) {
			return []pval{{k: pAbs, i: 9021, s: "tensor"}, {k: pNil}}, true
		}
		p.run(d, []pval{{k: pAbs, i: 9001, s: "tensor"}, {k: pAbs, i: 9002, s: "tensor"}, {k: pHookFn, i: 1}, {k: pInt, i: 97}}, 0, st.heap.clone())
	}
	for _, m := range modes {
		mv := c.constValue(pkgOps, m.name)
		if mv < 0 {
			return false, ""
		}
		for _, fail := range []string{"", "broadcast", "kernel"} {
			if fail == "broadcast" && m.helper == "" {
				continue
			}
			A, B := pval{k: pAbs, i: 9001, s: "tensor"}, pval{k: pAbs, i: 9002, s: "tensor"}
			r0, r1, out := pval{k: pAbs, i: 9011, s: "tensor"}, pval{k: pAbs, i: 9012, s: "tensor"}, pval{k: pAbs, i: 9021, s: "tensor"}
			p := &pinterp{c: c, budget: 100000, objects: true, cover: cov, globals: st.globals}
			var helpers []string
			var kernelArgs [][]pval
			helperArgsOK := true
			p.intercept = func(fn *ssa.Function, call *ssa.Call, callee *ssa.Function, args []pval, h *pheap) ([]pval, bool) {
				if fnPkgPath(callee) == pkgOps && callee.Parent() == nil && (callee.Name() == "UnidirectionalBroadcast" || callee.Name() == "MultidirectionalBroadcast") {
					helpers = append(helpers, callee.Name())
					if len(args) != 2 || args[0].k != pAbs || args[0].i != A.i || args[1].k != pAbs || args[1].i != B.i {
						helperArgsOK = false
					}
					if fail == "broadcast" {
						return []pval{{k: pNil}, {k: pNil}, {k: pNonNil}}, true
					}
					return []pval{r0, r1, {k: pNil}}, true
				}
				return nil, false
			}
			p.onDyn = func(fn *ssa.Function, call *ssa.Call, args []pval, h *pheap) ([]pval, bool) {
				if len(args) == 3 && args[0].k == pHookFn {
					kernelArgs = append(kernelArgs, args[1:])
					if fail == "kernel" {
						return []pval{{k: pNil}, {k: pNonNil}}, true
					}
					return []pval{out, {k: pNil}}, true
				}
				return nil, false
			}
			heap := st.heap.clone()
			res, h := p.run(d, []pval{A, B, {k: pHookFn, i: 1}, {k: pInt, i: mv}}, 0, heap)
			if p.aborted || len(res) != 2 {
				return false, ""
			}
			desc := "mode " + m.name
			isErr := nonNilKind(res[1].k)
			if !isErr && res[1].k != pNil {
				return false, ""
			}
			wantHelpers := 0
			if m.helper != "" {
				wantHelpers = 1
			}
			switch {
			case len(helpers) != wantHelpers:
				if m.helper == "" {
					return true, desc + " runs a broadcast helper"
				}
				return true, "the " + strings.ToLower(strings.TrimSuffix(m.name, "Broadcasting")) + " mode does not run the " + strings.ToLower(strings.TrimSuffix(m.name, "Broadcasting")) + " broadcast helper"
			case wantHelpers == 1 && helpers[0] != m.helper:
				return true, desc + " runs " + helpers[0]
			case !helperArgsOK:
				return true, "broadcast helper is not applied to (A, B) in that order"
			}
			if fail == "broadcast" {
				if !isErr {
					return true, desc + ": a failed broadcast is not returned as an error"
				}
				if len(kernelArgs) > 0 {
					return true, desc + ": the kernel runs although broadcasting failed"
				}
				continue
			}
			if len(kernelArgs) != 1 {
				return true, fmt.Sprintf("%s: the kernel is called %d times", desc, len(kernelArgs))
			}
			w0, w1 := A, B
			if m.helper != "" {
				w0, w1 = r0, r1
			}
			ka := kernelArgs[0]
			if ka[0].k != pAbs || ka[1].k != pAbs || ka[0].i != w0.i || ka[1].i != w1.i {
				if ka[0].k == pAbs && ka[1].k == pAbs && ka[0].i == w1.i && ka[1].i == w0.i {
					return true, desc + ": the kernel receives the operands in the wrong order"
				}
				return true, desc + ": the kernel does not receive the (broadcast) operands of this mode"
			}
			if fail == "kernel" {
				if !isErr {
					return true, desc + ": a failed kernel is not returned as an error"
				}
				continue
			}
			if isErr {
				return true, desc + ": an error is returned although nothing failed"
			}
			if res[0].k != pList || h == nil || len(h.lists[res[0].i]) != 1 || h.lists[res[0].i][0].k != pAbs || h.lists[res[0].i][0].i != out.i {
				if res[0].k != pList || h == nil {
					return false, ""
				}
				return true, desc + ": the kernel's result is not the single output"
			}
		}
	}
	if unc := cov.uncovered(c); len(unc) > 0 {
		c.declined("binary driver table", unc)
		return false, ""
	}
	c.counts["R7:driver:table-cells"] = 8
	return true, ""
}

// checkBooleanLoop: the boolean element loop reads A and B at the same iterator coordinate and writes there.
func (c *Ctx) checkBooleanLoop() {
	var f *ssa.Function
	for _, fn := range c.libFns {
		if fnPkgPath(fn) == pkgOps && fn.Parent() == nil && len(fn.Params) == 3 && funcTypeBoolOp(fn.Params[2].Type()) {
			f = fn
		}
	}
	key := "R7:boolean-loop"
	if f == nil {
		// no function that takes the element function as a value (an enumeration with a method, three separate
		// loops ...): the clause is read off the kernels as a whole, on every assignment of truth values to two
		// (2,2) tensors - a result element that came from another position, or from the same operand twice, shows
		names := []string{}
		for n := range c.boolKernels {
			names = append(names, n)
		}
		sort.Strings(names)
		cells := 0
		var roots []*ssa.Function
		for _, n := range names {
			roots = append(roots, c.boolKernels[n])
		}
		cov := newCover(roots...)
		cov.skip = map[*ssa.Function]bool{}
		var bro []*ssa.Function
		for _, g := range c.libFns {
			if fnPkgPath(g) == pkgOps && g.Parent() == nil && g.Object() != nil && g.Object().Exported() && strings.Contains(g.Name(), "roadcast") {
				bro = append(bro, g)
			}
		}
		for g := range c.reachFrom(bro) {
			cov.skip[g] = true // the broadcast helpers are R36's subject
		}
		for _, n := range names {
			known, bad, k := c.booleanKernelExhaustive(c.boolKernels[n], n, cov)
			if !known {
				c.undecided("R7", key, "", "boolean element loop not found by role, and the "+n+" kernel cannot be followed as a whole")
				return
			}
			if bad != "" {
				c.violate("R7", key, c.pos(c.boolKernels[n].Pos()), bad)
				return
			}
			cells += k
		}
		if len(names) < 3 {
			c.undecided("R7", key, "", "boolean element loop not found by role")
			return
		}
		if unc := cov.uncovered(c); len(unc) > 0 {
			c.declined("boolean kernels as a whole", unc)
			c.undecided("R7", key, "", "boolean element loop not found by role, and the kernels walked as a whole leave code unentered: "+strings.Join(unc, "; "))
			return
		}
		c.discharge("R7", key, c.pos(c.boolKernels[names[0]].Pos()), fmt.Sprintf("no shared element loop taking a function value; %s walked as a whole on all %d assignments of truth values to two (2,2) tensors: every result element is the operator's function of the operands' elements at the same position", strings.Join(names, ", "), cells))
		return
	}
	var ats []*ssa.Call
	var setAt, opCall *ssa.Call
	var iter ssa.Value
	for _, b := range f.Blocks {
		for _, in := range b.Instrs {
			cl, ok := in.(*ssa.Call)
			if !ok {
				continue
			}
			name, _ := tensorMethod(cl)
			switch {
			case name == "At":
				ats = append(ats, cl)
			case name == "SetAt":
				setAt = cl
			case name == "Iterator":
				iter = cl
			case cl.Common().Value == ssa.Value(f.Params[2]):
				opCall = cl
			}
		}
	}
	coordOf := func(v ssa.Value) ssa.Value {
		cl, ok := v.(*ssa.Call)
		if !ok {
			return nil
		}
		if name, recv := tensorMethod(cl); name == "Coord" {
			return recv
		}
		return nil
	}
	ok := len(ats) == 2 && setAt != nil && opCall != nil && iter != nil
	why := "loop lacks At/At/SetAt/op"
	if ok {
		same := true
		for _, a := range ats {
			if coordOf(a.Common().Args[len(a.Common().Args)-1]) != iter {
				same = false
			}
		}
		if coordOf(setAt.Common().Args[len(setAt.Common().Args)-1]) != iter {
			same = false
		}
		if !same {
			ok, why = false, "A, B and the output are not addressed by the same iterator coordinate"
		}
		// op(valA, valB) in order: arg0 derives from At on (broadcast) A, arg1 from B
		recvOf := func(v ssa.Value) ssa.Value {
			for i := 0; i < 6; i++ {
				switch x := v.(type) {
				case *ssa.Extract:
					v = x.Tuple
				case *ssa.TypeAssert:
					v = x.X
				case *ssa.Call:
					_, r := tensorMethod(x)
					return r
				default:
					return nil
				}
			}
			return nil
		}
		ra, rb := recvOf(opCall.Common().Args[0]), recvOf(opCall.Common().Args[1])
		isFrom := func(v ssa.Value, idx int) bool {
			if v == ssa.Value(f.Params[idx]) {
				return true
			}
			if ex, isEx := v.(*ssa.Extract); isEx && ex.Index == idx {
				return true
			}
			return false
		}
		if ok && !(isFrom(ra, 0) && isFrom(rb, 1)) {
			ok, why = false, "the element function receives the operands in the wrong order (or the same operand twice)"
		}
	}
	if !ok {
		// the same clause over tensors with named elements, however the loop is written
		if known, tbad := c.booleanLoopTable(f); known {
			ok, why = tbad == "", tbad
		}
	}
	c.decide(ok, "R7", key, c.pos(f.Pos()), "out[coord] = op(A[coord], B[coord]) for the iterator's coordinate", why)
}

// booleanLoopTable walks the boolean element loop on two tensors of named elements and a stand-in for the element
// function: the result must have the operands' shape and hold op(a_i, b_i) at every position i.
func (c *Ctx) booleanLoopTable(f *ssa.Function) (known bool, bad string) {
	st := c.libInit()
	if len(st.failed) > 0 {
		return false, ""
	}
	cov := newCover(f)
	cov.skip = map[*ssa.Function]bool{}
	var bro []*ssa.Function
	for _, g := range c.libFns {
		if fnPkgPath(g) == pkgOps && g.Parent() == nil && g.Object() != nil && g.Object().Exported() && strings.Contains(g.Name(), "roadcast") {
			bro = append(bro, g)
		}
	}
	for g := range c.reachFrom(bro) {
		cov.skip[g] = true // the broadcast helpers are R36's subject
	}
	for _, shape := range [][]int64{{2, 3}, {3}, {1, 2, 1}} {
		heap := st.heap.clone()
		total := int64(1)
		for _, e := range shape {
			total *= e
		}
		mk := func(prefix string) pval {
			sl := make([]pval, len(shape))
			for i, e := range shape {
				sl[i] = pval{k: pInt, i: e}
			}
			cont := make([]pval, total)
			for k := range cont {
				cont[k] = pval{k: pStr, s: fmt.Sprintf("%s%d", prefix, k)}
			}
			return pval{k: pShaped, i: 900, j: heap.alloc(sl).i, m: heap.alloc(cont).i}
		}
		p := &pinterp{c: c, budget: 400000, objects: true, content: true, globals: st.globals, cover: cov, contentType: types.Typ[types.Bool]}
		panicked := ""
		p.onPanic = func(fn *ssa.Function, in ssa.Instruction, what string) { panicked = what + " at " + c.pos(in.Pos()) }
		p.onDyn = func(fn *ssa.Function, call *ssa.Call, args []pval, h *pheap) ([]pval, bool) {
			if len(args) == 3 && args[0].k == pHookFn && args[1].k == pStr && args[2].k == pStr {
				return []pval{{k: pStr, s: "op(" + args[1].s + "," + args[2].s + ")"}}, true
			}
			return nil, false
		}
		res, h := p.run(f, []pval{mk("a"), mk("b"), {k: pHookFn, i: 1}}, 0, heap)
		desc := "operands of shape " + fmtInts(shape)
		if panicked != "" {
			return true, "with " + desc + " the loop panics: " + panicked
		}
		if p.aborted || len(res) != 2 || h == nil {
			return false, ""
		}
		if nonNilKind(res[1].k) {
			return true, "with " + desc + " the loop ends in an error"
		}
		if res[1].k != pNil || res[0].k != pShaped || res[0].m == 0 || h.lists[res[0].j] == nil || h.lists[res[0].m] == nil {
			return false, ""
		}
		got := make([]int64, 0, len(shape))
		for _, e := range h.lists[res[0].j] {
			if e.k != pInt {
				return false, ""
			}
			got = append(got, e.i)
		}
		if fmtInts(got) != fmtInts(shape) {
			return true, fmt.Sprintf("with %s the result has shape %s", desc, fmtInts(got))
		}
		cont := h.lists[res[0].m]
		if int64(len(cont)) != total {
			return false, ""
		}
		for k, e := range cont {
			want := fmt.Sprintf("op(a%d,b%d)", k, k)
			if e.k != pStr {
				return false, ""
			}
			if e.s != want {
				return true, fmt.Sprintf("with %s element %d of the result is %s, expected %s (elements numbered in row-major order)", desc, k, e.s, want)
			}
		}
	}
	if unc := cov.uncovered(c); len(unc) > 0 {
		c.declined("boolean loop table", unc)
		return false, ""
	}
	return true, ""
}

func funcTypeBoolOp(t types.Type) bool {
	s, ok := t.Underlying().(*types.Signature)
	if !ok || s.Params().Len() != 2 || s.Results().Len() != 1 {
		return false
	}
	b, ok := s.Results().At(0).Type().Underlying().(*types.Basic)
	return ok && b.Kind() == types.Bool
}

// ---------------------------------------------------------------------------------------------
// unary
// ---------------------------------------------------------------------------------------------

var mathUnary = map[string]string{"Acos": "Acos", "Acosh": "Acosh", "Asin": "Asin", "Asinh": "Asinh", "Atan": "Atan", "Atanh": "Atanh",
	"Cos": "Cos", "Cosh": "Cosh", "Sin": "Sin", "Sinh": "Sinh", "Tan": "Tan"}

func ruleR7Unary(c *Ctx, prop string) {
	regs := c.regNamesByType()
	byReg := map[string]*opInfo{}
	for _, oi := range c.operators() {
		if oi.control {
			continue
		}
		for _, n := range regs[oi.named] {
			byReg[n] = oi
		}
	}
	n := 0
	for _, name := range propOps["C10"] {
		oi := byReg[name]
		key := "R7:unary:" + name
		if oi == nil {
			c.violate("R7", key, "", "operator "+name+" is not registered")
			continue
		}
		apply := oi.methods["Apply"]
		site := c.pos(apply.Pos())
		n++
		switch {
		case mathUnary[name] != "":
			c.checkGenericUnary(oi, name, key)
		case name == "Abs":
			c.decide(c.applyTerm(apply) == "Abs(P1[0])", "R7", key, site, "Abs = tensor.Abs(inputs[0])", "Abs computes "+c.applyTerm(apply))
		case name == "Tanh":
			t := c.applyTerm(apply)
			okT := t == "Tanh(P1[0])"
			if !okT {
				// through the ops wrapper
				okT = c.wrapperTerm(apply, "Tanh(P0)")
			}
			c.decide(okT, "R7", key, site, "Tanh = tensor.Tanh(inputs[0])", "Tanh computes "+t)
		case name == "Sigmoid":
			okS := c.wrapperTerm(apply, "Div(k(1),Add(k(1),Exp(Neg(P0))))")
			if !okS && c.applyTerm(apply) == "Sigmoid(P1[0])" {
				// the wrapper reached through a helper: its own body is judged as before
				for _, f := range c.libFns {
					if fnPkgPath(f) == pkgOps && f.Name() == "Sigmoid" && f.Parent() == nil && f.Signature.Recv() == nil {
						rets := returnsOf(f)
						for i := len(rets) - 1; i >= 0; i-- {
							if !isNilConst(rets[i].Results[0]) {
								okS = c.term(rets[i].Results[0], 0) == "Div(k(1),Add(k(1),Exp(Neg(P0))))"
								break
							}
						}
					}
				}
			}
			whyS := "Sigmoid does not have the dependency shape 1/(1+exp(-x)): " + c.wrapperGot(apply)
			if !okS {
				// however it is factored (in place on a private buffer, through helpers): the operator walked on named
				// elements
				if known, tbad, _ := c.sigmoidOperatorTable(); known {
					okS = tbad == ""
					if tbad != "" {
						whyS = tbad
					}
				}
			}
			c.decide(okS, "R7", key, site, "Sigmoid = 1/(1+exp(-x)) on the whole tensor", whyS)
		case name == "Relu":
			// which function is applied is R18's business; here: delegates inputs[0] to one library activation
			got := c.wrapperGot(apply)
			c.decide(got == "MaxBetween(P0,k(0))", "R7", key, site, "Relu = max(inputs[0], 0)", "Relu computes "+got+", expected max(x, 0)")
		case name == "Not":
			var fn *ssa.Function
			for _, b := range apply.Blocks {
				for _, in := range b.Instrs {
					if cl, ok := in.(*ssa.Call); ok {
						if nm, recv := tensorMethod(cl); nm == "Apply" && sameInputLoad(recv, apply.Params[1], 0) {
							fn = funcValueOf(cl.Common().Args[0])
							if cl.Common().IsInvoke() {
								fn = funcValueOf(cl.Common().Args[0])
							}
						}
					}
				}
			}
			tt := "?"
			if fn != nil {
				tt = truthTable(fn, 1)
			}
			whyNot := "element function has truth table " + tt + " (inputs 0,1), Not requires 10"
			if fn == nil {
				whyNot = "Not no longer negates through inputs[0].Apply(element function) (which also handles rank-0 tensors): the element function cannot be located and evaluated"
			}
			c.decide(tt == "10", "R7", key, site, "Not = inputs[0].Apply(x -> !x)", whyNot)
		case name == "PRelu":
			c.checkPRelu(oi, key)
		}
	}
	c.counts["R7.unary_rows"] = n
	if n < 17 {
		c.undecided("R7", "R7:floor:unary", "", fmt.Sprintf("%d unary rows (floor 17)", n))
	}
}

// applyTerm: term of the tensor Apply returns as its single output on the success path.
func (c *Ctx) applyTerm(apply *ssa.Function) string {
	for _, r := range returnsOf(apply) {
		if t, ok := c.singleOutputTerm(r.Results[0], 0); ok {
			return t
		}
	}
	return "<no single output>"
}

// singleOutputTerm: the term of the one element of a returned list - built here, or by an unexported helper whose
// result is returned as it is (the helper's parameters stand for the arguments of the call).
func (c *Ctx) singleOutputTerm(v ssa.Value, depth int) (string, bool) {
	switch x := v.(type) {
	case *ssa.Slice:
		if els := varargElems(x); len(els) == 1 {
			return c.term(els[0], 0), true
		}
	case *ssa.Extract:
		call, ok := x.Tuple.(*ssa.Call)
		if !ok || x.Index != 0 || depth > 2 {
			return "", false
		}
		sc := call.Common().StaticCallee()
		if sc == nil || !isLibFn(sc) || len(sc.Blocks) == 0 || !inlineableHelper(sc) || c.mutatesParams(sc, 0) {
			return "", false
		}
		subst := map[*ssa.Parameter]string{}
		substVals := map[*ssa.Parameter]ssa.Value{}
		for i, p := range sc.Params {
			if i < len(call.Common().Args) {
				subst[p] = c.term(call.Common().Args[i], 0)
				substVals[p] = call.Common().Args[i]
			}
		}
		c.termSubst = append(c.termSubst, subst)
		c.termSubstVals = append(c.termSubstVals, substVals)
		defer func() {
			c.termSubst = c.termSubst[:len(c.termSubst)-1]
			c.termSubstVals = c.termSubstVals[:len(c.termSubstVals)-1]
		}()
		for _, r := range returnsOf(sc) {
			if len(r.Results) == 0 {
				continue
			}
			if t, ok := c.singleOutputTerm(r.Results[0], depth+1); ok {
				return t, true
			}
		}
	}
	return "", false
}

// wrapperTerm: Apply's output is W(inputs[0]) for a library wrapper W whose own returned term is `want`.
func (c *Ctx) wrapperTerm(apply *ssa.Function, want string) bool {
	return c.wrapperGot(apply) == want
}

func (c *Ctx) wrapperGot(apply *ssa.Function) string {
	for _, b := range apply.Blocks {
		for _, in := range b.Instrs {
			if cl, ok := in.(*ssa.Call); ok {
				if sc := cl.Common().StaticCallee(); sc != nil && isLibFn(sc) && len(cl.Common().Args) == 1 && sameInputLoad(cl.Common().Args[0], apply.Params[1], 0) {
					rets := returnsOf(sc)
					// the success return is the last one (error returns carry nil)
					for i := len(rets) - 1; i >= 0; i-- {
						if !isNilConst(rets[i].Results[0]) {
							return c.term(rets[i].Results[0], 0)
						}
					}
				}
			}
		}
	}
	return "<no wrapper call on inputs[0]>"
}

// checkGenericUnary: per dtype case, inputs[0].Apply(f[T]) with f[T](x) = T(math.F(float64(x))), T matching the case.
func (c *Ctx) checkGenericUnary(oi *opInfo, name, key string) {
	apply := oi.methods["Apply"]
	site := c.pos(apply.Pos())
	bad := ""
	seen := map[string]bool{}
	for _, b := range apply.Blocks {
		for _, in := range b.Instrs {
			cl, ok := in.(*ssa.Call)
			if !ok {
				continue
			}
			nm, recv := tensorMethod(cl)
			if nm != "Apply" {
				continue
			}
			if !sameInputLoad(recv, apply.Params[1], 0) {
				bad = "the element function is applied to something other than inputs[0]"
				continue
			}
			args := cl.Common().Args
			fnArg := args[0]
			if !cl.Common().IsInvoke() {
				fnArg = args[1]
			}
			fn := funcValueOf(fnArg)
			if fn == nil || len(fn.TypeArgs()) != 1 {
				bad = "element function is not a generic instance"
				continue
			}
			T := fn.TypeArgs()[0].String()
			// which dtype case dominates this call?
			caseT := ""
			for _, g := range guardsOf(b) {
				for _, a := range atomsOf(g) {
					if a.op != token.EQL {
						continue
					}
					for _, side := range []ssa.Value{a.x, a.y} {
						if ld, ok := side.(*ssa.UnOp); ok {
							if gl, ok := ld.X.(*ssa.Global); ok && gl.Pkg != nil && gl.Pkg.Pkg.Path() == pkgTensor {
								caseT = dtypeGo[gl.Name()]
							}
						}
					}
				}
			}
			if caseT != T {
				bad = fmt.Sprintf("dtype case %s applies the %s instance: elements are read as the wrong type (the closure is never called or panics inside gorgonia)", caseT, T)
			}
			seen[T] = true
			// body: T(math.F(float64(x)))
			got := c.kernelTerm(fn)
			want := mathUnary[name] + "(P0)"
			if got != want {
				bad = fmt.Sprintf("%s instance computes %s, expected math.%s(x)", T, got, mathUnary[name])
			}
			// must be math package
			for _, b2 := range fn.Blocks {
				for _, in2 := range b2.Instrs {
					if c2, ok := in2.(*ssa.Call); ok {
						if sc := c2.Common().StaticCallee(); sc == nil || fnPkgPath(sc) != "math" {
							bad = "element function calls outside package math"
						}
					}
				}
			}
		}
	}
	if !seen["float32"] || !seen["float64"] {
		bad = firstNonEmpty(bad, "float32 and float64 are not both computed")
	}
	// the same facts over the finite dtype table, however the dispatch is written
	if known, tbad := c.unaryDtypeTable(oi, name); known {
		bad = tbad
	}
	c.decide(bad == "", "R7", key, site, name+": case Float32 -> "+strings.ToLower(name)+"[float32], Float64 -> [float64], body T(math."+mathUnary[name]+"(float64(x)))", bad)
}

// checkPRelu: broadcast order and the kernel's control dependence on the sign of the input.
func (c *Ctx) checkPRelu(oi *opInfo, key string) {
	apply := oi.methods["Apply"]
	site := c.pos(apply.Pos())
	bad := ""
	// UnidirectionalBroadcast(x, slope) in that order
	found := false
	for _, b := range apply.Blocks {
		for _, in := range b.Instrs {
			if cl, ok := in.(*ssa.Call); ok {
				if sc := cl.Common().StaticCallee(); sc != nil && sc.Name() == "UnidirectionalBroadcast" {
					found = true
					a := cl.Common().Args
					if !sameInputLoad(a[0], apply.Params[1], 0) || !sameInputLoad(a[1], apply.Params[1], 1) {
						bad = "slope is not broadcast unidirectionally to the input (operands swapped)"
					}
				} else if sc != nil && sc.Name() == "MultidirectionalBroadcast" {
					bad = "slope is broadcast multidirectionally: the output can take the slope's shape instead of the input's"
				}
			}
		}
	}
	if !found && bad == "" {
		bad = "slope is not unidirectionally broadcast to the input"
	}
	// kernel instances
	nK := 0
	for f := range c.reachFrom([]*ssa.Function{apply}) {
		if len(f.TypeArgs()) != 1 || recvNamed(f) != nil || f.Pkg != nil && f.Pkg.Pkg.Path() != pkgOpset13 {
			continue
		}
		if fnPkgPath(f) != pkgOpset13 {
			continue
		}
		nK++
		// every call of this instance in Apply is fed Data() of the two broadcast results, in order
		for _, bb := range apply.Blocks {
			for _, in := range bb.Instrs {
				cl, ok := in.(*ssa.Call)
				if !ok || cl.Common().StaticCallee() != f || len(cl.Common().Args) != 2 || bad != "" {
					continue
				}
				t0, t1 := c.term(cl.Common().Args[0], 0), c.term(cl.Common().Args[1], 0)
				// the broadcast operands in order, as their data or as the tensors themselves (the kernel reads Data() then)
				strip := func(t string) string {
					if strings.HasPrefix(t, "Data(") && strings.HasSuffix(t, ")") {
						return t[len("Data(") : len(t)-1]
					}
					return t
				}
				if strip(t0) != "UnidirectionalBroadcast(P1[0],P1[1])" || strip(t1) != "UnidirectionalBroadcast(P1[0],P1[1])#1" || (strip(t0) == t0) != (strip(t1) == t1) {
					bad = fmt.Sprintf("the element kernel is not (always) fed the unidirectionally broadcast operands: it receives (%s, %s); a slope that is not materialised to the input's shape is indexed by position, not by axis", t0, t1)
					site = c.pos(cl.Pos())
				}
			}
		}
		if w := c.preluKernelShape(f); w != "" && bad == "" {
			// the structural pattern is one spelling; where it is not recognised the integer instance is decided by table
			if tw, decided := c.preluKernelTable(f); decided && tw == "" {
				c.counts["R7.prelu_kernels_by_table"]++
			} else {
				bad = w
				if decided {
					bad = tw
				}
				site = c.pos(f.Pos())
			}
		}
	}
	if nK == 0 && bad == "" {
		bad = "no element kernel instance found"
	}
	c.decide(bad == "", "R7", key, site, fmt.Sprintf("PRelu: UnidirectionalBroadcast(x, slope); %d kernel instances: out[i] = x[i] if x[i] >= 0 else slope[i]*x[i] (slope enters only on the negative branch)", nK), bad)
}

func (c *Ctx) preluKernelShape(f *ssa.Function) string {
	// store into result[i] of phi(x[i], slope[i]*x[i]) where the product is computed under x[i] < 0
	for _, b := range f.Blocks {
		for _, in := range b.Instrs {
			st, ok := in.(*ssa.Store)
			if !ok {
				continue
			}
			ia, ok := st.Addr.(*ssa.IndexAddr)
			if !ok {
				continue
			}
			if _, isBasic := ia.X.Type().Underlying().(*types.Slice); !isBasic {
				continue
			}
			phi, ok := st.Val.(*ssa.Phi)
			if !ok {
				return "the result element is not chosen between x and slope*x by the sign of x: slope takes part in the result for non-negative inputs too (NaN for infinite slopes, -0 lost)"
			}
			okKeep, okMul := false, false
			for _, e := range phi.Edges {
				if m, isMul := e.(*ssa.BinOp); isMul && m.Op == token.MUL {
					// both factors are read at the element's own position (the index the result is stored at)
					for _, fct := range []ssa.Value{m.X, m.Y} {
						if ld, isLd := fct.(*ssa.UnOp); isLd {
							if fia, isIA := ld.X.(*ssa.IndexAddr); isIA && fia.Index != ia.Index {
								return "a factor of slope*x is read at an index other than the element's own position (slope applied cyclically or shifted instead of per broadcast element)"
							}
						}
					}
					// guarded by v < 0 where v is the other edge value
					for _, g := range guardsOf(m.Block()) {
						for _, a := range atomsOf(g) {
							if z, isK := a.y.(*ssa.Const); isK && a.op == token.LSS && z.Value != nil && constant.Sign(z.Value) == 0 && (a.x == m.X || a.x == m.Y) {
								okMul = true
							}
						}
					}
				} else {
					okKeep = true
				}
			}
			if !okKeep || !okMul {
				return "the product with slope is not confined to the x < 0 branch"
			}
			return ""
		}
	}
	return "no element store found in the kernel"
}

// ---------------------------------------------------------------------------------------------
// R18 — no select-by-multiplication
// ---------------------------------------------------------------------------------------------

func ruleR18(c *Ctx, prop string) {
	cmp := map[string]bool{"Gt": true, "Gte": true, "Lt": true, "Lte": true, "ElEq": true, "ElNe": true}
	n := 0
	perFn := map[string]int{}
	var roots []*ssa.Function
	switch prop {
	case "C10":
		for _, name := range propOps["C10"] {
			if oi := c.opByName(name); oi != nil {
				roots = append(roots, oi.methods["Apply"])
			}
		}
	case "C06":
		for _, name := range []string{"RNN", "GRU", "LSTM"} {
			if oi := c.opByName(name); oi != nil {
				roots = append(roots, oi.methods["Apply"])
			}
		}
		for _, f := range c.libFns {
			if fnPkgPath(f) == pkgOps && f.Parent() == nil && (f.Name() == "ReLU" || f.Name() == "Sigmoid" || f.Name() == "Tanh") {
				roots = append(roots, f)
			}
		}
	}
	reach := c.reachFrom(roots)
	for f := range reach {
		for _, b := range f.Blocks {
			for _, in := range b.Instrs {
				cl, ok := in.(*ssa.Call)
				if !ok {
					continue
				}
				sc := cl.Common().StaticCallee()
				if sc == nil || fnPkgPath(sc) != pkgTensor || sc.Name() != "Mul" {
					continue
				}
				n++
				// is an operand (through conversions / extract) the result of a comparison kernel?
				for _, a := range cl.Common().Args[:2] {
					v := unwrapConv(a)
					if ex, ok := v.(*ssa.Extract); ok {
						v = ex.Tuple
					}
					if c2, ok := v.(*ssa.Call); ok {
						if s2 := c2.Common().StaticCallee(); s2 != nil && fnPkgPath(s2) == pkgTensor && cmp[s2.Name()] {
							perFn[fname(f)]++
							c.violate("R18", fmt.Sprintf("R18:mul-by-mask:%s#%d", fname(f), perFn[fname(f)]), c.pos(cl.Pos()),
								"an activation selects by multiplying the input with a comparison mask (x * (x > 0)): by IEEE-754 0 * -Inf = NaN, so -Inf (and NaN handling) differs from max(x,0); -0 results also appear")
						}
					}
				}
			}
		}
	}
	c.counts["R18.mul_sites"] = n
	if len(perFn) == 0 {
		c.discharge("R18", "R18:mul-by-mask:none", "", fmt.Sprintf("%d tensor.Mul sites reachable; none multiplies by a comparison mask", n))
	}
	// positive control
	st := StDischarged
	for _, f := range c.ctlFns {
		if f.Name() != "BadSelectByMul" {
			continue
		}
		for _, b := range f.Blocks {
			for _, in := range b.Instrs {
				if cl, ok := in.(*ssa.Call); ok {
					if sc := cl.Common().StaticCallee(); sc != nil && sc.Name() == "Mul" && fnPkgPath(sc) == pkgTensor {
						for _, a := range cl.Common().Args[:2] {
							v := unwrapConv(a)
							if ex, ok := v.(*ssa.Extract); ok {
								v = ex.Tuple
							}
							if c2, ok := v.(*ssa.Call); ok {
								if s2 := c2.Common().StaticCallee(); s2 != nil && cmp[s2.Name()] {
									st = StViolated
								}
							}
						}
					}
				}
			}
		}
	}
	c.add(Obligation{Rule: "R18", Key: "R18:ctl:bad:BadSelectByMul", Status: st, Control: true, Why: "control: x * (x > 0)"})
	c.wantControls = append(c.wantControls, "R18:ctl:bad:BadSelectByMul")
}

// preluKernelTable walks an integer instance of the element kernel over small operands: out[i] = x[i] for
// x[i] >= 0 and slope[i]*x[i] otherwise, at every position (slopes are pairwise different, so a cyclic or shifted
// slope shows). decided=false: not an integer instance, or the walk could not follow it.
func (c *Ctx) preluKernelTable(f *ssa.Function) (string, bool) {
	if f.Signature.Results().Len() != 2 {
		return "", false
	}
	st, ok := f.Signature.Results().At(0).Type().Underlying().(*types.Slice)
	if !ok {
		return "", false
	}
	bt, ok := st.Elem().Underlying().(*types.Basic)
	if !ok || bt.Info()&types.IsInteger == 0 || bt.Info()&types.IsUnsigned != 0 {
		// the float instances share the generic body; they are judged through an integer instance of the same
		// generic function
		if orig := f.Origin(); orig != nil {
			for _, g := range c.libFns {
				if g != f && g.Origin() == orig {
					if s2, ok := g.Signature.Results().At(0).Type().Underlying().(*types.Slice); ok {
						if b2, ok := s2.Elem().Underlying().(*types.Basic); ok && b2.Info()&types.IsInteger != 0 && b2.Info()&types.IsUnsigned == 0 {
							return c.preluKernelTable(g)
						}
					}
				}
			}
		}
		return "", false
	}
	cov := newCover(f)
	for _, cell := range [][2][]int64{
		{{-3, -1, 0, 2, 5}, {2, 3, 4, 5, 6}},
		{{4}, {7}},
		{{-4}, {7}},
		{{-1, -1, -1}, {2, 3, 5}},
	} {
		heap := newHeap()
		mk := func(l []int64) pval {
			pl := make([]pval, len(l))
			for i, v := range l {
				pl[i] = pval{k: pInt, i: v}
			}
			return heap.alloc(pl)
		}
		p := &pinterp{c: c, budget: 100000, objects: true, listsAreSlicesOf: st.Elem(), cover: cov}
		res, h := p.run(f, []pval{mk(cell[0]), mk(cell[1])}, 0, heap)
		if h == nil || len(res) != 2 || res[1].k != pNil || res[0].k != pList || h.lists[res[0].i] == nil {
			return "", false
		}
		got := h.lists[res[0].i]
		if len(got) != len(cell[0]) {
			return fmt.Sprintf("for x = %s the kernel returns %d elements", fmtInts(cell[0]), len(got)), true
		}
		for i, x := range cell[0] {
			want := x
			if x < 0 {
				want = cell[1][i] * x
			}
			if got[i].k != pInt {
				return "", false
			}
			if got[i].i != want {
				return fmt.Sprintf("for x = %s and slope = %s element %d of the result is %d, PRelu prescribes %d (x if x >= 0, slope*x otherwise, slope taken at the element's own position)", fmtInts(cell[0]), fmtInts(cell[1]), i, got[i].i, want), true
			}
		}
	}
	// integers cannot show what a floating point slope does to a non-negative input (Inf*0 = NaN, -0): the same
	// cells with the slope as tokens - the slope may take part in the result of a negative input only, once, as
	// a factor of that input
	for _, xs := range [][]int64{{-3, -1, 0, 2, 5}, {4}, {-4}} {
		heap := newHeap()
		px, ps := make([]pval, len(xs)), make([]pval, len(xs))
		for i, v := range xs {
			px[i] = pval{k: pInt, i: v}
			ps[i] = pval{k: pTok, i: int64(i)}
		}
		p := &pinterp{c: c, budget: 100000, objects: true, listsAreSlicesOf: st.Elem()}
		res, h := p.run(f, []pval{heap.alloc(px), heap.alloc(ps)}, 0, heap)
		if h == nil || len(res) != 2 || res[1].k != pNil || res[0].k != pList || h.lists[res[0].i] == nil || len(h.lists[res[0].i]) != len(xs) {
			return "", false
		}
		for i, g := range h.lists[res[0].i] {
			x := xs[i]
			switch {
			case x >= 0 && g.k == pInt && g.i == x:
			case x >= 0 && g.k == pTok:
				return "the result element is not chosen between x and slope*x by the sign of x: slope takes part in the result for non-negative inputs too (NaN for infinite slopes, -0 lost)", true
			case x < 0 && g.k == pTok && g.i == int64(i) && (g.s == fmt.Sprintf("|x * %d", x) || g.s == fmt.Sprintf("|%d * x", x)):
			case x < 0 && g.k == pTok && g.i != int64(i):
				return "a factor of slope*x is read at an index other than the element's own position (slope applied cyclically or shifted instead of per broadcast element)", true
			default:
				return "", false
			}
		}
	}
	if unc := cov.uncovered(c); len(unc) > 0 {
		c.declined("PRelu kernel table of "+fname(f), unc)
		return "", false
	}
	return "", true
}

// inlineableHelper: unexported functions and methods of the root and operator packages (helpers a refactoring
// introduces); the exported API of package ops is the vocabulary the expectations are written in.
func inlineableHelper(f *ssa.Function) bool {
	if f.Object() == nil || f.Object().Exported() {
		return false
	}
	p := fnPkgPath(f)
	return p == pkgOpset13 || p == modPath || p == pkgOps
}

// inlineTerm renders what f returns on success, with f's parameters replaced by the terms of the arguments:
// one success return gives that term, several give phi(...) of them in a canonical order.
func (c *Ctx) inlineTerm(f *ssa.Function, args []ssa.Value, depth int) (string, bool) {
	if c.mutatesParams(f, 0) {
		// a helper that writes into what it was handed does not stand for what it returns (seed C03-r9: a pass
		// over the quotients that corrects some of them in place and returns its `out` parameter)
		return "", false
	}
	ei := errResultIndex(f.Signature)
	var rets []*ssa.Return
	for _, r := range returnsOf(f) {
		if ei >= 0 && !isNilConst(r.Results[ei]) && !c.errIsCallErr(r.Results[ei]) {
			continue
		}
		if ei >= 0 && len(r.Results) > 0 && isNilConst(r.Results[0]) && ei != 0 {
			continue // (nil, err) forms
		}
		rets = append(rets, r)
	}
	if len(rets) == 0 || len(rets) > 3 {
		return "", false
	}
	subst := map[*ssa.Parameter]string{}
	for i, p := range f.Params {
		if i < len(args) {
			subst[p] = c.term(args[i], depth+1)
		}
	}
	substVals := map[*ssa.Parameter]ssa.Value{}
	for i, p := range f.Params {
		if i < len(args) {
			substVals[p] = args[i]
		}
	}
	c.termSubst = append(c.termSubst, subst)
	c.termSubstVals = append(c.termSubstVals, substVals)
	defer func() {
		c.termSubst = c.termSubst[:len(c.termSubst)-1]
		c.termSubstVals = c.termSubstVals[:len(c.termSubstVals)-1]
	}()
	var parts []string
	for _, r := range rets {
		if len(r.Results) == 0 {
			return "", false
		}
		parts = append(parts, c.term(r.Results[0], depth+1))
	}
	if len(parts) == 1 {
		return parts[0], true
	}
	sort.Strings(parts)
	// shorter alternative first: phi(x|f(x)) is how an if without else renders
	sort.SliceStable(parts, func(i, j int) bool { return len(parts[i]) < len(parts[j]) })
	return "phi(" + strings.Join(parts, "|") + ")", true
}

// rulePReluKernel: PRelu's broadcast order and element kernel under the properties that have PRelu in their
// quantifier without the other unary operators (C16: a sample's result must not depend on how many others there are).
func rulePReluKernel(c *Ctx, prop string) {
	if oi := c.opByName("PRelu"); oi != nil {
		c.checkPRelu(oi, "R7:unary:PRelu")
	}
}

// mutatesParams: the library function (or a function literal in it, or a library function it hands a parameter
// to) writes storage reachable from one of its parameters - elements, header or fields.
func (c *Ctx) mutatesParams(f *ssa.Function, depth int) bool {
	if c.mutParamMemo == nil {
		c.mutParamMemo = map[*ssa.Function]bool{}
	}
	if v, ok := c.mutParamMemo[f]; ok {
		return v
	}
	c.mutParamMemo[f] = false // cycles: assume not, the outer call decides
	res := false
	within := map[*ssa.Function]bool{f: true}
	var addAnon func(g *ssa.Function)
	addAnon = func(g *ssa.Function) {
		for _, a := range g.AnonFuncs {
			within[a] = true
			addAnon(a)
		}
	}
	addAnon(f)
	rooted := func(v ssa.Value) bool {
		for i := 0; i < 12 && v != nil; i++ {
			v = baseOf(unwrapConv(v))
			switch x := v.(type) {
			case *ssa.Parameter:
				return x.Parent() == f
			case *ssa.FreeVar:
				return true
			case *ssa.Extract:
				v = x.Tuple
			case *ssa.TypeAssert:
				v = x.X
			case *ssa.MakeInterface:
				v = x.X
			case *ssa.ChangeInterface:
				v = x.X
			case *ssa.FieldAddr:
				v = x.X
			case *ssa.UnOp:
				v = x.X
			case *ssa.Phi:
				for _, e := range x.Edges {
					if p, ok := unwrapConv(e).(*ssa.Parameter); ok && p.Parent() == f {
						return true
					}
				}
				return false
			default:
				return false
			}
		}
		return false
	}
	ef := c.effects()
	for _, s := range ef.real.sites {
		if within[s.fn] && s.what != "store-global" && rooted(s.target) {
			res = true
			break
		}
	}
	if !res && depth < 3 {
		for g := range within {
			for _, b := range g.Blocks {
				for _, in := range b.Instrs {
					cl, ok := in.(*ssa.Call)
					if !ok {
						continue
					}
					sc := cl.Common().StaticCallee()
					if sc == nil || !isLibFn(sc) || within[sc] {
						continue
					}
					for _, a := range cl.Common().Args {
						if rooted(a) && c.mutatesParams(sc, depth+1) {
							res = true
						}
					}
				}
			}
		}
	}
	c.mutParamMemo[f] = res
	return res
}

// booleanKernelExhaustive walks a boolean kernel on every assignment of truth values to two (2,2) tensors (256 walks):
// result[i] = op(A[i], B[i]) at every position. Unlike the four-pair table this tells positions apart.
func (c *Ctx) booleanKernelExhaustive(kernel *ssa.Function, name string, cov *pcover) (known bool, bad string, cells int) {
	st := c.libInit()
	want, ok := boolTables[name]
	if !ok || kernel == nil || len(kernel.Params) != 2 || len(st.failed) > 0 {
		return false, "", 0
	}
	for av := 0; av < 16; av++ {
		for bv := 0; bv < 16; bv++ {
			heap := st.heap.clone()
			mk := func(bits int) pval {
				cont := make([]pval, 4)
				for i := range cont {
					cont[i] = pval{k: pBool, b: bits>>uint(i)&1 == 1}
				}
				return pval{k: pShaped, i: 900, j: heap.alloc([]pval{{k: pInt, i: 2}, {k: pInt, i: 2}}).i, m: heap.alloc(cont).i}
			}
			p := &pinterp{c: c, budget: 400000, objects: true, content: true, globals: st.globals, contentType: types.Typ[types.Bool], cover: cov}
			panicked := ""
			p.onPanic = func(fn *ssa.Function, in ssa.Instruction, what string) { panicked = what + " at " + c.pos(in.Pos()) }
			res, h := p.run(kernel, []pval{mk(av), mk(bv)}, 0, heap)
			desc := fmt.Sprintf("on (2,2) tensors holding A=%04b, B=%04b (positions 3..0)", av, bv)
			if panicked != "" {
				return true, "the " + name + " kernel panics " + desc + ": " + panicked, cells
			}
			if p.aborted || len(res) != 2 || h == nil {
				return false, "", cells
			}
			if nonNilKind(res[1].k) {
				return true, "the " + name + " kernel refuses two (2,2) tensors of truth values", cells
			}
			if res[1].k != pNil || res[0].k != pShaped || res[0].m == 0 {
				return false, "", cells
			}
			cont, shl := h.lists[res[0].m], h.lists[res[0].j]
			if len(shl) != 2 || shl[0].k != pInt || shl[1].k != pInt {
				return false, "", cells
			}
			if len(cont) != 4 || shl[0].i != 2 || shl[1].i != 2 {
				return true, fmt.Sprintf("the %s kernel answers two (2,2) tensors with a tensor of shape (%d,%d)", name, shl[0].i, shl[1].i), cells
			}
			for i, e := range cont {
				if e.k != pBool {
					return false, "", cells
				}
				a, b := av>>uint(i)&1, bv>>uint(i)&1
				if w := want[2*a+b] == '1'; e.b != w {
					return true, fmt.Sprintf("%s: the %s kernel yields %v at flat position %d, where A holds %v and B holds %v", desc, name, e.b, i, a == 1, b == 1), cells
				}
			}
			cells++
		}
	}
	return true, "", cells
}

// booleanKernelTable walks a boolean kernel func(A, B tensor.Tensor) (tensor.Tensor, error) on two (2,2) tensors
// holding every pair of truth values: the result has to hold the operator's truth table.
func (c *Ctx) booleanKernelTable(kernel *ssa.Function, name string) (known bool, bad string) {
	st := c.libInit()
	want, ok := boolTables[name]
	if !ok || kernel == nil || len(kernel.Params) != 2 || len(st.failed) > 0 {
		return false, ""
	}
	heap := st.heap.clone()
	mk := func(vals [4]bool) pval {
		cont := make([]pval, 4)
		for i, v := range vals {
			cont[i] = pval{k: pBool, b: v}
		}
		return pval{k: pShaped, i: 900, j: heap.alloc([]pval{{k: pInt, i: 2}, {k: pInt, i: 2}}).i, m: heap.alloc(cont).i}
	}
	// positions: (0,0) (0,1) (1,0) (1,1) in the order of the truth tables
	A, B := mk([4]bool{false, false, true, true}), mk([4]bool{false, true, false, true})
	p := &pinterp{c: c, budget: 400000, objects: true, content: true, globals: st.globals, contentType: types.Typ[types.Bool]}
	panicked := ""
	p.onPanic = func(fn *ssa.Function, in ssa.Instruction, what string) { panicked = what + " at " + c.pos(in.Pos()) }
	res, h := p.run(kernel, []pval{A, B}, 0, heap)
	if panicked != "" {
		return true, "the kernel panics on two (2,2) tensors of truth values: " + panicked
	}
	if p.aborted || len(res) != 2 || h == nil {
		return false, ""
	}
	if nonNilKind(res[1].k) {
		return true, "the kernel refuses two (2,2) tensors of truth values"
	}
	if res[1].k != pNil || res[0].k != pShaped || res[0].m == 0 {
		return false, ""
	}
	cont, shl := h.lists[res[0].m], h.lists[res[0].j]
	if len(cont) != 4 || len(shl) != 2 || shl[0].i != 2 || shl[1].i != 2 {
		return false, ""
	}
	got := ""
	for _, e := range cont {
		if e.k != pBool {
			return false, ""
		}
		if e.b {
			got += "1"
		} else {
			got += "0"
		}
	}
	if got != want {
		return true, fmt.Sprintf("on the four pairs of truth values (00, 01, 10, 11) the kernel yields %s, %s requires %s", got, name, want)
	}
	return true, ""
}
