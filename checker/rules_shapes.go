package main

import (
	"fmt"
	"go/token"
	"go/types"
	"sort"
	"strings"

	"golang.org/x/tools/go/ssa"
)

// R17 — validateShapes structure and introspection agreement (C13).

func isLenCallOf(v, of ssa.Value) bool {
	call, ok := v.(*ssa.Call)
	if !ok {
		return false
	}
	b, ok := call.Common().Value.(*ssa.Builtin)
	return ok && b.Name() == "len" && len(call.Common().Args) == 1 && call.Common().Args[0] == of
}

// edgeGuards: guards known on the CFG edge pred -> succ.
func edgeGuards(pred, succ *ssa.BasicBlock) []guard {
	gs := guardsOf(pred)
	if iff, ok := pred.Instrs[len(pred.Instrs)-1].(*ssa.If); ok && pred.Succs[0] != pred.Succs[1] {
		gs = append(gs, guard{cond: iff.Cond, truth: pred.Succs[0] == succ, at: pred})
	}
	return gs
}

func ruleR17(c *Ctx, prop string) {
	mi := c.findModel()
	if mi == nil || mi.run == nil {
		c.violate("R17", "R17:anchor", "", "Model/Run not found")
		return
	}
	v := c.findValidator(mi)
	if v == nil {
		c.violate("R17", "R17:V1", c.pos(mi.run.Pos()), "Run has no shape validator")
		return
	}
	site := c.pos(v.Pos())
	inPar := v.Params[1]

	// V1: outer loop ranges over the declared input shapes
	var rng *ssa.Range
	var shapesCall *ssa.Call
	for _, b := range v.Blocks {
		for _, in := range b.Instrs {
			if r, ok := in.(*ssa.Range); ok {
				if call, ok := r.X.(*ssa.Call); ok {
					if n, ok := call.Type().(*types.Named); ok && n.Obj().Name() == "Shapes" {
						rng, shapesCall = r, call
					}
				}
			}
		}
	}
	if rng == nil {
		c.violate("R17", "R17:V1", site, "validator does not iterate the declared input shapes")
		return
	}
	c.discharge("R17", "R17:V1", c.pos(rng.Pos()), "iterates "+callName(shapesCall)+"()")
	var next *ssa.Next
	for _, r := range *rng.Referrers() {
		if n, ok := r.(*ssa.Next); ok {
			next = n
		}
	}
	if next == nil {
		c.undecided("R17", "R17:V2", site, "range without next")
		return
	}
	hOuter := next.Block()
	var keyV, shapeV ssa.Value
	for _, r := range *next.Referrers() {
		if ex, ok := r.(*ssa.Extract); ok {
			switch ex.Index {
			case 1:
				keyV = ex
			case 2:
				shapeV = ex
			}
		}
	}
	if keyV == nil || shapeV == nil {
		c.violate("R17", "R17:V2", site, "validator ignores the name or the declared shape of an input")
		return
	}

	// V3: presence: comma-ok lookup of the caller's map by the declared name; miss => error
	var inLk *ssa.Lookup
	for _, b := range v.Blocks {
		for _, in := range b.Instrs {
			if lk, ok := in.(*ssa.Lookup); ok && lk.X == inPar && lk.Index == keyV {
				inLk = lk
			}
		}
	}
	okV3 := false
	var tensorV ssa.Value
	if inLk != nil && inLk.CommaOk {
		tensorV = resultOfLookup(inLk, 0)
		if okEx := resultOfLookup(inLk, 1); okEx != nil {
			for _, r := range *okEx.Referrers() {
				if iff, ok := r.(*ssa.If); ok && c.edgeRejects(iff, false) {
					okV3 = true
				}
			}
		}
	}
	c.decide(okV3, "R17", "R17:V3", site, "a declared input missing from the caller's map returns an error", "a missing declared input is not refused (no comma-ok lookup with a rejecting miss edge)")
	if tensorV == nil {
		return
	}
	// shapeReceived
	var shapeRecv ssa.Value
	for _, r := range *tensorV.Referrers() {
		if call, ok := r.(*ssa.Call); ok && call.Common().IsInvoke() && call.Common().Method.Name() == "Shape" {
			shapeRecv = call
		}
	}
	if shapeRecv == nil {
		c.violate("R17", "R17:V4", site, "the supplied tensor's shape is never read")
		return
	}

	// V4: rank equality with rejecting inequality dominates every shapeReceived[i]
	okV4 := true
	whyV4 := ""
	nIdx := 0
	var recvIdx []*ssa.IndexAddr
	for _, r := range *shapeRecv.Referrers() {
		ia, ok := r.(*ssa.IndexAddr)
		if !ok {
			continue
		}
		nIdx++
		recvIdx = append(recvIdx, ia)
		found := false
		for _, g := range guardsOf(ia.Block()) {
			for _, a := range atomsOf(g) {
				if a.op == token.EQL && ((isLenCallOf(a.x, shapeRecv) && isLenCallOf(a.y, shapeV)) || (isLenCallOf(a.y, shapeRecv) && isLenCallOf(a.x, shapeV))) && c.edgeRejectsAt(g) {
					found = true
				}
			}
		}
		if !found {
			okV4, whyV4 = false, "a dimension of the supplied tensor is read without the ranks having been found equal (wrong-rank tensors are accepted or index out of range)"
		}
	}
	if nIdx == 0 {
		// rank check must still exist
		found := false
		for _, b := range v.Blocks {
			for _, g := range guardsOf(b) {
				for _, a := range atomsOf(g) {
					if a.op == token.EQL && ((isLenCallOf(a.x, shapeRecv) && isLenCallOf(a.y, shapeV)) || (isLenCallOf(a.y, shapeRecv) && isLenCallOf(a.x, shapeV))) && c.edgeRejectsAt(g) {
						found = true
					}
				}
			}
		}
		if !found {
			okV4, whyV4 = false, "rank of the supplied tensor is never compared with the declared rank"
		}
	}
	c.decide(okV4, "R17", "R17:V4", c.pos(shapeRecv.Pos()), "len(received) != len(declared) returns an error before any dimension is read", whyV4)

	// V5: per-dimension comparison at the same index, guarded by !IsDynamic, inequality rejects
	okV5 := false
	whyV5 := "no per-dimension comparison of the declared size with the supplied extent"
	var cmpBlock *ssa.BasicBlock
	var innerIdx ssa.Value
	for _, ia := range recvIdx {
		// the declared Dim at the same index
		for _, b := range v.Blocks {
			for _, in := range b.Instrs {
				bo, ok := in.(*ssa.BinOp)
				if !ok || (bo.Op != token.NEQ && bo.Op != token.EQL) {
					continue
				}
				l, r := c.traceDimSize(bo.X, shapeV), c.traceRecvExtent(bo.Y, shapeRecv)
				if l == nil || r == nil {
					l, r = c.traceDimSize(bo.Y, shapeV), c.traceRecvExtent(bo.X, shapeRecv)
				}
				if l == nil || r == nil || r != ssa.Value(ia.Index) {
					continue
				}
				if l != r {
					whyV5 = "declared dimension i is compared with the supplied extent at a different index"
					continue
				}
				// inequality edge rejects
				rej := false
				for _, r2 := range *bo.Referrers() {
					if iff, ok := r2.(*ssa.If); ok && c.edgeRejects(iff, bo.Op == token.NEQ) {
						rej = true
					}
				}
				if !rej {
					whyV5 = "a dimension mismatch does not return an error"
					continue
				}
				okV5 = true
				cmpBlock = bo.Block()
				innerIdx = ia.Index
			}
		}
	}
	if okV5 && !fullRangeLoop(innerIdx, shapeV) {
		okV5, whyV5 = false, "the dimension loop does not visit every declared dimension"
	}
	c.decide(okV5, "R17", "R17:V5", site, "for every i: declared[i].Size != int64(received[i]) returns an error (same i)", whyV5)

	// V2: early exits of an iteration
	okV2 := true
	whyV2 := ""
	hInner := loopHeaderOfIndex(innerIdx)
	for _, p := range hOuter.Preds {
		if !hOuter.Dominates(p) {
			continue
		}
		if p == hInner {
			continue // inner loop exhausted: every dimension was judged
		}
		// must be the "name is a parameter" skip
		ok := false
		for _, g := range edgeGuards(p, hOuter) {
			if ex, isEx := stripNot(g.cond).(*ssa.Extract); isEx && ex.Index == 1 {
				if lk, isLk := ex.Tuple.(*ssa.Lookup); isLk && lk.Index == keyV && c.isWeightsLoad(lk.X, mi) && g.truth != isNegated(g.cond) {
					ok = true
				}
			}
		}
		if !ok {
			okV2, whyV2 = false, "an input can be skipped for a reason other than being an initializer"
		}
	}
	if hInner != nil {
		for _, p := range hInner.Preds {
			if !hInner.Dominates(p) {
				continue
			}
			ok := false
			for _, g := range edgeGuards(p, hInner) {
				// IsDynamic true
				if c.isDynamicFlag(stripNot(g.cond), shapeV, innerIdx) && g.truth != isNegated(g.cond) {
					ok = true
				}
				for _, a := range atomsOf(g) {
					if a.op == token.EQL && c.traceDimSize(a.x, shapeV) != nil && c.traceRecvExtent(a.y, shapeRecv) != nil {
						ok = true
					}
				}
			}
			if !ok {
				okV2, whyV2 = false, "a dimension can be passed over without being dynamic or equal (mismatch is skipped instead of refused)"
			}
		}
		// the comparison happens only on the !IsDynamic edge (accept side: dynamic dims are not compared)
		if cmpBlock != nil {
			dyn := false
			for _, g := range guardsOf(cmpBlock) {
				if c.isDynamicFlag(stripNot(g.cond), shapeV, innerIdx) && g.truth == isNegated(g.cond) {
					dyn = true
				}
			}
			if !dyn {
				okV2, whyV2 = false, "symbolic/unspecified dimensions are compared too: tensors with any size there are no longer accepted"
			}
		}
		// accept side: once a dimension is known to be dynamic, nothing can refuse it — from the dynamic edge
		// every path leads back to the dimension loop without a return
		nDynTests := 0
		for _, b := range v.Blocks {
			if len(b.Instrs) == 0 {
				continue
			}
			iff, isIf := b.Instrs[len(b.Instrs)-1].(*ssa.If)
			if !isIf || !c.isDynamicFlag(stripNot(iff.Cond), shapeV, innerIdx) {
				continue
			}
			nDynTests++
			dynSucc := b.Succs[0]
			if isNegated(iff.Cond) {
				dynSucc = b.Succs[1]
			}
			seen := map[*ssa.BasicBlock]bool{}
			work := []*ssa.BasicBlock{dynSucc}
			for len(work) > 0 {
				x := work[len(work)-1]
				work = work[:len(work)-1]
				if seen[x] || x == hInner {
					continue
				}
				seen[x] = true
				if len(x.Instrs) > 0 {
					if _, isRet := x.Instrs[len(x.Instrs)-1].(*ssa.Return); isRet {
						okV2, whyV2 = false, "a dimension declared symbolic/unspecified can still be refused (a return is reachable on the dynamic edge, "+c.pos(x.Instrs[len(x.Instrs)-1].Pos())+"): tensors with any size there are no longer accepted"
					}
				}
				work = append(work, x.Succs...)
			}
		}
		if nDynTests == 0 {
			okV2, whyV2 = false, "no test of the dynamic flag of a declared dimension"
		}
	} else {
		okV2, whyV2 = false, "no dimension loop"
	}
	c.decide(okV2, "R17", "R17:V2", site, "an iteration ends early only for an initializer name; a dimension is passed only when dynamic or equal", whyV2)

	// V7: IsDynamic <=> dim_value == 0, Size = dim_value
	c.checkV7()
	// V8: introspection and enforcement share one source
	c.checkV8(mi, v)
}

func stripNot(v ssa.Value) ssa.Value {
	for {
		if u, ok := v.(*ssa.UnOp); ok && u.Op == token.NOT {
			v = u.X
			continue
		}
		return v
	}
}
func isNegated(v ssa.Value) bool {
	n := false
	for {
		if u, ok := v.(*ssa.UnOp); ok && u.Op == token.NOT {
			v = u.X
			n = !n
			continue
		}
		return n
	}
}

func resultOfLookup(lk *ssa.Lookup, idx int) ssa.Value {
	for _, r := range *lk.Referrers() {
		if ex, ok := r.(*ssa.Extract); ok && ex.Index == idx {
			return ex
		}
	}
	return nil
}

func (c *Ctx) isWeightsLoad(v ssa.Value, mi *modelInfo) bool {
	ld, ok := v.(*ssa.UnOp)
	if !ok {
		return false
	}
	fa, ok := ld.X.(*ssa.FieldAddr)
	if !ok || fa.Field != mi.fParams {
		return false
	}
	n, _ := structOfPtr(fa.X.Type())
	return n == mi.named
}

// traceDimSize: v is the Size field of declared[idx] (through a local copy of the Dim); returns idx.
func (c *Ctx) traceDimSize(v ssa.Value, declared ssa.Value) ssa.Value {
	return c.traceDimField(v, declared, "Size")
}

func (c *Ctx) traceDimField(v ssa.Value, declared ssa.Value, field string) ssa.Value {
	ld, ok := v.(*ssa.UnOp)
	if !ok || ld.Op != token.MUL {
		return nil
	}
	fa, ok := ld.X.(*ssa.FieldAddr)
	if !ok {
		return nil
	}
	st, ok := fa.X.Type().(*types.Pointer).Elem().Underlying().(*types.Struct)
	if !ok || st.Field(fa.Field).Name() != field {
		return nil
	}
	// fa.X is either &declared[idx] or a local copy that was stored from *(&declared[idx])
	if ia, ok := fa.X.(*ssa.IndexAddr); ok && ia.X == declared {
		return ia.Index
	}
	if al, ok := fa.X.(*ssa.Alloc); ok {
		var idx ssa.Value
		n := 0
		for _, r := range *al.Referrers() {
			if stt, ok := r.(*ssa.Store); ok && stt.Addr == al {
				n++
				if l2, ok := stt.Val.(*ssa.UnOp); ok {
					if ia, ok := l2.X.(*ssa.IndexAddr); ok && ia.X == declared {
						idx = ia.Index
					}
				}
			}
		}
		if n == 1 {
			return idx
		}
	}
	return nil
}

// traceRecvExtent: v is (a conversion of) received[idx]; returns idx.
func (c *Ctx) traceRecvExtent(v ssa.Value, recv ssa.Value) ssa.Value {
	if cv, ok := v.(*ssa.Convert); ok {
		v = cv.X
	}
	ld, ok := v.(*ssa.UnOp)
	if !ok || ld.Op != token.MUL {
		return nil
	}
	ia, ok := ld.X.(*ssa.IndexAddr)
	if !ok || ia.X != recv {
		return nil
	}
	return ia.Index
}

func (c *Ctx) isDynamicFlag(v ssa.Value, declared ssa.Value, idx ssa.Value) bool {
	i := c.traceDimField(v, declared, "IsDynamic")
	return i != nil && (idx == nil || i == idx)
}

func (c *Ctx) checkV7() {
	key := "R17:V7"
	var f *ssa.Function
	for _, fn := range c.libFns {
		if fnPkgPath(fn) == pkgOnnx && fn.Parent() == nil && fn.Signature.Recv() == nil && fn.Signature.Results().Len() == 1 {
			if n, ok := fn.Signature.Results().At(0).Type().(*types.Named); ok && n.Obj().Name() == "Shapes" {
				f = fn
			}
		}
	}
	if f == nil {
		c.violate("R17", key, "", "no function producing onnx.Shapes from value infos")
		return
	}
	var dynStore, sizeStore *ssa.Store
	for _, b := range f.Blocks {
		for _, in := range b.Instrs {
			st, ok := in.(*ssa.Store)
			if !ok {
				continue
			}
			fa, ok := st.Addr.(*ssa.FieldAddr)
			if !ok {
				continue
			}
			n, sst := structOfPtr(fa.X.Type())
			if n == nil || n.Obj().Name() != "Dim" {
				continue
			}
			switch sst.Field(fa.Field).Name() {
			case "IsDynamic":
				dynStore = st
			case "Size":
				sizeStore = st
			}
		}
	}
	if dynStore == nil || sizeStore == nil {
		c.violate("R17", key, c.pos(f.Pos()), "Dim.IsDynamic / Dim.Size are not both set")
		return
	}
	c.checkV9(f)
	val, ok := sizeStore.Val.(*ssa.Call)
	if !ok || val.Common().StaticCallee() == nil || val.Common().StaticCallee().Name() != "GetDimValue" {
		c.violate("R17", key, c.pos(sizeStore.Pos()), "Dim.Size is not the dimension's dim_value")
		return
	}
	isZeroCmp := func(v ssa.Value, op token.Token) bool {
		bo, ok := v.(*ssa.BinOp)
		if !ok || bo.Op != op {
			return false
		}
		z, ok2 := constInt(bo.Y)
		return bo.X == ssa.Value(val) && ok2 && z == 0
	}
	okDyn := false
	switch x := dynStore.Val.(type) {
	case *ssa.BinOp:
		okDyn = isZeroCmp(x, token.EQL)
	case *ssa.Phi:
		okDyn = true
		for i, e := range x.Edges {
			k, isC := e.(*ssa.Const)
			if !isC {
				okDyn = false
				break
			}
			want := k.Value.ExactString() == "true"
			has := false
			for _, g := range edgeGuards(x.Block().Preds[i], x.Block()) {
				for _, a := range atomsOf(g) {
					z, isZ := constInt(a.y)
					if a.x == ssa.Value(val) && isZ && z == 0 {
						if (a.op == token.EQL) == want && (a.op == token.EQL || a.op == token.NEQ) {
							has = true
						}
					}
				}
			}
			if !has {
				okDyn = false
			}
		}
	}
	c.decide(okDyn, "R17", key, c.pos(dynStore.Pos()), "IsDynamic is true exactly when dim_value == 0; Size = dim_value", "IsDynamic is not equivalent to dim_value == 0: fixed dimensions would be treated as symbolic or vice versa")
}

// checkV8: InputShapes / InputDimSize / the validator all derive shapes from the graph's input list.
func (c *Ctx) checkV8(mi *modelInfo, validator *ssa.Function) {
	var shapesFn *ssa.Function
	for _, fn := range c.libFns {
		if fnPkgPath(fn) == pkgOnnx && fn.Parent() == nil && fn.Signature.Recv() == nil && fn.Signature.Results().Len() == 1 {
			if n, ok := fn.Signature.Results().At(0).Type().(*types.Named); ok && n.Obj().Name() == "Shapes" {
				shapesFn = fn
			}
		}
	}
	if shapesFn == nil {
		return
	}
	// sources of a function: which protobuf list getters feed shapesFn / name lists within depth 3
	var sources func(f *ssa.Function, depth int, seen map[*ssa.Function]bool, out map[string]bool)
	sources = func(f *ssa.Function, depth int, seen map[*ssa.Function]bool, out map[string]bool) {
		if depth > 3 || seen[f] || f.Blocks == nil {
			return
		}
		seen[f] = true
		for _, b := range f.Blocks {
			for _, in := range b.Instrs {
				call, ok := in.(*ssa.Call)
				if !ok {
					continue
				}
				cal := call.Common().StaticCallee()
				if cal == nil || !isLibFn(cal) {
					continue
				}
				if cal == shapesFn {
					if a, ok := call.Common().Args[0].(*ssa.Call); ok && a.Common().StaticCallee() != nil {
						out["shapes<-"+a.Common().StaticCallee().Name()] = true
					} else {
						out["shapes<-?"] = true
					}
					continue
				}
				if strings.HasSuffix(c.fileOf(cal.Pos()), ".pb.go") {
					continue
				}
				sources(cal, depth+1, seen, out)
			}
		}
	}
	check := func(f *ssa.Function, label string) {
		if f == nil {
			return
		}
		out := map[string]bool{}
		sources(f, 0, map[*ssa.Function]bool{}, out)
		ks := make([]string, 0)
		for k := range out {
			if strings.HasPrefix(k, "shapes<-") {
				ks = append(ks, k)
			}
		}
		sort.Strings(ks)
		ok := len(ks) == 1 && ks[0] == "shapes<-GetInput"
		c.decide(ok, "R17", "R17:V8:"+label, c.pos(f.Pos()), "shapes come from the graph's declared inputs (GetInput)", fmt.Sprintf("%s derives shapes from %v, not from the graph's declared inputs: introspection and enforcement disagree", label, ks))
	}
	check(validator, "validator")
	for _, f := range c.libFns {
		if recvNamed(f) == mi.named && f.Parent() == nil && f.Object() != nil && f.Object().Exported() {
			switch f.Name() {
			case "InputShapes", "InputDimSize":
				check(f, f.Name())
			}
		}
	}
	c.counts["R17.V8.functions"] = 3
}

// ---------------------------------------------------------------------------------------------
// R4 — node output names are not interpreted by operators (C01)
// ---------------------------------------------------------------------------------------------

func ruleR4(c *Ctx, prop string) {
	n := 0
	type flow struct {
		v    ssa.Value
		from string
	}
	var work []flow
	fieldsTainted := map[fieldKey]string{}
	isOutputRead := func(in ssa.Instruction) (ssa.Value, bool) {
		switch x := in.(type) {
		case *ssa.Call:
			if f := x.Common().StaticCallee(); f != nil && f.Name() == "GetOutput" {
				if rn := recvNamed(f); rn != nil && rn.Obj().Name() == "NodeProto" {
					return x, true
				}
			}
		case *ssa.FieldAddr:
			if nn, st := structOfPtr(x.X.Type()); nn != nil && nn.Obj().Name() == "NodeProto" && st.Field(x.Field).Name() == "Output" {
				return x, true
			}
		}
		return nil, false
	}
	for _, f := range c.libFns {
		p := fnPkgPath(f)
		if p != pkgOps && p != pkgOpset13 {
			continue
		}
		for _, b := range f.Blocks {
			for _, in := range b.Instrs {
				if v, ok := isOutputRead(in); ok {
					n++
					work = append(work, flow{v, fname(f)})
				}
			}
		}
	}
	c.counts["R4.output_name_reads"] = n
	seen := map[ssa.Value]bool{}
	viol := map[string]string{}
	violSite := map[string]string{}
	for len(work) > 0 {
		w := work[len(work)-1]
		work = work[:len(work)-1]
		if seen[w.v] {
			continue
		}
		seen[w.v] = true
		for _, r := range *w.v.Referrers() {
			switch x := r.(type) {
			case *ssa.DebugRef:
			case *ssa.Call:
				if b, ok := x.Common().Value.(*ssa.Builtin); ok && (b.Name() == "len" || b.Name() == "cap") {
					continue
				}
				viol[w.from] = "output names are passed to " + callName(x)
				violSite[w.from] = c.pos(x.Pos())
			case *ssa.Store:
				if x.Val != w.v {
					continue
				}
				if fa, ok := x.Addr.(*ssa.FieldAddr); ok {
					if nn, _ := structOfPtr(fa.X.Type()); nn != nil {
						k := fieldKey{nn, fa.Field}
						if _, dup := fieldsTainted[k]; !dup {
							fieldsTainted[k] = w.from
							// every load of that field anywhere
							for _, f2 := range c.libFns {
								for _, b2 := range f2.Blocks {
									for _, in2 := range b2.Instrs {
										if fa2, ok := in2.(*ssa.FieldAddr); ok && fa2.Field == fa.Field {
											if n2, _ := structOfPtr(fa2.X.Type()); n2 == nn {
												for _, r2 := range *fa2.Referrers() {
													if ld, ok := r2.(*ssa.UnOp); ok {
														work = append(work, flow{ld, fname(f2)})
													}
												}
											}
										}
									}
								}
							}
						}
					}
				} else if al, ok := x.Addr.(*ssa.Alloc); ok {
					work = append(work, flow{al, w.from})
				}
			case *ssa.UnOp:
				work = append(work, flow{x, w.from})
			case *ssa.Phi, *ssa.Slice, *ssa.ChangeType:
				work = append(work, flow{x.(ssa.Value), w.from})
			case *ssa.Range, *ssa.IndexAddr, *ssa.Index, *ssa.Lookup:
				viol[w.from] = "an operator reads the node's output names themselves (results would depend on how outputs are named, not on their position)"
				violSite[w.from] = c.pos(r.Pos())
			case *ssa.BinOp:
				if isNilConst(x.X) || isNilConst(x.Y) {
					continue
				}
				viol[w.from] = "output names are compared"
				violSite[w.from] = c.pos(r.Pos())
			default:
				viol[w.from] = fmt.Sprintf("output names flow into %T", r)
				violSite[w.from] = c.pos(r.Pos())
			}
		}
	}
	for _, k := range sortedKeys(viol) {
		c.violate("R4", "R4:output-names:"+k, violSite[k], viol[k])
	}
	if len(viol) == 0 {
		c.discharge("R4", "R4:output-names", "", fmt.Sprintf("%d reads of NodeProto output names in ops/...; none flows anywhere but len()", n))
	}
}

// checkV9: the shape extractor reports every declared tensor that carries shape information: an iteration of
// the loop over the value infos ends without an entry only on a nil test of one of the protobuf getters
// (no type / no tensor type / no shape / no dims). Anything else (all dimensions unspecified, a name filter, ...)
// removes a declared input from what Run enforces and from what introspection reports.
func (c *Ctx) checkV9(f *ssa.Function) {
	key := "R17:V9"
	var mu *ssa.MapUpdate
	for _, b := range f.Blocks {
		for _, in := range b.Instrs {
			if m, ok := in.(*ssa.MapUpdate); ok {
				mu = m
			}
		}
	}
	if mu == nil {
		c.violate("R17", key, c.pos(f.Pos()), "the shape extractor never stores an entry")
		return
	}
	// outer loop: the header that dominates the store and whose loop contains it
	var h *ssa.BasicBlock
	for d := mu.Block(); d != nil; d = d.Idom() {
		lb := loopBlocks(d)
		if len(lb) > 1 && lb[mu.Block()] {
			h = d // keep going: the outermost such header
		}
	}
	if h == nil {
		c.violate("R17", key, c.pos(f.Pos()), "the shape extractor does not loop over the declared tensors")
		return
	}
	lb := loopBlocks(h)
	bad := ""
	for _, p := range h.Preds {
		if !lb[p] {
			continue
		}
		if mu.Block().Dominates(p) {
			continue // iteration completed with an entry
		}
		okSkip := false
		for _, g := range edgeGuards(p, h) {
			for _, a := range atomsOf(g) {
				if a.op == token.EQL && isNilConst(a.y) {
					if cl, isCall := a.x.(*ssa.Call); isCall {
						if sc := cl.Common().StaticCallee(); sc != nil && strings.HasPrefix(sc.Name(), "Get") {
							okSkip = true
						}
					}
				}
			}
		}
		if !okSkip {
			bad = "a declared tensor can be left out of the shapes for a reason other than missing shape information (e.g. all of its dimensions unspecified): Run then neither requires nor checks that input, and InputShapes does not report it"
			if len(p.Instrs) > 0 {
				bad += " (" + c.pos(p.Instrs[len(p.Instrs)-1].Pos()) + ")"
			}
		}
	}
	c.decide(bad == "", "R17", key, c.pos(mu.Pos()), "every declared tensor with shape information gets an entry", bad)
}

// ruleParamsComplete (R17:V10): the initializer map holds EVERY initializer of the graph. The shape validator
// decides "this declared input is an initializer, the caller need not supply it" by looking the name up in that
// map; an initializer that is filtered out (unreferenced, of some type, ...) turns its graph input into a
// required one, while ParamNames still lists it.
func ruleParamsComplete(c *Ctx, prop string) {
	key := "R17:V10"
	var f *ssa.Function
	for _, g := range c.libFns {
		if fnPkgPath(g) != pkgOnnx || g.Parent() != nil || g.Signature.Recv() == nil || g.Signature.Results().Len() != 2 {
			continue
		}
		if isMapOfTensors(g.Signature.Results().At(0).Type()) {
			f = g
		}
	}
	if f == nil {
		c.undecided("R17", key, "", "no method returning the initializers as a map of tensors found in package onnx")
		return
	}
	var mu *ssa.MapUpdate
	for _, b := range f.Blocks {
		for _, in := range b.Instrs {
			if m, ok := in.(*ssa.MapUpdate); ok {
				mu = m
			}
		}
	}
	if mu == nil {
		c.violate("R17", key, c.pos(f.Pos()), "the initializer map is never filled")
		return
	}
	var h *ssa.BasicBlock
	for d := mu.Block(); d != nil; d = d.Idom() {
		if lb := loopBlocks(d); len(lb) > 1 && lb[mu.Block()] {
			h = d
		}
	}
	bad := ""
	if h == nil {
		bad = "the initializer map is not filled in a loop over the graph's initializers"
	} else {
		// the loop ranges over GetInitializer() / the Initializer field
		l, okL := indLoopOf(h)
		src := ""
		if okL {
			if lc, ok := l.bound.(*ssa.Call); ok && len(lc.Common().Args) == 1 {
				src = c.term(lc.Common().Args[0], 0)
			}
		}
		if !strings.Contains(src, "Initializer") {
			bad = "the loop that fills the initializer map does not range over the graph's initializer list (ranges over " + src + ")"
		}
		lb := loopBlocks(h)
		for _, p := range h.Preds {
			if !lb[p] || mu.Block().Dominates(p) {
				continue
			}
			bad = "an initializer can be skipped without an error (filtered out of the map): a graph input that it shadows becomes a required input of Run, and introspection (ParamNames) disagrees with enforcement"
			if len(p.Instrs) > 0 {
				bad += " (" + c.pos(p.Instrs[len(p.Instrs)-1].Pos()) + ")"
			}
		}
		if early, where := c.loopEarlyExit(h); early && bad == "" {
			bad = "the loop over the initializers can be left early without an error (" + where + ")"
		}
	}
	c.decide(bad == "", "R17", key, c.pos(mu.Pos()), "every initializer of the graph is decoded into the map (or loading fails)", bad)
}
