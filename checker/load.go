package main

import (
	"embed"
	"fmt"
	"os"
	"path/filepath"
	"sort"
	"strings"

	"golang.org/x/tools/go/callgraph/cha"
	"golang.org/x/tools/go/callgraph/vta"
	"golang.org/x/tools/go/packages"
	"golang.org/x/tools/go/ssa"
	"golang.org/x/tools/go/ssa/ssautil"
)

//go:embed control/*.go.txt
var controlFS embed.FS

// load type-checks /repo (tests excluded), adds the control package through an overlay
// (nothing is written below repo), builds SSA with generic instances and a call graph.
func load(repo, tier string, goarch string) (*Ctx, error) {
	overlay := map[string][]byte{}
	ents, err := controlFS.ReadDir("control")
	if err != nil {
		return nil, err
	}
	for _, e := range ents {
		b, err := controlFS.ReadFile("control/" + e.Name())
		if err != nil {
			return nil, err
		}
		name := strings.TrimSuffix(e.Name(), ".txt")
		overlay[filepath.Join(repo, "ops", "opset13", "zzverifcontrol", name)] = b
	}
	env := append(os.Environ(), "GOFLAGS=-mod=mod", "GOPROXY=off", "GOSUMDB=off", "GOTOOLCHAIN=local", "GOWORK=off")
	if goarch != "" {
		env = append(env, "GOARCH="+goarch)
	}
	cfg := &packages.Config{
		Mode:    packages.LoadAllSyntax,
		Dir:     repo,
		Tests:   false,
		Env:     env,
		Overlay: overlay,
	}
	pkgs, err := packages.Load(cfg, "./...")
	if err != nil {
		return nil, fmt.Errorf("packages.Load: %w", err)
	}
	c := &Ctx{repo: repo, tier: tier, pkgs: pkgs, pkgByPath: map[string]*packages.Package{},
		ssaPkg: map[string]*ssa.Package{}, counts: map[string]int{}, trusted: map[string]bool{}}
	nerr := 0
	packages.Visit(pkgs, nil, func(p *packages.Package) {
		for _, e := range p.Errors {
			if isLibPkgPath(p.PkgPath) {
				fmt.Fprintf(os.Stderr, "load error in %s: %v\n", p.PkgPath, e)
				nerr++
			}
		}
	})
	if nerr > 0 {
		return nil, fmt.Errorf("%d load/type errors in library packages", nerr)
	}
	want := []string{modPath, modPath + "/onnx", modPath + "/ops", modPath + "/ops/opset13"}
	for _, p := range pkgs {
		c.pkgByPath[p.PkgPath] = p
		if c.fset == nil {
			c.fset = p.Fset
		}
		if isLibPkgPath(p.PkgPath) && !isControlPkgPath(p.PkgPath) {
			c.nFiles += len(p.Syntax)
		}
	}
	for _, w := range want {
		if c.pkgByPath[w] == nil {
			return nil, fmt.Errorf("package %s not loaded", w)
		}
	}
	prog, spkgs := ssautil.AllPackages(pkgs, ssa.InstantiateGenerics|ssa.GlobalDebug)
	prog.Build()
	c.prog = prog
	for i, p := range pkgs {
		if spkgs[i] != nil {
			c.ssaPkg[p.PkgPath] = spkgs[i]
		}
	}
	all := ssautil.AllFunctions(prog)
	for fn := range all {
		if fn.Blocks == nil {
			continue
		}
		if fn.Synthetic != "" && !strings.Contains(fn.Synthetic, "instance") && fn.Name() != "init" {
			// wrappers / bound method thunks: keep (they have bodies and may carry calls), but
			// only if they belong to the library
		}
		if isControlFn(fn) {
			c.ctlFns = append(c.ctlFns, fn)
			c.allFns = append(c.allFns, fn)
		} else if isLibFn(fn) {
			c.libFns = append(c.libFns, fn)
			c.allFns = append(c.allFns, fn)
		}
	}
	byName := func(s []*ssa.Function) {
		sort.Slice(s, func(i, j int) bool {
			a, b := fname(s[i]), fname(s[j])
			if a != b {
				return a < b
			}
			return s[i].Pos() < s[j].Pos()
		})
	}
	byName(c.allFns)
	byName(c.libFns)
	byName(c.ctlFns)
	if len(c.libFns) < 200 {
		return nil, fmt.Errorf("only %d library functions with bodies (floor 200)", len(c.libFns))
	}
	chaG := cha.CallGraph(prog)
	if tier == "thorough" {
		c.cg = vta.CallGraph(all, chaG)
		c.cgAlg = "VTA(seeded by CHA)"
	} else {
		c.cg = chaG
		c.cgAlg = "CHA"
	}
	if goarch == "" {
		theCtx = c
	}
	return c, nil
}

// fileSet returns the sorted list of library files (relative), used to compare GOARCH re-loads.
func (c *Ctx) libFiles() []string {
	var out []string
	for _, p := range c.pkgs {
		if !isLibPkgPath(p.PkgPath) || isControlPkgPath(p.PkgPath) {
			continue
		}
		for _, f := range p.CompiledGoFiles {
			rel, _ := filepath.Rel(c.repo, f)
			out = append(out, rel)
		}
	}
	sort.Strings(out)
	return out
}
