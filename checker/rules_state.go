package main

import (
	"fmt"
	"go/token"
	"go/types"
	"sort"
	"strings"

	"golang.org/x/tools/go/ssa"
)

// R22 — gorgonia's Shape.Eq is not shape identity ((n), (n,1) and (1,n) compare equal): it must not
// decide whether shapes match on the paths a property talks about.
// R23 — per-axis loops of the broadcast helpers visit every axis (no early exit but an error).
// R21 — Apply/ValidateInputs do not modify the attribute state Init established.

// shapeEqSites lists calls of (tensor.Shape).Eq in library functions within scope.
func (c *Ctx) shapeEqSites(scope func(*ssa.Function) bool) []*ssa.Call {
	var out []*ssa.Call
	for _, f := range c.libFns {
		if scope != nil && !scope(f) {
			continue
		}
		for _, b := range f.Blocks {
			for _, in := range b.Instrs {
				call, ok := in.(*ssa.Call)
				if !ok {
					continue
				}
				sc := call.Common().StaticCallee()
				if sc == nil || sc.Name() != "Eq" || fnPkgPath(sc) != pkgTensor {
					continue
				}
				if rn := recvNamed(sc); rn == nil || rn.Obj().Name() != "Shape" {
					continue
				}
				out = append(out, call)
			}
		}
	}
	sort.Slice(out, func(i, j int) bool { return out[i].Pos() < out[j].Pos() })
	return out
}

func ruleR22(c *Ctx, prop string) {
	var roots []*ssa.Function
	switch prop {
	case "C13":
		if mi := c.findModel(); mi != nil {
			if v := c.findValidator(mi); v != nil {
				roots = append(roots, v)
			}
		}
	case "C11":
		for _, nm := range []string{"Constant", "ConstantOfShape", "Cast"} {
			if oi := c.opByName(nm); oi != nil {
				roots = append(roots, oi.methods["Apply"], oi.methods["Init"])
			}
		}
	case "C14", "C03", "C16":
		for _, f := range c.libFns {
			if fnPkgPath(f) == pkgOps && f.Parent() == nil && f.Object() != nil && f.Object().Exported() && strings.Contains(f.Name(), "roadcast") {
				roots = append(roots, f)
			}
		}
		if prop == "C03" || prop == "C16" {
			for _, f := range c.libFns {
				if fnPkgPath(f) == pkgOps && f.Parent() == nil && f.Name() == "ApplyBinaryOperation" {
					roots = append(roots, f)
				}
			}
		}
	}
	if len(roots) == 0 {
		// operator properties: everything reachable from Init/Apply of the operators the property names
		for _, nm := range opsOfProp(prop) {
			if oi := c.opByName(nm); oi != nil {
				roots = append(roots, oi.methods["Apply"], oi.methods["Init"])
			}
		}
	}
	reach := c.reachFrom(roots)
	sites := c.shapeEqSites(func(f *ssa.Function) bool { return reach[f] })
	perFn := map[string]int{}
	nAudited := 0
	for _, s := range sites {
		fn := fname(s.Parent())
		perFn[fn]++
		key := fmt.Sprintf("R22:shape-eq:%s#%d", fn, perFn[fn])
		if why, ok := shapeEqAudited[fn]; ok && perFn[fn] == 1 {
			nAudited++
			c.discharge("R22", key, c.pos(s.Pos()), "audited use of the lax Shape.Eq: "+why)
			continue
		}
		c.violate("R22", key, c.pos(s.Pos()),
			"gorgonia's Shape.Eq decides a shape comparison here, but it treats a vector (n) as equal to a column (n,1) and a row (1,n): tensors of a different rank are taken to match")
	}
	if len(sites) == 0 && nAudited == 0 {
		c.discharge("R22", "R22:shape-eq:none", "", fmt.Sprintf("no (tensor.Shape).Eq call among the %d functions this property's shape decisions run through", len(reach)))
	}
	c.counts["R22.functions"] = len(reach)
}

// loopBlocks: blocks of the natural loop with header h (blocks dominated by h that reach a back edge).
func loopBlocks(h *ssa.BasicBlock) map[*ssa.BasicBlock]bool {
	in := map[*ssa.BasicBlock]bool{h: true}
	var st []*ssa.BasicBlock
	for _, p := range h.Preds {
		if h.Dominates(p) {
			st = append(st, p)
		}
	}
	for len(st) > 0 {
		x := st[len(st)-1]
		st = st[:len(st)-1]
		if in[x] {
			continue
		}
		in[x] = true
		for _, p := range x.Preds {
			if h.Dominates(p) {
				st = append(st, p)
			}
		}
	}
	return in
}

// ruleR23: loops that contain a guarded Repeat (the per-axis stretch loops) leave only through the
// header (exhaustion) or into an error return.
// loopEarlyExit: a block of the natural loop with header h that leaves the loop other than through the
// header's own exit edge (exhausted) or into a block that returns a definitely non-nil error.
// Returns the position of the offending branch, or "" when there is none.
func (c *Ctx) loopEarlyExit(h *ssa.BasicBlock) (bool, string) {
	lb := loopBlocks(h)
	for b := range lb {
		for _, s := range b.Succs {
			if lb[s] || b == h || c.blockRejects(s, 0) {
				continue
			}
			site := ""
			if len(b.Instrs) > 0 {
				site = c.pos(b.Instrs[len(b.Instrs)-1].Pos())
			}
			return true, site
		}
	}
	return false, ""
}

func ruleR23(c *Ctx, prop string) {
	n := 0
	for _, f := range c.libFns {
		if fnPkgPath(f) != pkgOps {
			continue
		}
		hasRepeat := map[*ssa.BasicBlock]bool{}
		for _, b := range f.Blocks {
			for _, in := range b.Instrs {
				if call, ok := in.(*ssa.Call); ok {
					if o := calleeObj(call); o != nil && qualName(o) == pkgTensor+".Repeat" {
						hasRepeat[b] = true
					}
				}
			}
		}
		if len(hasRepeat) == 0 {
			continue
		}
		// loop headers in f
		for _, h := range f.Blocks {
			isHdr := false
			for _, p := range h.Preds {
				if h.Dominates(p) {
					isHdr = true
				}
			}
			if !isHdr {
				continue
			}
			lb := loopBlocks(h)
			contains := false
			for b := range hasRepeat {
				if lb[b] {
					contains = true
				}
			}
			if !contains {
				continue
			}
			n++
			key := "R23:axis-loop:" + fname(f)
			bad := ""
			badSite := ""
			for b := range lb {
				for _, s := range b.Succs {
					if lb[s] {
						continue
					}
					if b == h {
						continue // loop condition false: every axis visited
					}
					if c.blockRejects(s, 0) {
						continue
					}
					bad = "the per-axis loop can be left early without an error: the remaining axes are neither compared nor stretched, so incompatible shapes are accepted"
					if len(b.Instrs) > 0 {
						badSite = c.pos(b.Instrs[len(b.Instrs)-1].Pos())
					}
				}
			}
			// the loop must range over every axis: index from len-1 down to 0 or 0..len-1 with step 1
			c.decide(bad == "", "R23", key, firstNonEmpty(badSite, c.pos(f.Pos())), "the loop over the axes is left only when exhausted or with an error", bad)
		}
	}
	c.counts["R23.axis_loops"] = n
	if n < 2 {
		c.undecided("R23", "R23:floor", "", fmt.Sprintf("%d per-axis stretch loops found (floor 2)", n))
	}
}

// ---------------------------------------------------------------------------------------------
// R21 — attribute state is read-only after Init
// ---------------------------------------------------------------------------------------------

// propOpsExtra: the operators a property names, for the properties that propOps (gate scoping) leaves open.
var propOpsExtra = map[string][]string{
	"C07": {"Reshape", "Flatten", "Squeeze", "Unsqueeze", "Shape"},
	"C08": {"Transpose", "Concat", "Slice", "Gather", "Expand"},
	"C09": {"ArgMax", "ReduceMax", "ReduceMin", "Softmax", "LogSoftmax"},
	"C11": {"Constant", "ConstantOfShape", "Cast"},
	"C16": {"Gemm", "MatMul", "Conv", "GRU", "LSTM", "RNN", "Squeeze", "Gather"},
}

// opsOfProp: registry names of the operators the property is about (nil: not an operator property).
func opsOfProp(prop string) []string {
	if l, ok := propOpsExtra[prop]; ok {
		return l
	}
	return propOps[prop]
}

// shapeEqAudited: (tensor.Shape).Eq call sites whose laxness was read and cannot produce a wrong value.
var shapeEqAudited = map[string]string{
	"ops.PairwiseAssign": "a rank mismatch that Eq lets through ends in an error from At(coord...) on the first element, never in a value",
}

func ruleR21(c *Ctx, prop string) {
	names, scoped := propOps[prop]
	inProp := func(n string) bool {
		if !scoped {
			return true
		}
		for _, x := range names {
			if x == n {
				return true
			}
		}
		return false
	}
	extra := propOpsExtra
	if l, ok := extra[prop]; ok {
		inProp = func(n string) bool {
			for _, x := range l {
				if x == n {
					return true
				}
			}
			return false
		}
	}
	regNames := c.regNamesByType()
	nOps := 0
	for _, oi := range c.operators() {
		if oi.control {
			continue
		}
		reg := oi.name
		if ns := regNames[oi.named]; len(ns) > 0 {
			reg = ns[0]
		}
		if !inProp(reg) && !inProp(oi.name) {
			continue
		}
		nOps++
		st, _ := oi.named.Underlying().(*types.Struct)
		if st == nil {
			continue
		}
		// fields assigned by Init (directly or in its callees on the receiver) and by the constructor
		initFields := map[int]bool{}
		collect := func(f *ssa.Function) {
			if f == nil {
				return
			}
			for _, b := range f.Blocks {
				for _, in := range b.Instrs {
					if s, ok := in.(*ssa.Store); ok {
						if fa, ok := s.Addr.(*ssa.FieldAddr); ok {
							if n, _ := structOfPtr(fa.X.Type()); n == oi.named {
								initFields[fa.Field] = true
							}
						}
					}
				}
			}
		}
		collect(oi.methods["Init"])
		for f := range c.reachFrom([]*ssa.Function{oi.methods["Init"]}) {
			if recvNamed(f) == oi.named && f != oi.methods["Apply"] && f != oi.methods["ValidateInputs"] {
				collect(f)
			}
		}
		// constructor literal fields count as attribute defaults
		for _, r := range c.findRegistries() {
			for _, ctor := range r.entries {
				if _, _, nm := c.ctorFresh(ctor); nm == oi.named {
					collect(ctor)
				}
			}
		}
		gateFields := map[string]bool{}
		for _, m := range []string{"GetMaxInputs", "GetInputTypeConstraints", "GetMinInputs"} {
			if f := c.returnsReceiverField(oi.methods[m]); f != "" {
				gateFields[f] = true
			}
		}
		key := "R21:attr-state:" + reg
		apply := oi.methods["Apply"]
		roots := []*ssa.Function{apply, oi.methods["ValidateInputs"]}
		reach := c.reachFrom(roots)
		bad := ""
		badSite := ""
		nStores := 0
		// methods whose receiver may be the operator itself (not a local copy made by the caller)
		shared := map[*ssa.Function]bool{}
		for _, r := range roots {
			if r != nil {
				shared[r] = true
			}
		}
		for changed := true; changed; {
			changed = false
			for f := range reach {
				if !shared[f] || len(f.Params) == 0 {
					continue
				}
				for _, b := range f.Blocks {
					for _, in := range b.Instrs {
						cl, ok := in.(*ssa.Call)
						if !ok {
							continue
						}
						g := cl.Common().StaticCallee()
						if g == nil || recvNamed(g) != oi.named || shared[g] || len(cl.Common().Args) == 0 {
							continue
						}
						if cl.Common().Args[0] == ssa.Value(f.Params[0]) {
							shared[g] = true
							changed = true
						}
					}
				}
			}
		}
		for f := range reach {
			if recvNamed(f) != oi.named || !shared[f] {
				continue
			}
			if len(f.Params) == 0 {
				continue
			}
			recv := ssa.Value(f.Params[0])
			for _, b := range f.Blocks {
				for _, in := range b.Instrs {
					s, ok := in.(*ssa.Store)
					if !ok {
						continue
					}
					// direct field assignment on the receiver (attribute fields, and any other field: it is
					// state the next Apply of this operator will see) — except the dynamic-arity fields the
					// gate getters return (T6: Concat sets them from len(inputs) on every call)
					if fa, ok := s.Addr.(*ssa.FieldAddr); ok && fa.X == recv && !initFields[fa.Field] && !gateFields[st.Field(fa.Field).Name()] {
						nStores++
						bad = fmt.Sprintf("%s stores into field %s of the operator while computing: the operator keeps state from one Apply to the next (a cache or memo makes results depend on earlier calls)", fname(f), st.Field(fa.Field).Name())
						badSite = c.pos(s.Pos())
					}
					if fa, ok := s.Addr.(*ssa.FieldAddr); ok && fa.X == recv && initFields[fa.Field] {
						nStores++
						bad = fmt.Sprintf("%s assigns attribute field %s of the operator while computing: the next Apply of the same operator sees the value derived from this call's inputs, not the node's attribute", fname(f), st.Field(fa.Field).Name())
						badSite = c.pos(s.Pos())
					}
					// element store through a slice/map loaded from an attribute field of the receiver
					if ia, ok := s.Addr.(*ssa.IndexAddr); ok {
						base := baseOf(ia)
						if ld, ok := base.(*ssa.UnOp); ok {
							if fa, ok := ld.X.(*ssa.FieldAddr); ok && fa.X == recv && initFields[fa.Field] {
								// unless the field was re-assigned a fresh slice earlier in this function
								fresh := false
								for _, b2 := range f.Blocks {
									for _, in2 := range b2.Instrs {
										if s2, ok := in2.(*ssa.Store); ok {
											if fa2, ok := s2.Addr.(*ssa.FieldAddr); ok && fa2.X == recv && fa2.Field == fa.Field {
												if _, isMk := s2.Val.(*ssa.MakeSlice); isMk && b2.Dominates(b) {
													fresh = true
												}
											}
										}
									}
								}
								if !fresh {
									nStores++
									bad = fmt.Sprintf("%s writes into the slice held by attribute field %s: the attribute is overwritten in place and later calls see the modified values", fname(f), st.Field(fa.Field).Name())
									badSite = c.pos(s.Pos())
								}
							}
						}
					}
				}
			}
		}
		// values that alias an attribute field and are written through (axes := r.axes; axes[i] = ...)
		if bad == "" {
			if w, site := c.aliasWriteOfAttr(oi, initFields, shared); w != "" {
				bad, badSite = w, site
			}
		}
		c.decide(bad == "", "R21", key, firstNonEmpty(badSite, c.pos(apply.Pos())), "Apply/ValidateInputs never assign or write through a field that Init (or the constructor) set", bad)
	}
	c.counts["R21.operators"] = nOps
}

// aliasWriteOfAttr: an element store whose base slice is (phi/slice-connected to) a load of an attribute field.
func (c *Ctx) aliasWriteOfAttr(oi *opInfo, initFields map[int]bool, reach map[*ssa.Function]bool) (string, string) {
	st := oi.named.Underlying().(*types.Struct)
	for f := range reach {
		if recvNamed(f) != oi.named || len(f.Params) == 0 {
			continue
		}
		recv := ssa.Value(f.Params[0])
		isAttrLoad := func(v ssa.Value) (int, bool) {
			ld, ok := v.(*ssa.UnOp)
			if !ok || ld.Op != token.MUL {
				return 0, false
			}
			fa, ok := ld.X.(*ssa.FieldAddr)
			if !ok || fa.X != recv || !initFields[fa.Field] {
				return 0, false
			}
			return fa.Field, true
		}
		for _, b := range f.Blocks {
			for _, in := range b.Instrs {
				s, ok := in.(*ssa.Store)
				if !ok {
					continue
				}
				ia, ok := s.Addr.(*ssa.IndexAddr)
				if !ok {
					continue
				}
				// walk base through phi / slice
				seen := map[ssa.Value]bool{}
				var hit int = -1
				var walk func(v ssa.Value, d int)
				walk = func(v ssa.Value, d int) {
					if v == nil || seen[v] || d > 6 {
						return
					}
					seen[v] = true
					if fi, ok := isAttrLoad(v); ok {
						hit = fi
						return
					}
					switch x := v.(type) {
					case *ssa.Phi:
						for _, e := range x.Edges {
							walk(e, d+1)
						}
					case *ssa.Slice:
						walk(x.X, d+1)
					case *ssa.ChangeType:
						walk(x.X, d+1)
					}
				}
				walk(ia.X, 0)
				if hit >= 0 {
					return fmt.Sprintf("%s writes elements through an alias of attribute field %s: the attribute itself is modified by a call", fname(f), st.Field(hit).Name()), c.pos(s.Pos())
				}
			}
		}
	}
	return "", ""
}
