package main

// R38 — every operator's input gate by finite table (C15)
//
// "For every operator of the opset, an input list that is shorter than the operator's minimum, longer than its
// maximum, or that carries an element type not allowed at that position is rejected with an input error before
// anything is computed - never with a panic. When the list is accepted, omitted trailing optional inputs are
// presented to the operator as absent and the supplied tensors are passed through unchanged and in order."
//
// The partial interpreter builds every operator through the registry's constructor (walked, not executed),
// reads its minimum, maximum and type table through the operator's own methods, and walks its ValidateInputs
// for every input count 0..max+2 and, at every position, every one of gorgonia's element types (the dtype
// variables are opaque tokens; tensors are abstract values that answer Dtype()). The outcome is compared with
// the statement above.

import (
	"fmt"
	"go/types"
	"os"
	"sort"
	"strings"

	"golang.org/x/tools/go/ssa"
)

func ruleGateTable(c *Ctx, prop string) {
	regs := c.findRegistries()
	if len(regs) == 0 {
		c.undecided("R38", "R38:gate-table", "", "operator registry not found")
		return
	}
	// the registry map: name -> constructor, from the initialiser of the opset package
	heap0 := newHeap()
	p0 := &pinterp{c: c, budget: 3000000, objects: true}
	heap0 = p0.initGlobals(heap0, modPath+"/ops", modPath+"/ops/opset13")
	if len(p0.initFailed) > 0 {
		c.undecided("R38", "R38:gate-table", "", fmt.Sprintf("the package initialisers of %v could not be followed to a single state", p0.initFailed))
		return
	}
	var regMap *pmap
	for g, v := range p0.globals {
		if v.k == pMap && g.Pkg != nil && g.Pkg.Pkg.Path() == modPath+"/ops/opset13" {
			if mm := heap0.maps[v.i]; mm != nil && len(mm.keys) > 10 {
				regMap = mm
			}
		}
	}
	if os.Getenv("R38DEBUG") != "" {
		for g, v := range p0.globals {
			fmt.Printf("R38DEBUG global %s.%s = %v\n", g.Pkg.Pkg.Name(), g.Name(), v)
		}
	}
	if regMap == nil {
		c.undecided("R38", "R38:gate-table", "", "the registry map could not be read from the package initialiser")
		return
	}
	dtypeNames := []string{"Bool", "Int8", "Int16", "Int32", "Int64", "Uint8", "Uint16", "Uint32", "Uint64", "Float32", "Float64", "Complex64", "Complex128", "String"}
	var tensorPkg *ssa.Package
	for _, sp := range c.prog.AllPackages() {
		if sp.Pkg.Path() == pkgTensor {
			tensorPkg = sp
		}
	}
	var dtypes []pval
	for _, n := range dtypeNames {
		if tensorPkg == nil {
			break
		}
		if g, ok := tensorPkg.Members[n].(*ssa.Global); ok {
			if v, ok := p0.globalValue(g); ok {
				dtypes = append(dtypes, v)
			}
		}
	}
	if len(dtypes) != len(dtypeNames) {
		c.undecided("R38", "R38:gate-table", "", "gorgonia's dtype variables not found")
		return
	}
	type opRow struct {
		name string
		ctor *ssa.Function
	}
	var opsL []opRow
	for i, k := range regMap.keys {
		if k.k == pStr && regMap.vals[i].k == pFunc && regMap.vals[i].fn != nil {
			opsL = append(opsL, opRow{k.s, regMap.vals[i].fn})
		}
	}
	sort.Slice(opsL, func(i, j int) bool { return opsL[i].name < opsL[j].name })
	cells, evaluated, nOps := 0, 0, 0
	var bads []string
	for _, row := range opsL {
		bad := ""
		set := func(s string) {
			if bad == "" {
				bad = s
			}
		}
		// one walk of a cell: fresh operator, inputs -> (returned list, error?)
		type outcome struct {
			followed, isErr bool
			list            []pval
		}
		tensorDtype := map[int64]pval{}
		nextT := int64(5000)
		mkTensor := func(dt pval) pval {
			nextT++
			tensorDtype[nextT] = dt
			return pval{k: pAbs, i: nextT, s: "tensor"}
		}
		panicked := ""
		newP := func() *pinterp {
			p := &pinterp{c: c, budget: 400000, objects: true, globals: p0.globals, strictIndex: true, trace: os.Getenv("R38TRACE") == row.name}
			p.onPanic = func(fn *ssa.Function, in ssa.Instruction, what string) {
				if panicked == "" {
					panicked = what + " at " + c.pos(in.Pos())
				}
			}
			p.onInvoke = func(fn *ssa.Function, call *ssa.Call, recv pval, method string, args []pval, h *pheap) ([]pval, bool) {
				if recv.k == pAbs && recv.s == "tensor" && method == "Dtype" {
					return []pval{tensorDtype[recv.i]}, true
				}
				return nil, false
			}
			return p
		}
		construct := func(p *pinterp, heap *pheap) (pval, *pheap) {
			res, h := p.run(row.ctor, nil, 0, heap)
			if h == nil || len(res) != 1 || res[0].k != pObj {
				return pval{}, nil
			}
			return res[0], h
		}
		method := func(p *pinterp, op pval, heap *pheap, name string, args ...pval) ([]pval, *pheap) {
			o := heap.objs[op.i]
			if o == nil || o.typ == nil {
				return nil, nil
			}
			var pkg *types.Package
			if n, ok := o.typ.(*types.Named); ok {
				pkg = n.Obj().Pkg()
			}
			m := c.prog.LookupMethod(types.NewPointer(o.typ), pkg, name)
			if m == nil || len(m.Blocks) == 0 {
				return nil, nil
			}
			return p.run(m, append([]pval{op}, args...), 0, heap)
		}
		// the operator's own tables (Concat's depend on the inputs: read after its ValidateInputs)
		readTables := func(p *pinterp, op pval, heap *pheap) (min, max int64, cons [][]pval, ok bool) {
			r1, h1 := method(p, op, heap, "GetMinInputs")
			if h1 == nil || len(r1) != 1 || r1[0].k != pInt {
				return
			}
			r2, h2 := method(p, op, h1, "GetMaxInputs")
			if h2 == nil || len(r2) != 1 || r2[0].k != pInt {
				return
			}
			r3, h3 := method(p, op, h2, "GetInputTypeConstraints")
			if h3 == nil || len(r3) != 1 {
				return
			}
			switch r3[0].k {
			case pList:
				for _, rowv := range h3.lists[r3[0].i] {
					var l []pval
					if rowv.k == pList {
						l = h3.lists[rowv.i]
					} else if rowv.k != pNil {
						return
					}
					for _, e := range l {
						if e.k != pAbs {
							return
						}
					}
					cons = append(cons, l)
				}
			case pNil:
			default:
				return
			}
			return r1[0].i, r2[0].i, cons, true
		}
		runCell := func(inputs []pval) (out outcome, min, max int64, cons [][]pval, tablesOK bool) {
			p := newP()
			heap := heap0.clone()
			op, h := construct(p, heap)
			if h == nil {
				return
			}
			res, h2 := method(p, op, h, "ValidateInputs", h.alloc(append([]pval{}, inputs...)))
			if h2 == nil || len(res) != 2 {
				return
			}
			min, max, cons, tablesOK = readTables(p, op, h2)
			switch {
			case nonNilKind(res[1].k):
				out = outcome{followed: true, isErr: true}
			case res[1].k == pNil && res[0].k == pList && h2.lists[res[0].i] != nil:
				out = outcome{followed: true, list: h2.lists[res[0].i]}
			case res[1].k == pNil && res[0].k == pNil:
				out = outcome{followed: true, list: nil}
			}
			return
		}
		// tables from a first cell with a plausible input count
		_, min0, max0, cons0, ok0 := runCell(nil)
		if panicked != "" {
			bads = append(bads, row.name+" with no inputs: the gate panics ("+panicked+") instead of reporting the input count")
			continue
		}
		if !ok0 {
			bads = append(bads, row.name+": the operator's minimum / maximum / type table could not be read")
			continue
		}
		nOps++
		dynamic := max0 == 0 && min0 > 0 // Concat: the maximum follows the inputs
		allowed := func(cons [][]pval, pos int, dt pval) bool {
			if pos >= len(cons) {
				return false
			}
			for _, a := range cons[pos] {
				if a.i == dt.i && a.s == dt.s {
					return true
				}
			}
			return false
		}
		first := func(cons [][]pval, pos int) (pval, bool) {
			if pos < len(cons) && len(cons[pos]) > 0 {
				return cons[pos][0], true
			}
			return pval{}, false
		}
		maxN := max0 + 2
		if dynamic {
			maxN = 4
		}
		for n := int64(0); n <= maxN; n++ {
			// (a) n inputs of the first allowed type of their position
			build := func(swapPos int, dt pval) ([]pval, bool) {
				in := make([]pval, n)
				for i := range in {
					t, ok := first(cons0, i)
					if dynamic || !ok {
						t = dtypes[9] // float32
					}
					if i == swapPos {
						t = dt
					}
					in[i] = mkTensor(t)
				}
				return in, true
			}
			check := func(in []pval, desc string, wantErr bool, consUsed [][]pval) {
				cells++
				panicked = ""
				out, min, max, cons, tOK := runCell(in)
				if panicked != "" {
					evaluated++
					set(fmt.Sprintf("%s %s: the gate panics (%s)", row.name, desc, panicked))
					return
				}
				if !out.followed || !tOK {
					if os.Getenv("R38DEBUG") != "" {
						fmt.Printf("R38DEBUG unfollowed %s %s followed=%v tables=%v\n", row.name, desc, out.followed, tOK)
					}
					return
				}
				evaluated++
				if consUsed == nil {
					consUsed = cons
				}
				_ = min
				_ = max
				if wantErr && !out.isErr {
					set(fmt.Sprintf("%s %s: accepted", row.name, desc))
					return
				}
				if !wantErr && out.isErr {
					set(fmt.Sprintf("%s %s: refused", row.name, desc))
					return
				}
				if !wantErr {
					wantLen := max
					if int64(len(out.list)) != wantLen {
						set(fmt.Sprintf("%s %s: the gate hands on %d inputs, the operator's maximum is %d (omitted optional inputs are presented as absent)", row.name, desc, len(out.list), wantLen))
						return
					}
					for i, v := range out.list {
						if i < len(in) {
							if v.k != in[i].k || v.i != in[i].i {
								set(fmt.Sprintf("%s %s: input %d is not passed through unchanged and in order", row.name, desc, i))
							}
						} else if v.k != pNil {
							set(fmt.Sprintf("%s %s: padding position %d is not nil", row.name, desc, i))
						}
					}
				}
			}
			in, _ := build(-1, pval{})
			countBad := n < min0 || (!dynamic && n > max0)
			check(in, fmt.Sprintf("with %d inputs (minimum %d, maximum %d)", n, min0, max0), countBad, nil)
			if countBad {
				continue
			}
			// (b) every element type at every position
			for pos := int64(0); pos < n; pos++ {
				for di, dt := range dtypes {
					in, _ := build(int(pos), dt)
					okT := dynamic || allowed(cons0, int(pos), dt)
					if row.name == "PRelu" && okT {
						// PRelu additionally asks for equal types of x and slope: a stricter gate, not judged here
						continue
					}
					check(in, fmt.Sprintf("with %d inputs and element type %s at position %d", n, dtypeNames[di], pos), !okT, nil)
				}
			}
			// (c) nil at every optional position
			for pos := min0; pos < n; pos++ {
				in, _ := build(-1, pval{})
				in[pos] = pval{k: pNil}
				check(in, fmt.Sprintf("with %d inputs and input %d absent (nil)", n, pos), false, nil)
				// (d) ... and an element type that is not allowed at a later position
				for q := pos + 1; q < n && !dynamic; q++ {
					for di, dt := range dtypes {
						if allowed(cons0, int(q), dt) {
							continue
						}
						in2, _ := build(int(q), dt)
						in2[pos] = pval{k: pNil}
						check(in2, fmt.Sprintf("with %d inputs, input %d absent (nil) and element type %s at position %d", n, pos, dtypeNames[di], q), true, nil)
						break
					}
				}
			}
			// (e) more entries than the maximum, the surplus absent (nil): the count is the length of the list, so this
			// is refused like any other overlong list
			if n == max0 && !dynamic {
				for extra := int64(1); extra <= 2; extra++ {
					in, _ := build(-1, pval{})
					for k := int64(0); k < extra; k++ {
						in = append(in, pval{k: pNil})
					}
					check(in, fmt.Sprintf("with %d inputs followed by %d absent (nil) entries (maximum %d)", max0, extra, max0), true, nil)
				}
			}
		}
		if bad != "" {
			bads = append(bads, bad)
		}
	}
	c.counts["R38.operators"] += nOps
	c.counts["R38.cells"] += cells
	c.counts["R38.cells_evaluated"] += evaluated
	site := ""
	if len(opsL) > 0 {
		site = c.pos(opsL[0].ctor.Pos())
	}
	switch {
	case len(bads) > 0:
		for i, b := range bads {
			if i < 6 {
				if strings.HasSuffix(b, "could not be read") {
					// not a verdict on the gate: the walk cannot establish what the operator's tables are
					c.undecided("R38", fmt.Sprintf("R38:gate-table#%d", i+1), site, b)
					continue
				}
				c.violate("R38", fmt.Sprintf("R38:gate-table#%d", i+1), site, b)
			}
		}
	case nOps < 50 || evaluated < cells:
		c.undecided("R38", "R38:gate-table", site, fmt.Sprintf("%d operators, %d of %d cells could be followed: the gate's factoring is not recognised", nOps, evaluated, cells))
	default:
		c.discharge("R38", "R38:gate-table", site, fmt.Sprintf("%d operators x every input count 0..max+2 x 14 element types at every position x nil at every optional position (%d cells): refused exactly when the count or a type is outside the operator's own tables; accepted lists are passed through in order and padded with nil to the maximum", nOps, cells))
		if c.tableCovered == nil {
			c.tableCovered = map[string]string{}
		}
		c.tableCovered["table:gate"] = "R38:gate-table"
	}
}
