package main

import (
	"go/types"
	"strings"

	"golang.org/x/tools/go/ssa"
)

// Contract table for external symbols (closed world, DESIGN §3.3 / Appendix A).
// Operands are normalised: for methods operand 0 is the receiver.

type resKind int

const (
	rFresh        resKind = iota
	rAlias                // all tokens of operand src
	rView                 // data tokens of operand src (fresh header)
	rShape                // live header storage of operand src
	rData                 // live data storage of operand src
	rNewOpt               // tensor.New: data from WithBacking options
	rOptWrap              // option constructor: wraps operand tokens as OPT:<kind>
	rAliasOrFresh         // may return the operand itself (Concat of one, Materialize of a non-view)
)

type resSpec struct {
	kind resKind
	src  int
	opt  string
}

type contract struct {
	mutH         []int // operands whose header is written
	mutD         []int // operands whose data is written
	mutC         []int // operands whose container/message structure is written
	res          []resSpec
	opts         bool // accepts gorgonia FuncOpts: WithReuse/UseUnsafe/WithIncr are honoured
	mutHDvarargs bool // the trailing variadic int slice is sorted in place (reductions)
}

func fresh(n int) []resSpec {
	out := make([]resSpec, n)
	return out
}

var pureByPkg = map[string]bool{
	"fmt": true, "errors": true, "math": true, "strings": true, "strconv": true, "os": true, "io": true,
	"archive/zip": true, "reflect": true, "encoding/binary": true, "bytes": true, "math/rand": true,
}

var tensorContracts = map[string]contract{}

func init() {
	T := pkgTensor
	arith := contract{res: fresh(2), opts: true}
	// audited against gorgonia v0.9.24: these read their operands and allocate the result unless a
	// reuse/unsafe/incr option is given. Anything else (Dot, Sqrt, Pow, ...) is deliberately absent or
	// has its own entry: an unlisted function that receives a non-owned tensor makes the check undecided.
	for _, n := range []string{"Add", "Sub", "Mul", "Div", "MatMul", "Gt", "Gte", "Lt", "Lte", "ElEq", "Abs", "Neg", "Exp", "Tanh", "Sum", "SoftMax", "LogSoftMax", "MaxBetween", "MinBetween"} {
		tensorContracts[T+"."+n] = arith
	}
	// Dot(vector, matrix) transposes its second operand in place (b.T(); defer b.UT()): a header write
	tensorContracts[T+".Dot"] = contract{mutH: []int{1}, res: fresh(2), opts: true}
	tensorContracts[T+".New"] = contract{res: []resSpec{{kind: rNewOpt}}}
	tensorContracts[T+".NewDense"] = contract{res: []resSpec{{kind: rNewOpt}}}
	tensorContracts[T+".WithShape"] = contract{res: fresh(1)}
	tensorContracts[T+".Of"] = contract{res: fresh(1)}
	tensorContracts[T+".FromScalar"] = contract{res: fresh(1)}
	tensorContracts[T+".AsSameType"] = contract{res: fresh(1)}
	tensorContracts[T+".WithBacking"] = contract{res: []resSpec{{kind: rOptWrap, src: 0, opt: "backing"}}}
	tensorContracts[T+".FromMemory"] = contract{res: []resSpec{{kind: rOptWrap, src: 0, opt: "backing"}}}
	tensorContracts[T+".WithReuse"] = contract{res: []resSpec{{kind: rOptWrap, src: 0, opt: "reuse"}}}
	tensorContracts[T+".WithIncr"] = contract{res: []resSpec{{kind: rOptWrap, src: 0, opt: "incr"}}}
	tensorContracts[T+".UseUnsafe"] = contract{res: []resSpec{{kind: rOptWrap, src: -1, opt: "unsafe"}}}
	tensorContracts[T+".Transpose"] = contract{res: fresh(2)}
	tensorContracts[T+".Repeat"] = contract{res: fresh(2)}
	tensorContracts[T+".Concat"] = contract{res: []resSpec{{kind: rAliasOrFresh, src: 1}, {}}}
	tensorContracts[T+".Argmax"] = contract{res: fresh(2)}
	tensorContracts[T+".Argmin"] = contract{res: fresh(2)}
	tensorContracts[T+".Range"] = contract{res: fresh(1)}
	tensorContracts[T+".Ones"] = contract{res: fresh(1)}
	tensorContracts[T+".Copy"] = contract{mutD: []int{0}, res: fresh(1)}
	// Materialize(t) returns t itself unless t is a view (api_matop.go:123)
	tensorContracts[T+".Materialize"] = contract{res: []resSpec{{kind: rAliasOrFresh, src: 0}}}
	// ReturnTensor(t) wipes the access pattern, dtype and backing array of a *Dense and hands the object to
	// the pool, which re-issues it (perf.go:78): a header and a data write on whatever storage t is
	tensorContracts[T+".ReturnTensor"] = contract{mutH: []int{0}, mutD: []int{0}}

	// methods (keyed by package + "#" + name; receiver = operand 0)
	m := func(name string, c contract) { tensorContracts[T+"#"+name] = c }
	for _, n := range []string{"Dtype", "Dims", "Size", "Len", "DataSize", "IsScalar", "ScalarValue", "Eq", "At", "IsView", "IsMaterializable",
		"Name", "String", "Coord", "Done", "Start", "End", "Step", "TotalSize", "IsVector", "IsMatrix", "Engine", "MemSize", "Format",
		"IsColVec", "IsRowVec", "IsScalarEquiv", "Cap", "Info", "DataOrder", "RequiresIterator", "IsNativelyAccessible", "IsManuallyManaged", "Kind"} {
		m(n, contract{res: fresh(2)})
	}
	m("Shape", contract{res: []resSpec{{kind: rShape, src: 0}}})
	m("Strides", contract{res: []resSpec{{kind: rShape, src: 0}}})
	m("Data", contract{res: []resSpec{{kind: rData, src: 0}}})
	m("Pointer", contract{res: []resSpec{{kind: rData, src: 0}}})
	m("Uintptr", contract{res: []resSpec{{kind: rData, src: 0}}})
	m("SetAt", contract{mutD: []int{0}, res: fresh(1)})
	m("Zero", contract{mutD: []int{0}})
	m("Memset", contract{mutD: []int{0}, res: fresh(1)})
	m("Set", contract{mutD: []int{0}})
	m("Reshape", contract{mutH: []int{0}, res: fresh(1)})
	m("T", contract{mutH: []int{0}, res: fresh(1)})
	m("UT", contract{mutH: []int{0}})
	m("Transpose", contract{mutH: []int{0}, mutD: []int{0}, res: fresh(1)})
	m("SetShape", contract{mutH: []int{0}})
	m("Apply", contract{res: fresh(2), opts: true})
	m("Slice", contract{res: []resSpec{{kind: rView, src: 0}, {}}})
	m("Materialize", contract{res: []resSpec{{kind: rAliasOrFresh, src: 0}}})
	m("Clone", contract{res: fresh(1)})
	m("Max", contract{res: fresh(2), mutHDvarargs: true})
	m("Min", contract{res: fresh(2), mutHDvarargs: true})
	m("Sum", contract{res: fresh(2), mutHDvarargs: true})
	m("Argmax", contract{res: fresh(2)})
	m("Argmin", contract{res: fresh(2)})
	m("AddScalar", contract{res: fresh(2), opts: true})
	m("SubScalar", contract{res: fresh(2), opts: true})
	m("MulScalar", contract{res: fresh(2), opts: true})
	m("DivScalar", contract{res: fresh(2), opts: true})
	m("Add", contract{res: fresh(2), opts: true})
	m("Sub", contract{res: fresh(2), opts: true})
	m("Mul", contract{res: fresh(2), opts: true})
	m("Div", contract{res: fresh(2), opts: true})
	m("Iterator", contract{res: fresh(1)})
	m("Next", contract{res: fresh(2)})
	m("Reset", contract{})
	m("CopyTo", contract{mutD: []int{1}, res: fresh(1)})
}

// external applies the contract of an external symbol at a call site.
func (e *e2) external(f *ssa.Function, in ssa.CallInstruction, val ssa.Value, obj types.Object, qname string) {
	cc := in.Common()
	var operands []ssa.Value
	isMethod := false
	if cc.IsInvoke() {
		operands = append(operands, cc.Value)
		isMethod = true
	} else if sc := cc.StaticCallee(); sc != nil && sc.Signature.Recv() != nil {
		isMethod = true
	}
	operands = append(operands, cc.Args...)

	pkg := ""
	name := ""
	if obj != nil {
		if obj.Pkg() != nil {
			pkg = obj.Pkg().Path()
		}
		name = obj.Name()
	} else if i := strings.LastIndex(qname, "."); i >= 0 {
		pkg, name = qname[:i], qname[i+1:]
	}
	key := pkg + "." + name
	if isMethod {
		key = pkg + "#" + name
	}
	e.ext[key]++

	setRes := func(i int, t tokset) {
		if val == nil || len(t) == 0 {
			return
		}
		n := 1
		if tup, ok := val.Type().(*types.Tuple); ok {
			n = tup.Len()
		}
		if n == 1 {
			e.set(val, t)
		} else {
			ts := e.tupleOf(val, n)
			if i < len(ts) && ts[i].addAll(t) {
				e.changed = true
			}
		}
	}

	ct, ok := tensorContracts[key]
	if !ok {
		switch {
		case pkg == "sort" && (name == "Ints" || name == "Slice" || name == "Strings" || name == "Float64s" || name == "SliceStable"):
			e.recordSite(mutSite{fn: f, instr: in, what: "sort." + name, target: operands[0], levels: "HD"})
			return
		case pkg == "slices" && (name == "Contains" || name == "ContainsFunc" || name == "Index" || name == "IndexFunc" || name == "Equal" || name == "Max" || name == "Min" || name == "IsSorted" || name == "BinarySearch"):
			return // read their operands, return a scalar
		case pkg == "slices" && name == "Clone":
			// a new list holding the same elements
			if len(operands) > 0 && isContainerOfRefs(operands[0].Type()) {
				setRes(0, withLevels(e.get(operands[0]), "HD", true))
			}
			return
		case pkg == "slices" && (name == "Sort" || name == "SortFunc" || name == "SortStableFunc" || name == "Reverse"):
			lv := "HD"
			if isContainerOfRefs(operands[0].Type()) {
				lv = "C"
			}
			e.recordSite(mutSite{fn: f, instr: in, what: "slices." + name, target: operands[0], levels: lv})
			return
		case pkg == "slices" && (name == "Delete" || name == "Insert" || name == "Compact" || name == "Grow" || name == "Clip"):
			if name == "Delete" || name == "Insert" || name == "Compact" {
				lv := "HD"
				if isContainerOfRefs(operands[0].Type()) {
					lv = "C"
				}
				e.recordSite(mutSite{fn: f, instr: in, what: "slices." + name, target: operands[0], levels: lv})
			}
			t := tokset{}
			t.addAll(e.get(operands[0]))
			setRes(0, t)
			return
		case pkg == "maps" && name == "Copy":
			e.recordSite(mutSite{fn: f, instr: in, what: "MapUpdate", target: operands[0], levels: "C"})
			e.addTo(baseOf(operands[0]), withLevels(e.get(operands[1]), "HD", true))
			return
		case pkg == "maps" && name == "Clone":
			setRes(0, withLevels(e.get(operands[0]), "HD", true))
			return
		case pkg == "bytes" && isMethod && name == "Read":
			e.recordSite(mutSite{fn: f, instr: in, what: "Read", target: operands[1], levels: "HD"})
			return
		case pkg == "google.golang.org/protobuf/proto" && name == "Unmarshal":
			e.recordSite(mutSite{fn: f, instr: in, what: "proto.Unmarshal", target: operands[1], levels: "C"})
			return
		case pkg == "archive/zip" || pkg == "io" || pkg == "os":
			return
		case pureByPkg[pkg]:
			return
		case pkg == pkgOnnx && e.opaqueName(name):
			// non-getter generated method (String, Reset, ProtoReflect, Descriptor...)
			if name == "String" || name == "ProtoReflect" || name == "Descriptor" || name == "EnumDescriptor" || name == "Enum" || name == "Number" || name == "Type" {
				return
			}
		case pkg == "" && name == "Error":
			return // error.Error()
		}
		// unknown external: undecided only if something tokened (a reference the library does not own) is handed over
		for _, op := range operands {
			if len(withLevels(e.get(op), "CHD", false)) > 0 {
				e.unknown[key] = append(e.unknown[key], e.c.pos(in.Pos()))
				return
			}
		}
		return
	}

	// mutations declared by the contract
	for _, i := range ct.mutH {
		if i < len(operands) {
			e.recordSite(mutSite{fn: f, instr: in, what: name, target: operands[i], levels: "H"})
		}
	}
	for _, i := range ct.mutD {
		if i < len(operands) {
			e.recordSite(mutSite{fn: f, instr: in, what: name, target: operands[i], levels: "D"})
		}
	}
	if ct.mutHDvarargs && len(operands) > 1 {
		// reductions sort their `along ...int` argument in place
		e.recordSite(mutSite{fn: f, instr: in, what: name + ".along", target: operands[len(operands)-1], levels: "HD"})
	}
	// options
	optAlias := tokset{}
	if ct.opts {
		for oi, op := range operands {
			for k := range e.get(op) {
				if !isOpt(k) {
					continue
				}
				rest := strings.TrimPrefix(k, "OPT:")
				kind := rest[:strings.IndexByte(rest, ':')]
				inner := rest[len(kind)+1:]
				switch kind {
				case "reuse", "incr":
					e.recordSite(mutSite{fn: f, instr: in, what: name + "+With" + strings.Title(kind), target: operands[oi], levels: "D", viaOpt: kind})
					if kind == "reuse" && inner != "" {
						optAlias.add(inner)
					}
				case "unsafe":
					e.recordSite(mutSite{fn: f, instr: in, what: name + "+UseUnsafe", target: operands[0], levels: "D"})
					optAlias.addAll(withLevels(e.get(operands[0]), "HD", false))
				}
			}
		}
	}
	for i, r := range ct.res {
		switch r.kind {
		case rFresh:
			if i == 0 && len(optAlias) > 0 {
				setRes(0, optAlias)
			}
		case rAlias, rAliasOrFresh:
			if r.src < len(operands) {
				setRes(i, withLevels(e.get(operands[r.src]), "HD", false))
			}
		case rView:
			if r.src < len(operands) {
				setRes(i, withLevels(e.get(operands[r.src]), "D", false))
			}
		case rShape:
			if r.src < len(operands) {
				setRes(i, withLevels(e.get(operands[r.src]), "H", false))
			}
		case rData:
			if r.src < len(operands) {
				setRes(i, withLevels(e.get(operands[r.src]), "D", false))
			}
		case rNewOpt:
			t := tokset{}
			for _, op := range operands {
				for k := range e.get(op) {
					if strings.HasPrefix(k, "OPT:backing:") {
						inner := strings.TrimPrefix(k, "OPT:backing:")
						if inner != "" && lvl(inner) != 'C' {
							t.add(rootOf(inner) + "#D")
						} else if inner != "" {
							// structure token of the owner (e.g. a protobuf message): its storage is shared
							t.add(rootOf(inner) + "#D")
						}
					}
				}
			}
			setRes(i, t)
		case rOptWrap:
			t := tokset{}
			if r.src < 0 {
				t.add("OPT:" + r.opt + ":")
			} else if r.src < len(operands) {
				src := withLevels(e.get(operands[r.src]), "CHD", false)
				if len(src) == 0 {
					// untokened: still mark the option kind (reuse of a fresh tensor is fine)
					t.add("OPT:" + r.opt + ":")
				}
				for k := range src {
					t.add("OPT:" + r.opt + ":" + k)
				}
			}
			setRes(i, t)
		}
	}
}

func (e *e2) opaqueName(name string) bool { return !strings.HasPrefix(name, "Get") }
