package main

import (
	"encoding/json"
	"os"
)

// Finding is one entry of /verif/known_findings.json (committed; never written at run time).
type Finding struct {
	Property string `json:"property"`
	Key      string `json:"key"`
	Status   string `json:"status"` // "known" | "fixed"
	Commit   string `json:"commit,omitempty"`
	What     string `json:"what"`
	Line     string `json:"line,omitempty"` // the "fixed: property=<id> <commit> <what failed>" rendering
}

func loadFindings(path string) ([]Finding, error) {
	b, err := os.ReadFile(path)
	if err != nil {
		if os.IsNotExist(err) {
			return nil, nil
		}
		return nil, err
	}
	var fs []Finding
	if err := json.Unmarshal(b, &fs); err != nil {
		return nil, err
	}
	return fs, nil
}

// knownFor returns the known (not fixed) finding for (property,key), if listed.
func knownFor(fs []Finding, prop, key string) *Finding {
	for i := range fs {
		if fs[i].Status == "known" && fs[i].Property == prop && fs[i].Key == key {
			return &fs[i]
		}
	}
	return nil
}
