package main

import (
	"fmt"
	"go/token"
	"go/types"
	"os"
	"strings"

	"golang.org/x/tools/go/ssa"
)

// R5 — Run / applyOp / loader plumbing (model.go, opset.go), anchors found by role.

func nonDebugInstrs(b *ssa.BasicBlock) []ssa.Instruction {
	var out []ssa.Instruction
	for _, in := range b.Instrs {
		if _, ok := in.(*ssa.DebugRef); ok {
			continue
		}
		out = append(out, in)
	}
	return out
}

// reaches: CFG reachability a -> b (a != b requires at least one edge; a == b requires a cycle).
func reaches(a, b *ssa.BasicBlock) bool {
	seen := map[*ssa.BasicBlock]bool{}
	var st []*ssa.BasicBlock
	st = append(st, a.Succs...)
	for len(st) > 0 {
		x := st[len(st)-1]
		st = st[:len(st)-1]
		if x == b {
			return true
		}
		if seen[x] {
			continue
		}
		seen[x] = true
		st = append(st, x.Succs...)
	}
	return false
}

// errOfCall returns the SSA value holding the error result of a call (nil if none / not extracted).
func errOfCall(call *ssa.Call) ssa.Value {
	var sig *types.Signature
	if call.Common().IsInvoke() {
		sig = call.Common().Method.Type().(*types.Signature)
	} else {
		sig, _ = call.Common().Value.Type().Underlying().(*types.Signature)
	}
	if sig == nil {
		return nil
	}
	idx := errResultIndex(sig)
	if idx < 0 {
		return nil
	}
	if sig.Results().Len() == 1 {
		return call
	}
	for _, r := range *call.Referrers() {
		if ex, ok := r.(*ssa.Extract); ok && ex.Index == idx {
			return ex
		}
	}
	return nil
}

func resultOfCall(call *ssa.Call, idx int) ssa.Value {
	if call == nil || call.Referrers() == nil {
		return nil
	}
	for _, r := range *call.Referrers() {
		if ex, ok := r.(*ssa.Extract); ok && ex.Index == idx {
			return ex
		}
	}
	return nil
}

// errChecked: the error of `call` is compared with nil, the non-nil edge returns a definitely non-nil
// error, and `user` (an instruction that consumes the call's results) sits on the nil edge.
func (c *Ctx) errChecked(call *ssa.Call, user ssa.Instruction) (bool, string) {
	ev := errOfCall(call)
	if ev == nil {
		return false, "error result of " + callName(call) + " is dropped"
	}
	rejects := false
	for _, r := range *ev.Referrers() {
		bo, ok := r.(*ssa.BinOp)
		if !ok || !(isNilConst(bo.X) || isNilConst(bo.Y)) {
			continue
		}
		for _, r2 := range *bo.Referrers() {
			iff, ok := r2.(*ssa.If)
			if !ok {
				continue
			}
			if c.edgeRejects(iff, bo.Op == token.NEQ) {
				rejects = true
			}
		}
	}
	if !rejects {
		// returned directly?
		for _, r := range *ev.Referrers() {
			if _, ok := r.(*ssa.Return); ok {
				rejects = true
			}
		}
	}
	if !rejects {
		return false, "error of " + callName(call) + " does not lead to an error return"
	}
	if user != nil {
		okEdge := false
		for _, g := range guardsOf(user.Block()) {
			for _, a := range atomsOf(g) {
				if a.op == token.EQL && ((a.x == ev && isNilConst(a.y)) || (a.y == ev && isNilConst(a.x))) {
					okEdge = true
				}
			}
		}
		if !okEdge {
			return false, "result of " + callName(call) + " is used without its error being nil"
		}
	}
	return true, ""
}

func callName(call ssa.CallInstruction) string {
	cc := call.Common()
	if cc.IsInvoke() {
		return cc.Method.Name()
	}
	if f := cc.StaticCallee(); f != nil {
		return fname(f)
	}
	if ld, ok := cc.Value.(*ssa.UnOp); ok {
		if fa, ok := ld.X.(*ssa.FieldAddr); ok {
			if _, st := structOfPtr(fa.X.Type()); st != nil {
				return "field:" + st.Field(fa.Field).Name()
			}
		}
	}
	return "funcvalue:" + cc.Value.Type().String()
}

func ruleR5(c *Ctx, prop string) {
	mi := c.findModel()
	if mi == nil || mi.run == nil {
		c.violate("R5", "R5:anchor:Run", "", "no Model type with weights map, protobuf and a Run(map) (map, error) method found")
		return
	}
	run := mi.run
	want := func(ids ...string) bool {
		sets := map[string][]string{
			"C01": {"M2", "M3", "M4", "M5", "M6", "M7", "M8", "M9", "M13"},
			"C13": {"M1", "M2", "M13"},
			"C15": {"M4", "M5"},
			"C06": {"M5", "M6"},
			"C18": {"M4", "M9", "M10", "M11"},
			"C02": {"M2", "M4", "M13"},
			"C17": {"M2", "M4", "M13"},
		}
		for _, id := range ids {
			for _, w := range sets[prop] {
				if w == id {
					return true
				}
			}
		}
		return false
	}

	validator := c.findValidator(mi)
	// locate applyOp: lib callee of Run receiving an ops.Operator and the environment map
	var envMap *ssa.MakeMap
	var applyCall *ssa.Call
	opT := c.pkgByPath[pkgOps].Types.Scope().Lookup("Operator").Type()
	for _, b := range run.Blocks {
		for _, in := range b.Instrs {
			call, ok := in.(*ssa.Call)
			if !ok {
				continue
			}
			f := call.Common().StaticCallee()
			if f == nil || !isLibFn(f) {
				continue
			}
			hasOp := false
			var mm *ssa.MakeMap
			for _, a := range call.Common().Args {
				if types.Identical(a.Type(), opT) {
					hasOp = true
				}
				if m, ok := a.(*ssa.MakeMap); ok {
					mm = m
				}
			}
			if hasOp && mm != nil {
				applyCall, envMap = call, mm
			}
		}
	}

	if want("M1") {
		c.checkM1(run, validator)
	}
	if applyCall == nil {
		if want("M2", "M3", "M4", "M5", "M6", "M7", "M8") {
			c.violate("R5", "R5:anchor:applyOp", c.pos(run.Pos()), "Run does not pass a freshly made environment map and an operator to a node-application function")
		}
	} else {
		applyOp := applyCall.Common().StaticCallee()
		if want("M2") {
			c.checkM2(run, envMap)
		}
		if want("M3") {
			c.checkM3(run, envMap, mi)
		}
		if want("M4") {
			c.checkM4(run, applyCall, mi)
		}
		var gather, bind *ssa.Function
		if want("M5", "M6", "M7") {
			gather, bind = c.checkM5(applyOp)
		}
		if want("M6") && gather != nil {
			c.checkM6(gather)
		}
		if want("M7") && bind != nil {
			c.checkM7(bind)
		}
		if want("M8") {
			c.checkM8(run, envMap, mi)
		}
	}
	if want("M9") {
		c.checkM9()
	}
	if want("M10") {
		c.checkM10(mi)
	}
	if want("M11") {
		c.checkM11(mi)
	}
	if want("M13") {
		c.checkM13(mi)
	}
}

// M1: the shape validator is the first effectful step of Run, takes Run's own parameter, its error is returned.
func (c *Ctx) checkM1(run, validator *ssa.Function) {
	key := "R5:M1"
	site := c.pos(run.Pos())
	if validator == nil {
		c.violate("R5", key, site, "Run never hands its inputs to a validator that returns an error: declared input shapes are not enforced")
		return
	}
	entry := run.Blocks[0]
	ins := nonDebugInstrs(entry)
	var vcall *ssa.Call
	for _, in := range ins {
		if call, ok := in.(*ssa.Call); ok {
			vcall = call
			break
		}
		switch in.(type) {
		case *ssa.MakeMap, *ssa.Store, *ssa.MapUpdate, *ssa.Range, *ssa.Next:
			c.violate("R5", key, c.pos(in.Pos()), "Run does work before validating its inputs")
			return
		}
	}
	if vcall == nil || vcall.Common().StaticCallee() != validator {
		c.violate("R5", key, site, "the first call of Run is not the shape validator: nodes may run (or tensors be touched) before the inputs are validated")
		return
	}
	args := vcall.Common().Args
	if len(args) < 2 || args[0] != run.Params[0] || args[1] != run.Params[1] {
		c.violate("R5", key, c.pos(vcall.Pos()), "the validator is not applied to this model and Run's own inputs")
		return
	}
	// every other block of Run is on the err == nil edge, and the err != nil edge returns it
	ok, why := c.errChecked(vcall, nil)
	if !ok {
		c.violate("R5", key, c.pos(vcall.Pos()), why)
		return
	}
	for _, b := range run.Blocks {
		if b == entry {
			continue
		}
		onNil, onErr := false, false
		for _, g := range guardsOf(b) {
			for _, a := range atomsOf(g) {
				if a.x == ssa.Value(vcall) && isNilConst(a.y) {
					if a.op == token.EQL {
						onNil = true
					} else if a.op == token.NEQ {
						onErr = true
					}
				}
			}
		}
		if onErr {
			continue
		}
		if !onNil {
			c.violate("R5", key, c.pos(run.Pos()), fmt.Sprintf("block %d of Run is reachable without the validator having succeeded", b.Index))
			return
		}
	}
	// nothing else in the entry block may have effects
	for _, in := range ins {
		switch x := in.(type) {
		case *ssa.Call:
			if x != vcall {
				c.violate("R5", key, c.pos(in.Pos()), "another call shares the entry block with the validator")
				return
			}
		}
	}
	c.discharge("R5", key, c.pos(vcall.Pos()), "validator("+fname(validator)+") is the first call of Run on Run's own parameter; its error returns; all other blocks lie on its nil edge")
}

// M2: the environment map is made in Run and escapes only into the node-application helpers.
func (c *Ctx) checkM2(run *ssa.Function, env *ssa.MakeMap) {
	key := "R5:M2"
	bad := c.escapes(env, 0)
	c.decide(bad == "", "R5", key, c.pos(env.Pos()), "environment map is allocated per Run and is neither stored, returned nor captured", bad)
}

func (c *Ctx) escapes(v ssa.Value, depth int) string {
	if depth > 3 {
		return ""
	}
	for _, r := range *v.Referrers() {
		switch x := r.(type) {
		case *ssa.DebugRef, *ssa.Lookup, *ssa.Range:
		case *ssa.MapUpdate:
			if x.Value == v || x.Key == v {
				return "environment map is stored into another map at " + c.pos(x.Pos())
			}
		case *ssa.Store:
			if x.Val == v {
				return "environment map is stored at " + c.pos(x.Pos()) + ": it would outlive the Run"
			}
		case *ssa.Return:
			return "environment map is returned at " + c.pos(x.Pos())
		case *ssa.MakeClosure:
			return "environment map is captured by a closure at " + c.pos(x.Pos())
		case *ssa.MakeInterface, *ssa.ChangeType:
			if s := c.escapes(x.(ssa.Value), depth); s != "" {
				return s
			}
		case *ssa.Call:
			f := x.Common().StaticCallee()
			if f == nil || !isLibFn(f) || f.Blocks == nil {
				if b, ok := x.Common().Value.(*ssa.Builtin); ok && (b.Name() == "len" || b.Name() == "delete") {
					continue
				}
				return "environment map is passed to " + callName(x) + " at " + c.pos(x.Pos())
			}
			for i, a := range x.Common().Args {
				if a == v && i < len(f.Params) {
					if s := c.escapes(f.Params[i], depth+1); s != "" {
						return s
					}
				}
			}
		case *ssa.Go, *ssa.Defer:
			return "environment map is handed to a goroutine/defer"
		case *ssa.Phi:
			if s := c.escapes(x, depth); s != "" {
				return s
			}
		default:
			return fmt.Sprintf("environment map used by %T at %s", r, c.pos(r.Pos()))
		}
	}
	return ""
}

// M3: a caller-supplied input wins over an initializer of the same name.
func (c *Ctx) checkM3(run *ssa.Function, env *ssa.MakeMap, mi *modelInfo) {
	key := "R5:M3"
	var inStores, wStores []*ssa.MapUpdate
	for _, r := range *env.Referrers() {
		mu, ok := r.(*ssa.MapUpdate)
		if !ok || mu.Map != ssa.Value(env) {
			continue
		}
		switch c.originOfRunValue(mu.Value, run, mi) {
		case "inputs":
			inStores = append(inStores, mu)
		case "weights":
			wStores = append(wStores, mu)
		}
	}
	if len(inStores) == 0 || len(wStores) == 0 {
		c.violate("R5", key, c.pos(run.Pos()), fmt.Sprintf("environment is not filled from both the caller's inputs and the initializers (input stores=%d, initializer stores=%d)", len(inStores), len(wStores)))
		return
	}
	// every tensor the caller supplies is bound: the store runs in every iteration of the loop over the inputs
	for _, i := range inStores {
		if !runsEveryIteration(i.Block()) {
			c.violate("R5", key, c.pos(i.Pos()), "a tensor supplied by the caller is bound to its name only on a condition (some entries of Run's inputs are skipped): the node that consumes it sees the initializer's default, or no tensor at all")
			return
		}
	}
	for _, w := range wStores {
		for _, i := range inStores {
			wAfter := reaches(i.Block(), w.Block())
			iAfter := reaches(w.Block(), i.Block())
			switch {
			case iAfter && !wAfter:
				// inputs written later: they win
			case wAfter && !iAfter:
				// initializers written later: allowed only when guarded by a miss on the environment
				if !c.guardedByMiss(w, env) {
					c.violate("R5", key, c.pos(w.Pos()), "initializers are copied into the environment after the caller's inputs without a presence test: an initializer that is also a graph input overrides the tensor the caller supplied")
					return
				}
			default:
				c.undecided("R5", key, c.pos(w.Pos()), "input and initializer stores are interleaved; precedence not decidable by ordering")
				return
			}
		}
	}
	c.discharge("R5", key, c.pos(inStores[0].Pos()), "caller inputs are written after (or initializers only on a miss): an initializer only supplies a default")
}

func (c *Ctx) guardedByMiss(mu *ssa.MapUpdate, env ssa.Value) bool {
	for v, truth := range boolFacts(mu.Block()) {
		if ex, ok := v.(*ssa.Extract); ok && ex.Index == 1 && !truth {
			if lk, ok := ex.Tuple.(*ssa.Lookup); ok && lk.X == env && lk.Index == mu.Key {
				return true
			}
		}
	}
	return false
}

// originOfRunValue: does v come from ranging over Run's parameter or over the weights field?
func (c *Ctx) originOfRunValue(v ssa.Value, run *ssa.Function, mi *modelInfo) string {
	for i := 0; i < 6; i++ {
		switch x := v.(type) {
		case *ssa.Extract:
			v = x.Tuple
		case *ssa.Next:
			v = x.Iter
		case *ssa.Range:
			v = x.X
		case *ssa.Lookup:
			v = x.X
		case *ssa.ChangeType:
			v = x.X
		case *ssa.UnOp:
			if fa, ok := x.X.(*ssa.FieldAddr); ok && fa.Field == mi.fParams {
				if n, _ := structOfPtr(fa.X.Type()); n == mi.named {
					return "weights"
				}
			}
			return ""
		case *ssa.Parameter:
			if x == run.Params[1] {
				return "inputs"
			}
			return ""
		default:
			return ""
		}
	}
	return ""
}

// M4: per node, a fresh operator is resolved from the node's own op_type; errors return; no node is skipped.
func (c *Ctx) checkM4(run *ssa.Function, applyCall *ssa.Call, mi *modelInfo) {
	key := "R5:M4"
	site := c.pos(applyCall.Pos())
	var opArg, nodeArg ssa.Value
	opT := c.pkgByPath[pkgOps].Types.Scope().Lookup("Operator").Type()
	for _, a := range applyCall.Common().Args {
		if types.Identical(a.Type(), opT) {
			opArg = a
		}
		if pt, ok := a.Type().(*types.Pointer); ok {
			if n, ok := pt.Elem().(*types.Named); ok && n.Obj().Name() == "NodeProto" {
				nodeArg = a
			}
		}
	}
	if opArg == nil || nodeArg == nil {
		c.violate("R5", key, site, "node application does not receive (operator, node)")
		return
	}
	ex, ok := opArg.(*ssa.Extract)
	if !ok || ex.Index != 0 {
		c.violate("R5", key, site, "the operator applied to a node is not the direct result of an operator lookup (cached or shared operator instance)")
		return
	}
	gcall, ok := ex.Tuple.(*ssa.Call)
	if !ok {
		c.violate("R5", key, site, "the operator applied to a node is not the direct result of an operator lookup")
		return
	}
	// the getter is the model's getter field (or a registry getter called statically)
	getterOK := false
	if ld, ok := gcall.Common().Value.(*ssa.UnOp); ok {
		if fa, ok := ld.X.(*ssa.FieldAddr); ok && fa.X == run.Params[0] && fa.Field == mi.fGetter {
			getterOK = true
		}
	}
	if f := gcall.Common().StaticCallee(); f != nil {
		for _, r := range c.findRegistries() {
			if c.findGetter(r) == f {
				getterOK = true
			}
		}
	}
	if !getterOK {
		c.violate("R5", key, c.pos(gcall.Pos()), "operators are not resolved through the model's operator getter")
		return
	}
	// its argument is GetOpType() of the same node
	argOK := false
	if len(gcall.Common().Args) == 1 {
		if tc, ok := gcall.Common().Args[0].(*ssa.Call); ok {
			if f := tc.Common().StaticCallee(); f != nil && f.Name() == "GetOpType" && len(tc.Common().Args) == 1 && tc.Common().Args[0] == nodeArg {
				argOK = true
			}
		}
		if ld, ok := gcall.Common().Args[0].(*ssa.UnOp); ok {
			if fa, ok := ld.X.(*ssa.FieldAddr); ok && fa.X == nodeArg {
				st := fa.X.Type().(*types.Pointer).Elem().Underlying().(*types.Struct)
				if st.Field(fa.Field).Name() == "OpType" {
					argOK = true
				}
			}
		}
	}
	if !argOK {
		c.violate("R5", key, c.pos(gcall.Pos()), "the operator is not looked up by the op_type of the node it is applied to")
		return
	}
	if ok, why := c.errChecked(gcall, applyCall); !ok {
		c.violate("R5", key, c.pos(gcall.Pos()), why+" (an unknown operator type must make Run fail)")
		return
	}
	if ok, why := c.errChecked(applyCall, nil); !ok {
		c.violate("R5", key, site, why)
		return
	}
	// the node is element idx of the graph's node list, the loop visits every index, and every
	// iteration passes the application call (no `continue` around it)
	ld, ok := nodeArg.(*ssa.UnOp)
	var ia *ssa.IndexAddr
	if ok {
		ia, _ = ld.X.(*ssa.IndexAddr)
	}
	if ia == nil {
		c.violate("R5", key, site, "the applied node is not an element of the graph's node list")
		return
	}
	lst, ok := ia.X.(*ssa.Call)
	if !ok || lst.Common().StaticCallee() == nil || lst.Common().StaticCallee().Name() != "GetNode" {
		c.violate("R5", key, site, "the node list iterated by Run is not the graph's GetNode()")
		return
	}
	hdr := loopHeaderOfIndex(ia.Index)
	if hdr == nil || !fullRangeLoop(ia.Index, lst) {
		c.violate("R5", key, site, "the node loop does not visit every index 0..len(nodes)-1 in order")
		return
	}
	for _, p := range hdr.Preds {
		if hdr.Dominates(p) && !applyCall.Block().Dominates(p) {
			c.violate("R5", key, c.pos(applyCall.Pos()), "an iteration of the node loop can continue without applying the node (a node is skipped)")
			return
		}
	}
	c.discharge("R5", key, site, "each node: operator := getter(node.GetOpType()) (fresh, in the same iteration), error returns; the node is applied on every iteration; its error returns")
}

// loopHeaderOfIndex: for `t3 = t2 + 1` with t2 = phi at a loop header (range loops) or phi itself.
func loopHeaderOfIndex(idx ssa.Value) *ssa.BasicBlock {
	if p, ok := idx.(*ssa.Phi); ok {
		return p.Block()
	}
	if b, ok := idx.(*ssa.BinOp); ok && b.Op == token.ADD {
		if p, ok := b.X.(*ssa.Phi); ok {
			return p.Block()
		}
	}
	return nil
}

// fullRangeLoop: idx enumerates 0..len(list)-1 ascending by 1 (range-index loop or classic for loop).
func fullRangeLoop(idx ssa.Value, list ssa.Value) bool {
	isLenOf := func(v ssa.Value) bool {
		call, ok := v.(*ssa.Call)
		if !ok {
			return false
		}
		b, ok := call.Common().Value.(*ssa.Builtin)
		return ok && b.Name() == "len" && call.Common().Args[0] == list
	}
	condOK := func(i ssa.Value, hdr *ssa.BasicBlock) bool {
		for _, b := range []*ssa.BasicBlock{hdr} {
			if iff, ok := b.Instrs[len(b.Instrs)-1].(*ssa.If); ok {
				if bo, ok := iff.Cond.(*ssa.BinOp); ok && bo.Op == token.LSS && bo.X == i && isLenOf(bo.Y) {
					return true
				}
			}
		}
		return false
	}
	// range-index form: phi [-1, t3]; t3 = phi + 1; cond t3 < len
	if b, ok := idx.(*ssa.BinOp); ok && b.Op == token.ADD {
		p, ok := b.X.(*ssa.Phi)
		one, ok2 := constInt(b.Y)
		if !ok || !ok2 || one != 1 {
			return false
		}
		init := false
		for _, e := range p.Edges {
			if n, ok := constInt(e); ok && n == -1 {
				init = true
			} else if e != ssa.Value(b) {
				return false
			}
		}
		return init && condOK(b, p.Block())
	}
	// classic form: phi [0, phi+1]; cond phi < len
	if p, ok := idx.(*ssa.Phi); ok {
		init := false
		for _, e := range p.Edges {
			if n, ok := constInt(e); ok && n == 0 {
				init = true
				continue
			}
			inc, ok := e.(*ssa.BinOp)
			if !ok || inc.Op != token.ADD || inc.X != ssa.Value(p) {
				return false
			}
			if one, ok := constInt(inc.Y); !ok || one != 1 {
				return false
			}
		}
		return init && condOK(p, p.Block())
	}
	return false
}

// M5: Init -> gather -> ValidateInputs -> Apply -> bind, with the stated data flow, every error returned.
func (c *Ctx) checkM5(applyOp *ssa.Function) (gather, bind *ssa.Function) {
	key := "R5:M5"
	site := c.pos(applyOp.Pos())
	var opPar, nodePar, envPar ssa.Value
	opT := c.pkgByPath[pkgOps].Types.Scope().Lookup("Operator").Type()
	for _, p := range applyOp.Params {
		switch {
		case types.Identical(p.Type(), opT):
			opPar = p
		case isMapOfTensors(p.Type()):
			envPar = p
		default:
			if pt, ok := p.Type().(*types.Pointer); ok {
				if n, ok := pt.Elem().(*types.Named); ok && n.Obj().Name() == "NodeProto" {
					nodePar = p
				}
			}
		}
	}
	if opPar == nil || nodePar == nil || envPar == nil {
		c.violate("R5", key, site, "node application function lacks (operator, node, environment) parameters")
		return
	}
	var initC, valC, appC, gatherC, bindC *ssa.Call
	for _, b := range applyOp.Blocks {
		for _, in := range b.Instrs {
			call, ok := in.(*ssa.Call)
			if !ok {
				continue
			}
			cc := call.Common()
			if cc.IsInvoke() && cc.Value == opPar {
				switch cc.Method.Name() {
				case "Init":
					initC = call
				case "ValidateInputs":
					valC = call
				case "Apply":
					appC = call
				}
				continue
			}
			f := cc.StaticCallee()
			if f == nil || !isLibFn(f) {
				continue
			}
			usesEnv := false
			for _, a := range cc.Args {
				if a == envPar {
					usesEnv = true
				}
			}
			if !usesEnv {
				continue
			}
			if f.Signature.Results().Len() == 2 {
				gatherC = call
			} else if f.Signature.Results().Len() == 1 {
				bindC = call
			}
		}
	}
	if initC == nil || valC == nil || appC == nil || gatherC == nil || bindC == nil {
		c.violate("R5", key, site, fmt.Sprintf("a stage of node application is missing (Init=%v gather=%v ValidateInputs=%v Apply=%v bind=%v)", initC != nil, gatherC != nil, valC != nil, appC != nil, bindC != nil))
		return
	}
	gather, bind = gatherC.Common().StaticCallee(), bindC.Common().StaticCallee()
	isGetOn := func(v ssa.Value, name string) bool {
		call, ok := v.(*ssa.Call)
		if !ok {
			return false
		}
		f := call.Common().StaticCallee()
		return f != nil && f.Name() == name && len(call.Common().Args) == 1 && call.Common().Args[0] == nodePar
	}
	bad := ""
	switch {
	case len(initC.Common().Args) != 1 || initC.Common().Args[0] != nodePar:
		bad = "Init is not given the node being applied"
	case !isGetOn(gatherC.Common().Args[0], "GetInput"):
		bad = "inputs are not gathered by the node's own input names"
	case valC.Common().Args[0] != resultOfCall(gatherC, 0):
		bad = "ValidateInputs does not receive the gathered tensors"
	case appC.Common().Args[0] != resultOfCall(valC, 0):
		bad = "Apply does not receive the list returned by ValidateInputs (padding with nil for omitted optional inputs is lost)"
	case !isGetOn(bindC.Common().Args[0], "GetOutput"):
		bad = "results are not bound by the node's own output names"
	case bindC.Common().Args[1] != resultOfCall(appC, 0):
		bad = "the tensors bound to the output names are not Apply's results"
	}
	if bad == "" {
		// order + error discipline
		chain := []*ssa.Call{initC, gatherC, valC, appC, bindC}
		for i := 0; i+1 < len(chain); i++ {
			if ok, why := c.errChecked(chain[i], chain[i+1]); !ok {
				bad = why
				break
			}
		}
		if ok, why := c.errChecked(bindC, nil); bad == "" && !ok {
			bad = why
		}
	}
	if bad == "" {
		// success return only after bind
		for _, r := range returnsOf(applyOp) {
			if isNilConst(r.Results[0]) && !bindC.Block().Dominates(r.Block()) {
				bad = "node application can succeed without binding outputs"
			}
		}
	}
	c.decide(bad == "", "R5", key, site, "Init(n); gather(n.GetInput(), env); ValidateInputs(gathered); Apply(validated); bind(n.GetOutput(), results, env) — in this order, each error returned", bad)
	return
}

func isMapOfTensors(t types.Type) bool {
	m, ok := t.Underlying().(*types.Map)
	return ok && isTensorish(m.Elem())
}

// M6: gather appends exactly one element per name: "" => nil, known name => its tensor, unknown => error.
func (c *Ctx) checkM6(f *ssa.Function) {
	key := "R5:M6"
	site := c.pos(f.Pos())
	names, env := f.Params[0], f.Params[1]
	var appends []*ssa.Call
	for _, b := range f.Blocks {
		for _, in := range b.Instrs {
			if call, ok := in.(*ssa.Call); ok {
				if bi, ok := call.Common().Value.(*ssa.Builtin); ok && bi.Name() == "append" {
					appends = append(appends, call)
				}
			}
		}
	}
	if len(appends) == 0 {
		c.violate("R5", key, site, "gather never appends")
		return
	}
	// the name of this iteration
	var nameLoad *ssa.UnOp
	var idx ssa.Value
	for _, b := range f.Blocks {
		for _, in := range b.Instrs {
			if ld, ok := in.(*ssa.UnOp); ok && ld.Op == token.MUL {
				if ia, ok := ld.X.(*ssa.IndexAddr); ok && ia.X == names {
					nameLoad, idx = ld, ia.Index
				}
			}
		}
	}
	if nameLoad == nil || !fullRangeLoop(idx, names) {
		c.violate("R5", key, site, "gather does not visit every input name in order")
		return
	}
	hdr := loopHeaderOfIndex(idx)
	sawNil, sawHit := false, false
	for _, ap := range appends {
		els := varargElems(ap.Common().Args[1])
		if len(els) != 1 {
			c.violate("R5", key, c.pos(ap.Pos()), "an iteration appends other than exactly one element")
			return
		}
		if _, isPhi := ap.Common().Args[0].(*ssa.Phi); !isPhi {
			c.violate("R5", key, c.pos(ap.Pos()), "append does not extend the accumulated list")
			return
		}
		el := els[0]
		switch {
		case isNilConst(el):
			okG := false
			for _, g := range guardsOf(ap.Block()) {
				for _, a := range atomsOf(g) {
					if a.op == token.EQL && a.x == ssa.Value(nameLoad) && isEmptyString(a.y) {
						okG = true
					}
				}
			}
			if !okG {
				c.violate("R5", key, c.pos(ap.Pos()), "nil is appended for a name other than the empty string")
				return
			}
			sawNil = true
		default:
			ex, ok := el.(*ssa.Extract)
			var lk *ssa.Lookup
			if ok {
				lk, _ = ex.Tuple.(*ssa.Lookup)
			}
			if lk == nil || lk.X != env || lk.Index != ssa.Value(nameLoad) || !lk.CommaOk {
				c.violate("R5", key, c.pos(ap.Pos()), "the appended tensor is not the comma-ok environment entry of this input name")
				return
			}
			okv := false
			for v, truth := range boolFacts(ap.Block()) {
				if e2, ok := v.(*ssa.Extract); ok && e2.Tuple == lk && e2.Index == 1 && truth {
					okv = true
				}
			}
			if !okv {
				c.violate("R5", key, c.pos(ap.Pos()), "environment entry appended without the name being present")
				return
			}
			// miss rejects
			rej := false
			for _, r := range *lk.Referrers() {
				if e2, ok := r.(*ssa.Extract); ok && e2.Index == 1 {
					for _, r2 := range *e2.Referrers() {
						if iff, ok := r2.(*ssa.If); ok && c.edgeRejects(iff, false) {
							rej = true
						}
					}
				}
			}
			if !rej {
				c.violate("R5", key, c.pos(lk.Pos()), "an unknown input name does not produce an error")
				return
			}
			sawHit = true
		}
	}
	// every back edge passes exactly one append
	for _, p := range hdr.Preds {
		if !hdr.Dominates(p) {
			continue
		}
		n := 0
		for _, ap := range appends {
			if ap.Block().Dominates(p) {
				n++
			}
		}
		if n != 1 {
			c.violate("R5", key, site, fmt.Sprintf("an iteration appends %d elements: positions of later inputs shift", n))
			return
		}
	}
	for _, r := range returnsOf(f) {
		if isNilConst(r.Results[1]) {
			if p, ok := r.Results[0].(*ssa.Phi); !ok || p.Block() != hdr {
				c.violate("R5", key, c.pos(r.Pos()), "success does not return the accumulated list")
				return
			}
		}
	}
	c.decide(sawNil && sawHit, "R5", key, site, "per name exactly one append: \"\" => nil, present => its tensor, absent => error", "gather lacks the nil or the lookup branch")
}

func isEmptyString(v ssa.Value) bool {
	k, ok := v.(*ssa.Const)
	return ok && k.Value != nil && k.Value.ExactString() == `""`
}

// M7: bind: length mismatch => error before any store; names[i] <- outputs[i] with the same i.
func (c *Ctx) checkM7(f *ssa.Function) {
	key := "R5:M7"
	site := c.pos(f.Pos())
	names, outs, env := f.Params[0], f.Params[1], f.Params[2]
	var stores []*ssa.MapUpdate
	for _, b := range f.Blocks {
		for _, in := range b.Instrs {
			if mu, ok := in.(*ssa.MapUpdate); ok && mu.Map == env {
				stores = append(stores, mu)
			}
		}
	}
	if len(stores) != 1 {
		c.violate("R5", key, site, fmt.Sprintf("bind has %d environment stores (expected one, in a loop)", len(stores)))
		return
	}
	mu := stores[0]
	kl, ok1 := mu.Key.(*ssa.UnOp)
	vl, ok2 := mu.Value.(*ssa.UnOp)
	var ki, vi *ssa.IndexAddr
	if ok1 {
		ki, _ = kl.X.(*ssa.IndexAddr)
	}
	if ok2 {
		vi, _ = vl.X.(*ssa.IndexAddr)
	}
	if ki == nil || vi == nil || ki.X != names || vi.X != outs {
		c.violate("R5", key, c.pos(mu.Pos()), "bind does not store outputs[i] under names[i]")
		return
	}
	if ki.Index != vi.Index {
		c.violate("R5", key, c.pos(mu.Pos()), "name and tensor are taken at different indices: results are not bound by position")
		return
	}
	if !fullRangeLoop(ki.Index, outs) && !fullRangeLoop(ki.Index, names) {
		c.violate("R5", key, c.pos(mu.Pos()), "bind does not visit every result")
		return
	}
	// length check dominates the store with a rejecting inequality edge
	okLen := false
	isLen := func(v, of ssa.Value) bool {
		call, ok := v.(*ssa.Call)
		if !ok {
			return false
		}
		b, ok := call.Common().Value.(*ssa.Builtin)
		return ok && b.Name() == "len" && call.Common().Args[0] == of
	}
	for _, g := range guardsOf(mu.Block()) {
		for _, a := range atomsOf(g) {
			if a.op == token.EQL && ((isLen(a.x, names) && isLen(a.y, outs)) || (isLen(a.x, outs) && isLen(a.y, names))) {
				if c.edgeRejectsAt(g) {
					okLen = true
				}
			}
		}
	}
	c.decide(okLen, "R5", key, c.pos(mu.Pos()), "len(names) != len(results) returns an error before any store; env[names[i]] = results[i] for every i", "results are bound without a rejecting length check: an omitted or extra output is silently mis-bound or panics")
}

// M8: every declared output is read from the environment with a presence/non-nil check, or Run fails.
func (c *Ctx) checkM8(run *ssa.Function, env *ssa.MakeMap, mi *modelInfo) {
	key := "R5:M8"
	var resMaps []*ssa.MakeMap
	for _, r := range returnsOf(run) {
		if isNilConst(r.Results[1]) {
			if mm, ok := r.Results[0].(*ssa.MakeMap); ok {
				resMaps = append(resMaps, mm)
			} else {
				c.violate("R5", key, c.pos(r.Pos()), "Run's success result is not a map allocated by Run (the environment or a shared map is returned)")
				return
			}
		}
	}
	if len(resMaps) != 1 || resMaps[0] == env {
		c.violate("R5", key, c.pos(run.Pos()), "Run does not return a dedicated result map")
		return
	}
	res := resMaps[0]
	n := 0
	for _, r := range *res.Referrers() {
		mu, ok := r.(*ssa.MapUpdate)
		if !ok || mu.Map != ssa.Value(res) {
			continue
		}
		n++
		// key: element of OutputNames()
		kl, ok := mu.Key.(*ssa.UnOp)
		var ki *ssa.IndexAddr
		if ok {
			ki, _ = kl.X.(*ssa.IndexAddr)
		}
		var lst *ssa.Call
		if ki != nil {
			lst, _ = ki.X.(*ssa.Call)
		}
		if lst == nil || lst.Common().StaticCallee() == nil || !strings.Contains(lst.Common().StaticCallee().Name(), "OutputNames") {
			c.violate("R5", key, c.pos(mu.Pos()), "result keys are not the graph's declared output names")
			return
		}
		if !fullRangeLoop(ki.Index, lst) {
			c.violate("R5", key, c.pos(mu.Pos()), "not every declared output name is visited")
			return
		}
		// value: environment entry for the same key, known present and non-nil
		v := mu.Value
		var lk *ssa.Lookup
		if ex, ok := v.(*ssa.Extract); ok {
			lk, _ = ex.Tuple.(*ssa.Lookup)
		} else {
			lk, _ = v.(*ssa.Lookup)
		}
		if lk == nil || lk.X != ssa.Value(env) || lk.Index != mu.Key {
			c.violate("R5", key, c.pos(mu.Pos()), "an output is not taken from the environment under its own name")
			return
		}
		if !knownNonNil(v, mu.Block()) {
			c.violate("R5", key, c.pos(mu.Pos()), "a declared output that no node produced (or that an operator left nil) is returned as a nil entry without an error")
			return
		}
		rej := false
		for _, g := range guardsOf(mu.Block()) {
			for _, a := range atomsOf(g) {
				if a.op == token.NEQ && a.x == v && isNilConst(a.y) && c.edgeRejectsAt(g) {
					rej = true
				}
			}
		}
		if !rej {
			c.violate("R5", key, c.pos(mu.Pos()), "a missing output does not make Run return an error")
			return
		}
	}
	c.decide(n == 1, "R5", key, c.pos(res.Pos()), "result map is fresh; for every declared output name the environment entry is stored only when non-nil, otherwise Run returns an error", fmt.Sprintf("%d result stores", n))
}

// M9: no error result in the root package is dropped.
func (c *Ctx) checkM9() {
	n := 0
	for _, f := range c.libFns {
		if fnPkgPath(f) != modPath {
			continue
		}
		for _, b := range f.Blocks {
			for _, in := range b.Instrs {
				call, ok := in.(*ssa.Call)
				if !ok {
					continue
				}
				var sig *types.Signature
				if call.Common().IsInvoke() {
					sig = call.Common().Method.Type().(*types.Signature)
				} else {
					sig, _ = call.Common().Value.Type().Underlying().(*types.Signature)
				}
				if sig == nil || errResultIndex(sig) < 0 {
					continue
				}
				n++
				key := fmt.Sprintf("R5:M9:%s:%s", fname(f), callName(call))
				ev := errOfCall(call)
				used := false
				if ev != nil {
					for _, r := range *ev.Referrers() {
						if _, dbg := r.(*ssa.DebugRef); !dbg {
							used = true
						}
					}
				}
				c.decide(used, "R5", key, c.pos(call.Pos()), "error result is consumed", "error result of "+callName(call)+" is discarded: a failure is turned into success")
			}
		}
	}
	c.counts["R5.M9.error_calls"] = n
}

// M10: NewModel returns a model only when weight decoding and opset resolution succeeded; the opset id is the maximum import version.
func (c *Ctx) checkM10(mi *modelInfo) {
	key := "R5:M10"
	nm := mi.newModel
	if nm == nil {
		c.violate("R5", key, "", "no constructor building the Model struct found")
		return
	}
	site := c.pos(nm.Pos())
	var paramsC, resolveC *ssa.Call
	for _, b := range nm.Blocks {
		for _, in := range b.Instrs {
			call, ok := in.(*ssa.Call)
			if !ok {
				continue
			}
			f := call.Common().StaticCallee()
			if f == nil || !isLibFn(f) || f.Signature.Results().Len() != 2 {
				continue
			}
			r0 := f.Signature.Results().At(0).Type()
			if isMapOfTensors(r0) {
				paramsC = call
			}
			if _, ok := r0.Underlying().(*types.Signature); ok {
				resolveC = call
			}
		}
	}
	if paramsC == nil || resolveC == nil {
		c.violate("R5", key, site, "constructor does not decode weights and resolve an operator getter")
		return
	}
	var alloc *ssa.Alloc
	for _, r := range returnsOf(nm) {
		if al, ok := r.Results[0].(*ssa.Alloc); ok {
			alloc = al
			for _, call := range []*ssa.Call{paramsC, resolveC} {
				if ok, why := c.errChecked(call, r); !ok {
					c.violate("R5", key, c.pos(call.Pos()), why+": a model is returned although loading failed")
					return
				}
			}
			if !isNilConst(r.Results[1]) {
				c.violate("R5", key, c.pos(r.Pos()), "model returned together with an error")
				return
			}
		} else if !isNilConst(r.Results[0]) {
			c.violate("R5", key, c.pos(r.Pos()), "constructor returns a model it did not build")
			return
		} else if !c.definitelyNonNilErr(r.Results[1], r.Block(), 0) {
			c.violate("R5", key, c.pos(r.Pos()), "constructor may return (nil, nil)")
			return
		}
	}
	if alloc == nil {
		c.violate("R5", key, site, "constructor never returns a model")
		return
	}
	// field provenance
	fieldsOK := 0
	for _, r := range *alloc.Referrers() {
		fa, ok := r.(*ssa.FieldAddr)
		if !ok {
			continue
		}
		for _, r2 := range *fa.Referrers() {
			st, ok := r2.(*ssa.Store)
			if !ok {
				continue
			}
			v := st.Val
			if ct, ok := v.(*ssa.ChangeType); ok {
				v = ct.X
			}
			switch fa.Field {
			case mi.fParams:
				if v == resultOfCall(paramsC, 0) {
					fieldsOK++
				}
			case mi.fGetter:
				if v == resultOfCall(resolveC, 0) {
					fieldsOK++
				}
			case mi.fProto:
				if _, ok := v.(*ssa.Parameter); ok {
					fieldsOK++
				}
			}
		}
	}
	if fieldsOK != 3 {
		c.violate("R5", key, site, "model fields are not (protobuf argument, decoded weights, resolved getter)")
		return
	}
	// opset id = running maximum of GetVersion over GetOpsetImport
	why := c.isRunningMaxOfVersions(resolveC.Common().Args[0], nm)
	c.decide(why == "", "R5", key, c.pos(resolveC.Pos()), "model returned only after Params() and the opset lookup succeeded; the looked-up id is the maximum of GetVersion() over every opset import", why)
}

func (c *Ctx) isRunningMaxOfVersions(v ssa.Value, fn *ssa.Function) string {
	p, ok := v.(*ssa.Phi)
	if !ok {
		return "the opset id handed to the resolver is not accumulated over the opset imports (" + v.String() + ")"
	}
	hdr := p.Block()
	var latch ssa.Value
	for i, e := range p.Edges {
		if hdr.Dominates(hdr.Preds[i]) {
			latch = e
		} else if _, ok := e.(*ssa.Const); !ok {
			return "opset accumulator does not start from a constant"
		}
	}
	if latch == nil {
		return "opset accumulator is not updated in a loop"
	}
	lp, ok := latch.(*ssa.Phi)
	if !ok {
		return "opset accumulator is overwritten unconditionally (last import wins, not the maximum)"
	}
	sawKeep, sawTake := false, false
	for i, e := range lp.Edges {
		pred := lp.Block().Preds[i]
		if e == ssa.Value(p) {
			sawKeep = true
			continue
		}
		call, ok := e.(*ssa.Call)
		if !ok || call.Common().StaticCallee() == nil || call.Common().StaticCallee().Name() != "GetVersion" {
			return "opset accumulator takes a value other than an import's GetVersion()"
		}
		// guarded by version > acc
		gs := guardsOf(pred)
		okG := false
		for _, g := range gs {
			for _, a := range atomsOf(g) {
				if (a.op == token.GTR && a.x == ssa.Value(call) && a.y == ssa.Value(p)) || (a.op == token.LSS && a.x == ssa.Value(p) && a.y == ssa.Value(call)) {
					okG = true
				}
			}
		}
		if !okG {
			return "an import's version replaces the accumulated opset id without being greater: not the maximum"
		}
		// element of GetOpsetImport() at the loop index covering all imports
		ld, ok := call.Common().Args[0].(*ssa.UnOp)
		var ia *ssa.IndexAddr
		if ok {
			ia, _ = ld.X.(*ssa.IndexAddr)
		}
		if ia == nil {
			return "version is not read from an element of the import list"
		}
		lst, ok := ia.X.(*ssa.Call)
		if !ok || lst.Common().StaticCallee() == nil || lst.Common().StaticCallee().Name() != "GetOpsetImport" {
			return "the list scanned is not GetOpsetImport()"
		}
		if !fullRangeLoop(ia.Index, lst) {
			return "not every opset import is scanned"
		}
		sawTake = true
	}
	if !sawKeep || !sawTake {
		return "opset accumulator is not a conditional maximum"
	}
	return ""
}

// M11: the opset resolver: hit returns the table entry for the id, miss returns ErrUnsupportedOpsetVersion.
func (c *Ctx) checkM11(mi *modelInfo) {
	key := "R5:M11"
	var res *ssa.Function
	for _, f := range c.libFns {
		if fnPkgPath(f) != modPath || f.Parent() != nil || f.Signature.Recv() != nil || f.Signature.Results().Len() != 2 || f.Signature.Params().Len() != 1 {
			continue
		}
		if _, ok := f.Signature.Results().At(0).Type().Underlying().(*types.Signature); ok && isErrorType(f.Signature.Results().At(1).Type()) {
			if b, ok := f.Signature.Params().At(0).Type().Underlying().(*types.Basic); ok && b.Info()&types.IsInteger != 0 {
				res = f
			}
		}
	}
	if res == nil {
		c.violate("R5", key, "", "no opset resolver func(int) (getter, error) found")
		return
	}
	sentinel := c.sentinel(pkgOps, "ErrUnsupportedOpsetVersion")
	badHit, badMiss := "", ""
	hit, miss := 0, 0
	for _, r := range returnsOf(res) {
		if isNilConst(r.Results[1]) {
			ex, ok := r.Results[0].(*ssa.Extract)
			var lk *ssa.Lookup
			if ok {
				lk, _ = ex.Tuple.(*ssa.Lookup)
			}
			if lk == nil || !lk.CommaOk || lk.Index != res.Params[0] {
				badHit = "hit path does not return the table entry of the requested opset id"
				continue
			}
			if ld, ok := lk.X.(*ssa.UnOp); !ok || !isLibGlobal(ld.X) {
				badHit = "opset table is not a package-level map"
				continue
			}
			okv := false
			for v, truth := range boolFacts(r.Block()) {
				if e2, ok := v.(*ssa.Extract); ok && e2.Tuple == lk && e2.Index == 1 && truth {
					okv = true
				}
			}
			if !okv {
				badHit = "table entry returned without a hit"
				continue
			}
			hit++
		} else {
			if !isNilConst(r.Results[0]) {
				badMiss = "miss path returns a getter as well (a default opset is substituted)"
				continue
			}
			if sentinel == nil || !c.errWraps(r.Results[1], sentinel, 0) || !c.definitelyNonNilErr(r.Results[1], r.Block(), 0) {
				badMiss = "miss path does not return ops.ErrUnsupportedOpsetVersion"
				continue
			}
			miss++
		}
	}
	if badHit == "" && hit == 0 {
		badHit = "resolver lacks a hit path"
	}
	if badMiss == "" && miss == 0 {
		badMiss = "resolver lacks a miss path"
	}
	// which id resolves to which getter, over a finite table of ids, however the table is stored and searched
	if known, tbad := c.resolverTable(res); known {
		badHit = tbad
	}
	bad := firstNonEmpty(badHit, badMiss)
	c.decide(bad == "", "R5", key, c.pos(res.Pos()), "hit: table[id]; miss: (nil, ErrUnsupportedOpsetVersion)", bad)
}

// resolverTable walks the opset resolver for the ids -1..40: an id resolves exactly when the library has an
// operator package for it (.../ops/opset<id>), and then to a getter declared in that package; every other id gives
// (nil, error). known=false when an id cannot be followed to one outcome.
func (c *Ctx) resolverTable(res *ssa.Function) (known bool, bad string) {
	p0 := &pinterp{c: c, budget: 3000000, objects: true}
	heap0 := p0.initGlobals(newHeap(), modPath)
	if len(p0.initFailed) > 0 {
		if os.Getenv("R5TRACE") != "" {
			fmt.Println("R5TRACE init failed", p0.initFailed)
		}
		return false, ""
	}
	hits := 0
	cov := newCover(res)
	for id := int64(-1); id <= 40; id++ {
		wantPkg := fmt.Sprintf("%s/ops/opset%d", modPath, id)
		_, exists := c.pkgByPath[wantPkg]
		p := &pinterp{c: c, budget: 100000, objects: true, globals: p0.globals, cover: cov, trace: os.Getenv("R5TRACE") != "" && id == 13}
		r, _ := p.run(res, []pval{{k: pInt, i: id}}, 0, heap0.clone())
		if p.aborted || len(r) != 2 {
			return false, ""
		}
		switch {
		case r[1].k == pNil && r[0].k == pFunc && r[0].fn != nil:
			if !exists {
				return true, fmt.Sprintf("opset %d, for which the library has no operator package, resolves to %s (a default opset is substituted)", id, fname(r[0].fn))
			}
			if fnPkgPath(r[0].fn) != wantPkg {
				return true, fmt.Sprintf("opset %d resolves to %s, a getter of another opset", id, fname(r[0].fn))
			}
			hits++
		case nonNilKind(r[1].k) && r[0].k == pNil:
			if exists {
				return true, fmt.Sprintf("opset %d is refused although the library has the operator package %s", id, wantPkg)
			}
		case nonNilKind(r[1].k) && r[0].k == pFunc:
			return true, fmt.Sprintf("opset %d: a getter is returned together with an error", id)
		default:
			if os.Getenv("R5TRACE") != "" {
				fmt.Println("R5TRACE unknown outcome", id, r)
			}
			return false, ""
		}
	}
	if hits == 0 {
		return true, "no opset id resolves to a getter"
	}
	if unc := cov.uncovered(c); len(unc) > 0 {
		c.declined("resolver table", unc)
		return false, ""
	}
	c.counts["R5:M11:resolver-table-cells"] = 42
	return true, ""
}

func isLibGlobal(v ssa.Value) bool {
	g, ok := v.(*ssa.Global)
	return ok && g.Pkg != nil && isLibPkgPath(g.Pkg.Pkg.Path())
}

// M13: Model fields are written only by the constructor.
func (c *Ctx) checkM13(mi *modelInfo) {
	key := "R5:M13"
	for _, f := range c.libFns {
		if f == mi.newModel {
			continue
		}
		for _, b := range f.Blocks {
			for _, in := range b.Instrs {
				st, ok := in.(*ssa.Store)
				if !ok {
					continue
				}
				if fa, ok := st.Addr.(*ssa.FieldAddr); ok {
					if n, _ := structOfPtr(fa.X.Type()); n == mi.named {
						c.violate("R5", key, c.pos(st.Pos()), fname(f)+" assigns a Model field after construction: state carries over between Runs / is shared between goroutines")
						return
					}
				}
			}
		}
	}
	c.discharge("R5", key, c.pos(mi.named.Obj().Pos()), "no store to a Model field outside the constructor")
}
