// gonnxcheck decides the gonnx properties C01..C18 by static analysis of /repo's current source.
// Nothing here executes gonnx code. See /verif/DESIGN.md.
package main

import (
	"encoding/json"
	"flag"
	"fmt"
	"golang.org/x/tools/go/ssa"
	"os"
	"path/filepath"
	"runtime/debug"
	"sort"
	"strconv"
	"strings"
	"time"
)

type ruleSpec struct {
	id  string
	doc string
	run func(c *Ctx, prop string)
}

func main() {
	repo := flag.String("repo", "/repo", "repository root")
	prop := flag.String("property", "", "property id (C01..C18)")
	tier := flag.String("tier", "quick", "quick|thorough")
	evPath := flag.String("evidence", "", "evidence file to write")
	verifDir := flag.String("verif", "/verif", "verif directory (known_findings.json, mutants/, evidence/)")
	explain := flag.String("explain", "", "print a violation record")
	noMutants := flag.Bool("no-mutants", false, "skip mutant replay in thorough tier")
	dumpAll := flag.Bool("v", false, "print every obligation")
	flag.Parse()

	if *explain != "" {
		b, err := os.ReadFile(*explain)
		if err != nil {
			fmt.Fprintln(os.Stderr, err)
			os.Exit(2)
		}
		os.Stdout.Write(b)
		fmt.Println()
		fmt.Println("re-run: bin/gonnxcheck -repo /repo -property <id> -v   (the record above names rule, key, site and witness)")
		return
	}
	if v := os.Getenv("VERIF_TIER"); v != "" && !flagSet("tier") {
		*tier = v
	}
	if *tier != "quick" && *tier != "thorough" {
		fmt.Fprintln(os.Stderr, "bad tier", *tier)
		os.Exit(2)
	}
	if *prop == "all" {
		os.Exit(runAllProps(*repo, *tier, *verifDir))
	}
	rules, ok := propRules[*prop]
	if !ok {
		fmt.Fprintln(os.Stderr, "unknown or unclaimed property", *prop)
		os.Exit(2)
	}
	if *evPath == "" {
		*evPath = filepath.Join(*verifDir, "evidence", *prop+".json")
	}
	seed := 0
	if s := os.Getenv("VERIF_SEED"); s != "" {
		if n, err := strconv.Atoi(s); err == nil {
			seed = n
		}
	}
	os.Exit(run(*repo, *prop, *tier, *evPath, *verifDir, seed, rules, *noMutants, *dumpAll))
}

func flagSet(name string) bool {
	found := false
	flag.Visit(func(f *flag.Flag) {
		if f.Name == name {
			found = true
		}
	})
	return found
}

func run(repo, prop, tier, evPath, verifDir string, seed int, rules []ruleSpec, noMutants, dumpAll bool) (code int) {
	t0 := time.Now()
	var c *Ctx
	undecidedReasons := []string{}
	defer func() {
		if r := recover(); r != nil {
			fmt.Printf("UNDECIDED property=%s reason=checker panic: %v\n%s\n", prop, r, debug.Stack())
			writeEvidence(evPath, prop, tier, seed, c, nil, nil, append(undecidedReasons, fmt.Sprint("panic: ", r)), nil, time.Since(t0), propDocs[prop])
			code = 2
		}
	}()
	var err error
	c, err = load(repo, tier, "")
	if err != nil {
		fmt.Printf("UNDECIDED property=%s reason=load failed: %v\n", prop, err)
		writeEvidence(evPath, prop, tier, seed, nil, nil, nil, []string{"load failed: " + err.Error()}, nil, time.Since(t0), propDocs[prop])
		return 2
	}
	fmt.Printf("gonnxcheck property=%s tier=%s repo=%s packages=%d files=%d functions=%d control_functions=%d callgraph=%s nodes=%d\n",
		prop, tier, repo, 4, c.nFiles, len(c.libFns), len(c.ctlFns), c.cgAlg, len(c.cg.Nodes))

	if fnName := os.Getenv("GONNXCHECK_TERMS"); fnName != "" {
		// authoring aid: print the terms of stores, calls and returns of one function
		for _, f := range c.libFns {
			if !strings.HasSuffix(fname(f), fnName) {
				continue
			}
			fmt.Println("== terms of", fname(f))
			for _, b := range f.Blocks {
				for _, in := range b.Instrs {
					switch x := in.(type) {
					case *ssa.Store:
						fmt.Printf("  store %s <- %s   [norm %s]\n", c.term(x.Addr, 0), c.term(x.Val, 0), c.normInt(x.Val, 0))
					case *ssa.Return:
						for _, r := range x.Results {
							fmt.Printf("  return %s\n", c.term(r, 0))
						}
					}
				}
			}
		}
	}
	for _, r := range rules {
		n0 := len(c.obls)
		r.run(c, prop)
		c.applyTableOverrides(n0)
		// a rule that compares terms is run a second time with helper inlining when it reports something: a helper
		// extracted by a refactoring stands for what it returns. The better outcome counts.
		if nBad(c.obls[n0:]) > 0 && !c.termInline {
			saved := append([]Obligation{}, c.obls[n0:]...)
			savedCounts := map[string]int{}
			for k, v := range c.counts {
				savedCounts[k] = v
			}
			c.obls = c.obls[:n0]
			c.termInline = true
			c.termMemo = nil
			r.run(c, prop)
			c.applyTableOverrides(n0)
			c.termInline = false
			c.termMemo = nil
			if nBad(c.obls[n0:]) >= nBad(saved) {
				c.obls = append(c.obls[:n0], saved...)
				c.counts = savedCounts
			}
		}
		nd, nv, nn, nu := 0, 0, 0, 0
		for _, o := range c.obls[n0:] {
			if o.Control {
				continue
			}
			switch o.Status {
			case StDischarged:
				nd++
			case StViolated:
				nv++
			case StNote:
				nn++
			case StUndecided:
				nu++
			}
		}
		fmt.Printf("  rule %-6s %-58s obligations=%d discharged=%d violated=%d notes=%d undecided=%d\n", r.id, r.doc, nd+nv+nu, nd, nv, nn, nu)
	}

	findings, err := loadFindings(filepath.Join(verifDir, "known_findings.json"))
	if err != nil {
		fmt.Printf("UNDECIDED property=%s reason=known_findings.json unreadable: %v\n", prop, err)
		return 2
	}

	// controls: every control obligation must have the status its key announces.
	ctlOK, ctlBad := 0, 0
	for _, o := range c.obls {
		if !o.Control {
			continue
		}
		wantBad := strings.Contains(o.Key, "bad")
		wantGood := strings.Contains(o.Key, "good")
		switch {
		case wantBad && o.Status == StViolated, wantGood && o.Status == StDischarged:
			ctlOK++
		default:
			ctlBad++
			undecidedReasons = append(undecidedReasons, fmt.Sprintf("control %s has status %s", o.Key, o.Status))
		}
	}
	for _, want := range c.expectedControls() {
		found := false
		for _, o := range c.obls {
			if o.Control && o.Key == want {
				found = true
			}
		}
		if !found {
			ctlBad++
			undecidedReasons = append(undecidedReasons, "control not reported: "+want)
		}
	}

	var violated, known []Obligation
	seenKey := map[string]bool{}
	for _, o := range c.obls {
		if o.Control {
			continue
		}
		switch o.Status {
		case StViolated:
			if seenKey[o.Key] {
				continue
			}
			seenKey[o.Key] = true
			if f := knownFor(findings, prop, o.Key); f != nil {
				known = append(known, o)
				fmt.Printf("KNOWN-FINDING: property=%s %s at %s: %s\n", prop, o.Key, o.Site, f.What)
			} else {
				violated = append(violated, o)
			}
		case StUndecided:
			// An obligation about /repo's code that the rules can neither discharge nor refute (the construct the
			// rule is anchored on is gone or no longer recognisable): the property is not shown to hold, which a
			// static check has to report. The record and the message say "undischarged", not "violated".
			if seenKey[o.Key] {
				continue
			}
			seenKey[o.Key] = true
			o.Why = "UNDISCHARGED (the rule cannot follow this code any more, so the property is not established): " + o.Why
			violated = append(violated, o)
		}
	}
	// stale known findings (informational)
	var stale []string
	for _, f := range findings {
		if f.Status == "known" && f.Property == prop && !seenKey[f.Key] {
			stale = append(stale, f.Key)
		}
	}

	if dumpAll {
		for _, o := range c.obls {
			fmt.Printf("    [%s] %s %s  %s  -- %s\n", o.Status, o.Rule, o.Key, o.Site, o.Why)
		}
	}

	// thorough extras
	extra := map[string]any{}
	if tier == "thorough" {
		archDiff := crossArch(c, repo)
		extra["goarch_reloads"] = archDiff
		if s, ok := archDiff["mismatch"].(string); ok && s != "" {
			undecidedReasons = append(undecidedReasons, "GOARCH reload: "+s)
		}
		if !noMutants {
			extra["mutant_replay"] = replayMutants(repo, prop, verifDir)
		}
	}
	extra["controls_ok"] = ctlOK
	extra["controls_failed"] = ctlBad
	if len(stale) > 0 {
		extra["stale_known_findings"] = stale
	}

	// violation records
	vdir := filepath.Join(verifDir, "evidence", "violations")
	var vpaths []string
	if len(violated) > 0 {
		os.MkdirAll(vdir, 0o755)
	}
	sort.Slice(violated, func(i, j int) bool { return violated[i].Key < violated[j].Key })
	for i, o := range violated {
		p := filepath.Join(vdir, fmt.Sprintf("%s-%d.json", prop, i+1))
		rec := map[string]any{"property": prop, "rule": o.Rule, "key": o.Key, "site": o.Site, "why": o.Why, "path": o.Path, "tier": tier, "status": o.Status}
		b, _ := json.MarshalIndent(rec, "", " ")
		os.WriteFile(p, b, 0o644)
		vpaths = append(vpaths, p)
	}

	writeEvidence(evPath, prop, tier, seed, c, violated, known, undecidedReasons, extra, time.Since(t0), propDocs[prop])

	for i, o := range violated {
		word := "violated"
		if o.Status == StUndecided {
			word = "undischarged"
		}
		fmt.Printf("%s: rule=%s key=%s site=%s why=%s\n", word, o.Rule, o.Key, o.Site, o.Why)
		fmt.Printf("VIOLATION property=%s replay=%s\n", prop, vpaths[i])
	}
	if len(violated) > 0 {
		return 1
	}
	if len(undecidedReasons) > 0 {
		for _, r := range undecidedReasons {
			fmt.Printf("UNDECIDED property=%s reason=%s\n", prop, r)
		}
		return 2
	}
	fmt.Printf("OK property=%s obligations=%d known_findings=%d wall=%.1fs\n", prop, countDecided(c), len(known), time.Since(t0).Seconds())
	return 0
}

func countDecided(c *Ctx) int {
	n := 0
	for _, o := range c.obls {
		if !o.Control && (o.Status == StDischarged || o.Status == StViolated) {
			n++
		}
	}
	return n
}

func nBad(l []Obligation) int {
	n := 0
	for _, o := range l {
		if !o.Control && (o.Status == StViolated || o.Status == StUndecided) {
			n++
		}
	}
	return n
}

// runAllProps is an authoring aid (tools/refcheck.sh, tools/seedall.sh): one load, then every property's rules in turn;
// it prints the violated / undischarged obligations per property and nothing else, and writes no evidence.
func runAllProps(repo, tier, verifDir string) int {
	c, err := load(repo, tier, "")
	if err != nil {
		fmt.Println("UNDECIDED load failed:", err)
		return 2
	}
	findings, _ := loadFindings(filepath.Join(verifDir, "known_findings.json"))
	props := []string{}
	for p := range propRules {
		props = append(props, p)
	}
	sort.Strings(props)
	code := 0
	for _, prop := range props {
		c.obls, c.counts, c.tableCovered, c.termMemo = nil, map[string]int{}, map[string]string{}, nil
		func() {
			defer func() {
				if r := recover(); r != nil {
					fmt.Printf("%s UNDECIDED checker panic: %v\n", prop, r)
					code = 2
				}
			}()
			for _, r := range propRules[prop] {
				n0 := len(c.obls)
				r.run(c, prop)
				c.applyTableOverrides(n0)
				if nBad(c.obls[n0:]) > 0 && !c.termInline {
					saved := append([]Obligation{}, c.obls[n0:]...)
					c.obls = c.obls[:n0]
					c.termInline, c.termMemo = true, nil
					r.run(c, prop)
					c.applyTableOverrides(n0)
					c.termInline, c.termMemo = false, nil
					if nBad(c.obls[n0:]) >= nBad(saved) {
						c.obls = append(c.obls[:n0], saved...)
					}
				}
			}
		}()
		seen := map[string]bool{}
		for _, o := range c.obls {
			if o.Control {
				wantBad, wantGood := strings.Contains(o.Key, "bad"), strings.Contains(o.Key, "good")
				if (wantBad && o.Status != StViolated) || (wantGood && o.Status != StDischarged) {
					fmt.Printf("%s UNDECIDED control %s has status %s\n", prop, o.Key, o.Status)
				}
				continue
			}
			if (o.Status != StViolated && o.Status != StUndecided) || seen[o.Key] {
				continue
			}
			seen[o.Key] = true
			if o.Status == StViolated && knownFor(findings, prop, o.Key) != nil {
				continue
			}
			word := "violated"
			if o.Status == StUndecided {
				word = "undischarged"
			}
			fmt.Printf("%s %s: rule=%s key=%s site=%s why=%s\n", prop, word, o.Rule, o.Key, o.Site, o.Why)
			if code == 0 {
				code = 1
			}
		}
	}
	return code
}
