package main

// R40 — the recurrent operators by finite dataflow table (C06, also walked under C01/C16 where R12 runs)
//
// RNN, GRU and LSTM are walked (not executed) on abstract tensors for a sequence of two steps: every gorgonia
// operation on an abstract tensor yields a new abstract tensor that remembers the operation and its operands
// (a term; nothing is computed). The exported helpers of package ops that cut packed tensors and time steps,
// the activation lookup and the Gemm operator answer as their own contracts say (they have rules of their own).
// What the operator returns is then compared, modulo the order of sums and element-wise products, with the ONNX
// recurrences written with the same leaves: which block of W, R, B and P enters which gate, which activation is
// applied where, how the state is threaded from step to step, which tensors are the outputs and to which shape
// they are brought. How the operator is factored into helpers, structs, closures or loops does not matter.

import (
	"fmt"
	"go/token"
	"go/types"
	"os"
	"sort"
	"strings"

	"golang.org/x/tools/go/ssa"
)

type recNode struct {
	op   string
	args []int64
	lit  string
}

type recRun struct {
	c       *Ctx
	nodes   map[int64]*recNode
	shape   map[int64][]int64 // current shape of a tensor node (when known)
	next    int64
	canon   map[int64]string
	acts    map[int64]string // hook id -> activation name
	bad     string
	blocks  []string // record of block extractions: "<leaf>:<n>:<ndims>:<hidden>"
	steps   []string // record of time-step extractions
	reshape map[int64][]int64
}

func (r *recRun) node(op string, lit string, args ...int64) pval {
	r.next++
	r.nodes[r.next] = &recNode{op: op, args: args, lit: lit}
	return pval{k: pAbs, i: r.next, s: "tensor"}
}

func (r *recRun) setBad(s string) {
	if r.bad == "" {
		r.bad = s
	}
}

// canonical term of a node: sums and element-wise products are flattened and sorted, copies, reshapes and
// broadcasts are the tensor itself, Gemm with alpha = beta = 1 is a sum of a matrix product and its third operand.
func (r *recRun) term(id int64) string {
	if s, ok := r.canon[id]; ok {
		return s
	}
	n := r.nodes[id]
	if n == nil {
		return "?"
	}
	var out string
	flat := func(kind string, ids []int64) string {
		var parts []string
		for _, a := range ids {
			t := r.term(a)
			if strings.HasPrefix(t, kind+"{") {
				parts = append(parts, splitTop(t[len(kind)+1:len(t)-1])...)
			} else {
				parts = append(parts, t)
			}
		}
		sort.Strings(parts)
		return kind + "{" + strings.Join(parts, ",") + "}"
	}
	switch n.op {
	case "leaf":
		out = n.lit
	case "id":
		out = r.term(n.args[0])
	case "Add":
		out = flat("sum", n.args)
	case "Mul":
		out = flat("prod", n.args)
	case "mm":
		a, b := r.term(n.args[0]), r.term(n.args[1])
		if n.lit[0] == 'T' {
			a += "T"
		}
		if n.lit[1] == 'T' {
			b += "T"
		}
		out = "mm(" + a + "," + b + ")"
	case "sumlist":
		out = flat("sum", n.args)
	case "T":
		out = r.term(n.args[0]) + "T"
		if strings.HasSuffix(out, "TT") {
			out = strings.TrimSuffix(out, "TT") // transposed twice
		}
	case "slice":
		src := r.term(n.args[0])
		parts := strings.Split(n.lit, ",")
		var lo, hi int
		if src == "X" && len(parts) == 3 && parts[1] == "" && parts[2] == "" {
			if k, _ := fmt.Sscanf(parts[0], "%d:%d", &lo, &hi); k == 2 && hi == lo+1 {
				out = fmt.Sprintf("X@%d", lo)
				break
			}
		}
		out = "slice[" + n.lit + "](" + src + ")"
	default:
		var parts []string
		for _, a := range n.args {
			parts = append(parts, r.term(a))
		}
		out = n.op
		if n.lit != "" {
			out += "[" + n.lit + "]"
		}
		out += "(" + strings.Join(parts, ",") + ")"
	}
	r.canon[id] = out
	return out
}

// splitTop splits "a,b{c,d},e" at top-level commas.
func splitTop(s string) []string {
	var out []string
	depth, start := 0, 0
	for i, ch := range s {
		switch ch {
		case '{', '(', '[':
			depth++
		case '}', ')', ']':
			depth--
		case ',':
			if depth == 0 {
				out = append(out, s[start:i])
				start = i + 1
			}
		}
	}
	if start <= len(s) && s != "" {
		out = append(out, s[start:])
	}
	return out
}

func sumOf(parts ...string) string {
	var fl []string
	for _, p := range parts {
		if p == "" {
			continue
		}
		if strings.HasPrefix(p, "sum{") {
			fl = append(fl, splitTop(p[4:len(p)-1])...)
		} else {
			fl = append(fl, p)
		}
	}
	sort.Strings(fl)
	return "sum{" + strings.Join(fl, ",") + "}"
}

func prodOf(parts ...string) string {
	var fl []string
	for _, p := range parts {
		if strings.HasPrefix(p, "prod{") {
			fl = append(fl, splitTop(p[5:len(p)-1])...)
		} else {
			fl = append(fl, p)
		}
	}
	sort.Strings(fl)
	return "prod{" + strings.Join(fl, ",") + "}"
}

type recCell struct {
	hasB, hasH, hasC, hasP bool
	lbr                    bool
	acts                   []string // activation names given by attribute (nil: defaults)
	one                    bool     // a sequence of one step (else two)
	seqLens                bool     // the optional sequence_lens input is given (the library refuses it)
	badAct                 int      // 1-based position of an activation name the library does not have (0: none)
	nOut                   int      // number of outputs the node lists (0: all)
	unit                   bool     // batch size 1 and input size 1 (gorgonia turns a one-element view into a scalar)
	wrongLen               bool     // the activations list has one entry too few or too many: to be refused
}

func (cell recCell) batch() int64 {
	if cell.unit {
		return 1
	}
	return recBatch
}

func (cell recCell) input() int64 {
	if cell.unit {
		return 1
	}
	return recInput
}

func (cell recCell) seq() int64 {
	if cell.one {
		return 1
	}
	return 2
}

func (cell recCell) String() string {
	return fmt.Sprintf("%d time steps, batch %d, input size %d, B given=%v, initial_h given=%v, initial_c given=%v, P given=%v, linear_before_reset=%v, activations=%v", cell.seq(), cell.batch(), cell.input(), cell.hasB, cell.hasH, cell.hasC, cell.hasP, cell.lbr, cell.acts)
}

const (
	recBatch, recInput, recHidden = 3, 4, 5
)

// recWalk walks Init (attributes of the cell) and Apply of one recurrent operator; followed=false when the walk
// cannot follow the code to one outcome.
func (c *Ctx) recWalk(oi *opInfo, name string, cell recCell, cov *pcover) (r *recRun, outs []pval, followed bool) {
	st := c.libInit()
	onnxPkg := c.pkgByPath[pkgOnnx]
	ctor := c.registeredCtor(oi, name)
	if len(st.failed) > 0 || onnxPkg == nil || ctor == nil || oi.methods["Init"] == nil || oi.methods["Apply"] == nil {
		if os.Getenv("RECDEBUG") != "" {
			fmt.Println("RECDEBUG setup:", st.failed, onnxPkg != nil, ctor != nil)
		}
		return nil, nil, false
	}
	gates := map[string]int64{"RNN": 1, "GRU": 3, "LSTM": 4}[name]
	r = &recRun{c: c, nodes: map[int64]*recNode{}, shape: map[int64][]int64{}, canon: map[int64]string{}, acts: map[int64]string{}, next: 20000, reshape: map[int64][]int64{}}
	heap := st.heap.clone()
	b := &rtBuilder{c: c, heap: heap, onnx: onnxPkg.Types}
	attr := func(name string, fields map[string]pval) pval {
		fields["Name"] = pval{k: pStr, s: name}
		return b.obj(onnxPkg.Types, "AttributeProto", fields)
	}
	attrs := []pval{attr("hidden_size", map[string]pval{"I": {k: pInt, i: recHidden}})}
	if cell.lbr {
		attrs = append(attrs, attr("linear_before_reset", map[string]pval{"I": {k: pInt, i: 1}}))
	}
	if cell.acts != nil {
		l := []pval{}
		for _, a := range cell.acts {
			l = append(l, pval{k: pStr, s: a}) // the []byte of the name, kept as the name
		}
		attrs = append(attrs, attr("activations", map[string]pval{"Strings": b.list(l...)}))
	}
	outNames := []string{"Y", "Y_h", "Y_c"}
	if name != "LSTM" {
		outNames = outNames[:2]
	}
	if cell.nOut > 0 && cell.nOut < len(outNames) {
		outNames = outNames[:cell.nOut]
	}
	node := b.obj(onnxPkg.Types, "NodeProto", map[string]pval{"Attribute": b.list(attrs...), "Output": b.strs(outNames...), "Input": b.strs("X", "W", "R", "B", "", "H0", "C0", "P")})

	leaf := func(name string, shape ...int64) pval {
		v := r.node("leaf", name)
		r.shape[v.i] = shape
		return v
	}
	inputs := make([]pval, 8)
	for i := range inputs {
		inputs[i] = pval{k: pNil}
	}
	inputs[0] = leaf("X", cell.seq(), cell.batch(), cell.input())
	inputs[1] = leaf("W", 1, gates*recHidden, cell.input())
	inputs[2] = leaf("R", 1, gates*recHidden, recHidden)
	if cell.hasB {
		inputs[3] = leaf("B", 1, 2*gates*recHidden)
	}
	if cell.hasH {
		inputs[5] = leaf("H0", 1, cell.batch(), recHidden)
	}
	if cell.seqLens {
		inputs[4] = leaf("SL", cell.batch())
	}
	nIn := 6
	if name == "LSTM" {
		nIn = 8
		if cell.hasC {
			inputs[6] = leaf("C0", 1, cell.batch(), recHidden)
		}
		if cell.hasP {
			inputs[7] = leaf("P", 1, 3*recHidden)
		}
	}
	inputs = inputs[:nIn]

	p := &pinterp{c: c, budget: 2000000, objects: true, globals: st.globals, cover: cov, trace: os.Getenv("RECTRACE") == name}
	isT := func(v pval) bool { return v.k == pAbs && v.s == "tensor" && r.nodes[v.i] != nil }
	ints := func(h *pheap, v pval) ([]int64, bool) {
		var l []pval
		switch v.k {
		case pList:
			l = h.lists[v.i]
			if l == nil {
				return nil, false
			}
		case pNil:
		default:
			return nil, false
		}
		out := make([]int64, len(l))
		for i, e := range l {
			if e.k != pInt {
				return nil, false
			}
			out[i] = e.i
		}
		return out, true
	}
	shapeList := func(h *pheap, id int64) (pval, bool) {
		sh, ok := r.shape[id]
		if !ok {
			return pval{}, false
		}
		l := make([]pval, len(sh))
		for i, e := range sh {
			l[i] = pval{k: pInt, i: e}
		}
		return h.alloc(l), true
	}
	p.onInvoke = func(fn *ssa.Function, call *ssa.Call, recv pval, method string, args []pval, h *pheap) ([]pval, bool) {
		if !isT(recv) {
			return nil, false
		}
		switch method {
		case "Shape":
			if l, ok := shapeList(h, recv.i); ok {
				return []pval{l}, true
			}
			return []pval{{k: pPoison}}, true
		case "Dims":
			if sh, ok := r.shape[recv.i]; ok {
				return []pval{{k: pInt, i: int64(len(sh))}}, true
			}
		case "Clone", "Materialize":
			v := r.node("id", "", recv.i)
			if sh, ok := r.shape[recv.i]; ok {
				r.shape[v.i] = append([]int64{}, sh...)
			}
			return []pval{v}, true
		case "Reshape":
			if len(args) == 1 {
				if l, ok := ints(h, args[0]); ok {
					r.shape[recv.i] = l
					r.reshape[recv.i] = l
					return []pval{{k: pNil}}, true
				}
			}
			delete(r.shape, recv.i)
			return []pval{{k: pNil}}, true
		case "Slice":
			// gorgonia's Tensor.Slice with step-1 slicers: a sliced axis of extent 1 is dropped, a view of one
			// element in all is a scalar
			sh, okS := r.shape[recv.i]
			if !okS || len(args) != 1 {
				return []pval{{k: pPoison}, {k: pPoison}}, true
			}
			var sl []pval
			switch args[0].k {
			case pList:
				sl = h.lists[args[0].i]
				if sl == nil {
					return []pval{{k: pPoison}, {k: pPoison}}, true
				}
			case pNil:
			default:
				return []pval{{k: pPoison}, {k: pPoison}}, true
			}
			if len(sl) > len(sh) {
				return []pval{{k: pNil}, {k: pNonNil}}, true
			}
			var nshape []int64
			var desc []string
			total := int64(1)
			for i, e := range sh {
				if i >= len(sl) || sl[i].k == pNil {
					nshape = append(nshape, e)
					desc = append(desc, "")
					total *= e
					continue
				}
				o := h.objs[sl[i].i]
				if sl[i].k != pObj || o == nil || o.typ == nil {
					return []pval{{k: pPoison}, {k: pPoison}}, true
				}
				stt, _ := o.typ.Underlying().(*types.Struct)
				get := func(nm string) (int64, bool) {
					for f := 0; stt != nil && f < stt.NumFields(); f++ {
						if stt.Field(f).Name() == nm {
							v, set := o.fields[f]
							if !set {
								return 0, true
							}
							return v.i, v.k == pInt
						}
					}
					return 0, false
				}
				lo, ok1 := get("start")
				hi, ok2 := get("end")
				step, ok3 := get("step")
				if !ok1 || !ok2 || !ok3 || step != 1 || lo < 0 || hi <= lo {
					return []pval{{k: pPoison}, {k: pPoison}}, true
				}
				if hi > e {
					return []pval{{k: pNil}, {k: pNonNil}}, true
				}
				desc = append(desc, fmt.Sprintf("%d:%d", lo, hi))
				if hi-lo > 1 {
					nshape = append(nshape, hi-lo)
				}
				total *= hi - lo
			}
			if total == 1 {
				nshape = nil
			}
			if nshape == nil {
				nshape = []int64{}
			}
			v := r.node("slice", strings.Join(desc, ","), recv.i)
			r.shape[v.i] = nshape
			return []pval{v, {k: pNil}}, true
		case "T":
			// in-place transposition of a matrix: the value is another tensor from here on — not used by the
			// recurrent operators; refuse to follow
			return []pval{{k: pPoison}}, true
		}
		return nil, false
	}
	p.extModel = func(key string, call *ssa.Call, ops []pval, h *pheap) ([]pval, bool) {
		name := key[len(pkgTensor)+1:]
		switch name {
		case "Add", "Mul", "Sub", "Div":
			if len(ops) >= 3 && !(ops[2].k == pNil || ops[2].k == pList && len(h.lists[ops[2].i]) == 0) {
				return nil, false // an in-place option: the operation writes into an operand, not this table's vocabulary
			}
			if len(ops) >= 2 && isT(ops[0]) && isT(ops[1]) {
				v := r.node(name, "", ops[0].i, ops[1].i)
				if sh, ok := r.shape[ops[0].i]; ok {
					r.shape[v.i] = append([]int64{}, sh...)
				}
				return []pval{v, {k: pNil}}, true
			}
		case "Tanh", "Exp", "Neg", "Sigmoid", "Sqrt", "Abs":
			if len(ops) >= 1 && isT(ops[0]) {
				v := r.node(name, "", ops[0].i)
				return []pval{v, {k: pNil}}, true
			}
		case "Concat":
			if len(ops) == 3 && ops[0].k == pInt && isT(ops[1]) {
				ids := []int64{ops[1].i}
				var rest []pval
				switch ops[2].k {
				case pList:
					rest = h.lists[ops[2].i]
					if rest == nil {
						return nil, false
					}
				case pNil:
				default:
					return nil, false
				}
				for _, e := range rest {
					if !isT(e) {
						return nil, false
					}
					ids = append(ids, e.i)
				}
				v := r.node("concat", fmt.Sprint(ops[0].i), ids...)
				return []pval{v, {k: pNil}}, true
			}
		case "MatMul":
			if len(ops) >= 2 && isT(ops[0]) && isT(ops[1]) {
				return []pval{r.node("mm", "nn", ops[0].i, ops[1].i), {k: pNil}}, true
			}
		}
		return nil, false
	}
	wantBlocks := map[string][2]int64{"W": {gates, 3}, "R": {gates, 3}, "B": {2 * gates, 2}, "0": {2 * gates, 2}, "P": {3, 2}}
	p.intercept = func(fn *ssa.Function, call *ssa.Call, callee *ssa.Function, args []pval, h *pheap) ([]pval, bool) {
		if callee.Parent() != nil {
			return nil, false
		}
		exportedOps := fnPkgPath(callee) == pkgOps && callee.Signature.Recv() == nil
		switch {
		case exportedOps && callee.Name() == "ExtractMatrices":
			if len(args) != 4 || !isT(args[0]) || args[1].k != pInt || args[2].k != pInt || args[3].k != pInt {
				return []pval{{k: pPoison}, {k: pPoison}}, true
			}
			src := r.term(args[0].i)
			if w, ok := wantBlocks[src]; !ok || w[0] != args[1].i || w[1] != args[2].i || args[3].i != recHidden {
				r.setBad(fmt.Sprintf("the packed tensor %s is cut into %d blocks of %d rows (as a tensor of %d dimensions); ONNX packs %d blocks of hidden_size = %d rows", src, args[1].i, args[3].i, args[2].i, w[0], recHidden))
			}
			l := make([]pval, args[1].i)
			for k := range l {
				if src == "0" {
					l[k] = r.node("leaf", "0")
				} else {
					l[k] = r.node("leaf", fmt.Sprintf("%s[%d]", src, k))
				}
			}
			return []pval{h.alloc(l), {k: pNil}}, true
		case exportedOps && callee.Name() == "ZeroTensor":
			v := r.node("leaf", "0")
			if len(args) == 1 {
				if l, ok := ints(h, args[0]); ok {
					r.shape[v.i] = l
				}
			}
			return []pval{v}, true
		case exportedOps && callee.Name() == "OnesTensor":
			if len(args) == 1 && isT(args[0]) {
				return []pval{r.node("leaf", "1")}, true
			}
		case exportedOps && callee.Name() == "GetActivation":
			if len(args) == 1 && args[0].k == pStr && strings.HasPrefix(args[0].s, "NoSuch") {
				return []pval{{k: pNil}, {k: pNonNil}}, true
			}
			if len(args) == 1 && args[0].k == pStr {
				r.next++
				r.acts[r.next] = args[0].s
				return []pval{{k: pHookFn, i: r.next}, {k: pNil}}, true
			}
			return []pval{{k: pPoison}, {k: pPoison}}, true
		case exportedOps && (callee.Name() == "UnidirectionalBroadcast" || callee.Name() == "MultidirectionalBroadcast"):
			if len(args) == 2 && isT(args[0]) && isT(args[1]) {
				return []pval{r.node("id", "", args[0].i), r.node("id", "", args[1].i), {k: pNil}}, true
			}
		case callee.Name() == "Apply" && callee.Signature.Recv() != nil && recvNamed(callee) != nil && recvNamed(callee).Obj().Name() == "Gemm" && recvNamed(callee) != oi.named:
			// the Gemm operator: alpha * A' * B' + beta * C (its own rule: R16)
			if len(args) != 2 || args[0].k != pObj || args[1].k != pList {
				return []pval{{k: pPoison}, {k: pPoison}}, true
			}
			o := h.objs[args[0].i]
			in := h.lists[args[1].i]
			if o == nil || o.typ == nil || len(in) != 3 || !isT(in[0]) || !isT(in[1]) {
				return []pval{{k: pPoison}, {k: pPoison}}, true
			}
			stt, _ := o.typ.Underlying().(*types.Struct)
			get := func(nm string) pval {
				for i := 0; stt != nil && i < stt.NumFields(); i++ {
					if stt.Field(i).Name() == nm {
						if v, ok := o.fields[i]; ok {
							return v
						}
						z, _ := zeroOf(stt.Field(i).Type())
						return z
					}
				}
				return pval{}
			}
			one := func(v pval) bool { return (v.k == pFloat && (v.s == "1" || v.s == "1.0")) || (v.k == pInt && v.i == 1) }
			tA, tB, al, be := get("transA"), get("transB"), get("alpha"), get("beta")
			if tA.k != pBool || tB.k != pBool {
				return []pval{{k: pPoison}, {k: pPoison}}, true
			}
			if !one(al) || (!one(be) && isT(in[2])) {
				r.setBad("a Gemm helper of the recurrence scales its product or its bias (alpha / beta other than 1)")
			}
			lit := "nn"
			if tA.b {
				lit = "T" + lit[1:]
			}
			if tB.b {
				lit = lit[:1] + "T"
			}
			if ta := r.term(in[0].i); strings.HasPrefix(ta, "X@") {
				if sh, ok := r.shape[in[0].i]; ok && fmtInts(sh) != fmtInts([]int64{cell.batch(), cell.input()}) {
					r.setBad(fmt.Sprintf("the time step %s reaches the gate computation with shape %s, expected (batch, input size) = %s", ta, fmtInts(sh), fmtInts([]int64{cell.batch(), cell.input()})))
				}
				if len(r.steps) == 0 || r.steps[len(r.steps)-1] != ta {
					r.steps = append(r.steps, ta)
				}
			}
			mm := r.node("mm", lit, in[0].i, in[1].i)
			res := mm
			if isT(in[2]) {
				res = r.node("sumlist", "", mm.i, in[2].i)
			}
			return []pval{h.alloc([]pval{res}), {k: pNil}}, true
		}
		return nil, false
	}
	p.onPanic = func(fn *ssa.Function, in ssa.Instruction, what string) {
		r.setBad("panics: " + what + " at " + c.pos(in.Pos()))
	}
	p.onDyn = func(fn *ssa.Function, call *ssa.Call, args []pval, h *pheap) ([]pval, bool) {
		if len(args) == 2 && args[0].k == pHookFn && isT(args[1]) {
			if nm, ok := r.acts[args[0].i]; ok {
				return []pval{r.node("act:"+strings.ToLower(nm), "", args[1].i), {k: pNil}}, true
			}
		}
		return nil, false
	}
	// construct, Init, Apply
	res, h := p.run(ctor, nil, 0, heap)
	if h == nil || len(res) != 1 || res[0].k != pObj {
		return r, nil, false
	}
	op := res[0]
	res, h = p.run(oi.methods["Init"], []pval{op, node}, 0, h)
	if h == nil || len(res) != 1 {
		return r, nil, false
	}
	if nonNilKind(res[0].k) {
		return r, nil, true // the attributes of this cell are refused: nothing to compare (outs == nil)
	}
	if res[0].k != pNil {
		return r, nil, false
	}
	res, h = p.run(oi.methods["Apply"], []pval{op, h.alloc(inputs)}, 0, h)
	if r.bad != "" && strings.HasPrefix(r.bad, "panics: ") {
		return r, nil, true
	}
	if p.aborted || len(res) != 2 {
		return r, nil, false
	}
	if nonNilKind(res[1].k) {
		if !cell.seqLens && cell.badAct == 0 && !cell.wrongLen {
			r.setBad("a valid request is refused with an error")
		}
		return r, nil, true
	}
	if cell.wrongLen && res[1].k == pNil {
		r.setBad("an activations list of the wrong length is accepted")
		return r, nil, true
	}
	if cell.badAct != 0 && res[1].k == pNil {
		r.setBad("an activation name the library does not have is accepted")
		return r, nil, true
	}
	if res[1].k != pNil || res[0].k != pList || h == nil || h.lists[res[0].i] == nil {
		return r, nil, false
	}
	return r, h.lists[res[0].i], true
}

// recExpected: the ONNX recurrence for the cell, in the canonical language of recRun.term.
func recExpected(name string, cell recCell) (ys []string, shapes [][]int64) {
	f, g, hh := "sigmoid", "tanh", "tanh"
	if name == "RNN" {
		f = "tanh"
	}
	if cell.acts != nil {
		f = strings.ToLower(cell.acts[0])
		if len(cell.acts) > 1 {
			g = strings.ToLower(cell.acts[1])
		}
		if len(cell.acts) > 2 {
			hh = strings.ToLower(cell.acts[2])
		}
	}
	gates := map[string]int{"RNN": 1, "GRU": 3, "LSTM": 4}[name]
	bias := func(k int) string {
		if cell.hasB {
			return fmt.Sprintf("B[%d]", k)
		}
		return "0"
	}
	mmT := func(a, b string) string { return "mm(" + a + "," + b + "T)" }
	act := func(n, x string) string { return "act:" + n + "(" + x + ")" }
	H, C := "0", "0"
	if cell.hasH {
		H = "H0"
	}
	if cell.hasC {
		C = "C0"
	}
	var hs []string
	for t := 0; t < int(cell.seq()); t++ {
		xt := fmt.Sprintf("X@%d", t)
		pre := func(k int, h string, extra ...string) string {
			parts := []string{mmT(xt, fmt.Sprintf("W[%d]", k)), mmT(h, fmt.Sprintf("R[%d]", k)), bias(k), bias(k + gates)}
			return sumOf(append(parts, extra...)...)
		}
		switch name {
		case "RNN":
			H = act(f, pre(0, H))
		case "GRU":
			z := act(f, pre(0, H))
			rr := act(f, pre(1, H))
			var ht string
			if cell.lbr {
				ht = act(g, sumOf(mmT(xt, "W[2]"), bias(2), prodOf(rr, sumOf(mmT(H, "R[2]"), bias(5)))))
			} else {
				ht = act(g, pre(2, prodOf(rr, H)))
			}
			H = sumOf(prodOf("Sub(1,"+z+")", ht), prodOf(z, H))
		case "LSTM":
			peep := func(k int, cc string) []string {
				if !cell.hasP {
					return nil
				}
				return []string{prodOf(fmt.Sprintf("P[%d]", k), cc)}
			}
			i := act(f, pre(0, H, peep(0, C)...))
			fg := act(f, pre(2, H, peep(2, C)...))
			cg := act(g, pre(3, H))
			Cn := sumOf(prodOf(fg, C), prodOf(i, cg))
			o := act(f, pre(1, H, peep(1, Cn)...))
			H = prodOf(o, act(hh, Cn))
			C = Cn
		}
		hs = append(hs, H)
	}
	y := "concat[0](" + strings.Join(hs, ",") + ")"
	if len(hs) == 1 {
		y = hs[0]
	}
	ys = []string{y, H}
	shapes = [][]int64{{cell.seq(), 1, cell.batch(), recHidden}, {1, cell.batch(), recHidden}}
	if name == "LSTM" {
		ys = append(ys, C)
		shapes = append(shapes, []int64{1, cell.batch(), recHidden})
	}
	return
}

// recurrentTable decides one operator over its cells. known=false: some cell cannot be followed (or code stays
// unseen) — the structural rules decide.
func (c *Ctx) recurrentTable(name string) (known bool, bad string, cells int) {
	if r, ok := c.recMemo[name]; ok {
		return r.known, r.bad, r.cells
	}
	defer func() {
		if c.recMemo == nil {
			c.recMemo = map[string]recRes{}
		}
		c.recMemo[name] = recRes{known, bad, cells}
	}()
	oi := c.opByName(name)
	if oi == nil {
		return false, "", 0
	}
	var list []recCell
	for _, hasB := range []bool{true, false} {
		for _, hasH := range []bool{true, false} {
			switch name {
			case "RNN":
				list = append(list, recCell{hasB: hasB, hasH: hasH})
			case "GRU":
				list = append(list, recCell{hasB: hasB, hasH: hasH}, recCell{hasB: hasB, hasH: hasH, lbr: true})
			case "LSTM":
				list = append(list, recCell{hasB: hasB, hasH: hasH, hasC: hasH, hasP: hasB}, recCell{hasB: hasB, hasH: hasH, hasC: !hasH, hasP: !hasB})
			}
		}
	}
	list = append(list, recCell{hasB: true, hasH: true, hasC: true, hasP: true, one: true}, recCell{one: true}, recCell{hasB: true, hasH: true, hasC: true, hasP: true, unit: true}, recCell{unit: true, one: true})
	switch name {
	case "RNN":
		list = append(list, recCell{hasB: true, hasH: true, acts: []string{"Relu"}})
	case "GRU":
		list = append(list, recCell{hasB: true, hasH: true, acts: []string{"Tanh", "Relu"}}, recCell{hasB: true, lbr: true, acts: []string{"Relu", "Sigmoid"}})
	case "LSTM":
		list = append(list, recCell{hasB: true, hasH: true, hasC: true, hasP: true, acts: []string{"Tanh", "Relu", "Sigmoid"}})
	}
	nActs := map[string]int{"RNN": 1, "GRU": 2, "LSTM": 3}[name]
	for k := 1; k <= nActs; k++ {
		acts := []string{"Tanh", "Sigmoid", "Relu"}[:nActs]
		acts = append([]string{}, acts...)
		acts[k-1] = "NoSuchActivation"
		list = append(list, recCell{hasB: true, hasH: true, acts: acts, badAct: k})
	}
	for _, n := range []int{nActs - 1, nActs + 1} {
		acts := []string{"Tanh", "Sigmoid", "Relu", "Tanh"}[:n]
		list = append(list, recCell{hasB: true, hasH: true, acts: append([]string{}, acts...), wrongLen: true})
	}
	list = append(list, recCell{hasB: true, hasH: true, seqLens: true})
	if name == "LSTM" {
		list = append(list, recCell{hasB: true, hasH: true, hasC: true, nOut: 1}, recCell{hasB: true, nOut: 2})
	}
	cov := newCover(oi.methods["Apply"])
	cov.skip = map[*ssa.Function]bool{oi.methods["Init"]: true}
	for _, cell := range list {
		r, outs, followed := c.recWalk(oi, name, cell, cov)
		if !followed {
			if os.Getenv("RECDEBUG") != "" {
				fmt.Println("RECDEBUG not followed:", name, cell)
			}
			return false, "", cells
		}
		cells++
		if r.bad != "" {
			return true, "with " + cell.String() + ": " + r.bad, cells
		}
		if outs == nil {
			if cell.seqLens {
				// kept for the whole run (the table is memoised across properties, tableCovered is per property)
				if c.seqLensRefused == nil {
					c.seqLensRefused = map[string]string{}
				}
				c.seqLensRefused[name] = "R40:recurrent-table:" + name
			}
			continue // attributes refused by Init (an activation name the library does not have): not this table's business
		}
		if cell.seqLens {
			// sequence lengths are not modelled. The library refuses the input today; when it is accepted, nothing
			// here can tell whether every sample stops at its own length (C06: honoured or refused; C16: a sample
			// must not depend on the lengths of its batch mates)
			return true, "UNESTABLISHED: with " + cell.String() + ": the optional sequence_lens input is accepted and computed with; that every sample of the batch is processed up to its own length (later steps masked, its final state taken at its own last step) is not something this table or any other rule can establish", cells
		}
		want, shapes := recExpected(name, cell)
		if cell.nOut > 0 && cell.nOut < len(want) {
			want, shapes = want[:cell.nOut], shapes[:cell.nOut]
		}
		if len(outs) != len(want) {
			return true, fmt.Sprintf("with %s: %d outputs are returned, ONNX prescribes %d", cell, len(outs), len(want)), cells
		}
		outName := []string{"Y", "Y_h", "Y_c"}
		seen := map[int64]bool{}
		for i, o := range outs {
			if o.k != pAbs || r.nodes[o.i] == nil {
				return false, "", cells
			}
			if seen[o.i] {
				return true, fmt.Sprintf("with %s: the same tensor object is returned for two outputs", cell), cells
			}
			seen[o.i] = true
			if got := r.term(o.i); got != want[i] {
				return true, fmt.Sprintf("with %s: output %s is not the ONNX recurrence; computed %s ; prescribed %s", cell, outName[i], abbreviate(got, want[i]), abbreviate(want[i], got)), cells
			}
			if sh, ok := r.shape[o.i]; !ok || fmtInts(sh) != fmtInts(shapes[i]) {
				return true, fmt.Sprintf("with %s (hidden %d): output %s is brought to shape %s, ONNX prescribes %s", cell, recHidden, outName[i], fmtInts(sh), fmtInts(shapes[i])), cells
			}
		}
		// the time steps, in order
		wantSteps := "X@0,X@1"
		if cell.one {
			wantSteps = "X@0"
		}
		if strings.Join(r.steps, ",") != wantSteps {
			return true, fmt.Sprintf("with %s: the time steps cut from X are %v, expected %s in this order", cell, r.steps, wantSteps), cells
		}
	}
	if unc := cov.uncovered(c); len(unc) > 0 {
		c.declined("recurrent table of "+name, unc)
		return false, "", cells
	}
	return true, "", cells
}

type recRes struct {
	known bool
	bad   string
	cells int
}

// abbreviate shortens two long terms to the neighbourhood of their first difference.
func abbreviate(a, b string) string {
	i := 0
	for i < len(a) && i < len(b) && a[i] == b[i] {
		i++
	}
	lo := i - 60
	if lo < 0 {
		lo = 0
	}
	hi := i + 100
	if hi > len(a) {
		hi = len(a)
	}
	s := a[lo:hi]
	if lo > 0 {
		s = "..." + s
	}
	if hi < len(a) {
		s += "..."
	}
	return s
}

// ruleRecurrentTable registers the table's verdict per operator and tells applyTableOverrides which structural
// obligations it stands in for.
func ruleRecurrentTable(c *Ctx, prop string) {
	for _, name := range []string{"RNN", "GRU", "LSTM"} {
		oi := c.opByName(name)
		if oi == nil {
			continue
		}
		key := "R40:recurrent-table:" + name
		site := c.pos(oi.methods["Apply"].Pos())
		known, bad, cells := c.recurrentTable(name)
		c.checkSequenceLensRefused(oi, name)
		switch {
		case !known:
			c.note("R40", key, site, "the dataflow table cannot follow this code to one outcome per cell; the structural rules R12 decide")
		case strings.HasPrefix(bad, "UNESTABLISHED: "):
			c.undecided("R40", key, site, strings.TrimPrefix(bad, "UNESTABLISHED: "))
		case bad != "":
			c.violate("R40", key, site, bad)
		default:
			c.discharge("R40", key, site, fmt.Sprintf("%d cells (bias / initial states / peepholes given or not, linear_before_reset, default and custom activations; two time steps): every output is the ONNX recurrence over the blocks of W, R, B, P with the prescribed activations, state threading, output selection and shapes", cells))
			if c.tableCovered == nil {
				c.tableCovered = map[string]string{}
			}
			c.tableCovered["table:recurrent:"+name] = key
			c.counts["R40.cells"] += cells
		}
	}
}

// registeredCtor is the operator's constructor: the one found with its type, or the function registered under the
// operator's ONNX name in the opset's table.
func (c *Ctx) registeredCtor(oi *opInfo, name string) *ssa.Function {
	if oi.ctor != nil {
		return oi.ctor
	}
	st := c.libInit()
	var ctor *ssa.Function
	for g, v := range st.globals {
		if v.k != pMap || g.Pkg == nil || g.Pkg.Pkg.Path() != pkgOpset13 {
			continue
		}
		if mm := st.heap.maps[v.i]; mm != nil {
			if f, ok := mm.get(pval{k: pStr, s: name}); ok && f.k == pFunc {
				ctor = f.fn
			}
		}
	}
	return ctor
}

// checkSequenceLensRefused (R12:seqlens): the optional sequence_lens input (inputs[4]) is not implemented; the only
// handling a rule can vouch for is the refusal: Apply returns an error on the edge where inputs[4] is not nil. An
// implementation of per-sample lengths is outside what the tables model and is reported as not established.
func (c *Ctx) checkSequenceLensRefused(oi *opInfo, name string) {
	apply := oi.methods["Apply"]
	if apply == nil || len(apply.Params) < 2 {
		return
	}
	key := "R12:seqlens:" + name
	site := c.pos(apply.Pos())
	refused := false
	for f := range c.reachFrom([]*ssa.Function{apply}) {
		if f != apply {
			continue
		}
		for _, b := range f.Blocks {
			iff, ok := lastIf(b)
			if !ok {
				continue
			}
			bo, ok := iff.Cond.(*ssa.BinOp)
			if !ok || (bo.Op != token.NEQ && bo.Op != token.EQL) {
				continue
			}
			var other ssa.Value
			switch {
			case isNilConst(bo.Y):
				other = bo.X
			case isNilConst(bo.X):
				other = bo.Y
			default:
				continue
			}
			if !sameInputLoad(other, apply.Params[1], 4) {
				continue
			}
			// the edge on which inputs[4] is not nil
			if c.edgeRejects(iff, bo.Op == token.NEQ) {
				refused = true
			}
		}
	}
	if refused {
		c.discharge("R12", key, site, "a sequence_lens input (inputs[4]) is refused with an error")
	} else if t := c.seqLensCell(name); t != "" {
		c.discharge("R12", key, site, "a sequence_lens input is refused with an error (shown by the cell of "+t+" that supplies one; the test is not a nil comparison of inputs[4] in Apply itself)")
	} else {
		c.undecided("R12", key, site, name+" does not refuse a sequence_lens input (inputs[4] != nil leads to no error return in Apply): whether every sample of the batch is processed up to its own length - later steps masked, the final state taken at its own last step - is outside what the rules and tables can establish")
	}
}

func lastIf(b *ssa.BasicBlock) (*ssa.If, bool) {
	if len(b.Instrs) == 0 {
		return nil, false
	}
	iff, ok := b.Instrs[len(b.Instrs)-1].(*ssa.If)
	return iff, ok
}

// seqLensCell: the table whose cell with a sequence_lens input saw the operator refuse it (R40's, or R48's, which is
// walked for this purpose when R40 could not follow the operator).
func (c *Ctx) seqLensCell(name string) string {
	if t := c.seqLensRefused[name]; t != "" {
		return t
	}
	c.recProvTable(name)
	return c.seqLensRefused[name]
}
