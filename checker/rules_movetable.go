package main

// Data-movement operators by element provenance (C08, C04): the operator's Init and Apply are walked (not executed)
// on tensors whose elements are names; gorgonia's constructors, views (which share their parent's elements), Copy,
// Concat, Transpose, MatMul, At / SetAt and iterators enter as element-placement contracts. The result carries, per
// position, the name (or sum of products) it is made of, which is compared with the ONNX index formula. How the
// operator is written - one gorgonia call or loops over views - does not matter.

import (
	"fmt"
	"go/types"
	"os"
	"strings"

	"golang.org/x/tools/go/ssa"
)

type moveAttr struct {
	name   string
	i      *int64
	ints   []int64
	f      string // a float attribute whose value is this name
	strs   []string
	floats []string // a list of float attribute values, each a name
}

type moveRun struct {
	c           *Ctx
	oi          *opInfo
	ctor        *ssa.Function
	st          *initState
	onnx        *types.Package
	cov         *pcover
	trace       bool
	panicked    string
	dataLists   types.Type // element type of the lists that stand for raw backings in Apply
	orderBad    string     // set when a cell\'s outcome changed with the order of the attributes
	dtype       string     // gorgonia dtype variable the tensors report (default Float32)
	nameOutputs bool       // the node names its outputs even when there is one only
	intercept   func(fn *ssa.Function, call *ssa.Call, callee *ssa.Function, args []pval, h *pheap) ([]pval, bool)
}

func (c *Ctx) newMoveRun(op string) *moveRun {
	oi := c.opByName(op)
	st := c.libInit()
	onnxPkg := c.pkgByPath[pkgOnnx]
	if oi == nil || oi.methods["Apply"] == nil || oi.methods["Init"] == nil || len(st.failed) > 0 || onnxPkg == nil {
		return nil
	}
	ctor := c.registeredCtor(oi, op)
	if ctor == nil {
		return nil
	}
	cov := newCover(oi.methods["Apply"])
	cov.skip = skipInitOnly(c, oi, ctor)
	cov.pkgs = map[string]bool{pkgOpset13: true}
	return &moveRun{c: c, oi: oi, ctor: ctor, st: st, onnx: onnxPkg.Types, cov: cov, trace: os.Getenv("MOVETRACE") == op}
}

type moveTensor struct {
	shape []int64
	elems []pval // nil: names <prefix><k>
	name  string
}

type moveOut struct {
	followed bool
	isErr    bool
	shape    []int64
	elems    []pval
	same     int // index of the input the single output is (the very object), or -1
}

// cell walks constructor, Init(attrs) and Apply(inputs); inputs with a nil shape are absent (nil).
func (m *moveRun) cell(attrs []moveAttr, inputs []*moveTensor) moveOut {
	outs := m.cellN(attrs, inputs, 1)
	if len(outs) != 1 {
		return moveOut{}
	}
	return outs[0]
}

// cellN is cell for an operator with n outputs; a result of one element with followed=false / isErr stands for the
// whole walk.
func (m *moveRun) cellN(attrs []moveAttr, inputs []*moveTensor, n int) []moveOut {
	outs := m.cellN1(attrs, inputs, n)
	if len(attrs) < 2 || m.orderBad != "" || m.panicked != "" {
		return outs
	}
	// the order of a node's attributes carries no meaning: the same cell with the list reversed
	rev := make([]moveAttr, len(attrs))
	for i, a := range attrs {
		rev[len(attrs)-1-i] = a
	}
	outs2 := m.cellN1(rev, inputs, n)
	same := len(outs) == len(outs2) && m.panicked == ""
	for i := 0; same && i < len(outs); i++ {
		a, b := outs[i], outs2[i]
		if a.followed != b.followed || a.isErr != b.isErr || fmtInts(a.shape) != fmtInts(b.shape) || len(a.elems) != len(b.elems) {
			same = false
			break
		}
		for k := range a.elems {
			if a.elems[k].k != b.elems[k].k || a.elems[k].s != b.elems[k].s || a.elems[k].i != b.elems[k].i {
				same = false
			}
		}
	}
	if !same && (len(outs) == 0 || outs[0].followed) && (len(outs2) == 0 || outs2[0].followed || m.panicked != "") {
		var names []string
		for _, a := range attrs {
			names = append(names, a.name)
		}
		m.orderBad = "the result depends on the order in which the node lists its attributes (" + strings.Join(names, ", ") + " against the reverse)"
		if m.panicked != "" {
			m.orderBad += ": with the reversed list the operator panics, " + m.panicked
		}
	}
	m.panicked = ""
	return outs
}

func (m *moveRun) cellN1(attrs []moveAttr, inputs []*moveTensor, n int) []moveOut {
	c := m.c
	heap := m.st.heap.clone()
	b := &rtBuilder{c: c, heap: heap, onnx: m.onnx}
	ints := func(l []int64) pval {
		pl := make([]pval, len(l))
		for i, v := range l {
			pl[i] = pval{k: pInt, i: v}
		}
		return heap.alloc(pl)
	}
	var al []pval
	for _, a := range attrs {
		f := map[string]pval{"Name": {k: pStr, s: a.name}}
		if a.i != nil {
			f["I"] = pval{k: pInt, i: *a.i}
		}
		if a.ints != nil {
			f["Ints"] = ints(a.ints)
		}
		if a.f != "" {
			f["F"] = pval{k: pStr, s: a.f}
		}
		if a.floats != nil {
			var l []pval
			for _, x := range a.floats {
				l = append(l, pval{k: pStr, s: x})
			}
			f["Floats"] = b.list(l...)
		}
		if a.strs != nil {
			var l []pval
			for _, x := range a.strs {
				l = append(l, pval{k: pStr, s: x}) // the []byte of the string, kept as the string
			}
			f["Strings"] = b.list(l...)
		}
		al = append(al, b.obj(m.onnx, "AttributeProto", f))
	}
	nodeFields := map[string]pval{"Attribute": b.list(al...)}
	if n > 1 || m.nameOutputs {
		var names []pval
		for i := 0; i < n; i++ {
			names = append(names, pval{k: pStr, s: fmt.Sprintf("out%d", i)})
		}
		nodeFields["Output"] = b.list(names...)
	}
	node := b.obj(m.onnx, "NodeProto", nodeFields)
	p := &pinterp{c: c, budget: 3000000, objects: true, content: true, globals: m.st.globals, cover: m.cov, listsAreSlicesOf: types.Typ[types.Int64], trace: m.trace}
	dtn := "Float32"
	if m.dtype != "" {
		dtn = m.dtype
	}
	if dt, ok := c.dtypeToken(dtn); ok {
		p.contentDtype = dt
	}
	m.panicked = ""
	p.intercept = m.intercept
	p.onPanic = func(fn *ssa.Function, in ssa.Instruction, what string) {
		if m.panicked == "" {
			m.panicked = what + " at " + c.pos(in.Pos())
		}
	}
	res, h := p.run(m.ctor, nil, 0, heap)
	if h == nil || len(res) != 1 || res[0].k != pObj {
		return []moveOut{{}}
	}
	recv := res[0]
	res, h = p.run(m.oi.methods["Init"], []pval{recv, node}, 0, h)
	if h == nil || len(res) != 1 {
		return []moveOut{{}}
	}
	if nonNilKind(res[0].k) {
		return []moveOut{{followed: true, isErr: true}}
	}
	if res[0].k != pNil {
		return []moveOut{{}}
	}
	heap = h
	var in []pval
	seenT := map[*moveTensor]pval{}
	for _, t := range inputs {
		if t == nil {
			in = append(in, pval{k: pNil})
			continue
		}
		if v, ok := seenT[t]; ok {
			in = append(in, v) // the same tensor object at two positions
			continue
		}
		total := int64(1)
		for _, e := range t.shape {
			total *= e
		}
		cont := t.elems
		if cont == nil {
			cont = make([]pval, total)
			for k := range cont {
				cont[k] = pval{k: pStr, s: fmt.Sprintf("%s%d", t.name, k)}
			}
		}
		tv := pval{k: pShaped, i: 900, j: ints(t.shape).i, m: heap.alloc(append([]pval{}, cont...)).i}
		seenT[t] = tv
		in = append(in, tv)
	}
	p.listsAreSlicesOf = m.dataLists // what Data() of an index tensor stands for (nil: no raw backing is read)
	inList := heap.alloc(append([]pval{}, in...))
	res, h = p.run(m.oi.methods["Apply"], []pval{recv, inList}, 0, heap)
	if m.panicked != "" {
		return []moveOut{{followed: true}}
	}
	if len(res) == 2 && nonNilKind(res[1].k) && !p.aborted {
		return []moveOut{{followed: true, isErr: true}} // an error on every path the walk followed
	}
	if p.aborted || len(res) != 2 || h == nil {
		return []moveOut{{}}
	}
	if nonNilKind(res[1].k) {
		return []moveOut{{followed: true, isErr: true}}
	}
	if res[1].k != pNil || res[0].k != pList {
		return []moveOut{{}}
	}
	outs := h.lists[res[0].i]
	if len(outs) != n {
		return []moveOut{{}}
	}
	var result []moveOut
	for _, o := range outs {
		if o.k != pShaped || o.m == 0 {
			return []moveOut{{}}
		}
		shl, cont := h.lists[o.j], h.lists[o.m]
		if shl == nil || cont == nil {
			return []moveOut{{}}
		}
		out := moveOut{followed: true, same: -1}
		for _, e := range shl {
			if e.k != pInt {
				return []moveOut{{}}
			}
			out.shape = append(out.shape, e.i)
		}
		out.elems = append([]pval{}, cont...)
		for i, v := range in {
			if v.k == pShaped && v.m == o.m {
				out.same = i
			}
		}
		result = append(result, out)
	}
	return result
}

func elemsString(e []pval) ([]string, bool) {
	out := make([]string, len(e))
	for i, v := range e {
		switch v.k {
		case pStr:
			out[i] = v.s
		case pInt:
			out[i] = fmt.Sprint(v.i)
		default:
			return nil, false
		}
	}
	return out, true
}

// ---- Concat -----------------------------------------------------------------------------------------------

// concatTable: data of rank 1..3 (with unit extents), every axis spelling, 1..4 inputs of unequal extents along the
// axis: the result is the inputs' elements one after the other along the axis.
func (c *Ctx) concatTable() (known bool, bad string, cells int) {
	m := c.newMoveRun("Concat")
	if m == nil {
		return false, "", 0
	}
	exts := []int64{2, 1, 3, 2}
	bases := [][]int64{{2}, {2, 3}, {1, 3}, {2, 3, 2}, {2, 1, 2}}
	if c.tier == "thorough" {
		bases = append(bases, []int64{3, 2, 2, 2}, []int64{1, 1})
	}
	for _, base := range bases {
		r := int64(len(base))
		// an axis outside [-rank, rank) is refused
		for _, axis := range []int64{r, -r - 1} {
			ax := axis
			out := m.cell([]moveAttr{{name: "axis", i: &ax}}, []*moveTensor{{shape: base, name: "t0_"}, {shape: base, name: "t1_"}})
			desc := fmt.Sprintf("Concat of 2 tensors of shape %s along axis %d (outside [-%d, %d))", fmtInts(base), axis, r, r)
			switch {
			case m.panicked != "":
				return true, desc + " panics: " + m.panicked, cells
			case !out.followed:
				return false, "", cells
			case !out.isErr:
				return true, desc + " is answered with a tensor instead of an error", cells
			}
			cells++
		}
		// operands that do not fit each other are refused: another rank, another extent off the axis
		{
			zero := int64(0)
			other := append(append([]int64{}, base...), 2)
			cases := [][]*moveTensor{{{shape: base, name: "t0_"}, {shape: other, name: "t1_"}}}
			if r >= 2 {
				off := append([]int64{}, base...)
				off[r-1]++
				cases = append(cases, []*moveTensor{{shape: base, name: "t0_"}, {shape: off, name: "t1_"}})
			}
			for _, ins := range cases {
				out := m.cell([]moveAttr{{name: "axis", i: &zero}}, ins)
				desc := fmt.Sprintf("Concat of tensors of shapes %s and %s along axis 0", fmtInts(ins[0].shape), fmtInts(ins[1].shape))
				switch {
				case m.panicked != "":
					return true, desc + " panics: " + m.panicked, cells
				case !out.followed:
					if os.Getenv("MOVEDEBUG") != "" {
						fmt.Println("MOVEDEBUG not followed:", desc)
					}
					return false, "", cells
				case !out.isErr:
					return true, desc + " is answered with a tensor instead of an error", cells
				}
				cells++
			}
		}
		for axis := -r; axis < r; axis++ {
			na := axis
			if na < 0 {
				na += r
			}
			for n := 1; n <= 4; n++ {
				var ins []*moveTensor
				for k := 0; k < n; k++ {
					sh := append([]int64{}, base...)
					sh[na] = exts[k]
					ins = append(ins, &moveTensor{shape: sh, name: fmt.Sprintf("t%d_", k)})
				}
				ax := axis
				out := m.cell([]moveAttr{{name: "axis", i: &ax}}, ins)
				desc := fmt.Sprintf("Concat of %d tensors of shape %s with extents %s along axis %d", n, fmtInts(base), fmtInts(exts[:n]), axis)
				if m.panicked != "" {
					return true, desc + " panics: " + m.panicked, cells
				}
				if !out.followed {
					if os.Getenv("MOVEDEBUG") != "" {
						fmt.Println("MOVEDEBUG not followed:", desc)
					}
					return false, "", cells
				}
				if out.isErr {
					return true, desc + " is refused", cells
				}
				cells++
				// expected
				wsh := append([]int64{}, base...)
				wsh[na] = 0
				for k := 0; k < n; k++ {
					wsh[na] += exts[k]
				}
				if fmtInts(out.shape) != fmtInts(wsh) {
					return true, fmt.Sprintf("%s has shape %s, ONNX prescribes %s", desc, fmtInts(out.shape), fmtInts(wsh)), cells
				}
				got, ok := elemsString(out.elems)
				if !ok {
					return false, "", cells
				}
				total := int64(1)
				for _, e := range wsh {
					total *= e
				}
				if int64(len(got)) != total {
					return false, "", cells
				}
				for f := int64(0); f < total; f++ {
					// coordinates of f in wsh
					co := make([]int64, r)
					rem := f
					for d := r - 1; d >= 0; d-- {
						co[d] = rem % wsh[d]
						rem /= wsh[d]
					}
					k, which := co[na], 0
					for k >= exts[which] {
						k -= exts[which]
						which++
					}
					sh := append([]int64{}, base...)
					sh[na] = exts[which]
					co[na] = k
					src := int64(0)
					for d := int64(0); d < r; d++ {
						src = src*sh[d] + co[d]
					}
					want := fmt.Sprintf("t%d_%d", which, src)
					if got[f] != want {
						return true, fmt.Sprintf("%s: element %d of the result is %s, the ONNX index formula gives %s (element %d of input %d; row-major numbering)", desc, f, got[f], want, src, which), cells
					}
				}
			}
		}
	}
	if unc := m.cov.uncovered(c); len(unc) > 0 {
		c.declined("Concat provenance table", unc)
		return false, "", cells
	}
	return true, "", cells
}

func ruleConcatTable(c *Ctx, prop string) {
	oi := c.opByName("Concat")
	if oi == nil {
		return
	}
	site := c.pos(oi.methods["Apply"].Pos())
	known, bad, cells := c.concatTable()
	switch {
	case !known:
		c.note("R43", "R43:concat-table", site, "the provenance table cannot follow this code to one outcome per cell; the structural rule R7:delegates:Concat decides")
	case bad != "":
		c.violate("R43", "R43:concat-table", site, bad)
	default:
		c.discharge("R43", "R43:concat-table", site, fmt.Sprintf("%d cells (rank 1..3 with unit extents, every axis spelling, 1..4 inputs of unequal extents along the axis): the result has the summed extent and every element is the one the ONNX index formula names", cells))
		if c.tableCovered == nil {
			c.tableCovered = map[string]string{}
		}
		c.tableCovered["table:concat"] = "R43:concat-table"
	}
}

var _ = strings.Join

// ---- MatMul -----------------------------------------------------------------------------------------------

// matmulProvenance: numpy.matmul over operand ranks 1..4 (vector promotion, stacks with broadcast batch axes, unit
// extents): result shape and, per element, the sum over k of A[.., i, k] * B[.., k, j]. C04 allows an error in place
// of the result; the one class of operands gonnx refuses (a per-batch matrix of a single element on the batched path:
// gorgonia's Slice hands out a scalar) is accepted as a refusal, every other cell has to be computed.
func (c *Ctx) matmulProvenance() (known bool, bad string, cells, refused int) {
	m := c.newMoveRun("MatMul")
	if m == nil {
		return false, "", 0, 0
	}
	type pair struct{ a, b []int64 }
	var pairs []pair
	mats := [][3]int64{{2, 3, 2}, {1, 2, 3}, {2, 1, 2}, {3, 2, 1}, {1, 1, 2}, {2, 1, 1}, {1, 3, 1}, {1, 1, 1}}
	batches := [][2][]int64{{{}, {}}, {{2}, {2}}, {{2}, {}}, {{}, {3}}, {{1}, {2}}, {{2, 1}, {3}}, {{1, 2}, {2, 1}}, {{2}, {1, 2}}}
	for _, mk := range mats {
		for _, bt := range batches {
			a := append(append([]int64{}, bt[0]...), mk[0], mk[1])
			b := append(append([]int64{}, bt[1]...), mk[1], mk[2])
			pairs = append(pairs, pair{a, b})
		}
		// vectors
		pairs = append(pairs, pair{[]int64{mk[1]}, []int64{mk[1], mk[2]}}, pair{[]int64{mk[0], mk[1]}, []int64{mk[1]}}, pair{[]int64{mk[1]}, []int64{mk[1]}},
			pair{[]int64{mk[1]}, []int64{2, mk[1], mk[2]}}, pair{[]int64{2, mk[0], mk[1]}, []int64{mk[1]}})
	}
	// stacks with three and four batch axes (ranks 5 and 6): an odometer over the batch axes that is right for two
	// axes can be wrong for the third
	for _, mk := range mats[:2] {
		for _, bt := range [][2][]int64{{{2, 2, 2}, {2, 2, 2}}, {{2, 3, 2}, {2, 3, 2}}, {{2, 1, 2}, {3, 1}}, {{3, 2, 2}, {2}}, {{2, 2, 2, 2}, {2, 2, 2, 2}}, {{2, 1, 2, 3}, {2, 2, 1}}} {
			a := append(append([]int64{}, bt[0]...), mk[0], mk[1])
			b := append(append([]int64{}, bt[1]...), mk[1], mk[2])
			pairs = append(pairs, pair{a, b})
		}
	}
	// operands that do not fit: inner extents differ; batch axes that do not broadcast
	bads := []pair{{[]int64{2, 3}, []int64{2, 2}}, {[]int64{2, 2, 3}, []int64{3, 3, 2}}, {[]int64{3}, []int64{2, 2}}}
	for _, pr := range bads {
		out := m.cell(nil, []*moveTensor{{shape: pr.a, name: "a"}, {shape: pr.b, name: "b"}})
		desc := fmt.Sprintf("MatMul of shapes %s and %s (not multipliable)", fmtInts(pr.a), fmtInts(pr.b))
		switch {
		case m.panicked != "":
			return true, desc + " panics: " + m.panicked, cells, refused
		case !out.followed:
			if os.Getenv("MOVEDEBUG") != "" {
				fmt.Println("MOVEDEBUG not followed:", desc)
			}
			return false, "", cells, refused
		case !out.isErr:
			return true, desc + " is answered with a tensor instead of an error", cells, refused
		}
		cells++
	}
	seen := map[string]bool{}
	for _, pr := range pairs {
		key := fmtInts(pr.a) + "x" + fmtInts(pr.b)
		if seen[key] {
			continue
		}
		seen[key] = true
		out := m.cell(nil, []*moveTensor{{shape: pr.a, name: "a"}, {shape: pr.b, name: "b"}})
		desc := fmt.Sprintf("MatMul of shapes %s and %s", fmtInts(pr.a), fmtInts(pr.b))
		if m.panicked != "" {
			return true, desc + " panics: " + m.panicked, cells, refused
		}
		if !out.followed {
			if os.Getenv("MOVEDEBUG") != "" {
				fmt.Println("MOVEDEBUG not followed:", desc)
			}
			return false, "", cells, refused
		}
		// the reference
		as, bs := pr.a, pr.b
		pa, pb := false, false
		if len(as) == 1 {
			as, pa = []int64{1, as[0]}, true
		}
		if len(bs) == 1 {
			bs, pb = []int64{bs[0], 1}, true
		}
		mm, kk, nn := as[len(as)-2], as[len(as)-1], bs[len(bs)-1]
		ba, bb := as[:len(as)-2], bs[:len(bs)-2]
		nb := len(ba)
		if len(bb) > nb {
			nb = len(bb)
		}
		bo := make([]int64, nb)
		for i := 0; i < nb; i++ {
			x, y := int64(1), int64(1)
			if i >= nb-len(ba) {
				x = ba[i-(nb-len(ba))]
			}
			if i >= nb-len(bb) {
				y = bb[i-(nb-len(bb))]
			}
			bo[i] = x
			if x == 1 {
				bo[i] = y
			}
		}
		batched := !(len(pr.a) == 2 && len(pr.b) == 2)
		if out.isErr {
			if batched && (mm*kk == 1 || kk*nn == 1) {
				refused++
				cells++
				continue
			}
			return true, desc + " is refused", cells, refused
		}
		cells++
		wsh := append(append([]int64{}, bo...), mm, nn)
		if pa {
			wsh = append(wsh[:len(wsh)-2], wsh[len(wsh)-1])
		}
		if pb {
			wsh = wsh[:len(wsh)-1]
		}
		if fmtInts(out.shape) != fmtInts(wsh) {
			return true, fmt.Sprintf("%s has shape %s, numpy.matmul gives %s", desc, fmtInts(out.shape), fmtInts(wsh)), cells, refused
		}
		got, ok := elemsString(out.elems)
		if !ok {
			return false, "", cells, refused
		}
		total := int64(1)
		for _, e := range bo {
			total *= e
		}
		if int64(len(got)) != total*mm*nn {
			return false, "", cells, refused
		}
		bidx := func(flat int64, own []int64) int64 {
			co := make([]int64, nb)
			r := flat
			for i := nb - 1; i >= 0; i-- {
				co[i] = r % bo[i]
				r /= bo[i]
			}
			f := int64(0)
			off := nb - len(own)
			for i := range own {
				cc := co[i+off]
				if own[i] == 1 {
					cc = 0
				}
				f = f*own[i] + cc
			}
			return f
		}
		for b := int64(0); b < total; b++ {
			ia, ib := bidx(b, ba), bidx(b, bb)
			for i := int64(0); i < mm; i++ {
				for j := int64(0); j < nn; j++ {
					acc := pval{k: pStr, s: "0"}
					for q := int64(0); q < kk; q++ {
						acc = combineElems("Add", acc, combineElems("Mul", pval{k: pStr, s: fmt.Sprintf("a%d", ia*mm*kk+i*kk+q)}, pval{k: pStr, s: fmt.Sprintf("b%d", ib*kk*nn+q*nn+j)}))
					}
					if g := got[b*mm*nn+i*nn+j]; g != acc.s {
						return true, fmt.Sprintf("%s: element %d of the result is %s, numpy.matmul gives %s (row-major numbering of a and b)", desc, b*mm*nn+i*nn+j, abbreviate(g, acc.s), abbreviate(acc.s, g)), cells, refused
					}
				}
			}
		}
	}
	// one tensor object as both operands (x times x): a [2,2] matrix, a vector and a stack of matrices
	for _, sh := range [][]int64{{2, 2}, {3}, {2, 2, 2}} {
		x := &moveTensor{shape: sh, name: "a"}
		out := m.cell(nil, []*moveTensor{x, x})
		desc := fmt.Sprintf("MatMul of a tensor of shape %s with itself (one tensor object as both operands)", fmtInts(sh))
		switch {
		case m.panicked != "":
			return true, desc + " panics: " + m.panicked, cells, refused
		case !out.followed:
			if os.Getenv("MOVEDEBUG") != "" {
				fmt.Println("MOVEDEBUG not followed:", desc)
			}
			return false, "", cells, refused
		case out.isErr:
			return true, desc + " is refused", cells, refused
		}
		cells++
		got, ok := elemsString(out.elems)
		if !ok {
			return false, "", cells, refused
		}
		var want []string
		switch len(sh) {
		case 1:
			acc := pval{k: pStr, s: "0"}
			for q := int64(0); q < sh[0]; q++ {
				acc = combineElems("Add", acc, combineElems("Mul", elemName("a", q), elemName("a", q)))
			}
			want = []string{acc.s}
		default:
			n := sh[len(sh)-1]
			stack := prodInts(sh) / (n * n)
			for bq := int64(0); bq < stack; bq++ {
				for i := int64(0); i < n; i++ {
					for j := int64(0); j < n; j++ {
						acc := pval{k: pStr, s: "0"}
						for q := int64(0); q < n; q++ {
							acc = combineElems("Add", acc, combineElems("Mul", elemName("a", bq*n*n+i*n+q), elemName("a", bq*n*n+q*n+j)))
						}
						want = append(want, acc.s)
					}
				}
			}
		}
		if len(got) != len(want) {
			return true, fmt.Sprintf("%s has %d elements, numpy.matmul gives %d", desc, len(got), len(want)), cells, refused
		}
		for f := range got {
			if got[f] != want[f] {
				return true, fmt.Sprintf("%s: element %d of the result is %s, numpy.matmul gives %s", desc, f, got[f], want[f]), cells, refused
			}
		}
		if out.same >= 0 {
			return true, desc + ": the result is the operand itself", cells, refused
		}
	}
	if unc := m.cov.uncovered(c); len(unc) > 0 {
		c.declined("MatMul provenance table", unc)
		return false, "", cells, refused
	}
	return true, "", cells, refused
}

func ruleMatMulProvenance(c *Ctx, prop string) {
	oi := c.opByName("MatMul")
	if oi == nil {
		return
	}
	site := c.pos(oi.methods["Apply"].Pos())
	known, bad, cells, refused := c.matmulProvenance()
	switch {
	case !known:
		c.note("R44", "R44:matmul-provenance", site, "the provenance table cannot follow this code to one outcome per cell; the structural rules R16 / R10 decide")
	case bad != "":
		c.violate("R44", "R44:matmul-provenance", site, bad)
	default:
		c.discharge("R44", "R44:matmul-provenance", site, fmt.Sprintf("%d operand pairs (ranks 1..6, vector promotion, stacks with broadcast batch axes, unit extents, three pairs that must be refused): every element is the sum over k of A[.., i, k] * B[.., k, j] with the shape of numpy.matmul; %d pairs are refused, all with a per-batch matrix of a single element on the batched path (an error is what C04 allows there)", cells, refused))
		if c.tableCovered == nil {
			c.tableCovered = map[string]string{}
		}
		c.tableCovered["table:matmul"] = "R44:matmul-provenance"
	}
}

// ---- Gather -----------------------------------------------------------------------------------------------

// gatherTable: out[.., i_0..i_q-1, ..] = data[.., indices[i_0..i_q-1], ..] along `axis`: data of rank 1..3 (with unit
// extents), every axis spelling, index tensors of rank 0..2 whose values mix positive and negative spellings.
func (c *Ctx) gatherTable() (known bool, bad string, cells int) {
	m := c.newMoveRun("Gather")
	if m == nil {
		return false, "", 0
	}
	m.dataLists = types.Typ[types.Int64]
	bases := [][]int64{{3}, {2, 3}, {3, 1}, {2, 3, 2}, {1, 2, 3}}
	if c.tier == "thorough" {
		bases = append(bases, []int64{2, 2, 3, 2}, []int64{1, 1, 2})
	}
	idxShapes := [][]int64{{}, {2}, {1}, {2, 2}, {3, 1}}
	for _, base := range bases {
		r := int64(len(base))
		for _, axis := range []int64{r, -r - 1} {
			ax := axis
			out := m.cell([]moveAttr{{name: "axis", i: &ax}}, []*moveTensor{{shape: base, name: "d"}, {shape: []int64{1}, elems: []pval{{k: pInt, i: 0}}}})
			desc := fmt.Sprintf("Gather on data of shape %s along axis %d (outside [-%d, %d))", fmtInts(base), axis, r, r)
			switch {
			case m.panicked != "":
				return true, desc + " panics: " + m.panicked, cells
			case !out.followed:
				if os.Getenv("MOVEDEBUG") != "" {
					fmt.Println("MOVEDEBUG not followed:", desc)
				}
				return false, "", cells
			case !out.isErr:
				return true, desc + " is answered with a tensor instead of an error", cells
			}
			cells++
		}
		for axis := -r; axis < r; axis++ {
			na := axis
			if na < 0 {
				na += r
			}
			dim := base[na]
			// an index outside [-dim, dim) is refused
			for _, bi := range []int64{dim, -dim - 1} {
				ax := axis
				out := m.cell([]moveAttr{{name: "axis", i: &ax}}, []*moveTensor{{shape: base, name: "d"}, {shape: []int64{2}, elems: []pval{{k: pInt, i: 0}, {k: pInt, i: bi}}}})
				desc := fmt.Sprintf("Gather on data of shape %s along axis %d with the index %d (outside [-%d, %d))", fmtInts(base), axis, bi, dim, dim)
				switch {
				case m.panicked != "":
					return true, desc + " panics: " + m.panicked, cells
				case !out.followed:
					if os.Getenv("MOVEDEBUG") != "" {
						fmt.Println("MOVEDEBUG not followed:", desc)
					}
					return false, "", cells
				case !out.isErr:
					return true, desc + " is answered with a tensor instead of an error", cells
				}
				cells++
			}
			for _, ish := range idxShapes {
				ni := int64(1)
				for _, e := range ish {
					ni *= e
				}
				idx := make([]int64, ni)
				ie := make([]pval, ni)
				for k := range idx {
					idx[k] = (int64(k)*2 + 1) % dim
					if k%2 == 0 {
						idx[k] -= dim // the negative spelling of the same position
					}
					ie[k] = pval{k: pInt, i: idx[k]}
				}
				ax := axis
				out := m.cell([]moveAttr{{name: "axis", i: &ax}}, []*moveTensor{{shape: base, name: "d"}, {shape: ish, elems: ie}})
				desc := fmt.Sprintf("Gather on data of shape %s along axis %d with indices %v of shape %s", fmtInts(base), axis, idx, fmtInts(ish))
				if m.panicked != "" {
					return true, desc + " panics: " + m.panicked, cells
				}
				if !out.followed {
					if os.Getenv("MOVEDEBUG") != "" {
						fmt.Println("MOVEDEBUG not followed:", desc)
					}
					return false, "", cells
				}
				if out.isErr {
					return true, desc + " is refused", cells
				}
				cells++
				wsh := append(append(append([]int64{}, base[:na]...), ish...), base[na+1:]...)
				if fmtInts(out.shape) != fmtInts(wsh) {
					return true, fmt.Sprintf("%s has shape %s, ONNX prescribes %s", desc, fmtInts(out.shape), fmtInts(wsh)), cells
				}
				got, ok := elemsString(out.elems)
				if !ok {
					return false, "", cells
				}
				total := int64(1)
				for _, e := range wsh {
					total *= e
				}
				if int64(len(got)) != total {
					return false, "", cells
				}
				q := int64(len(ish))
				for f := int64(0); f < total; f++ {
					co := make([]int64, len(wsh))
					rem := f
					for d := len(wsh) - 1; d >= 0; d-- {
						co[d] = rem % wsh[d]
						rem /= wsh[d]
					}
					fi := int64(0)
					for d := int64(0); d < q; d++ {
						fi = fi*ish[d] + co[na+d]
					}
					k := idx[fi]
					if k < 0 {
						k += dim
					}
					dc := append(append(append([]int64{}, co[:na]...), k), co[na+q:]...)
					src := int64(0)
					for d := int64(0); d < r; d++ {
						src = src*base[d] + dc[d]
					}
					want := fmt.Sprintf("d%d", src)
					if got[f] != want {
						return true, fmt.Sprintf("%s: element %d of the result is %s, the ONNX index formula gives %s (row-major numbering of data)", desc, f, got[f], want), cells
					}
				}
			}
		}
	}
	if unc := m.cov.uncovered(c); len(unc) > 0 {
		c.declined("Gather provenance table", unc)
		return false, "", cells
	}
	return true, "", cells
}

func ruleGatherTable(c *Ctx, prop string) {
	oi := c.opByName("Gather")
	if oi == nil {
		return
	}
	site := c.pos(oi.methods["Apply"].Pos())
	known, bad, cells := c.gatherTable()
	switch {
	case !known:
		c.note("R45", "R45:gather-table", site, "the provenance table cannot follow this code to one outcome per cell; the structural rules R31 decide")
	case bad != "":
		c.violate("R45", "R45:gather-table", site, bad)
	default:
		c.discharge("R45", "R45:gather-table", site, fmt.Sprintf("%d cells (data of rank 1..3 with unit extents, every axis spelling, index tensors of rank 0..2 with positive and negative spellings, axes and indices out of range refused): shape data[:axis] ++ indices.shape ++ data[axis+1:] and every element is the one the ONNX index formula names", cells))
		if c.tableCovered == nil {
			c.tableCovered = map[string]string{}
		}
		c.tableCovered["table:gather"] = "R45:gather-table"
	}
}

// ---- Gemm -------------------------------------------------------------------------------------------------

// gemmTable: alpha * op(A) * op(B) + beta * C element by element, for all four transpose combinations (non-square
// operands), alpha / beta given as named values or absent (1), C absent or of shape (), (N), (1,N), (M,1), (M,N).
func (c *Ctx) gemmTable() (known bool, bad string, cells int) {
	m := c.newMoveRun("Gemm")
	if m == nil {
		return false, "", 0
	}
	const M, K, N = 2, 3, 2
	one := int64(1)
	cshapes := [][]int64{nil, {}, {N}, {1, N}, {M, 1}, {M, N}}
	for _, ta := range []bool{false, true} {
		for _, tb := range []bool{false, true} {
			for _, named := range []bool{true, false} {
				for _, csh := range cshapes {
					if !named && csh != nil && len(csh) != 2 {
						continue // the defaults once per transpose combination with a full and without a C
					}
					var attrs []moveAttr
					if named {
						attrs = append(attrs, moveAttr{name: "alpha", f: "alpha"}, moveAttr{name: "beta", f: "beta"})
					}
					if ta {
						attrs = append(attrs, moveAttr{name: "transA", i: &one})
					}
					if tb {
						attrs = append(attrs, moveAttr{name: "transB", i: &one})
					}
					ash, bsh := []int64{M, K}, []int64{K, N}
					if ta {
						ash = []int64{K, M}
					}
					if tb {
						bsh = []int64{N, K}
					}
					ins := []*moveTensor{{shape: ash, name: "a"}, {shape: bsh, name: "b"}, nil}
					if csh != nil {
						ins[2] = &moveTensor{shape: csh, name: "c"}
					}
					out := m.cell(attrs, ins)
					desc := fmt.Sprintf("Gemm with transA=%v, transB=%v, alpha/beta given=%v, A %s, B %s, C %s", ta, tb, named, fmtInts(ash), fmtInts(bsh), func() string {
						if csh == nil {
							return "absent"
						}
						return fmtInts(csh)
					}())
					if m.panicked != "" {
						return true, desc + " panics: " + m.panicked, cells
					}
					if m.orderBad != "" {
						return true, desc + ": " + m.orderBad, cells
					}
					if !out.followed {
						if os.Getenv("MOVEDEBUG") != "" {
							fmt.Println("MOVEDEBUG not followed:", desc)
						}
						return false, "", cells
					}
					if out.isErr {
						return true, desc + " is refused", cells
					}
					cells++
					if fmtInts(out.shape) != fmtInts([]int64{M, N}) {
						return true, fmt.Sprintf("%s has shape %s, the product has shape %s", desc, fmtInts(out.shape), fmtInts([]int64{M, N})), cells
					}
					got, ok := elemsString(out.elems)
					if !ok || len(got) != M*N {
						return false, "", cells
					}
					// the batch clause (C16): the rows of op(A) are the samples; an element of row i is made of row i of
					// op(A) (and of row i of a C that has rows) only
					if c.gemmBatchBad == "" {
						for f, g := range got {
							i := int64(f) / N
							nm := map[string]bool{}
							baseNames(g, nm, 0)
							for n := range nm {
								var idx int64
								if len(n) < 2 || (n[0] != 'a' && n[0] != 'c') {
									continue
								}
								if _, err := fmt.Sscanf(n[1:], "%d", &idx); err != nil {
									continue
								}
								row := int64(-1)
								switch {
								case n[0] == 'a' && !ta:
									row = idx / K
								case n[0] == 'a' && ta:
									row = idx % M
								case n[0] == 'c' && len(csh) == 2 && csh[0] == M:
									row = idx / csh[1]
								}
								if row >= 0 && row != i {
									c.gemmBatchBad = fmt.Sprintf("%s: element [%d,%d] of the result (sample %d) is computed from %s, an element of sample %d", desc, i, int64(f)%N, i, n, row)
								}
							}
						}
					}
					for i := int64(0); i < M; i++ {
						for j := int64(0); j < N; j++ {
							acc := pval{k: pStr, s: "0"}
							for q := int64(0); q < K; q++ {
								ai, bi := i*K+q, q*N+j
								if ta {
									ai = q*M + i
								}
								if tb {
									bi = j*K + q
								}
								term := combineElems("Mul", pval{k: pStr, s: fmt.Sprintf("a%d", ai)}, pval{k: pStr, s: fmt.Sprintf("b%d", bi)})
								if named {
									term = combineElems("Mul", term, pval{k: pStr, s: "alpha"})
								}
								acc = combineElems("Add", acc, term)
							}
							if csh != nil {
								ci := int64(0)
								switch {
								case len(csh) == 1:
									ci = j
								case len(csh) == 2:
									ri, rj := i, j
									if csh[0] == 1 {
										ri = 0
									}
									if csh[1] == 1 {
										rj = 0
									}
									ci = ri*csh[1] + rj
								}
								term := pval{k: pStr, s: fmt.Sprintf("c%d", ci)}
								if named {
									term = combineElems("Mul", term, pval{k: pStr, s: "beta"})
								}
								acc = combineElems("Add", acc, term)
							}
							if g := got[i*N+j]; g != acc.s {
								return true, fmt.Sprintf("%s: element [%d,%d] of the result is %s, alpha*op(A)*op(B) + beta*C gives %s (row-major numbering of a, b, c)", desc, i, j, abbreviate(g, acc.s), abbreviate(acc.s, g)), cells
							}
						}
					}
				}
			}
		}
	}
	// operands that cannot be multiplied are refused
	out := m.cell(nil, []*moveTensor{{shape: []int64{2, 3}, name: "a"}, {shape: []int64{2, 2}, name: "b"}, nil})
	switch {
	case m.panicked != "":
		return true, "Gemm of a (2,3) and a (2,2) matrix panics: " + m.panicked, cells
	case !out.followed:
		return false, "", cells
	case !out.isErr:
		return true, "Gemm of a (2,3) and a (2,2) matrix is answered with a tensor instead of an error", cells
	}
	cells++
	// one tensor object as A and as B (a Gram matrix): what is done to one operand must not reach the other
	for _, ta := range []bool{false, true} {
		for _, tb := range []bool{false, true} {
			var attrs []moveAttr
			if ta {
				attrs = append(attrs, moveAttr{name: "transA", i: &one})
			}
			if tb {
				attrs = append(attrs, moveAttr{name: "transB", i: &one})
			}
			x := &moveTensor{shape: []int64{2, 2}, name: "a"}
			out := m.cell(attrs, []*moveTensor{x, x, nil})
			desc := fmt.Sprintf("Gemm with transA=%v, transB=%v and the same [2,2] tensor as A and as B", ta, tb)
			switch {
			case m.panicked != "":
				return true, desc + " panics: " + m.panicked, cells
			case !out.followed:
				if os.Getenv("MOVEDEBUG") != "" {
					fmt.Println("MOVEDEBUG not followed:", desc)
				}
				return false, "", cells
			case out.isErr:
				return true, desc + " is refused", cells
			}
			cells++
			got, ok := elemsString(out.elems)
			if !ok || len(got) != 4 {
				return false, "", cells
			}
			for i := int64(0); i < 2; i++ {
				for j := int64(0); j < 2; j++ {
					acc := pval{k: pStr, s: "0"}
					for q := int64(0); q < 2; q++ {
						ai, bi := i*2+q, q*2+j
						if ta {
							ai = q*2 + i
						}
						if tb {
							bi = j*2 + q
						}
						acc = combineElems("Add", acc, combineElems("Mul", pval{k: pStr, s: fmt.Sprintf("a%d", ai)}, pval{k: pStr, s: fmt.Sprintf("a%d", bi)}))
					}
					if g := got[i*2+j]; g != acc.s {
						return true, fmt.Sprintf("%s: element [%d,%d] of the result is %s, op(A)*op(B) gives %s", desc, i, j, g, acc.s), cells
					}
				}
			}
		}
	}
	if unc := m.cov.uncovered(c); len(unc) > 0 {
		c.declined("Gemm provenance table", unc)
		return false, "", cells
	}
	return true, "", cells
}

func ruleGemmTable(c *Ctx, prop string) {
	oi := c.opByName("Gemm")
	if oi == nil {
		return
	}
	site := c.pos(oi.methods["Apply"].Pos())
	c.gemmBatchBad = ""
	known, bad, cells := c.gemmTable()
	if prop == "C16" {
		key := "R46:gemm-batch"
		switch {
		case c.gemmBatchBad != "":
			c.violate("R46", key, site, c.gemmBatchBad)
		case !known:
			c.note("R46", key, site, "the provenance table cannot follow this code to one outcome per cell")
		case bad != "":
			c.note("R46", key, site, "the result is not Gemm's formula (reported under C04), but every element is made of its own sample's row")
		default:
			c.discharge("R46", key, site, fmt.Sprintf("%d cells: every element of row i of the result is made of row i of op(A) (and of row i of a C that has rows), of B, alpha and beta only", cells))
		}
		return
	}
	switch {
	case !known:
		c.note("R46", "R46:gemm-table", site, "the provenance table cannot follow this code to one outcome per cell; the structural rules R16 decide")
	case bad != "":
		c.violate("R46", "R46:gemm-table", site, bad)
	default:
		c.discharge("R46", "R46:gemm-table", site, fmt.Sprintf("%d cells (all transpose combinations on non-square operands, alpha / beta named or absent, C absent or of shape (), (N), (1,N), (M,1), (M,N); one pair that must be refused): every element is alpha * sum_k op(A)[i,k] * op(B)[k,j] + beta * C broadcast to [i,j]", cells))
		if c.tableCovered == nil {
			c.tableCovered = map[string]string{}
		}
		c.tableCovered["table:gemm"] = "R46:gemm-table"
	}
}

// ---- Transpose, Expand --------------------------------------------------------------------------------------

func permsOf(n int64) [][]int64 {
	if n == 0 {
		return [][]int64{{}}
	}
	var out [][]int64
	for _, p := range permsOf(n - 1) {
		for i := 0; i <= len(p); i++ {
			q := append(append(append([]int64{}, p[:i]...), n-1), p[i:]...)
			out = append(out, q)
		}
	}
	return out
}

// transposeTable: every permutation of the axes of operands of rank 1..3 (4 in the thorough tier), with unit extents.
func (c *Ctx) transposeTable() (known bool, bad string, cells int) {
	m := c.newMoveRun("Transpose")
	if m == nil {
		return false, "", 0
	}
	bases := [][]int64{{3}, {2, 3}, {1, 3}, {2, 3, 4}, {2, 1, 3}}
	if c.tier == "thorough" {
		bases = append(bases, []int64{2, 3, 2, 2})
	}
	for _, base := range bases {
		r := int64(len(base))
		for _, perm := range permsOf(r) {
			out := m.cell([]moveAttr{{name: "perm", ints: perm}}, []*moveTensor{{shape: base, name: "d"}})
			desc := fmt.Sprintf("Transpose of shape %s with perm %s", fmtInts(base), fmtInts(perm))
			if m.panicked != "" {
				return true, desc + " panics: " + m.panicked, cells
			}
			if !out.followed {
				if os.Getenv("MOVEDEBUG") != "" {
					fmt.Println("MOVEDEBUG not followed:", desc)
				}
				return false, "", cells
			}
			if out.isErr {
				return true, desc + " is refused", cells
			}
			cells++
			wsh := make([]int64, r)
			for i, a := range perm {
				wsh[i] = base[a]
			}
			if fmtInts(out.shape) != fmtInts(wsh) {
				return true, fmt.Sprintf("%s has shape %s, ONNX prescribes %s", desc, fmtInts(out.shape), fmtInts(wsh)), cells
			}
			got, ok := elemsString(out.elems)
			if !ok {
				return false, "", cells
			}
			total := int64(1)
			for _, e := range wsh {
				total *= e
			}
			if int64(len(got)) != total {
				return false, "", cells
			}
			for f := int64(0); f < total; f++ {
				co := make([]int64, r)
				rem := f
				for d := r - 1; d >= 0; d-- {
					co[d] = rem % wsh[d]
					rem /= wsh[d]
				}
				dc := make([]int64, r)
				for i, a := range perm {
					dc[a] = co[i]
				}
				src := int64(0)
				for d := int64(0); d < r; d++ {
					src = src*base[d] + dc[d]
				}
				if want := fmt.Sprintf("d%d", src); got[f] != want {
					return true, fmt.Sprintf("%s: element %d of the result is %s, the ONNX index formula gives %s", desc, f, got[f], want), cells
				}
			}
		}
		// what is not a permutation of the axes is refused
		if r >= 2 {
			badPerm := make([]int64, r)
			out := m.cell([]moveAttr{{name: "perm", ints: badPerm}}, []*moveTensor{{shape: base, name: "d"}})
			desc := fmt.Sprintf("Transpose of shape %s with perm %s (not a permutation)", fmtInts(base), fmtInts(badPerm))
			switch {
			case m.panicked != "":
				return true, desc + " panics: " + m.panicked, cells
			case !out.followed:
				return false, "", cells
			case !out.isErr:
				return true, desc + " is answered with a tensor instead of an error", cells
			}
			cells++
		}
	}
	if unc := m.cov.uncovered(c); len(unc) > 0 {
		c.declined("Transpose provenance table", unc)
		return false, "", cells
	}
	return true, "", cells
}

// expandTable: the input broadcast two ways against the requested shape (shorter, equal and longer than the rank).
func (c *Ctx) expandTable() (known bool, bad string, cells int) {
	m := c.newMoveRun("Expand")
	if m == nil {
		return false, "", 0
	}
	m.dataLists = types.Typ[types.Int64]
	type cs struct {
		in, target []int64
		ok         bool
	}
	cases := []cs{
		{[]int64{3}, []int64{2, 3}, true}, {[]int64{3}, []int64{3}, true}, {[]int64{1}, []int64{4}, true}, {[]int64{2, 1}, []int64{2, 3}, true},
		{[]int64{2, 3}, []int64{3}, true}, {[]int64{2, 1}, []int64{3}, true}, {[]int64{2, 1, 3}, []int64{1, 2, 1}, true}, {[]int64{1, 3}, []int64{2, 2, 1}, true},
		{[]int64{2, 3}, []int64{1}, true}, {[]int64{3}, []int64{2, 1, 1}, true},
		{[]int64{2}, []int64{3}, false}, {[]int64{2, 3}, []int64{3, 3}, false}, {[]int64{2, 3}, []int64{2}, false},
		{[]int64{2}, []int64{0}, false}, {[]int64{2}, []int64{-1, 2}, false}, {[]int64{2}, []int64{}, false}, // extents below one, no extents at all
	}
	for _, cse := range cases {
		te := make([]pval, len(cse.target))
		for i, v := range cse.target {
			te[i] = pval{k: pInt, i: v}
		}
		out := m.cell(nil, []*moveTensor{{shape: cse.in, name: "d"}, {shape: []int64{int64(len(cse.target))}, elems: te}})
		desc := fmt.Sprintf("Expand of shape %s to %s", fmtInts(cse.in), fmtInts(cse.target))
		if m.panicked != "" {
			return true, desc + " panics: " + m.panicked, cells
		}
		if !out.followed {
			if os.Getenv("MOVEDEBUG") != "" {
				fmt.Println("MOVEDEBUG not followed:", desc)
			}
			return false, "", cells
		}
		if !cse.ok {
			if !out.isErr {
				return true, desc + " (not broadcastable) is answered with a tensor instead of an error", cells
			}
			cells++
			continue
		}
		if out.isErr {
			return true, desc + " is refused", cells
		}
		cells++
		r := len(cse.in)
		if len(cse.target) > r {
			r = len(cse.target)
		}
		wsh := make([]int64, r)
		for i := 0; i < r; i++ {
			x, y := int64(1), int64(1)
			if i >= r-len(cse.in) {
				x = cse.in[i-(r-len(cse.in))]
			}
			if i >= r-len(cse.target) {
				y = cse.target[i-(r-len(cse.target))]
			}
			wsh[i] = x
			if x == 1 {
				wsh[i] = y
			}
		}
		if fmtInts(out.shape) != fmtInts(wsh) {
			return true, fmt.Sprintf("%s has shape %s, the two-way broadcast is %s", desc, fmtInts(out.shape), fmtInts(wsh)), cells
		}
		got, ok := elemsString(out.elems)
		if !ok {
			return false, "", cells
		}
		total := int64(1)
		for _, e := range wsh {
			total *= e
		}
		if int64(len(got)) != total {
			return false, "", cells
		}
		for f := int64(0); f < total; f++ {
			co := make([]int64, r)
			rem := f
			for d := r - 1; d >= 0; d-- {
				co[d] = rem % wsh[d]
				rem /= wsh[d]
			}
			src := int64(0)
			off := r - len(cse.in)
			for d := range cse.in {
				cc := co[d+off]
				if cse.in[d] == 1 {
					cc = 0
				}
				src = src*cse.in[d] + cc
			}
			if want := fmt.Sprintf("d%d", src); got[f] != want {
				return true, fmt.Sprintf("%s: element %d of the result is %s, the broadcast puts %s there", desc, f, got[f], want), cells
			}
		}
	}
	if unc := m.cov.uncovered(c); len(unc) > 0 {
		c.declined("Expand provenance table", unc)
		return false, "", cells
	}
	return true, "", cells
}

func ruleTransposeExpandTables(c *Ctx, prop string) {
	type tb struct {
		op, key, tk string
		run         func() (bool, string, int)
		what        string
	}
	for _, t := range []tb{
		{"Transpose", "R47:transpose-table", "table:transpose", c.transposeTable, "every permutation of operands of rank 1..3 with unit extents; a non-permutation refused"},
		{"Expand", "R47:expand-table", "table:expand", c.expandTable, "target shapes shorter, equal and longer than the input's rank, unit extents on either side; three pairs that do not broadcast refused"},
	} {
		if t.op == "Expand" && prop != "C08" {
			continue
		}
		oi := c.opByName(t.op)
		if oi == nil {
			continue
		}
		site := c.pos(oi.methods["Apply"].Pos())
		known, bad, cells := t.run()
		switch {
		case !known:
			c.note("R47", t.key, site, "the provenance table cannot follow this code to one outcome per cell; the structural rule R7:delegates:"+t.op+" decides")
		case bad != "":
			c.violate("R47", t.key, site, bad)
		default:
			c.discharge("R47", t.key, site, fmt.Sprintf("%d cells (%s): every element of the result is the one the ONNX index formula names", cells, t.what))
			if c.tableCovered == nil {
				c.tableCovered = map[string]string{}
			}
			c.tableCovered[t.tk] = t.key
		}
	}
}
