package main

import (
	"encoding/json"
	"os"
	"path/filepath"
	"sort"
	"time"
)

type propDoc struct {
	Explanation string   // what is decided, by which rules, what is not decided
	Assumptions []string // trusted base
	Exhaustive  bool
}

func writeEvidence(path, prop, tier string, seed int, c *Ctx, violated, known []Obligation,
	undecided []string, extra map[string]any, wall time.Duration, doc propDoc) {
	cov := map[string]any{}
	if doc.Assumptions == nil {
		doc.Assumptions = []string{}
	}
	if doc.Explanation == "" {
		doc.Explanation = "static rule set over the type-checked program; see DESIGN.md"
	}
	cov["explanation"] = doc.Explanation
	// the rules actually registered for this property (authoritative; the prose above may lag behind)
	var rulesRun []string
	for _, r := range propRules[prop] {
		rulesRun = append(rulesRun, r.id+": "+r.doc)
	}
	cov["rules_run"] = rulesRun
	cov["rule"] = "obligations are (rule, construct) pairs enumerated from the type-checked AST / go/ssa form of every library package of the current working tree; an obligation is non-trivial when a rule had to be applied to a construct found in the source (notes and absent constructs are not counted); distinct = distinct semantic keys"
	cov["checker_cmd"] = "bin/gonnxcheck -repo /repo -property " + prop + " -tier " + tier
	cov["trusted_base"] = doc.Assumptions
	if doc.Exhaustive {
		cov["exhaustive"] = true
	}
	nObl, nDis, nNote := 0, 0, 0
	distinct := map[string]bool{}
	perRule := map[string]map[string]int{}
	var samples []Obligation
	var notes []Obligation
	if c != nil {
		bySt := map[string][]Obligation{}
		for _, o := range c.obls {
			if o.Control {
				continue
			}
			if perRule[o.Rule] == nil {
				perRule[o.Rule] = map[string]int{}
			}
			perRule[o.Rule][o.Status]++
			switch o.Status {
			case StDischarged, StViolated, StUndecided:
				nObl++
				distinct[o.Key] = true
				if o.Status == StDischarged {
					nDis++
				}
			case StNote:
				nNote++
				notes = append(notes, o)
			}
			bySt[o.Status] = append(bySt[o.Status], o)
		}
		// samples: all violated + up to 40 discharged spread over rules + up to 10 notes
		samples = append(samples, bySt[StViolated]...)
		perRuleTaken := map[string]int{}
		for _, o := range bySt[StDischarged] {
			if perRuleTaken[o.Rule] < 6 && len(samples) < 80 {
				samples = append(samples, o)
				perRuleTaken[o.Rule]++
			}
		}
		for i, o := range notes {
			if i < 10 {
				samples = append(samples, o)
			}
		}
		var ctl []Obligation
		for _, o := range c.obls {
			if o.Control {
				ctl = append(ctl, o)
			}
		}
		cov["controls"] = ctl
		cov["packages"] = 4
		cov["files"] = c.nFiles
		cov["functions"] = len(c.libFns)
		cov["callgraph"] = c.cgAlg
		cov["callgraph_nodes"] = len(c.cg.Nodes)
		cov["counts"] = c.counts
	}
	if samples == nil {
		samples = []Obligation{}
	}
	cov["obligations"] = nObl
	cov["discharged"] = nDis
	cov["notes"] = nNote
	cov["evaluations"] = nObl
	cov["distinct_nontrivial"] = len(distinct)
	cov["per_rule"] = perRule
	cov["samples"] = samples
	kk := []string{}
	for _, o := range known {
		kk = append(kk, o.Key)
	}
	sort.Strings(kk)
	cov["known_findings"] = kk
	vk := []string{}
	for _, o := range violated {
		vk = append(vk, o.Key)
	}
	cov["violated_keys"] = vk
	if len(undecided) > 0 {
		cov["undecided"] = undecided
	}
	for k, v := range extra {
		cov[k] = v
	}
	ev := map[string]any{
		"property_id": prop,
		"tier":        tier,
		"seed":        seed,
		"level":       "other",
		"coverage":    cov,
		"assumptions": doc.Assumptions,
		"wall_s":      float64(int(wall.Seconds()*100)) / 100,
		"violations":  len(violated),
	}
	b, _ := json.MarshalIndent(ev, "", " ")
	os.MkdirAll(filepath.Dir(path), 0o755)
	os.WriteFile(path, b, 0o644)
}
