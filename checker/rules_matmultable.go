package main

// MatMul's result shapes by finite table (C04): MatMul.Apply walked with operands of rank 1..4 (non-square matrices,
// batch axes equal, of extent 1, or missing): the returned tensor has the shape numpy.matmul prescribes - vector
// operands are promoted and the added axis removed again, each on its own, batch axes broadcast, the matrix axes
// never - and incompatible inner or batch extents are refused. gorgonia's MatMul enters as its shape contract.

import (
	"fmt"
	"os"

	"golang.org/x/tools/go/ssa"
)

func matmulShape(a, b []int64) ([]int64, bool) {
	pa, pb := a, b
	if len(a) == 1 {
		pa = []int64{1, a[0]}
	}
	if len(b) == 1 {
		pb = []int64{b[0], 1}
	}
	if pa[len(pa)-1] != pb[len(pb)-2] {
		return nil, false
	}
	ba, bb := pa[:len(pa)-2], pb[:len(pb)-2]
	n := len(ba)
	if len(bb) > n {
		n = len(bb)
	}
	batch := make([]int64, n)
	for i := 0; i < n; i++ {
		x, y := int64(1), int64(1)
		if j := len(ba) - n + i; j >= 0 {
			x = ba[j]
		}
		if j := len(bb) - n + i; j >= 0 {
			y = bb[j]
		}
		switch {
		case x == y || y == 1:
			batch[i] = x
		case x == 1:
			batch[i] = y
		default:
			return nil, false
		}
	}
	out := append([]int64{}, batch...)
	if len(a) > 1 {
		out = append(out, pa[len(pa)-2])
	}
	if len(b) > 1 {
		out = append(out, pb[len(pb)-1])
	}
	return out, true
}

// matmulTable: known=false when a cell cannot be followed to one outcome.
func (c *Ctx) matmulTable(apply *ssa.Function) (known bool, bad string, cells int) {
	st := c.libInit()
	if len(st.failed) > 0 {
		return false, "", 0
	}
	as := [][]int64{{3}, {2, 3}, {5, 2, 3}, {1, 2, 3}, {4, 5, 2, 3}, {4, 1, 2, 3}, {2, 2}, {7}}
	bs := [][]int64{{3}, {3, 4}, {5, 3, 4}, {1, 3, 4}, {4, 5, 3, 4}, {1, 5, 3, 4}, {2, 4}, {6, 3, 4}, {2, 2}}
	cov := newCover(apply)
	for _, a := range as {
		for _, b := range bs {
			a, b := a, b
			desc0 := fmt.Sprint(a, b)
			p := &pinterp{c: c, budget: 2000000, objects: true, globals: st.globals, cover: cov}
			sh := func(k int64) ([]int64, bool) {
				switch k {
				case 0:
					return a, true
				case 1:
					return b, true
				}
				return nil, false
			}
			p.rankOf = func(k int64) (int64, bool) { s, ok := sh(k); return int64(len(s)), ok }
			p.extentOf = func(k, i int64) (int64, bool) {
				s, ok := sh(k)
				if !ok || i < 0 || i >= int64(len(s)) {
					return 0, false
				}
				return s[i], true
			}
			p.present = func(k int64) bool { return k <= 1 }
			panicked := ""
			p.onPanic = func(fn *ssa.Function, in ssa.Instruction, what string) { panicked = what + " at " + c.pos(in.Pos()) }
			res, h := p.run(apply, []pval{{k: pRecv}, {k: pInputs}}, 0, st.heap.clone())
			desc := fmt.Sprintf("MatMul of shapes %s and %s", fmtInts(a), fmtInts(b))
			if panicked != "" {
				return true, desc + " panics: " + panicked, cells
			}
			if p.aborted || len(res) != 2 {
				return c.mmUnknown(1, desc0), "", cells
			}
			want, okWant := matmulShape(a, b)
			refused := nonNilKind(res[1].k)
			if !refused && res[1].k != pNil && !(res[1].k == pUnknown && h != nil) {
				return c.mmUnknown(2, desc0), "", cells
			}
			cells++
			switch {
			case refused && okWant:
				return true, desc + " is refused, the result has shape " + fmtInts(want), cells
			case refused:
				continue
			case !okWant:
				return true, desc + " gives a result although the extents are incompatible", cells
			}
			if res[0].k != pList || h == nil {
				return c.mmUnknown(3, desc0), "", cells
			}
			l := h.lists[res[0].i]
			if len(l) != 1 {
				return true, fmt.Sprintf("%s returns %d tensors", desc, len(l)), cells
			}
			var got []int64
			switch l[0].k {
			case pShaped:
				shl := h.lists[l[0].j]
				if shl == nil {
					return c.mmUnknown(4, desc0), "", cells
				}
				for _, e := range shl {
					if e.k != pInt {
						return c.mmUnknown(5, desc0), "", cells
					}
					got = append(got, e.i)
				}
			default:
				return c.mmUnknown(6, desc0), "", cells
			}
			if fmtInts(got) != fmtInts(want) {
				return true, fmt.Sprintf("%s has shape %s, numpy.matmul (the ONNX definition) prescribes %s", desc, fmtInts(got), fmtInts(want)), cells
			}
		}
	}
	if unc := cov.uncovered(c); len(unc) > 0 {
		c.declined("MatMul shape table", unc)
		desc0 := "coverage"
		return c.mmUnknown(7, desc0), "", cells
	}
	return true, "", cells
}

func (c *Ctx) mmUnknown(n int, desc string) bool {
	if os.Getenv("MMDEBUG") != "" {
		fmt.Println("MMDEBUG unknown at", n, desc)
	}
	return false
}
