package main

import (
	"fmt"
	"go/token"
	"go/types"
	"sort"
	"strings"

	"golang.org/x/tools/go/ssa"
)

// R12 — recurrent operators follow the ONNX slot layout (C06, C16).

type extractor struct {
	fn     *ssa.Function
	n      int64 // number of matrices requested
	dims   int64
	okRets bool
	kind   string // "W" (dims 3), "B" (dims 2, n = 2*gates), "P" (dims 2, n = 3 on LSTM)
}

// slotOf: v is result #k of a call to extractor e on tensor value src.
type slotRef struct {
	ex   *extractor
	call *ssa.Call
	k    int
}

func (c *Ctx) findExtractors(oi *opInfo, nGates int64) map[*ssa.Function]*extractor {
	out := map[*ssa.Function]*extractor{}
	if c.inlineExtractors == nil {
		c.inlineExtractors = map[*ssa.Call]*extractor{}
	}
	for _, f := range c.libFns {
		if recvNamed(f) != oi.named || f.Parent() != nil {
			continue
		}
		if f == oi.methods["Apply"] {
			// an extractor written out in Apply itself: ops.ExtractMatrices(inputs[k], n, dims, hiddenSize), blocks taken as b[k]
			for _, b := range f.Blocks {
				for _, in := range b.Instrs {
					cl, ok := in.(*ssa.Call)
					if !ok {
						continue
					}
					sc := cl.Common().StaticCallee()
					if sc == nil || fnPkgPath(sc) != pkgOps || len(cl.Common().Args) != 4 || !isTensorish(cl.Common().Args[0].Type()) {
						continue
					}
					if sl, ok := sc.Signature.Results().At(0).Type().Underlying().(*types.Slice); !ok || !isTensorish(sl.Elem()) {
						continue
					}
					e := &extractor{fn: f}
					e.n, _ = constInt(cl.Common().Args[1])
					e.dims, _ = constInt(cl.Common().Args[2])
					e.okRets = strings.Contains(c.term(cl.Common().Args[3], 0), "hiddenSize")
					switch {
					case e.dims == 3:
						e.kind = "W"
					case e.dims == 2 && e.n == 2*nGates:
						e.kind = "B"
					case e.dims == 2:
						e.kind = "P"
					}
					c.inlineExtractors[cl] = e
				}
			}
			continue
		}
		var em *ssa.Call
		for _, b := range f.Blocks {
			for _, in := range b.Instrs {
				if cl, ok := in.(*ssa.Call); ok {
					if sc := cl.Common().StaticCallee(); sc != nil && fnPkgPath(sc) == pkgOps && len(cl.Common().Args) == 4 && isTensorish(cl.Common().Args[0].Type()) {
						if s, ok := sc.Signature.Results().At(0).Type().Underlying().(*types.Slice); ok && isTensorish(s.Elem()) {
							em = cl
						}
					}
				}
			}
		}
		if em == nil {
			continue
		}
		e := &extractor{fn: f}
		e.n, _ = constInt(em.Common().Args[1])
		e.dims, _ = constInt(em.Common().Args[2])
		// the matrix tensor is the method's own parameter, hidden size is the receiver's field
		e.okRets = em.Common().Args[0] == ssa.Value(f.Params[1]) && strings.Contains(c.term(em.Common().Args[3], 0), "hiddenSize")
		mats := resultOfCall(em, 0)
		for _, r := range returnsOf(f) {
			errIdx := len(r.Results) - 1
			if !isNilConst(r.Results[errIdx]) {
				continue
			}
			if int64(errIdx) != e.n {
				e.okRets = false
			}
			for k := 0; k < errIdx; k++ {
				ld, ok := r.Results[k].(*ssa.UnOp)
				var ia *ssa.IndexAddr
				if ok {
					ia, _ = ld.X.(*ssa.IndexAddr)
				}
				if ia == nil || ia.X != mats {
					e.okRets = false
					continue
				}
				if idx, ok := constInt(ia.Index); !ok || idx != int64(k) {
					e.okRets = false
				}
			}
		}
		switch {
		case e.dims == 3:
			e.kind = "W"
		case e.dims == 2 && e.n == 2*nGates:
			e.kind = "B"
		case e.dims == 2:
			e.kind = "P"
		}
		out[f] = e
	}
	return out
}

func (c *Ctx) slotOfValue(v ssa.Value, exs map[*ssa.Function]*extractor) *slotRef {
	// b[k] of an extractor written out in Apply
	if ld, isLd := v.(*ssa.UnOp); isLd && ld.Op == token.MUL {
		if ia, isIA := ld.X.(*ssa.IndexAddr); isIA {
			if k, isK := constInt(ia.Index); isK {
				if mex, isEx := ia.X.(*ssa.Extract); isEx && mex.Index == 0 {
					if call, isCall := mex.Tuple.(*ssa.Call); isCall {
						if e := c.inlineExtractors[call]; e != nil {
							return &slotRef{ex: e, call: call, k: int(k)}
						}
					}
				}
			}
		}
	}
	ex, ok := v.(*ssa.Extract)
	if !ok {
		// single-result extractor (RNN getWeights returns (tensor, error))
		return nil
	}
	call, ok := ex.Tuple.(*ssa.Call)
	if !ok {
		return nil
	}
	e := exs[call.Common().StaticCallee()]
	if e == nil {
		return nil
	}
	return &slotRef{ex: e, call: call, k: ex.Index}
}

// phiSlot: optional tensors (peepholes) are phi(nil, extract).
func (c *Ctx) slotThroughPhi(v ssa.Value, exs map[*ssa.Function]*extractor) (*slotRef, bool) {
	if isNilConst(v) {
		return nil, true // explicitly absent
	}
	if s := c.slotOfValue(v, exs); s != nil {
		return s, false
	}
	if p, ok := v.(*ssa.Phi); ok {
		var found *slotRef
		for _, e := range p.Edges {
			if isNilConst(e) {
				continue
			}
			if s := c.slotOfValue(e, exs); s != nil {
				found = s
			}
		}
		return found, false
	}
	return nil, false
}

// gemmRoles: in a gate function, which parameters feed the input Gemm (x, W, Wb) and the hidden Gemm (h, R, Rb).
type gateRoles struct {
	x, w, wb, h, r, rb int // parameter indices (-1 unknown)
	ok                 bool
}

func (c *Ctx) gateRolesOf(f *ssa.Function, isTimeSlice func(paramIdx int) bool) gateRoles {
	gr := gateRoles{-1, -1, -1, -1, -1, -1, false}
	paramIdx := func(v ssa.Value) int {
		for i, p := range f.Params {
			if ssa.Value(p) == v {
				return i
			}
		}
		return -1
	}
	var gemms [][]int
	for _, b := range f.Blocks {
		for _, in := range b.Instrs {
			cl, ok := in.(*ssa.Call)
			if !ok {
				continue
			}
			sc := cl.Common().StaticCallee()
			if sc == nil || sc.Name() != "Apply" || recvNamed(sc) == nil || recvNamed(sc).Obj().Name() != "Gemm" {
				continue
			}
			els := varargOrdered(cl.Common().Args[1])
			if len(els) != 3 {
				continue
			}
			gemms = append(gemms, []int{paramIdx(els[0]), paramIdx(els[1]), paramIdx(els[2])})
		}
	}
	if len(gemms) != 2 {
		return gr
	}
	for _, g := range gemms {
		if g[0] >= 0 && isTimeSlice(g[0]) {
			gr.x, gr.w, gr.wb = g[0], g[1], g[2]
		} else {
			gr.h, gr.r, gr.rb = g[0], g[1], g[2]
		}
	}
	gr.ok = gr.x >= 0 && gr.w >= 0 && gr.wb >= 0 && gr.r >= 0 && gr.rb >= 0
	return gr
}

func ruleR12(c *Ctx, prop string) {
	specs := []struct {
		name   string
		nGates int64
	}{{"RNN", 1}, {"GRU", 3}, {"LSTM", 4}}
	full := prop == "C06"
	for _, sp := range specs {
		oi := c.opByName(sp.name)
		if oi == nil {
			c.undecided("R12", "R12:anchor:"+sp.name, "", "operator not found")
			continue
		}
		apply := oi.methods["Apply"]
		exs := c.findExtractors(oi, sp.nGates)
		if full {
			// P1 extractors
			var fs []*ssa.Function
			for f := range exs {
				fs = append(fs, f)
			}
			sort.Slice(fs, func(i, j int) bool { return fname(fs[i]) < fname(fs[j]) })
			want := map[string]int64{"W": sp.nGates, "B": 2 * sp.nGates, "P": 3}
			for _, f := range fs {
				e := exs[f]
				ok := e.okRets && e.kind != "" && e.n == want[e.kind]
				c.decide(ok, "R12", "R12:P1:"+fname(f), c.pos(f.Pos()), fmt.Sprintf("%s block extractor: %d matrices of %d dims, result k = block k", e.kind, e.n, e.dims),
					fmt.Sprintf("extractor requests %d blocks with %d dims or returns block j as result k != j: gate matrices are cut from the wrong rows of the packed tensor", e.n, e.dims))
			}
			nInline := 0
			for cl, e := range c.inlineExtractors {
				if cl.Parent() != apply {
					continue
				}
				nInline++
				ok := e.okRets && e.kind != "" && e.n == want[e.kind]
				c.decide(ok, "R12", fmt.Sprintf("R12:P1:%s:inline@%s", sp.name, c.pos(cl.Pos())), c.pos(cl.Pos()), fmt.Sprintf("%s blocks cut in Apply: %d matrices of %d dims", e.kind, e.n, e.dims),
					fmt.Sprintf("extractor requests %d blocks with %d dims: gate matrices are cut from the wrong rows of the packed tensor", e.n, e.dims))
			}
			if len(fs)+nInline < 2 {
				c.undecided("R12", "R12:P1:floor:"+sp.name, c.pos(apply.Pos()), fmt.Sprintf("%s no longer cuts its packed tensors with at least two block extractors (methods returning the results of ops.ExtractMatrices in order; found %d): which rows of W/R/B reach which gate cannot be followed - e.g. the two bias halves Wb/Rb are combined by hand", sp.name, len(fs)))
			}
			c.checkGateCalls(oi, sp.name, sp.nGates, exs)
			c.checkGemmLiterals(oi, sp.name)
			c.checkStateThreading(oi, sp.name)
		}
		c.checkOutputReshapes(oi, sp.name)
		c.checkTimeSlice(oi, sp.name)
	}
}

// checkGateCalls: P2/P3 — slot consistency at every gate call; LSTM/GRU role rules (P4).
func (c *Ctx) checkGateCalls(oi *opInfo, name string, nGates int64, exs map[*ssa.Function]*extractor) {
	apply := oi.methods["Apply"]
	inputs := apply.Params[1]
	// which input feeds which extractor call
	srcInput := func(call *ssa.Call) int64 {
		arg := call.Common().Args[1]
		if c.inlineExtractors[call] != nil {
			arg = call.Common().Args[0] // ops.ExtractMatrices(M, ...) written out in Apply: no receiver in front
		}
		seen := map[ssa.Value]bool{}
		var res int64 = -1
		var walk func(v ssa.Value)
		walk = func(v ssa.Value) {
			if v == nil || seen[v] {
				return
			}
			seen[v] = true
			if ld, ok := v.(*ssa.UnOp); ok {
				if ia, ok := ld.X.(*ssa.IndexAddr); ok && ia.X == ssa.Value(inputs) {
					if k, ok := constInt(ia.Index); ok {
						res = k
					}
				}
			}
			if p, ok := v.(*ssa.Phi); ok {
				for _, e := range p.Edges {
					walk(e)
				}
			}
		}
		walk(arg)
		return res
	}
	// time slice value: result of X.Slice / extractXt
	isSliceOfX := func(v ssa.Value) bool {
		t := c.term(v, 0)
		return strings.HasPrefix(t, "Slice(P1[0]") || strings.HasPrefix(t, "extractXt(") || strings.HasPrefix(t, "ExtractTimestep(P1[0]")
	}
	type gateCall struct {
		call  *ssa.Call
		roles gateRoles
		slot  int
	}
	var gates []gateCall
	n := 0
	for _, b := range apply.Blocks {
		for _, in := range b.Instrs {
			cl, ok := in.(*ssa.Call)
			if !ok {
				continue
			}
			g := cl.Common().StaticCallee()
			if g == nil || recvNamed(g) != oi.named || g == apply {
				continue
			}
			args := cl.Common().Args
			roles := c.gateRolesOf(g, func(pi int) bool { return pi < len(args) && isSliceOfX(args[pi]) })
			if !roles.ok {
				// htCalculation (GRU) has its own Gemms in one branch and delegates in the other: handled through its callee
				roles = c.rolesThroughDelegate(g, args, isSliceOfX)
				if !roles.ok {
					continue
				}
			}
			n++
			ord := len(gates) + 1
			key := fmt.Sprintf("R12:P3:%s:gate#%d", name, ord)
			sw := c.slotOfValue(args[roles.w], exs)
			sr := c.slotOfValue(args[roles.r], exs)
			if name == "RNN" {
				// single-gate operator: weights come straight from single-result extractors
				swOK := c.extractorCallOn(args[roles.w], exs, "W") == 1
				srOK := c.extractorCallOn(args[roles.r], exs, "W") == 2
				b1, b2 := c.slotOfValue(args[roles.wb], exs), c.slotOfValue(args[roles.rb], exs)
				okB := b1 != nil && b2 != nil && b1.call == b2.call && srcInput(b1.call) == 3 && ((b1.k == 0 && b2.k == 1) || (b1.k == 1 && b2.k == 0))
				c.decide(swOK && srOK && okB, "R12", key, c.pos(cl.Pos()), "W from inputs[1], R from inputs[2], biases {B[0],B[1]} from inputs[3]", "RNN step does not use W=inputs[1], R=inputs[2] and both bias halves of inputs[3]")
				gates = append(gates, gateCall{cl, roles, 0})
				continue
			}
			bad := ""
			switch {
			case sw == nil || sr == nil:
				bad = "gate weights are not blocks of the packed W / R tensors"
			case sw.ex.kind != "W" || sr.ex.kind != "W" || srcInput(sw.call) != 1 || srcInput(sr.call) != 2:
				bad = fmt.Sprintf("input weights must be a block of inputs[1] and recurrence weights a block of inputs[2] (got inputs[%d], inputs[%d])", srcInput(sw.call), srcInput(sr.call))
			case sw.k != sr.k:
				bad = fmt.Sprintf("gate mixes W block %d with R block %d: input and recurrence weights of different gates", sw.k, sr.k)
			}
			slot := -1
			if sw != nil {
				slot = sw.k
			}
			if bad == "" {
				b1, b2 := c.slotOfValue(args[roles.wb], exs), c.slotOfValue(args[roles.rb], exs)
				switch {
				case b1 == nil || b2 == nil || b1.call != b2.call || b1.ex.kind != "B":
					bad = "gate biases are not two blocks of the packed B tensor"
				case srcInput(b1.call) != 3:
					bad = "biases are not taken from inputs[3] (or its zero default)"
				default:
					lo, hi := b1.k, b2.k
					if lo > hi {
						lo, hi = hi, lo
					}
					if int64(lo) != int64(slot) || int64(hi) != int64(slot)+nGates {
						bad = fmt.Sprintf("gate %d adds bias blocks {%d,%d}; ONNX pairs Wb[%d] with Rb[%d] = B[%d]", slot, lo, hi, slot, slot, int64(slot)+nGates)
					}
					// GRU linear_before_reset: the bias inside r (.) (H R^T + Rb) must be the recurrence bias
					if bad == "" && name == "GRU" && slot == 2 && b2.k != int(int64(slot)+nGates) && c.rbMultipliedByReset(g) {
						bad = "with linear_before_reset the bias multiplied by the reset gate must be the recurrence bias Rb (B[slot+3])"
					}
				}
			}
			c.decide(bad == "", "R12", key, c.pos(cl.Pos()), fmt.Sprintf("gate slot %d: W[%d], R[%d], biases {B[%d],B[%d]}", slot, slot, slot, slot, int64(slot)+nGates), bad)
			gates = append(gates, gateCall{cl, roles, slot})
		}
	}
	c.counts["R12.gate_calls"] += n
	if int64(n) < nGates {
		c.undecided("R12", "R12:P3:floor:"+name, c.pos(apply.Pos()), fmt.Sprintf("%d gate calls recognised for %d gates: a gate computation must receive W[k], R[k] and the bias pair {B[k], B[k+gates]} of one slot as results of the block extractors", n, nGates))
		return
	}
	// every slot 0..nGates-1 used exactly once
	if name != "RNN" {
		seen := map[int]int{}
		for _, g := range gates {
			seen[g.slot]++
		}
		ok := true
		for k := 0; k < int(nGates); k++ {
			if seen[k] != 1 {
				ok = false
			}
		}
		c.decide(ok, "R12", "R12:P3:"+name+":all-slots", c.pos(apply.Pos()), fmt.Sprintf("each of the %d gate blocks is used by exactly one gate", nGates), fmt.Sprintf("gate blocks used %v: a block is used twice or not at all", seen))
	}
	gateBySlot := map[int]*ssa.Call{}
	for _, g := range gates {
		gateBySlot[g.slot] = g.call
	}
	switch name {
	case "LSTM":
		c.checkLSTMRoles(oi, gateBySlot, exs)
	case "GRU":
		c.checkGRURoles(oi, gateBySlot)
	}
}

// extractorCallOn: v is the (single tensor) result of an extractor of the given kind on inputs[k]; returns k.
func (c *Ctx) extractorCallOn(v ssa.Value, exs map[*ssa.Function]*extractor, kind string) int64 {
	ex, ok := v.(*ssa.Extract)
	if !ok || ex.Index != 0 {
		return -1
	}
	call, ok := ex.Tuple.(*ssa.Call)
	if !ok {
		return -1
	}
	e := exs[call.Common().StaticCallee()]
	if e == nil || e.kind != kind {
		return -1
	}
	t := c.term(call.Common().Args[1], 0)
	switch t {
	case "P1[1]":
		return 1
	case "P1[2]":
		return 2
	}
	return -1
}

// rolesThroughDelegate: a gate-like helper that passes its parameters on to another gate function
// (GRU.htCalculation): map the delegate's roles back to this call's argument positions.
func (c *Ctx) rolesThroughDelegate(g *ssa.Function, args []ssa.Value, isSliceOfX func(ssa.Value) bool) gateRoles {
	gr := gateRoles{-1, -1, -1, -1, -1, -1, false}
	// direct Gemm calls inside g (one branch) give the roles as well
	r := c.gateRolesOf(g, func(pi int) bool { return pi < len(args) && isSliceOfX(args[pi]) })
	if r.ok {
		return r
	}
	// count Gemm applications: htCalculation has two in its linear_before_reset branch
	paramIdx := func(v ssa.Value) int {
		for i, p := range g.Params {
			if ssa.Value(p) == v {
				return i
			}
		}
		return -1
	}
	var gemms [][]int
	for _, b := range g.Blocks {
		for _, in := range b.Instrs {
			cl, ok := in.(*ssa.Call)
			if !ok {
				continue
			}
			sc := cl.Common().StaticCallee()
			if sc == nil || sc.Name() != "Apply" || recvNamed(sc) == nil || recvNamed(sc).Obj().Name() != "Gemm" {
				continue
			}
			els := varargOrdered(cl.Common().Args[1])
			if len(els) == 3 {
				gemms = append(gemms, []int{paramIdx(els[0]), paramIdx(els[1]), paramIdx(els[2])})
			}
		}
	}
	for _, gm := range gemms {
		if gm[0] >= 0 && gm[0] < len(args) && isSliceOfX(args[gm[0]]) {
			gr.x, gr.w, gr.wb = gm[0], gm[1], gm[2]
		} else if gm[1] >= 0 {
			gr.h, gr.r, gr.rb = gm[0], gm[1], gm[2]
		}
	}
	gr.ok = gr.x >= 0 && gr.w >= 0 && gr.wb >= 0 && gr.r >= 0 && gr.rb >= 0
	return gr
}

// rbMultipliedByReset: in g's own two-Gemm branch, the hidden Gemm's result is multiplied before being added.
func (c *Ctx) rbMultipliedByReset(g *ssa.Function) bool {
	for _, b := range g.Blocks {
		for _, in := range b.Instrs {
			if cl, ok := in.(*ssa.Call); ok {
				if sc := cl.Common().StaticCallee(); sc != nil && sc.Name() == "Mul" && fnPkgPath(sc) == pkgTensor {
					if strings.Contains(c.term(cl.Common().Args[0], 0), "Apply(") {
						return true
					}
				}
			}
		}
	}
	return false
}

func (c *Ctx) checkLSTMRoles(oi *opInfo, gate map[int]*ssa.Call, exs map[*ssa.Function]*extractor) {
	apply := oi.methods["Apply"]
	recv := ssa.Value(apply.Params[0])
	res := func(cl *ssa.Call) ssa.Value {
		if cl == nil {
			return nil
		}
		return resultOfCall(cl, 0)
	}
	it, ot, ft, ct := res(gate[0]), res(gate[1]), res(gate[2]), res(gate[3])
	// cell update: the library call that consumes ft, it, ct and the previous C (a loop phi) and feeds the phi back
	var cell, hidden *ssa.Call
	for _, b := range apply.Blocks {
		for _, in := range b.Instrs {
			cl, ok := in.(*ssa.Call)
			if !ok {
				continue
			}
			g := cl.Common().StaticCallee()
			if g == nil || recvNamed(g) != oi.named {
				continue
			}
			uses := map[ssa.Value]bool{}
			for _, a := range cl.Common().Args {
				uses[a] = true
			}
			if uses[ft] && uses[it] && uses[ct] {
				cell = cl
			}
			if uses[ot] && !uses[it] && len(cl.Common().Args) == 4 {
				hidden = cl
			}
		}
	}
	key := "R12:P4:LSTM:cell-update"
	if cell == nil {
		c.violate("R12", key, c.pos(apply.Pos()), "no cell update consuming the i, f and c gates: C_t = f (.) C_{t-1} + i (.) c is not computed from the slot-0, slot-2 and slot-3 gates")
	} else {
		g := cell.Common().StaticCallee()
		args := cell.Common().Args
		// in g: products Mul(pa, pb); the product containing the parameter that receives the previous C
		prevIdx := -1
		for i, a := range args {
			if p, ok := a.(*ssa.Phi); ok && isTensorish(p.Type()) {
				prevIdx = i
			}
		}
		bad := ""
		if prevIdx < 0 {
			bad = "the cell update does not receive the previous cell state (loop-carried value)"
		} else {
			var muls [][2]int
			pidx := func(v ssa.Value) int {
				for i, p := range g.Params {
					if ssa.Value(p) == unwrapConv(v) {
						return i
					}
				}
				return -1
			}
			for _, b := range g.Blocks {
				for _, in := range b.Instrs {
					if cl, ok := in.(*ssa.Call); ok {
						if sc := cl.Common().StaticCallee(); sc != nil && sc.Name() == "Mul" && fnPkgPath(sc) == pkgTensor {
							muls = append(muls, [2]int{pidx(cl.Common().Args[0]), pidx(cl.Common().Args[1])})
						}
					}
				}
			}
			if len(muls) != 2 {
				bad = "cell update is not a sum of two products"
			} else {
				for _, m := range muls {
					var other int
					switch {
					case m[0] == prevIdx:
						other = m[1]
					case m[1] == prevIdx:
						other = m[0]
					default:
						// the other product: must pair i with c
						a0, a1 := args[m[0]], args[m[1]]
						if !((a0 == it && a1 == ct) || (a0 == ct && a1 == it)) {
							bad = "the product added to f (.) C_{t-1} is not i (.) c (input gate with cell candidate)"
						}
						continue
					}
					if other < 0 || args[other] != ft {
						bad = "the previous cell state is multiplied by a gate other than the forget gate (slot 2)"
					}
				}
			}
		}
		// the result must feed the C phi
		c.decide(bad == "", "R12", key, c.pos(cell.Pos()), "C_t = f (.) C_{t-1} + i (.) c with f = slot 2, i = slot 0, c = slot 3", bad)
	}
	// peepholes and which C each gate sees
	keyP := "R12:P4:LSTM:peepholes"
	bad := ""
	wantP := map[int]int{0: 0, 1: 1, 2: 2}
	for slot, cl := range gate {
		g := cl.Common().StaticCallee()
		// P and C parameters: the ones used by UnidirectionalBroadcast(C, P)
		pi, ci := -1, -1
		for _, b := range g.Blocks {
			for _, in := range b.Instrs {
				if c2, ok := in.(*ssa.Call); ok {
					if sc := c2.Common().StaticCallee(); sc != nil && sc.Name() == "UnidirectionalBroadcast" {
						for i, p := range g.Params {
							if ssa.Value(p) == c2.Common().Args[0] {
								ci = i
							}
							if ssa.Value(p) == c2.Common().Args[1] {
								pi = i
							}
						}
					}
				}
			}
		}
		if pi < 0 || ci < 0 {
			continue
		}
		ps, absent := c.slotThroughPhi(cl.Common().Args[pi], exs)
		switch {
		case slot == 3:
			if !absent {
				bad = "the cell candidate gate (slot 3) receives a peephole"
			}
		case ps == nil:
			bad = fmt.Sprintf("gate slot %d has no peephole block although P is given", slot)
		case ps.ex.kind != "P" || ps.k != wantP[slot]:
			bad = fmt.Sprintf("gate slot %d uses peephole block %d, ONNX order is P = [Pi, Po, Pf] = slots [0,1,2]", slot, ps.k)
		}
		// o gate reads the updated C, i/f the previous C
		if cell != nil && slot == 1 && cl.Common().Args[ci] != resultOfCall(cell, 0) {
			bad = firstNonEmpty(bad, "the output gate's peephole reads the previous cell state instead of the updated one")
		}
		if cell != nil && (slot == 0 || slot == 2) {
			if _, isPhi := cl.Common().Args[ci].(*ssa.Phi); !isPhi {
				bad = firstNonEmpty(bad, "the input/forget gate's peephole does not read the previous cell state")
			}
		}
	}
	c.decide(bad == "", "R12", keyP, c.pos(apply.Pos()), "peepholes Pi,Po,Pf go to slots 0,1,2; i/f read C_{t-1}, o reads C_t, c has none", bad)
	// activations: f on i/o/f, g on c, h in the hidden computation
	keyA := "R12:P4:LSTM:activations"
	actIdx := func(v ssa.Value) int64 {
		// activation value = extract #0 of GetActivation(recv.activations[k])
		ex, ok := v.(*ssa.Extract)
		if !ok {
			return -1
		}
		call, ok := ex.Tuple.(*ssa.Call)
		if !ok || len(call.Common().Args) != 1 {
			return -1
		}
		k, ok := fieldElem(call.Common().Args[0], recv, "activations")
		if !ok {
			return -1
		}
		return k
	}
	bad = ""
	for slot, cl := range gate {
		args := cl.Common().Args
		a := actIdx(args[len(args)-1])
		want := int64(0)
		if slot == 3 {
			want = 1
		}
		if a != want {
			bad = fmt.Sprintf("gate slot %d uses activations[%d], ONNX prescribes activations[%d]", slot, a, want)
		}
	}
	if hidden != nil {
		args := hidden.Common().Args
		if actIdx(args[len(args)-1]) != 2 {
			bad = firstNonEmpty(bad, "the hidden state uses an activation other than activations[2]")
		}
		if cell != nil && args[2] != resultOfCall(cell, 0) {
			bad = firstNonEmpty(bad, "H_t is computed from the previous cell state instead of C_t")
		}
	} else {
		bad = firstNonEmpty(bad, "no hidden-state computation from the output gate found")
	}
	c.decide(bad == "", "R12", keyA, c.pos(apply.Pos()), "f=activations[0] on i,o,f; g=activations[1] on c; h=activations[2] in H_t = o (.) h(C_t)", bad)
}

func (c *Ctx) checkGRURoles(oi *opInfo, gate map[int]*ssa.Call) {
	apply := oi.methods["Apply"]
	if gate[0] == nil || gate[1] == nil || gate[2] == nil {
		// the gate computations were not recognised (reported by R12:P3 above); nothing to attach the roles to
		c.undecided("R12", "R12:P4:GRU:state-update", c.pos(apply.Pos()), "the three gate computations are not recognised, so the roles of z, r and the candidate cannot be read structurally")
		return
	}
	zt, rt, ht := resultOfCall(gate[0], 0), resultOfCall(gate[1], 0), resultOfCall(gate[2], 0)
	key := "R12:P4:GRU:state-update"
	var upd *ssa.Call
	for _, b := range apply.Blocks {
		for _, in := range b.Instrs {
			if cl, ok := in.(*ssa.Call); ok {
				if g := cl.Common().StaticCallee(); g != nil && recvNamed(g) == oi.named {
					uses := map[ssa.Value]bool{}
					for _, a := range cl.Common().Args {
						uses[a] = true
					}
					if uses[zt] && uses[ht] && !uses[rt] {
						upd = cl
					}
				}
			}
		}
	}
	if upd == nil {
		c.violate("R12", key, c.pos(apply.Pos()), "no state update consuming the update gate (slot 0) and the candidate (slot 2)")
	} else {
		g := upd.Common().StaticCallee()
		args := upd.Common().Args
		// term of the returned sum in terms of parameter indices
		t := c.kernelTerm(g)
		idx := func(v ssa.Value) int {
			for i, a := range args {
				if a == v {
					return i
				}
			}
			return -1
		}
		z, h := idx(zt), idx(ht)
		prev := -1
		for i, a := range args {
			if p, ok := a.(*ssa.Phi); ok && isTensorish(p.Type()) {
				prev = i
			}
			if _, ok := a.(*ssa.Extract); ok && a != zt && a != ht && isTensorish(a.Type()) && prev < 0 {
				prev = i
			}
		}
		want1 := fmt.Sprintf("Add(Mul(Sub(OnesTensor(P%d),P%d),P%d),Mul(P%d,P%d))", z, z, h, z, prev)
		want2 := fmt.Sprintf("Add(Mul(P%d,P%d),Mul(Sub(OnesTensor(P%d),P%d),P%d))", z, prev, z, z, h)
		okT := t == want1 || t == want2
		c.decide(okT, "R12", key, c.pos(upd.Pos()), "H_t = (1 - z) (.) h~ + z (.) H_{t-1} with z = slot 0, h~ = slot 2", "state update computes "+t+"; ONNX: (1 - z) (.) h~ + z (.) H_{t-1} (the update gate must multiply the previous state)")
	}
	// candidate: the reset gate (slot 1) is the one applied in the candidate computation; linear_before_reset selects the form
	keyR := "R12:P4:GRU:reset"
	cand := gate[2]
	bad := ""
	usesRt := false
	for _, a := range cand.Common().Args {
		if a == rt {
			usesRt = true
		}
	}
	if !usesRt {
		bad = "the candidate state is not computed with the reset gate (slot 1)"
	} else {
		g := cand.Common().StaticCallee()
		ri := -1
		for i, a := range cand.Common().Args {
			if a == rt {
				ri = i
			}
		}
		// branch structure on the linearBeforeReset field
		okBranch := false
		for _, b := range g.Blocks {
			if len(b.Instrs) == 0 {
				continue
			}
			if iff, ok := b.Instrs[len(b.Instrs)-1].(*ssa.If); ok {
				if strings.Contains(c.term(stripNot(iff.Cond), 0), "linearBeforeReset") {
					okBranch = true
					// false branch (not linear before reset): Mul(rt, prevH) feeds the delegate's H; true branch: Mul(hiddenGemm, rt)
					neg := isNegated(iff.Cond)
					notLBR, lbr := b.Succs[0], b.Succs[1]
					if !neg {
						notLBR, lbr = b.Succs[1], b.Succs[0]
					}
					t1 := c.blockMulTerms(notLBR, g)
					t2 := c.blockMulTerms(lbr, g)
					want1 := fmt.Sprintf("Mul(P%d,", ri)
					if !strings.Contains(t1, want1) {
						bad = "without linear_before_reset the reset gate must multiply the previous state before the recurrence product: (r (.) H) R^T"
					}
					if !strings.Contains(t2, "Mul(Apply(") || !strings.Contains(t2, fmt.Sprintf(",P%d)", ri)) {
						bad = firstNonEmpty(bad, "with linear_before_reset the reset gate must multiply the recurrence product: r (.) (H R^T + Rb)")
					}
				}
			}
		}
		if !okBranch {
			bad = firstNonEmpty(bad, "linear_before_reset does not select between the two forms of the candidate state")
		}
	}
	c.decide(bad == "", "R12", keyR, c.pos(cand.Pos()), "candidate uses r = slot 1; linear_before_reset selects (r (.) H) R^T vs r (.) (H R^T + Rb)", bad)
	// activations
	recv := ssa.Value(apply.Params[0])
	actIdx := func(v ssa.Value) int64 {
		ex, ok := v.(*ssa.Extract)
		if !ok {
			return -1
		}
		call, ok := ex.Tuple.(*ssa.Call)
		if !ok || len(call.Common().Args) != 1 {
			return -1
		}
		k, ok := fieldElem(call.Common().Args[0], recv, "activations")
		if !ok {
			return -1
		}
		return k
	}
	bad = ""
	for slot, cl := range gate {
		args := cl.Common().Args
		want := int64(0)
		if slot == 2 {
			want = 1
		}
		if actIdx(args[len(args)-1]) != want {
			bad = fmt.Sprintf("gate slot %d uses activations[%d], ONNX prescribes activations[%d]", slot, actIdx(args[len(args)-1]), want)
		}
	}
	c.decide(bad == "", "R12", "R12:P4:GRU:activations", c.pos(apply.Pos()), "f=activations[0] on z,r; g=activations[1] on the candidate", bad)
}

// blockMulTerms: terms of tensor.Mul calls in the region dominated by block b.
func (c *Ctx) blockMulTerms(b *ssa.BasicBlock, g *ssa.Function) string {
	var parts []string
	for _, bb := range g.Blocks {
		if !b.Dominates(bb) {
			continue
		}
		for _, in := range bb.Instrs {
			if cl, ok := in.(*ssa.Call); ok {
				if sc := cl.Common().StaticCallee(); sc != nil && sc.Name() == "Mul" && fnPkgPath(sc) == pkgTensor {
					parts = append(parts, c.term(cl, 0))
				}
			}
		}
	}
	return strings.Join(parts, ";")
}

// checkGemmLiterals: every Gemm helper built in the recurrent operators is {transA:false, transB:true, alpha:1, beta:1}.
func (c *Ctx) checkGemmLiterals(oi *opInfo, name string) {
	n := 0
	bad := ""
	for _, f := range c.libFns {
		if recvNamed(f) != oi.named {
			continue
		}
		for _, b := range f.Blocks {
			for _, in := range b.Instrs {
				al, ok := in.(*ssa.Alloc)
				if !ok {
					continue
				}
				nn, st := structOfPtr(al.Type())
				if nn == nil || nn.Obj().Name() != "Gemm" {
					continue
				}
				n++
				vals := map[string]string{}
				for _, r := range *al.Referrers() {
					if fa, ok := r.(*ssa.FieldAddr); ok {
						for _, r2 := range *fa.Referrers() {
							if s, ok := r2.(*ssa.Store); ok {
								if k, ok := s.Val.(*ssa.Const); ok && k.Value != nil {
									vals[st.Field(fa.Field).Name()] = k.Value.ExactString()
								}
							}
						}
					}
				}
				if vals["transA"] != "false" || vals["transB"] != "true" || vals["alpha"] != "1" || vals["beta"] != "1" {
					bad = fmt.Sprintf("%s builds a Gemm helper with %v; the recurrences need X W^T + b, i.e. transA=false, transB=true, alpha=beta=1", fname(f), vals)
				}
			}
		}
	}
	c.decide(bad == "" && n > 0, "R12", "R12:P4:"+name+":gemm-literal", c.pos(oi.methods["Apply"].Pos()), fmt.Sprintf("%d Gemm helpers, all transB only with alpha=beta=1", n), firstNonEmpty(bad, "no Gemm helper found"))
}

// checkStateThreading: P5 — loop-carried state, outputs appended per step, Y_h / Y_c fresh clones of the final state.
func (c *Ctx) checkStateThreading(oi *opInfo, name string) {
	apply := oi.methods["Apply"]
	key := "R12:P5:" + name + ":final-state-cloned"
	bad := ""
	n := 0
	for _, r := range returnsOf(apply) {
		if !isNilConst(r.Results[1]) {
			continue
		}
		var els []ssa.Value
		switch x := r.Results[0].(type) {
		case *ssa.Slice:
			els = varargOrdered(x)
			if len(els) == 0 {
				els = varargElems(x)
			}
		case *ssa.Phi:
			for _, e := range x.Edges {
				if sl, ok := e.(*ssa.Slice); ok {
					els = append(els, varargOrdered(sl)...)
				}
			}
		}
		if len(els) < 2 {
			continue
		}
		n++
		seen := map[ssa.Value]bool{}
		for i, e := range els {
			if seen[e] {
				bad = "the same tensor object is returned for two outputs"
			}
			seen[e] = true
			if i == 0 {
				continue
			}
			// Y_h / Y_c: clone of a loop phi
			inner := e
			if ex, ok := inner.(*ssa.Extract); ok {
				inner = ex.Tuple
			}
			ta, ok := inner.(*ssa.TypeAssert)
			if !ok {
				bad = fmt.Sprintf("output %d is the running state tensor itself, not a copy: for a one-step sequence it is the same object as Y, whose reshape it then undoes", i)
				continue
			}
			call, ok := ta.X.(*ssa.Call)
			if !ok {
				bad = fmt.Sprintf("output %d is not a clone of the final state", i)
				continue
			}
			if nm, recv := tensorMethod(call); nm != "Clone" {
				bad = fmt.Sprintf("output %d is not a clone of the final state", i)
			} else if _, isPhi := recv.(*ssa.Phi); !isPhi {
				bad = fmt.Sprintf("output %d is not cloned from the loop-carried state", i)
			}
		}
	}
	c.decide(bad == "" && n > 0, "R12", key, c.pos(apply.Pos()), "Y_h (and Y_c) are fresh clones of the loop-carried final state, distinct from Y", firstNonEmpty(bad, "no multi-output success return found"))
	// the step function receives the loop-carried state and its result is appended
	keyS := "R12:P5:" + name + ":state-threaded"
	okAppend := false
	for _, b := range apply.Blocks {
		for _, in := range b.Instrs {
			if cl, ok := in.(*ssa.Call); ok {
				if bi, ok := cl.Common().Value.(*ssa.Builtin); ok && bi.Name() == "append" {
					els := varargElems(cl.Common().Args[1])
					if len(els) == 1 && isTensorish(els[0].Type()) {
						// the appended value is the new state, which also flows into the state phi
						for _, r := range *els[0].Referrers() {
							if p, ok := r.(*ssa.Phi); ok && isTensorish(p.Type()) {
								okAppend = true
							}
						}
					}
				}
			}
		}
	}
	c.decide(okAppend, "R12", keyS, c.pos(apply.Pos()), "each step's new hidden state is appended to the outputs and carried into the next step", "the hidden state appended to Y is not the one carried into the next step")
	// initial states: phi(inputs[5], zeros) etc. — via clone
	keyI := "R12:P2:" + name + ":initial-state"
	t := ""
	for _, b := range apply.Blocks {
		for _, in := range b.Instrs {
			if p, ok := in.(*ssa.Phi); ok && isTensorish(p.Type()) {
				tt := c.term(p, 0)
				if strings.Contains(tt, "P1[5]") || strings.Contains(tt, "P1[6]") {
					t += tt + ";"
				}
			}
		}
	}
	wantH := strings.Contains(t, "phi(P1[5]|ZeroTensor(1,Shape(P1[0])[1],.hiddenSize))")
	wantC := name != "LSTM" || strings.Contains(t, "phi(P1[6]|ZeroTensor(1,Shape(P1[0])[1],.hiddenSize))")
	c.decide(wantH && wantC, "R12", keyI, c.pos(apply.Pos()), "initial state = inputs[5] (inputs[6]) when given, else zeros of shape (1, batch, hidden)", "initial states are not taken from inputs[5]/inputs[6] with a (1,batch,hidden) zero default: "+t)
}

// checkOutputReshapes: P6 — Y.Reshape(X.Shape()[0], 1, X.Shape()[1], hiddenSize); Y_h.Reshape(1, X.Shape()[1], hiddenSize).
func (c *Ctx) checkOutputReshapes(oi *opInfo, name string) {
	apply := oi.methods["Apply"]
	var terms []string
	for _, b := range apply.Blocks {
		for _, in := range b.Instrs {
			cl, ok := in.(*ssa.Call)
			if !ok {
				continue
			}
			if nm, _ := tensorMethod(cl); nm != "Reshape" {
				continue
			}
			var args []ssa.Value
			if cl.Common().IsInvoke() {
				args = varargOrdered(cl.Common().Args[0])
			} else {
				args = varargOrdered(cl.Common().Args[1])
			}
			if len(args) == 0 {
				continue // reshape with a computed slice (dropping the direction axis of the initial state)
			}
			var parts []string
			for _, a := range args {
				parts = append(parts, c.term(a, 0))
			}
			terms = append(terms, strings.Join(parts, ","))
		}
	}
	sort.Strings(terms)
	wantY := "Shape(P1[0])[0],1,Shape(P1[0])[1],.hiddenSize"
	wantH := "1,Shape(P1[0])[1],.hiddenSize"
	nY, nH, other := 0, 0, ""
	for _, t := range terms {
		switch t {
		case wantY:
			nY++
		case wantH:
			nH++
		default:
			other = t
		}
	}
	wantNH := 1
	if name == "LSTM" {
		wantNH = 2
	}
	ok := nY == 1 && nH == wantNH && other == ""
	c.decide(ok, "R12", "R12:P6:"+name+":output-shapes", c.pos(apply.Pos()), "Y -> (seq, 1, batch, hidden), final states -> (1, batch, hidden) with seq = X.Shape()[0], batch = X.Shape()[1]",
		fmt.Sprintf("output reshapes are %v; ONNX shapes are Y=(X.Shape()[0],1,X.Shape()[1],hidden), Y_h/Y_c=(1,X.Shape()[1],hidden): a batch/sequence mix-up only shows when they differ", terms))
}

// checkTimeSlice: P7 — the per-step slice cuts axis 0 only ([t,t+1)), t ascending over X.Shape()[0].
func (c *Ctx) checkTimeSlice(oi *opInfo, name string) {
	apply := oi.methods["Apply"]
	key := "R12:P7:" + name + ":time-slice"
	var slice *ssa.Call
	var owner *ssa.Function
	recvTerm := ""
	for f := range c.reachFrom([]*ssa.Function{apply}) {
		helper := recvNamed(f) == nil && fnPkgPath(f) == pkgOps && f.Parent() == nil
		if recvNamed(f) != oi.named && !helper {
			continue
		}
		for _, b := range f.Blocks {
			for _, in := range b.Instrs {
				if cl, ok := in.(*ssa.Call); ok {
					if nm, recv := tensorMethod(cl); nm == "Slice" {
						t := c.term(recv, 0)
						// the sliced tensor is the operator's input X: inputs[0] in Apply, the tensor parameter of a
						// method, or the first parameter of a package-level helper that Apply hands inputs[0] to
						isX := !helper && (t == "P1[0]" || (f != apply && t == "P1"))
						if helper && t == "P0" && len(varargOrdered(sliceArgs(cl))) == 3 && c.calledWithInput0(apply, f) {
							isX = true
						}
						if isX {
							slice, owner, recvTerm = cl, f, t
						}
					}
				}
			}
		}
	}
	if slice == nil {
		c.undecided("R12", key, c.pos(apply.Pos()), "no per-step slice of the input sequence found")
		return
	}
	var args []ssa.Value
	if slice.Common().IsInvoke() {
		args = varargOrdered(slice.Common().Args[0])
	} else {
		args = varargOrdered(slice.Common().Args[1])
	}
	bad := ""
	if len(args) != 3 {
		bad = fmt.Sprintf("the time step is cut with %d slicers, the input has 3 axes (seq, batch, input)", len(args))
	} else {
		if !isNilConst(args[1]) || !isNilConst(args[2]) {
			bad = "the per-step slice also cuts the batch or feature axis: samples of a batch are dropped or mixed"
		}
		t0 := c.term(args[0], 0)
		if !(strings.HasPrefix(t0, "NewSlicer(") && strings.Contains(t0, "+1)")) {
			bad = firstNonEmpty(bad, "the time slicer is not [t, t+1): "+t0)
		}
	}
	c.decide(bad == "", "R12", key, c.pos(slice.Pos()), "X.Slice([t,t+1), nil, nil): one time step, all samples, all features", bad)

	// the step is given the shape (batch, input) explicitly: gorgonia's Slice drops the sliced time axis, and
	// with batch = input = 1 returns a rank-0 tensor, on which the matrix products of the step fail
	restored := false
	for _, b := range owner.Blocks {
		for _, in := range b.Instrs {
			cl, ok := in.(*ssa.Call)
			if !ok {
				continue
			}
			if nm, recv := tensorMethod(cl); nm == "Reshape" && strings.Contains(c.term(recv, 0), "Slice("+recvTerm+",") {
				var rs []ssa.Value
				if cl.Common().IsInvoke() {
					rs = varargOrdered(cl.Common().Args[0])
				} else {
					rs = varargOrdered(cl.Common().Args[1])
				}
				if len(rs) == 2 && c.term(rs[0], 0) == "Shape("+recvTerm+")[1]" && c.term(rs[1], 0) == "Shape("+recvTerm+")[2]" {
					restored = true
				}
			}
		}
	}
	c.decide(restored, "R12", "R12:P7:"+name+":step-shape", c.pos(slice.Pos()),
		"the time step is reshaped to (X.Shape()[1], X.Shape()[2]) = (batch, input)",
		"the sliced time step is used with whatever shape gorgonia's Slice leaves: the time axis is dropped, and for batch size 1 with input size 1 the step is a rank-0 tensor - the operator refuses a valid sequence (MatMul requires both operands to be matrices)")
}

func sliceArgs(cl *ssa.Call) ssa.Value {
	if cl.Common().IsInvoke() {
		return cl.Common().Args[0]
	}
	return cl.Common().Args[1]
}

// calledWithInput0: Apply (or a method of the same operator) calls helper f with inputs[0] / its X parameter first.
func (c *Ctx) calledWithInput0(apply, f *ssa.Function) bool {
	node := c.cg.Nodes[f]
	if node == nil {
		return false
	}
	for _, e := range node.In {
		if e.Site == nil || len(e.Site.Common().Args) == 0 {
			continue
		}
		caller := e.Caller.Func
		if caller != apply && recvNamed(caller) != recvNamed(apply) {
			continue
		}
		t := c.term(e.Site.Common().Args[0], 0)
		if t == "P1[0]" || (caller != apply && t == "P1") {
			return true
		}
	}
	return false
}

var _ = token.ADD
