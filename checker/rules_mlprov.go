package main

// R49 — Scaler and LinearRegressor by element provenance (C04: "LinearRegressor and Scaler compute their ONNX-ML
// affine formulas"). Constructor, Init and Apply are walked on named elements like Gemm (R46): the float lists of the
// attributes are lists of names, X is a tensor of names, and every element of the result must be
//
//	Scaler:           (x[.., j] - offset[j or 0]) * scale[j or 0]
//	LinearRegressor:  sum_i x[n, i] * coefficients[t*C + i] + intercepts[t]   (intercepts optional)
//
// as polynomials in normal form. LinearRegressor's lazily transposed coefficient matrix is followed through
// gorgonia's matrix product (which reads its operands logically) and through nothing else.

import (
	"fmt"
	"go/types"
	"os"
)

func names(prefix string, n int64) []string {
	out := make([]string, n)
	for i := range out {
		out[i] = fmt.Sprintf("%s%d", prefix, i)
	}
	return out
}

func (c *Ctx) scalerTable() (known bool, bad string, cells int) {
	m := c.newMoveRun("Scaler")
	if m == nil {
		return false, "", 0
	}
	type cell struct {
		x      []int64
		no, ns int64
		refuse bool
	}
	list := []cell{
		{x: []int64{2, 3}, no: 3, ns: 3}, {x: []int64{2, 3}, no: 1, ns: 1}, {x: []int64{2, 3}, no: 3, ns: 1}, {x: []int64{2, 3}, no: 1, ns: 3},
		{x: []int64{3}, no: 3, ns: 3}, {x: []int64{3}, no: 1, ns: 1}, {x: []int64{2, 2, 3}, no: 3, ns: 3}, {x: []int64{1, 3}, no: 3, ns: 3},
		{x: []int64{3, 1}, no: 1, ns: 1}, {x: []int64{1, 1}, no: 1, ns: 1},
		{x: []int64{2, 3}, no: 2, ns: 3, refuse: true}, {x: []int64{2, 3}, no: 3, ns: 4, refuse: true}, {x: []int64{3, 2}, no: 3, ns: 3, refuse: true},
	}
	for _, k := range list {
		attrs := []moveAttr{{name: "offset", floats: names("o", k.no)}, {name: "scale", floats: names("s", k.ns)}}
		out := m.cell(attrs, []*moveTensor{{shape: k.x, name: "x"}})
		desc := fmt.Sprintf("Scaler on x of shape %s with %d offsets and %d scales", fmtInts(k.x), k.no, k.ns)
		switch {
		case m.panicked != "":
			return true, desc + " panics: " + m.panicked, cells
		case m.orderBad != "":
			return true, desc + ": " + m.orderBad, cells
		case !out.followed:
			if os.Getenv("MOVEDEBUG") != "" {
				fmt.Println("MOVEDEBUG not followed:", desc)
			}
			return false, "", cells
		case k.refuse && !out.isErr:
			return true, desc + " (a list that is neither one value nor one per feature) is answered with a tensor instead of an error", cells
		case k.refuse:
			cells++
			continue
		case out.isErr:
			return true, desc + " is refused", cells
		}
		cells++
		if fmtInts(out.shape) != fmtInts(k.x) {
			return true, fmt.Sprintf("%s has shape %s, the input's shape is prescribed", desc, fmtInts(out.shape)), cells
		}
		got, ok := elemsString(out.elems)
		total := int64(1)
		for _, e := range k.x {
			total *= e
		}
		if !ok || int64(len(got)) != total {
			return false, "", cells
		}
		last := k.x[len(k.x)-1]
		for f := int64(0); f < total; f++ {
			j := f % last
			o, s := elemName("o", 0), elemName("s", 0)
			if k.no > 1 {
				o = elemName("o", j)
			}
			if k.ns > 1 {
				s = elemName("s", j)
			}
			want := elemMul(elemSub(elemName("x", f), o), s)
			if got[f] != want.s {
				return true, fmt.Sprintf("%s: element %d of the result is %s, (x - offset) * scale gives %s", desc, f, got[f], want.s), cells
			}
		}
	}
	if unc := m.cov.uncovered(c); len(unc) > 0 {
		c.declined("Scaler provenance table", unc)
		return false, "", cells
	}
	return true, "", cells
}

func (c *Ctx) linearRegressorTable() (known bool, bad string, cells int) {
	m := c.newMoveRun("LinearRegressor")
	if m == nil {
		return false, "", 0
	}
	type cell struct {
		n, cN, t int64
		targets  bool // the targets attribute is given
		icpt     bool
		refuse   bool
		nCoef    int64
		nIcpt    int64 // number of intercepts when it is not the number of targets
		either   bool  // an answer and a refusal are both acceptable
	}
	list := []cell{
		{n: 2, cN: 3, t: 2, targets: true, icpt: true}, {n: 2, cN: 3, t: 2, targets: true}, {n: 2, cN: 3, t: 1, icpt: true}, {n: 2, cN: 3, t: 1},
		{n: 1, cN: 3, t: 2, targets: true, icpt: true}, {n: 3, cN: 1, t: 2, targets: true, icpt: true}, {n: 2, cN: 2, t: 3, targets: true, icpt: true}, {n: 1, cN: 1, t: 1, targets: true, icpt: true},
		{n: 2, cN: 4, t: 2, targets: true, icpt: true, refuse: true, nCoef: 6},
		// intercepts that are not one per target: three for two targets cannot be meant; a single one for all
		// targets is the unidirectional broadcast (answered with that value for every target, or refused)
		{n: 2, cN: 3, t: 2, targets: true, icpt: true, refuse: true, nIcpt: 3},
		{n: 2, cN: 3, t: 2, targets: true, icpt: true, either: true, nIcpt: 1},
		{n: 1, cN: 3, t: 2, targets: true, icpt: true, either: true, nIcpt: 1},
	}
	for _, k := range list {
		nCoef := k.t * k.cN
		if k.nCoef != 0 {
			nCoef = k.nCoef
		}
		attrs := []moveAttr{{name: "coefficients", floats: names("c", nCoef)}}
		nIcpt := k.t
		if k.nIcpt != 0 {
			nIcpt = k.nIcpt
		}
		if k.icpt {
			attrs = append(attrs, moveAttr{name: "intercepts", floats: names("b", nIcpt)})
		}
		if k.targets {
			t := k.t
			attrs = append(attrs, moveAttr{name: "targets", i: &t})
		}
		out := m.cell(attrs, []*moveTensor{{shape: []int64{k.n, k.cN}, name: "x"}})
		desc := fmt.Sprintf("LinearRegressor on x of shape [%d,%d] with %d targets (attribute given=%v), %d coefficients, intercepts given=%v (%d)", k.n, k.cN, k.t, k.targets, nCoef, k.icpt, nIcpt)
		switch {
		case m.panicked != "":
			return true, desc + " panics: " + m.panicked, cells
		case m.orderBad != "":
			return true, desc + ": " + m.orderBad, cells
		case !out.followed:
			if os.Getenv("MOVEDEBUG") != "" {
				fmt.Println("MOVEDEBUG not followed:", desc)
			}
			return false, "", cells
		case k.refuse && !out.isErr:
			return true, desc + " (the coefficients do not fit the features) is answered with a tensor instead of an error", cells
		case k.refuse:
			cells++
			continue
		case out.isErr && k.either:
			cells++
			continue
		case out.isErr:
			return true, desc + " is refused", cells
		}
		cells++
		if fmtInts(out.shape) != fmtInts([]int64{k.n, k.t}) {
			return true, fmt.Sprintf("%s has shape %s, ONNX-ML prescribes [%d,%d]", desc, fmtInts(out.shape), k.n, k.t), cells
		}
		got, ok := elemsString(out.elems)
		if !ok || int64(len(got)) != k.n*k.t {
			return false, "", cells
		}
		for n := int64(0); n < k.n; n++ {
			for t := int64(0); t < k.t; t++ {
				want := elemZero
				for i := int64(0); i < k.cN; i++ {
					want = elemAdd(want, elemMul(elemName("x", n*k.cN+i), elemName("c", t*k.cN+i)))
				}
				if k.icpt && nIcpt == 1 {
					want = elemAdd(want, elemName("b", 0))
				} else if k.icpt {
					want = elemAdd(want, elemName("b", t))
				}
				if g := got[n*k.t+t]; g != want.s {
					return true, fmt.Sprintf("%s: element [%d,%d] of the result is %s, the ONNX-ML formula gives %s", desc, n, t, g, want.s), cells
				}
			}
		}
	}
	if unc := m.cov.uncovered(c); len(unc) > 0 {
		c.declined("LinearRegressor provenance table", unc)
		return false, "", cells
	}
	return true, "", cells
}

func ruleMLProvTables(c *Ctx, prop string) {
	for _, ent := range []struct {
		op, key, table string
		run            func() (bool, string, int)
		what           string
	}{
		{"Scaler", "R49:scaler-table", "table:scaler", c.scalerTable, "x of rank 1..3 with unit extents, one value or one per feature for offset and scale independently; lists of another length refused): every element is (x - offset) * scale with the feature (last) axis indexing the lists"},
		{"LinearRegressor", "R49:linear-regressor-table", "table:linear-regressor", c.linearRegressorTable, "N x C inputs with unit extents, 1..3 targets with the attribute given or defaulted, intercepts given or not; coefficients that do not fit the features refused): every element [n,t] is sum_i x[n,i] * coefficients[t*C+i] + intercepts[t]"},
	} {
		oi := c.opByName(ent.op)
		if oi == nil || oi.methods["Apply"] == nil {
			continue
		}
		site := c.pos(oi.methods["Apply"].Pos())
		known, bad, cells := ent.run()
		switch {
		case !known:
			c.note("R49", ent.key, site, "the provenance table cannot follow this code to one outcome per cell; the structural rules R16 decide")
		case bad != "":
			c.violate("R49", ent.key, site, bad)
		default:
			c.discharge("R49", ent.key, site, fmt.Sprintf("%d cells (%s", cells, ent.what))
			if c.tableCovered == nil {
				c.tableCovered = map[string]string{}
			}
			c.tableCovered[ent.table] = ent.key
		}
	}
}

// ---- PRelu as a whole (C10) ----------------------------------------------------------------------------------

// preluOperatorTable walks PRelu.Apply on small int32 tensors: x with negative, zero and positive entries, slopes
// that are distinct primes, so that every result element tells which slope element met which x element. The
// result must have x's shape and hold x[i] for x[i] >= 0 and slope[b(i)] * x[i] otherwise, b the unidirectional
// broadcast of the slope to x; slopes that do not broadcast to x are refused.
func (c *Ctx) preluOperatorTable() (known bool, bad string, cells int) {
	m := c.newMoveRun("PRelu")
	if m == nil {
		return false, "", 0
	}
	m.dtype = "Int32"
	m.dataLists = types.Typ[types.Int32]
	type cell struct {
		x, s   []int64
		refuse bool
	}
	list := []cell{
		{x: []int64{2, 2}, s: []int64{2}}, {x: []int64{2, 3}, s: []int64{3}}, {x: []int64{2, 3}, s: []int64{1}}, {x: []int64{2, 3}, s: []int64{2, 3}},
		{x: []int64{2, 3}, s: []int64{2, 1}}, {x: []int64{2, 3}, s: []int64{1, 3}}, {x: []int64{3}, s: []int64{3}}, {x: []int64{2, 2, 2}, s: []int64{2, 1}},
		{x: []int64{1, 3}, s: []int64{3}}, {x: []int64{3, 1}, s: []int64{1}}, {x: []int64{2, 3}, s: []int64{}},
		{x: []int64{2, 3}, s: []int64{2}, refuse: true}, {x: []int64{3}, s: []int64{1, 3}, refuse: true}, {x: []int64{2, 3}, s: []int64{3, 3}, refuse: true},
	}
	primes := []int64{2, 3, 5, 7, 11, 13, 17, 19}
	for _, k := range list {
		nx, ns := prodInts(k.x), prodInts(k.s)
		xe, se := make([]pval, nx), make([]pval, ns)
		xv, sv := make([]int64, nx), make([]int64, ns)
		for i := range xe {
			v := int64(i) - nx/2 // negative, zero and positive entries
			if i%2 == 1 {
				v = -v - 1
			}
			xv[i] = v
			xe[i] = pval{k: pInt, i: v, s: "int32"}
		}
		for i := range se {
			sv[i] = primes[i%len(primes)]
			se[i] = pval{k: pInt, i: sv[i], s: "int32"}
		}
		out := m.cell(nil, []*moveTensor{{shape: k.x, elems: xe}, {shape: k.s, elems: se}})
		desc := fmt.Sprintf("PRelu on x of shape %s with a slope of shape %s", fmtInts(k.x), fmtInts(k.s))
		switch {
		case m.panicked != "":
			return true, desc + " panics: " + m.panicked, cells
		case m.orderBad != "":
			return true, desc + ": " + m.orderBad, cells
		case !out.followed:
			if os.Getenv("MOVEDEBUG") != "" {
				fmt.Println("MOVEDEBUG not followed:", desc)
			}
			return false, "", cells
		case k.refuse && !out.isErr:
			return true, desc + " (the slope does not broadcast unidirectionally to x) is answered with a tensor instead of an error", cells
		case k.refuse:
			cells++
			continue
		case out.isErr:
			return true, desc + " is refused", cells
		}
		cells++
		if fmtInts(out.shape) != fmtInts(k.x) {
			return true, fmt.Sprintf("%s has shape %s, the input's shape is prescribed", desc, fmtInts(out.shape)), cells
		}
		if int64(len(out.elems)) != nx {
			return false, "", cells
		}
		// the slope element that meets flat position f of x: align the shapes at the last axis
		r, rs := len(k.x), len(k.s)
		for f := int64(0); f < nx; f++ {
			co := make([]int64, r)
			rem := f
			for d := r - 1; d >= 0; d-- {
				co[d] = rem % k.x[d]
				rem /= k.x[d]
			}
			si := int64(0)
			for d := 0; d < rs; d++ {
				cx := co[r-rs+d]
				if k.s[d] == 1 {
					cx = 0
				}
				si = si*k.s[d] + cx
			}
			want := xv[f]
			if xv[f] < 0 {
				want = sv[si] * xv[f]
			}
			e := out.elems[f]
			if e.k != pInt {
				return false, "", cells
			}
			if e.i != want {
				return true, fmt.Sprintf("%s: element %d of the result is %d; x there is %d and the slope broadcast to that position is %d, so %d is prescribed", desc, f, e.i, xv[f], sv[si], want), cells
			}
		}
	}
	// the other element types the operator computes: one cell each (same shapes, same values); an element type outside
	// the operator's list is refused
	for _, dt := range []struct {
		name string
		goT  types.Type
		tag  string
		neg  bool
		ok   bool
	}{
		{"Int64", types.Typ[types.Int64], "int64", true, true}, {"Uint32", types.Typ[types.Uint32], "uint32", false, true}, {"Uint64", types.Typ[types.Uint64], "uint64", false, true},
		{"Float32", types.Typ[types.Float32], "", true, true}, {"Float64", types.Typ[types.Float64], "", true, true}, {"Int16", types.Typ[types.Int16], "int16", true, false},
	} {
		m.dtype, m.dataLists = dt.name, dt.goT
		xs := []int64{-3, 0, 2, -1, 4, 5}
		if !dt.neg {
			xs = []int64{3, 0, 2, 1, 4, 5}
		}
		ss := []int64{2, 3, 5}
		mk := func(v int64) pval {
			if dt.tag == "" {
				return pval{k: pFloat, s: fmt.Sprint(v)}
			}
			return pval{k: pInt, i: v, s: dt.tag}
		}
		xe, se := make([]pval, len(xs)), make([]pval, len(ss))
		for i, v := range xs {
			xe[i] = mk(v)
		}
		for i, v := range ss {
			se[i] = mk(v)
		}
		out := m.cell(nil, []*moveTensor{{shape: []int64{2, 3}, elems: xe}, {shape: []int64{3}, elems: se}})
		desc := fmt.Sprintf("PRelu on %s tensors, x of shape [2,3] with a slope of shape [3]", dt.name)
		switch {
		case m.panicked != "":
			return true, desc + " panics: " + m.panicked, cells
		case m.orderBad != "":
			return true, desc + ": " + m.orderBad, cells
		case !out.followed:
			if os.Getenv("MOVEDEBUG") != "" {
				fmt.Println("MOVEDEBUG not followed:", desc)
			}
			return false, "", cells
		case !dt.ok && !out.isErr:
			return true, desc + " is computed although the element type is not one the operator lists", cells
		case !dt.ok:
			cells++
			continue
		case out.isErr:
			return true, desc + " is refused", cells
		}
		cells++
		if fmtInts(out.shape) != "[2,3]" || len(out.elems) != 6 {
			return true, fmt.Sprintf("%s has shape %s", desc, fmtInts(out.shape)), cells
		}
		for f, e := range out.elems {
			want := xs[f]
			if want < 0 {
				want *= ss[f%3]
			}
			got, okV := e.i, e.k == pInt
			if e.k == pFloat {
				if _, err := fmt.Sscanf(e.s, "%d", &got); err == nil {
					okV = true
				}
			}
			if !okV {
				return false, "", cells
			}
			if got != want {
				return true, fmt.Sprintf("%s: element %d of the result is %d, prescribed %d", desc, f, got, want), cells
			}
		}
	}
	m.dtype, m.dataLists = "Int32", types.Typ[types.Int32]
	if unc := m.cov.uncovered(c); len(unc) > 0 {
		c.declined("PRelu operator table", unc)
		return false, "", cells
	}
	return true, "", cells
}

func rulePReluOperatorTable(c *Ctx, prop string) {
	oi := c.opByName("PRelu")
	if oi == nil || oi.methods["Apply"] == nil {
		return
	}
	site := c.pos(oi.methods["Apply"].Pos())
	known, bad, cells := c.preluOperatorTable()
	switch {
	case !known:
		c.note("R50", "R50:prelu-table", site, "the operator table cannot follow this code to one outcome per cell; the structural rule R7:unary:PRelu decides")
	case bad != "":
		c.violate("R50", "R50:prelu-table", site, bad)
	default:
		c.discharge("R50", "R50:prelu-table", site, fmt.Sprintf("%d cells on int32 tensors (x of rank 1..3 with negative, zero and positive entries; slopes of every unidirectionally broadcastable shape, distinct primes; three slopes that do not broadcast refused): the result has x's shape, x[i] where x[i] >= 0 and slope * x[i] with the slope element the broadcast puts there otherwise", cells))
		if c.tableCovered == nil {
			c.tableCovered = map[string]string{}
		}
		c.tableCovered["table:prelu"] = "R50:prelu-table"
	}
}

// ---- Sigmoid as a whole (C10) ---------------------------------------------------------------------------------

// sigmoidOperatorTable walks the Sigmoid operator on tensors of named elements: every result element must be
// Div(1, 1 + Exp(-x)) of the element at its own position (gorgonia's Neg, Exp, Add, Div element-wise, in place or
// not), the result a tensor of the input's shape that is not the input.
func (c *Ctx) sigmoidOperatorTable() (known bool, bad string, cells int) {
	m := c.newMoveRun("Sigmoid")
	if m == nil {
		return false, "", 0
	}
	for _, dt := range []string{"Float32", "Float64"} {
		m.dtype = dt
		for _, sh := range [][]int64{{3}, {2, 2}, {1}, {}} {
			out := m.cell(nil, []*moveTensor{{shape: sh, name: "x"}})
			desc := fmt.Sprintf("Sigmoid on a %s tensor of shape %s", dt, fmtInts(sh))
			switch {
			case m.panicked != "":
				return true, desc + " panics: " + m.panicked, cells
			case !out.followed:
				if os.Getenv("MOVEDEBUG") != "" {
					fmt.Println("MOVEDEBUG not followed:", desc)
				}
				return false, "", cells
			case out.isErr:
				return true, desc + " is refused", cells
			}
			cells++
			if fmtInts(out.shape) != fmtInts(sh) {
				return true, fmt.Sprintf("%s has shape %s", desc, fmtInts(out.shape)), cells
			}
			if out.same == 0 {
				return true, desc + ": the result is the input tensor itself (computed in place)", cells
			}
			got, ok := elemsString(out.elems)
			if !ok || int64(len(got)) != prodInts(sh) {
				return false, "", cells
			}
			for f := range got {
				e := atomElem("Exp", elemSub(elemZero, elemName("x", int64(f))))
				want := atomElem("Div", pval{k: pStr, s: "f1|" + elemAdd(elemOne, e).s})
				if got[f] != want.s {
					return true, fmt.Sprintf("%s: element %d of the result is %s, 1/(1+exp(-x)) gives %s", desc, f, atomText(got[f], 0), atomText(want.s, 0)), cells
				}
			}
		}
	}
	if unc := m.cov.uncovered(c); len(unc) > 0 {
		c.declined("Sigmoid operator table", unc)
		return false, "", cells
	}
	return true, "", cells
}

// ---- ReduceMax, ReduceMin, ArgMax on concrete integers (C09) ------------------------------------------------------

// reductionOperatorTable walks the operator on int32 tensors of distinct values (gorgonia's Max / Min / Argmax along
// axes enter as their contracts on concrete integers): for every subset of at most two axes in both spellings (every
// single axis for ArgMax), keepdims on and off, and no axes at all, the result has the ONNX shape and holds the
// largest / smallest element (the position of the largest) of exactly the requested axes; an axis outside
// [-rank, rank) is refused.
func (c *Ctx) reductionOperatorTable(name string) (known bool, bad string, cells int) {
	m := c.newMoveRun(name)
	if m == nil {
		return false, "", 0
	}
	m.dtype, m.dataLists = "Int32", types.Typ[types.Int32]
	shapes := [][]int64{{4}, {3, 4}, {2, 3, 2}, {2, 1, 3}, {1, 3}}
	if c.tier == "thorough" {
		shapes = append(shapes, []int64{2, 2, 3, 2}, []int64{1, 1})
	}
	for _, sh := range shapes {
		r := int64(len(sh))
		total := prodInts(sh)
		vals := make([]int64, total)
		xe := make([]pval, total)
		for i := range vals {
			vals[i] = (int64(i)*7+3)%total*2 - total + 1 // a permutation of distinct values, negative and positive (total and 7 coprime for the shapes used)
			xe[i] = pval{k: pInt, i: vals[i], s: "int32"}
		}
		seen := map[int64]bool{}
		for _, v := range vals {
			if seen[v] {
				return false, "", cells // not distinct: the table's own mistake, nothing is claimed
			}
			seen[v] = true
		}
		var requests [][]int64
		if name == "ArgMax" {
			for a := -r; a < r; a++ {
				requests = append(requests, []int64{a})
			}
		} else {
			requests = append(requests, nil)
			for _, sub := range subsetsOf(r) {
				if len(sub) > 2 {
					continue
				}
				for _, sp := range axisSpellings(sub, r) {
					requests = append(requests, sp)
				}
			}
		}
		for _, req := range requests {
			for _, keep := range []int64{0, 1} {
				kd := keep
				attrs := []moveAttr{{name: "keepdims", i: &kd}}
				if name == "ArgMax" {
					ax := req[0]
					attrs = append(attrs, moveAttr{name: "axis", i: &ax})
				} else if req != nil {
					attrs = append(attrs, moveAttr{name: "axes", ints: req})
				}
				out := m.cell(attrs, []*moveTensor{{shape: sh, elems: xe}})
				desc := fmt.Sprintf("%s on a tensor of shape %s, axes %s, keepdims %d", name, fmtInts(sh), fmtInts(req), keep)
				switch {
				case m.panicked != "":
					return true, desc + " panics: " + m.panicked, cells
				case m.orderBad != "":
					return true, desc + ": " + m.orderBad, cells
				case !out.followed:
					if os.Getenv("MOVEDEBUG") != "" {
						fmt.Println("MOVEDEBUG not followed:", desc)
					}
					return false, "", cells
				case out.isErr:
					return true, desc + " is refused", cells
				}
				cells++
				gone := map[int64]bool{}
				for _, a := range req {
					if a < 0 {
						a += r
					}
					gone[a] = true
				}
				all := req == nil
				var wsh []int64
				for d := int64(0); d < r; d++ {
					switch {
					case all || gone[d]:
						if keep == 1 {
							wsh = append(wsh, 1)
						}
					default:
						wsh = append(wsh, sh[d])
					}
				}
				if fmtInts(out.shape) != fmtInts(wsh) {
					return true, fmt.Sprintf("%s has shape %s, ONNX prescribes %s", desc, fmtInts(out.shape), fmtInts(wsh)), cells
				}
				// expected values, group by the coordinates that stay
				type acc struct {
					best, at int64
					set      bool
				}
				groups := map[int64]*acc{}
				var order []int64
				co := make([]int64, r)
				for f := int64(0); f < total; f++ {
					rem := f
					for d := r - 1; d >= 0; d-- {
						co[d] = rem % sh[d]
						rem /= sh[d]
					}
					o, along := int64(0), int64(0)
					for d := int64(0); d < r; d++ {
						if all || gone[d] {
							along = along*sh[d] + co[d]
						} else {
							o = o*sh[d] + co[d]
						}
					}
					g := groups[o]
					if g == nil {
						g = &acc{}
						groups[o] = g
						order = append(order, o)
					}
					better := !g.set || (name == "ReduceMin" && vals[f] < g.best) || (name != "ReduceMin" && vals[f] > g.best)
					if better {
						g.best, g.at, g.set = vals[f], along, true
					}
				}
				if int64(len(out.elems)) != int64(len(groups)) {
					return false, "", cells
				}
				for o := int64(0); o < int64(len(groups)); o++ {
					want := groups[o].best
					if name == "ArgMax" {
						want = groups[o].at
					}
					e := out.elems[o]
					if e.k != pInt {
						return false, "", cells
					}
					if e.i != want {
						return true, fmt.Sprintf("%s: element %d of the result is %d, the reduction over exactly the requested axes gives %d", desc, o, e.i, want), cells
					}
					if name == "ArgMax" && e.s != "int64" {
						return true, fmt.Sprintf("%s: the result holds %s values, ONNX prescribes int64", desc, e.s), cells
					}
				}
			}
		}
		// an axis outside [-rank, rank) is refused
		for _, badAx := range []int64{r, -r - 1} {
			one := int64(1)
			attrs := []moveAttr{{name: "keepdims", i: &one}}
			if name == "ArgMax" {
				ax := badAx
				attrs = append(attrs, moveAttr{name: "axis", i: &ax})
			} else {
				attrs = append(attrs, moveAttr{name: "axes", ints: []int64{badAx}})
			}
			out := m.cell(attrs, []*moveTensor{{shape: sh, elems: xe}})
			desc := fmt.Sprintf("%s on a tensor of shape %s with axis %d (outside [-%d, %d))", name, fmtInts(sh), badAx, r, r)
			switch {
			case m.panicked != "":
				return true, desc + " panics: " + m.panicked, cells
			case !out.followed:
				if os.Getenv("MOVEDEBUG") != "" {
					fmt.Println("MOVEDEBUG not followed:", desc)
				}
				return false, "", cells
			case !out.isErr:
				return true, desc + " is answered with a tensor instead of an error", cells
			}
			cells++
		}
	}
	if unc := m.cov.uncovered(c); len(unc) > 0 {
		c.declined(name+" operator table", unc)
		return false, "", cells
	}
	return true, "", cells
}

func ruleReductionOperatorTables(c *Ctx, prop string) {
	for _, name := range []string{"ReduceMax", "ReduceMin", "ArgMax"} {
		oi := c.opByName(name)
		if oi == nil || oi.methods["Apply"] == nil {
			continue
		}
		site := c.pos(oi.methods["Apply"].Pos())
		key := "R51:reduction-table:" + name
		known, bad, cells := c.reductionOperatorTable(name)
		switch {
		case !known:
			c.note("R51", key, site, "the operator table cannot follow this code to one outcome per cell; R9f / R20 / R34 decide")
		case bad != "":
			c.violate("R51", key, site, bad)
		default:
			if c.tableCovered == nil {
				c.tableCovered = map[string]string{}
			}
			c.tableCovered["table:reduction:"+name] = key
			c.discharge("R51", key, site, fmt.Sprintf("%d cells on int32 tensors of distinct values (rank 1..3 with unit extents, every subset of at most two axes in both spellings, keepdims on and off, no axes; axes out of range refused): ONNX shape, and every element is the reduction over exactly the requested axes", cells))
		}
	}
}
