package main

import (
	"fmt"
	"go/token"
	"go/types"
	"os"
	"sort"
	"strings"

	"golang.org/x/tools/go/ssa"
)

// R9 — user-supplied axes/indices: validated (R9a) and negative-normalised (R9b) before use.

type axisSource struct {
	op    string // operator type name
	field string // receiver field holding an attribute axis (or "")
	input int    // tensor-valued source: inputs[k] (or -1)
	kind  string // "axis", "axes", "perm", "indices"
	props []string
	negOK bool // negative values are meaningful (ONNX allows negative spelling)
	// entry i of the list belongs to entry i of sibling lists (starts/ends/steps) or is a position in its own
	// right (perm, indices): the list must never be reordered
	ordered bool
	arm9a   map[string]bool
}

// frozen table, confirmed by reading every operator (DESIGN §4 R9)
var axisSources = []axisSource{
	{op: "Flatten", field: "axis", input: -1, kind: "axis", props: []string{"C07"}, negOK: true},
	{op: "Squeeze", input: 1, kind: "axes", props: []string{"C07"}, negOK: true},
	{op: "Unsqueeze", input: 1, kind: "axes", props: []string{"C07"}, negOK: true},
	{op: "Concat", field: "axis", input: -1, kind: "axis", props: []string{"C08"}, negOK: true},
	{op: "Gather", field: "axis", input: -1, kind: "axis", props: []string{"C08"}, negOK: true},
	{op: "Gather", input: 1, kind: "indices", props: []string{"C08"}, negOK: true, ordered: true},
	{op: "Slice", input: 3, kind: "axes", props: []string{"C08"}, negOK: true, ordered: true},
	{op: "Transpose", field: "perm", input: -1, kind: "perm", props: []string{"C08"}, negOK: false, ordered: true},
	{op: "ArgMax", field: "axis", input: -1, kind: "axis", props: []string{"C09"}, negOK: true},
	{op: "ReduceMax", field: "axes", input: -1, kind: "axes", props: []string{"C09"}, negOK: true},
	{op: "ReduceMin", field: "axes", input: -1, kind: "axes", props: []string{"C09"}, negOK: true},
	{op: "Softmax", field: "axis", input: -1, kind: "axis", props: []string{"C09", "C16"}, negOK: true},
	{op: "LogSoftmax", field: "axis", input: -1, kind: "axis", props: []string{"C09", "C16"}, negOK: true},
}

// axis contracts of external callees: which argument is an axis and what the callee does with it.
type axisContract struct {
	arg       int    // operand index (receiver = 0 for methods), -1 = trailing variadic
	validates string // "both", "upper", "perm", "none"
	resolves  bool   // resolves negative axes itself
}

var axisContracts = map[string]axisContract{
	pkgTensor + ".Concat":     {arg: 0, validates: "upper", resolves: false}, // shape.go l.340: -1 is AllAxes and taken as axis 0 for the shape, then indexes with -1 (panic); other negatives are refused
	pkgTensor + ".Argmax":     {arg: 1, validates: "upper", resolves: false},
	pkgTensor + ".SoftMax":    {arg: 1, validates: "both", resolves: true},
	pkgTensor + ".LogSoftMax": {arg: 1, validates: "both", resolves: true},
	pkgTensor + ".Transpose":  {arg: -1, validates: "perm", resolves: false},
	pkgTensor + ".Repeat":     {arg: 1, validates: "upper", resolves: false},
	pkgTensor + "#Max":        {arg: -1, validates: "upper", resolves: false},
	pkgTensor + "#Min":        {arg: -1, validates: "upper", resolves: false},
	pkgTensor + "#Slice":      {arg: -1, validates: "both", resolves: false}, // slice objects; starts/ends validated by gorgonia
	pkgTensor + "#At":         {arg: -1, validates: "both", resolves: false},
}

type axisSink struct {
	fn    *ssa.Function
	instr ssa.Instruction
	val   ssa.Value // the tainted operand
	kind  string    // "index", "slice-bound", "selection", "make", "ext:<callee>"
	ext   *axisContract
}

func (c *Ctx) opByName(name string) *opInfo {
	for _, oi := range c.operators() {
		if oi.name == name && !oi.control {
			return oi
		}
	}
	return nil
}

func fieldIndex(named *types.Named, name string) int {
	st, ok := named.Underlying().(*types.Struct)
	if !ok {
		return -1
	}
	for i := 0; i < st.NumFields(); i++ {
		if st.Field(i).Name() == name {
			return i
		}
	}
	return -1
}

// rangeCheckerFn: library function ([]int, int, int) bool that returns false when an element is < lo or > hi.
func (c *Ctx) isRangeChecker(f *ssa.Function) bool {
	if f == nil || !isLibFn(f) || f.Signature.Params().Len() != 3 || f.Signature.Results().Len() != 1 {
		return false
	}
	if c.rangeCheckerMemo == nil {
		c.rangeCheckerMemo = map[*ssa.Function]bool{}
	}
	if v, ok := c.rangeCheckerMemo[f]; ok {
		return v
	}
	v := c.isRangeChecker1(f)
	c.rangeCheckerMemo[f] = v
	return v
}

// isRangeChecker1: by form (x < lo and x > hi comparisons on the parameters) or, whatever the form, by table:
// f([x], lo, hi) and f([lo, x], lo, hi) answer true exactly for lo <= x <= hi.
func (c *Ctx) isRangeChecker1(f *ssa.Function) bool {
	if bt, ok := f.Signature.Results().At(0).Type().Underlying().(*types.Basic); !ok || bt.Kind() != types.Bool {
		return false
	}
	if st, ok := f.Signature.Params().At(0).Type().Underlying().(*types.Slice); !ok || !isIntType(st.Elem()) {
		return false
	}
	okAll, n := true, 0
	for _, lohi := range [][2]int64{{-3, 2}, {0, 4}, {1, 1}} {
		lo, hi := lohi[0], lohi[1]
		for x := lo - 2; x <= hi+2; x++ {
			for _, two := range []bool{false, true} {
				heap := newHeap()
				l := []pval{{k: pInt, i: x}}
				if two {
					l = []pval{{k: pInt, i: lo}, {k: pInt, i: x}}
				}
				p := &pinterp{c: c, budget: 20000}
				res, _ := p.run(f, []pval{heap.alloc(l), {k: pInt, i: lo}, {k: pInt, i: hi}}, 0, heap)
				if len(res) != 1 || res[0].k != pBool {
					return c.isRangeCheckerByForm(f)
				}
				n++
				if res[0].b != (x >= lo && x <= hi) {
					okAll = false
				}
			}
		}
	}
	return okAll && n > 0
}

func (c *Ctx) isRangeCheckerByForm(f *ssa.Function) bool {
	if b, ok := f.Signature.Results().At(0).Type().Underlying().(*types.Basic); !ok || b.Kind() != types.Bool {
		return false
	}
	if _, ok := f.Signature.Params().At(0).Type().Underlying().(*types.Slice); !ok {
		return false
	}
	lo, hi := false, false
	for _, b := range f.Blocks {
		for _, in := range b.Instrs {
			bo, ok := in.(*ssa.BinOp)
			if !ok {
				continue
			}
			if bo.Op == token.LSS && bo.Y == ssa.Value(f.Params[1]) {
				lo = true
			}
			if bo.Op == token.GTR && bo.Y == ssa.Value(f.Params[2]) {
				hi = true
			}
		}
	}
	return lo && hi
}

func ruleR9(c *Ctx, prop string) {
	nSrc := 0
	for _, src := range axisSources {
		mine := false
		for _, p := range src.props {
			if p == prop {
				mine = true
			}
		}
		if !mine {
			continue
		}
		oi := c.opByName(src.op)
		label := src.op + "." + src.field
		if src.input >= 0 {
			label = fmt.Sprintf("%s.inputs[%d]", src.op, src.input)
		}
		if oi == nil {
			c.undecided("R9", "R9:source:"+label, "", "operator type "+src.op+" not found")
			continue
		}
		apply := oi.methods["Apply"]
		var seeds []ssa.Value
		var seedFields []fieldKey
		if src.field != "" {
			fi := fieldIndex(oi.named, src.field)
			if fi < 0 {
				c.undecided("R9", "R9:source:"+label, c.pos(oi.named.Obj().Pos()), "attribute field "+src.field+" no longer exists: the axis source table must be re-confirmed")
				continue
			}
			seedFields = append(seedFields, fieldKey{oi.named, fi})
		} else {
			for _, b := range apply.Blocks {
				for _, in := range b.Instrs {
					if ld, ok := in.(*ssa.UnOp); ok && sameInputLoad(ld, apply.Params[1], int64(src.input)) {
						seeds = append(seeds, ld)
					}
				}
			}
			if len(seeds) == 0 {
				c.undecided("R9", "R9:source:"+label, c.pos(apply.Pos()), fmt.Sprintf("Apply no longer reads inputs[%d]", src.input))
				continue
			}
		}
		nSrc++
		// functions of this operator: Apply's library call closure (excluding Init: the attribute is parsed there)
		reach := c.reachFrom([]*ssa.Function{apply})
		scope := func(f *ssa.Function) bool { return reach[f] }
		D := c.forwardSet(seeds, seedFields, scope)
		sinks := c.axisSinks(D, reach)
		// normalised subset
		var normSeeds []ssa.Value
		for f := range reach {
			for _, b := range f.Blocks {
				for _, in := range b.Instrs {
					bo, ok := in.(*ssa.BinOp)
					if !ok || bo.Op != token.ADD || !(D.has(bo.X) || D.has(bo.Y)) {
						continue
					}
					// guarded by x < 0 for some x in D
					for _, g := range guardsOf(b) {
						for _, a := range atomsOf(g) {
							if z, ok := constInt(a.y); ok && z == 0 && a.op == token.LSS && D.has(a.x) {
								// the value added must be the rank (or, for index data, the extent) of a tensor
								off := bo.Y
								if D.has(bo.Y) && !D.has(bo.X) {
									off = bo.X
								}
								if c.derivesFromShape(off, reach, 0, map[ssa.Value]bool{}) {
									normSeeds = append(normSeeds, bo)
								} else {
									c.counts["R9.normalisers_with_non_rank_offset"]++
								}
							}
						}
					}
				}
			}
		}
		N := c.forwardSetCtx(normSeeds, nil, scope, D)
		// a user value is normalised at most once: if the operand of one `x + rank` derives from the result of
		// ANOTHER normaliser, values in [-2*rank, -rank-1] are shifted into range and pass the range check
		if len(normSeeds) > 1 {
			for k, nk := range normSeeds {
				Nk := c.forwardSetCtx([]ssa.Value{nk}, nil, scope, D)
				for j, nj := range normSeeds {
					if j == k {
						continue
					}
					bo := nj.(*ssa.BinOp)
					x := bo.X
					if !D.has(x) || (D.has(bo.Y) && Nk.has(bo.Y)) {
						x = bo.Y
					}
					bk := nk.(*ssa.BinOp)
					later := bk.Parent() != bo.Parent() || (bk.Block() != bo.Block() && bk.Block().Dominates(bo.Block()))
					if Nk.has(x) && later {
						// harmless when a rejecting lower bound stands before the FIRST shift: nothing below -rank gets that far
						xk := bk.X
						if !D.has(xk) {
							xk = bk.Y
						}
						if lo, _ := c.validatedValueAt(bk.Parent(), xk, bk.Block(), D, apply, 0); lo {
							c.counts["R9.second_normalisers_after_lower_bound"]++
							continue
						}
						c.violate("R9", fmt.Sprintf("R9b:%s:normalised-twice@%s", label, fname(bo.Parent())), c.pos(bo.Pos()),
							fmt.Sprintf("a user-supplied %s that was already shifted by the rank once (at %s) is shifted again here when still negative: values in [-2*rank, -rank-1] end up in range and are accepted instead of refused", src.kind, c.pos(nk.(*ssa.BinOp).Pos())))
					}
				}
			}
		}
		if os.Getenv("R9DEBUG") != "" {
			fmt.Printf("R9DEBUG %s: |D|=%d normSeeds=%d |N|=%d\n", label, len(D.in), len(normSeeds), len(N.in))
			for v := range N.in {
				if in, ok := v.(ssa.Instruction); ok {
					fmt.Printf("   N: %s  %s  (%s)\n", v.Name(), v.String(), fname(in.Parent()))
				} else {
					fmt.Printf("   N: %s  %s\n", v.Name(), v.String())
				}
			}
		}
		c.counts["R9.sinks"] += len(sinks)

		// ---- R9a
		armed := prop == "C07" || prop == "C08"
		for i, sk := range sinks {
			key := fmt.Sprintf("R9a:%s:%s@%s", label, sk.kind, fname(sk.fn))
			_ = i
			if sk.ext != nil && (sk.ext.validates == "both" || sk.ext.validates == "perm") && c.errConsumed(sk.instr) {
				c.discharge("R9", key, c.pos(sk.instr.Pos()), "axis value goes to a callee that validates it on both sides and whose error is handled")
				continue
			}
			lo, hi := c.validatedValueAt(sk.fn, sk.val, sk.instr.Block(), D, apply, 0)
			if sk.ext != nil && sk.ext.validates == "upper" {
				hi = true
			}
			switch {
			case lo && hi:
				c.discharge("R9", key, c.pos(sk.instr.Pos()), "use is dominated by a rejecting two-sided range check on the user-supplied value")
			case armed:
				side := "no range check"
				if lo || hi {
					side = "only a one-sided range check"
				}
				c.violate("R9", key, c.pos(sk.instr.Pos()), fmt.Sprintf("user-supplied %s reaches a %s with %s on that value: an out-of-range %s is not refused with an error (it panics or is silently ignored)", src.kind, sk.kind, side, src.kind))
			default:
				c.note("R9", key, c.pos(sk.instr.Pos()), "out-of-range values are not refused on both sides here (the property is silent on invalid axes)")
			}
		}
		if len(sinks) == 0 {
			c.undecided("R9", "R9a:"+label+":no-sink", c.pos(apply.Pos()), "the user-supplied "+src.kind+" reaches no use at all: unrecognised factoring (or the value is ignored)")
		}
		// ---- R9g: a positional list is never sorted
		if src.ordered {
			nSort := 0
			var fl []*ssa.Function
			for f := range reach {
				fl = append(fl, f)
			}
			sort.Slice(fl, func(i, j int) bool { return fname(fl[i]) < fname(fl[j]) })
			for _, f := range fl {
				for _, b := range f.Blocks {
					for _, in := range b.Instrs {
						cl, ok := in.(*ssa.Call)
						if !ok {
							continue
						}
						sc := cl.Common().StaticCallee()
						if sc == nil || (fnPkgPath(sc) != "sort" && fnPkgPath(sc) != "slices") {
							continue
						}
						if fnPkgPath(sc) == "slices" {
							// only the functions of package slices that move elements
							base := sc.Name()
							if i := strings.Index(base, "["); i >= 0 {
								base = base[:i]
							}
							switch base {
							case "Sort", "SortFunc", "SortStableFunc", "Reverse", "Compact", "CompactFunc", "Delete", "DeleteFunc", "Insert", "Replace":
							default:
								continue
							}
						}
						for _, a := range cl.Common().Args {
							if D.has(a) {
								nSort++
								c.violate("R9", fmt.Sprintf("R9g:%s:reordered@%s#%d", label, fname(f), nSort), c.pos(cl.Pos()),
									fmt.Sprintf("the user-supplied %s list is reordered in place by %s.%s: entry i of it belongs to entry i of the sibling lists (or is a position itself), so after sorting the entries are applied to other axes than the ones they were given for", src.kind, fnPkgPath(sc), sc.Name()))
								break
							}
						}
					}
				}
			}
			if nSort == 0 {
				c.discharge("R9", "R9g:"+label+":order-kept", c.pos(apply.Pos()), "no sort/slices call receives the positional "+src.kind+" list anywhere behind Apply")
			}
		}
		// ---- R9c: sets of axes must be checked for duplicates (C07: "duplicate ... axes yield an error")
		if prop == "C07" && src.kind == "axes" {
			c.checkDuplicatesRejected(label, apply, reach, D)
		}
		// ---- R9b
		if src.negOK {
			for _, sk := range sinks {
				key := fmt.Sprintf("R9b:%s:%s@%s", label, sk.kind, fname(sk.fn))
				if sk.ext != nil && sk.ext.resolves {
					c.discharge("R9", key, c.pos(sk.instr.Pos()), "callee resolves negative axes itself")
					continue
				}
				if sk.kind == "selection" || sk.kind == "index" || sk.kind == "slice-bound" || sk.ext != nil {
					c.decide(N.has(sk.val), "R9", key, c.pos(sk.instr.Pos()), "the value used was produced by `x + rank` under `x < 0` (negative axes normalised)",
						"a possibly negative "+src.kind+" is used without the `+ rank` normalisation (or what is added to it is not the rank / extent of the operand): negative spellings select the wrong axis (gorgonia treats -1 as 'all axes') or panic")
				}
			}
		}
	}
	c.counts["R9.sources"] += nSrc
}

// axisSinks lists uses of tainted values.
func (c *Ctx) axisSinks(D *taintSet, reach map[*ssa.Function]bool) []axisSink {
	var out []axisSink
	var fns []*ssa.Function
	for f := range reach {
		fns = append(fns, f)
	}
	sort.Slice(fns, func(i, j int) bool { return fname(fns[i]) < fname(fns[j]) })
	seen := map[string]bool{}
	add := func(s axisSink) {
		k := fname(s.fn) + "|" + s.kind
		if seen[k] {
			return
		}
		seen[k] = true
		out = append(out, s)
	}
	for _, f := range fns {
		if strings.HasSuffix(c.fileOf(f.Pos()), ".pb.go") {
			continue
		}
		for _, b := range f.Blocks {
			for _, in := range b.Instrs {
				switch x := in.(type) {
				case *ssa.IndexAddr:
					if D.has(x.Index) {
						add(axisSink{fn: f, instr: x, val: x.Index, kind: "index"})
					}
				case *ssa.Index:
					if D.has(x.Index) {
						add(axisSink{fn: f, instr: x, val: x.Index, kind: "index"})
					}
				case *ssa.Slice:
					if D.has(x.Low) {
						add(axisSink{fn: f, instr: x, val: x.Low, kind: "slice-bound"})
					} else if D.has(x.High) {
						add(axisSink{fn: f, instr: x, val: x.High, kind: "slice-bound"})
					}
				case *ssa.BinOp:
					if x.Op == token.EQL || x.Op == token.NEQ {
						var tv, other ssa.Value
						if D.has(x.X) && !D.has(x.Y) {
							tv, other = x.X, x.Y
						} else if D.has(x.Y) && !D.has(x.X) {
							tv, other = x.Y, x.X
						}
						if tv != nil {
							if _, isK := other.(*ssa.Const); !isK && isIntType(tv.Type()) {
								add(axisSink{fn: f, instr: x, val: tv, kind: "selection"})
							}
						}
					}
				case *ssa.Call:
					cc := x.Common()
					if _, isB := cc.Value.(*ssa.Builtin); isB {
						continue
					}
					sc := cc.StaticCallee()
					if sc != nil && isLibFn(sc) {
						continue
					}
					var operands []ssa.Value
					key := ""
					if cc.IsInvoke() {
						operands = append(operands, cc.Value)
						key = pkgTensor + "#" + cc.Method.Name()
						if cc.Method.Pkg() == nil || cc.Method.Pkg().Path() != pkgTensor {
							continue
						}
					} else if sc != nil {
						if fnPkgPath(sc) != pkgTensor {
							continue
						}
						key = pkgTensor + "." + sc.Name()
						if sc.Signature.Recv() != nil {
							key = pkgTensor + "#" + sc.Name()
						}
					} else {
						continue
					}
					operands = append(operands, cc.Args...)
					ct, ok := axisContracts[key]
					if !ok {
						continue
					}
					var cand []ssa.Value
					if ct.arg >= 0 && ct.arg < len(operands) {
						cand = append(cand, operands[ct.arg])
					} else if ct.arg < 0 && len(operands) > 0 {
						last := operands[len(operands)-1]
						cand = append(cand, last)
						cand = append(cand, varargElems(last)...)
					}
					for _, v := range cand {
						if D.has(v) {
							ctc := ct
							add(axisSink{fn: f, instr: x, val: v, kind: "ext:" + strings.TrimPrefix(strings.TrimPrefix(key, pkgTensor), "."), ext: &ctc})
							break
						}
					}
				}
			}
		}
	}
	return out
}

// validatedAt: is a rejecting lower / upper bound on some value of D known at block b of fn — locally,
// or at every call site (inside the operator) of fn.
func (c *Ctx) validatedAt(fn *ssa.Function, b *ssa.BasicBlock, D *taintSet, root *ssa.Function, depth int) (lo, hi bool) {
	for _, g := range guardsOf(b) {
		for _, a := range atomsOf(g) {
			x, y, op := a.x, a.y, a.op
			if D.has(y) && !D.has(x) {
				// normalise to tainted on the left
				x, y = y, x
				switch op {
				case token.LSS:
					op = token.GTR
				case token.LEQ:
					op = token.GEQ
				case token.GTR:
					op = token.LSS
				case token.GEQ:
					op = token.LEQ
				}
			}
			if !D.has(x) {
				continue
			}
			if !c.edgeRejectsAt(g) {
				continue
			}
			switch op {
			case token.GEQ, token.GTR:
				lo = true
			case token.LEQ, token.LSS:
				hi = true
			}
		}
	}
	for v, truth := range boolFacts(b) {
		call, ok := v.(*ssa.Call)
		if !ok || !truth {
			continue
		}
		if c.isRangeChecker(call.Common().StaticCallee()) && D.has(call.Common().Args[0]) {
			// the failing edge must reject
			for _, g := range guardsOf(b) {
				if stripNot(g.cond) == ssa.Value(call) && c.edgeRejectsAt(g) {
					// a bound that is an extreme constant (math.MaxInt / MinInt) bounds nothing
					if !extremeConst(call.Common().Args[1]) {
						lo = true
					}
					if !extremeConst(call.Common().Args[2]) {
						hi = true
					}
				}
			}
		}
	}
	if lo && hi {
		return
	}
	// err == nil edge of a library callee that received a tainted value and validates it on every success return
	for _, g := range guardsOf(b) {
		for _, a := range atomsOf(g) {
			if a.op != token.EQL || !(isNilConst(a.y) || isNilConst(a.x)) || depth > 2 {
				continue
			}
			ev := a.x
			if isNilConst(a.x) {
				ev = a.y
			}
			var call *ssa.Call
			switch e := ev.(type) {
			case *ssa.Call:
				call = e
			case *ssa.Extract:
				call, _ = e.Tuple.(*ssa.Call)
			}
			if call == nil || !c.edgeRejectsAt(g) {
				continue
			}
			cal := call.Common().StaticCallee()
			if cal == nil || !isLibFn(cal) || cal.Blocks == nil {
				continue
			}
			passes := false
			for _, arg := range call.Common().Args {
				if D.has(arg) {
					passes = true
				}
			}
			if !passes {
				continue
			}
			idx := errResultIndex(cal.Signature)
			allLo, allHi, cnt := true, true, 0
			for _, r := range returnsOf(cal) {
				if idx >= 0 && !isNilConst(r.Results[idx]) {
					continue
				}
				cnt++
				l2, h2 := c.validatedAt(cal, r.Block(), D, cal, depth+1)
				allLo, allHi = allLo && l2, allHi && h2
			}
			if cnt > 0 {
				lo, hi = lo || allLo, hi || allHi
			}
		}
	}
	if lo && hi {
		return
	}
	if fn != root && depth < 3 {
		n := c.cg.Nodes[fn]
		if n != nil {
			allLo, allHi, cnt := true, true, 0
			for _, e := range n.In {
				if e.Site == nil || !isLibFn(e.Caller.Func) {
					continue
				}
				// only call sites that pass a tainted argument matter
				passes := false
				for _, a := range e.Site.Common().Args {
					if D.has(a) {
						passes = true
					}
				}
				if !passes {
					continue
				}
				cnt++
				var l2, h2 bool
				l2, h2 = true, true
				for _, a := range e.Site.Common().Args {
					if D.has(a) {
						l3, h3 := c.validatedValueAt(e.Caller.Func, a, e.Site.Block(), D, root, depth+1)
						l2, h2 = l2 && l3, h2 && h3
					}
				}
				allLo = allLo && l2
				allHi = allHi && h2
			}
			if cnt > 0 {
				lo = lo || allLo
				hi = hi || allHi
			}
		}
	}
	return
}

// ---------------------------------------------------------------------------------------------
// R10 — every tensor.Repeat is a guarded stretch
// ---------------------------------------------------------------------------------------------

func ruleR10(c *Ctx, prop string) {
	scopeFiles := map[string]func(f *ssa.Function) bool{
		"C14": func(f *ssa.Function) bool { return fnPkgPath(f) == pkgOps },
		"C03": func(f *ssa.Function) bool { return fnPkgPath(f) == pkgOps },
		"C04": func(f *ssa.Function) bool { n := recvNamed(f); return n != nil && n.Obj().Name() == "MatMul" },
	}
	scope := scopeFiles[prop]
	if prop == "C06" || prop == "C16" {
		var roots []*ssa.Function
		for _, nm := range []string{"RNN", "GRU", "LSTM", "Conv", "Gemm", "MatMul"} {
			if prop == "C06" && (nm == "Conv" || nm == "MatMul") {
				continue
			}
			if oi := c.opByName(nm); oi != nil {
				roots = append(roots, oi.methods["Apply"])
			}
		}
		reach := c.reachFrom(roots)
		scope = func(f *ssa.Function) bool { return reach[f] }
	}
	if prop == "C08" {
		// Expand: everything reachable from its Apply (its own Repeat calls or the broadcast helper's)
		var roots []*ssa.Function
		if oi := c.opByName("Expand"); oi != nil {
			roots = append(roots, oi.methods["Apply"])
		}
		reach := c.reachFrom(roots)
		scope = func(f *ssa.Function) bool { return reach[f] }
	}
	n := 0
	perFn := map[string]int{}
	for _, f := range c.libFns {
		if scope != nil && !scope(f) {
			continue
		}
		for _, b := range f.Blocks {
			for _, in := range b.Instrs {
				call, ok := in.(*ssa.Call)
				if !ok {
					continue
				}
				o := calleeObj(call)
				if o == nil || qualName(o) != pkgTensor+".Repeat" {
					continue
				}
				n++
				perFn[fname(f)]++
				key := fmt.Sprintf("R10:repeat:%s#%d", fname(f), perFn[fname(f)])
				t, axis := call.Common().Args[0], call.Common().Args[1]
				ok1, why := c.repeatGuarded(t, axis, b)
				c.decide(ok1, "R10", key, c.pos(call.Pos()), why,
					"tensor.Repeat is not dominated by a test that the stretched axis has extent 1: an axis of extent k>1 is tiled (k*n elements) instead of being refused — "+why)
			}
		}
	}
	c.counts["R10.repeat_sites"] += n
	floor := map[string]int{"C14": 3, "C03": 3, "C04": 2, "C08": 1, "C06": 1, "C16": 1}
	if n < floor[prop] {
		if m, u := c.tableCovered["table:multidirectional"], c.tableCovered["table:unidirectional"]; (prop == "C14" || prop == "C03") && m != "" && u != "" && n >= 1 {
			// the scope is the two broadcast helpers: however many Repeat sites they share, the finite tables walked
			// both helpers in full for every pair of shapes
			c.note("R10", "R10:floor", "", fmt.Sprintf("%d Repeat sites found in scope (%d when the rule was written); both broadcast helpers are decided by the finite tables %s and %s", n, floor[prop], m, u))
		} else {
			c.undecided("R10", "R10:floor", "", fmt.Sprintf("%d Repeat sites found in scope (floor %d)", n, floor[prop]))
		}
	}
}

// repeatGuarded: a dominating edge implies Shape(t')[axis] == 1 for t' phi-connected to t.
func (c *Ctx) repeatGuarded(t, axis ssa.Value, b *ssa.BasicBlock) (bool, string) {
	conn := map[ssa.Value]bool{}
	var walk func(v ssa.Value, d int)
	walk = func(v ssa.Value, d int) {
		if v == nil || conn[v] || d > 6 {
			return
		}
		conn[v] = true
		switch x := v.(type) {
		case *ssa.Phi:
			for _, e := range x.Edges {
				walk(e, d+1)
			}
		case *ssa.Extract:
			// result of a previous Repeat in the loop
			if call, ok := x.Tuple.(*ssa.Call); ok {
				if o := calleeObj(call); o != nil && qualName(o) == pkgTensor+".Repeat" {
					walk(call.Common().Args[0], d+1)
				}
			}
		}
	}
	walk(t, 0)
	// extent value: load of IndexAddr(shapeOf(t'), axis)
	isExtent := func(v ssa.Value) bool {
		ld, ok := v.(*ssa.UnOp)
		if !ok {
			return false
		}
		ia, ok := ld.X.(*ssa.IndexAddr)
		if !ok || ia.Index != axis {
			return false
		}
		sh := ia.X
		if ct, ok := sh.(*ssa.ChangeType); ok {
			sh = ct.X
		}
		call, ok := sh.(*ssa.Call)
		if !ok {
			return false
		}
		name := ""
		var recv ssa.Value
		if call.Common().IsInvoke() {
			name, recv = call.Common().Method.Name(), call.Common().Value
		}
		if name != "Shape" {
			return false
		}
		if conn[recv] {
			return true
		}
		// shape taken before the loop from the initial tensor of the phi chain
		for v := range conn {
			if p, ok := v.(*ssa.Phi); ok {
				for _, e := range p.Edges {
					if e == recv {
						return true
					}
				}
			}
		}
		return false
	}
	for _, g := range guardsOf(b) {
		for _, a := range atomsOf(g) {
			if a.op != token.EQL {
				continue
			}
			if one, ok := constInt(a.y); ok && one == 1 && isExtent(a.x) {
				return true, "dominated by extent(t, axis) == 1"
			}
			if one, ok := constInt(a.x); ok && one == 1 && isExtent(a.y) {
				return true, "dominated by extent(t, axis) == 1"
			}
		}
	}
	// form: extents differ, and the *other* extent != 1 is rejected before (unidirectional: `if sizeB != 1 { return err }`)
	for _, g := range guardsOf(b) {
		for _, a := range atomsOf(g) {
			if a.op == token.EQL {
				continue
			}
		}
	}
	return false, "no dominating `extent == 1` edge for the repeated tensor at the repeated axis"
}

// validatedValueAt: like validatedAt, but when the tainted value is a phi the validation may sit on
// the edges through which the tainted operands enter the merge.
func (c *Ctx) validatedValueAt(fn *ssa.Function, v ssa.Value, b *ssa.BasicBlock, D *taintSet, root *ssa.Function, depth int) (lo, hi bool) {
	lo, hi = c.validatedAt(fn, b, D, root, depth)
	if lo && hi {
		return
	}
	if p, ok := v.(*ssa.Phi); ok && depth < 4 {
		allLo, allHi, cnt := true, true, 0
		for i, e := range p.Edges {
			if !D.has(e) {
				continue
			}
			cnt++
			l2, h2 := c.validatedValueAt(fn, e, p.Block().Preds[i], D, root, depth+1)
			allLo, allHi = allLo && l2, allHi && h2
		}
		if cnt > 0 {
			lo, hi = lo || allLo, hi || allHi
		}
	}
	return
}

// errConsumed: the error result of the (external) call instruction is looked at.
func (c *Ctx) errConsumed(in ssa.Instruction) bool {
	call, ok := in.(*ssa.Call)
	if !ok {
		return false
	}
	ev := errOfCall(call)
	if ev == nil {
		return false
	}
	for _, r := range *ev.Referrers() {
		if _, dbg := r.(*ssa.DebugRef); !dbg {
			return true
		}
	}
	return false
}

// checkDuplicatesRejected: a duplicate test on the (normalised, sorted) axes with a rejecting true edge.
func (c *Ctx) checkDuplicatesRejected(label string, apply *ssa.Function, reach map[*ssa.Function]bool, D *taintSet) {
	key := "R9c:" + label + ":duplicates"
	isDupChecker := func(f *ssa.Function) bool {
		if f == nil || !isLibFn(f) || f.Signature.Params().Len() != 1 || f.Signature.Results().Len() != 1 {
			return false
		}
		if _, ok := f.Signature.Params().At(0).Type().Underlying().(*types.Slice); !ok {
			return false
		}
		b, ok := f.Signature.Results().At(0).Type().Underlying().(*types.Basic)
		if !ok || b.Kind() != types.Bool {
			return false
		}
		// compares neighbouring / pairs of elements for equality
		for _, bl := range f.Blocks {
			for _, in := range bl.Instrs {
				if bo, ok := in.(*ssa.BinOp); ok && bo.Op == token.EQL {
					if _, isK := bo.Y.(*ssa.Const); !isK {
						return true
					}
				}
			}
		}
		return false
	}
	found, sorted := false, false
	site := c.pos(apply.Pos())
	for f := range reach {
		for _, b := range f.Blocks {
			for _, in := range b.Instrs {
				call, ok := in.(*ssa.Call)
				if !ok {
					continue
				}
				sc := call.Common().StaticCallee()
				if sc == nil || len(call.Common().Args) == 0 || !D.has(call.Common().Args[0]) {
					continue
				}
				if isDupChecker(sc) {
					for _, r := range *call.Referrers() {
						if iff, ok := r.(*ssa.If); ok && c.edgeRejects(iff, true) {
							found = true
							site = c.pos(call.Pos())
							// the neighbour-comparison needs sorted input: a sort call on the same data dominates it
							for _, b2 := range f.Blocks {
								for _, in2 := range b2.Instrs {
									if c2, ok := in2.(*ssa.Call); ok {
										if o := calleeObj(c2); o != nil && o.Pkg() != nil && (o.Pkg().Path() == "sort" || (o.Pkg().Path() == "slices" && (o.Name() == "Sort" || o.Name() == "SortFunc" || o.Name() == "SortStableFunc"))) && len(c2.Common().Args) > 0 && D.has(c2.Common().Args[0]) && instrBefore(c2, call) {
											sorted = true
										}
									}
								}
							}
						}
					}
				}
			}
		}
	}
	switch {
	case found && sorted:
		c.discharge("R9", key, site, "axes are sorted and a duplicate among them returns an error")
	case found:
		c.violate("R9", key, site, "the duplicate test compares neighbouring entries but the axes are not sorted first: unsorted duplicates such as [1,0,1] are accepted")
	default:
		c.violate("R9", key, site, "duplicate axes are never rejected: a request ONNX declares invalid yields a tensor instead of an error")
	}
}

func extremeConst(v ssa.Value) bool {
	k, ok := constInt(v)
	if !ok {
		if c, isC := v.(*ssa.Const); isC && c.Value != nil {
			return true // constant not representable as int64
		}
		return false
	}
	return k > 1<<31 || k < -(1<<31)
}

// derivesFromShape: does the integer value come from len(t.Shape()) (a rank) or t.Shape()[k] (an extent)?
// cellDerivesFromShape: every value stored into the variable cell is shape-derived (and there is one).
func (c *Ctx) cellDerivesFromShape(al *ssa.Alloc, reach map[*ssa.Function]bool, depth int, seen map[ssa.Value]bool) bool {
	n := 0
	for _, r := range *al.Referrers() {
		if st, ok := r.(*ssa.Store); ok && st.Addr == al {
			n++
			if !c.derivesFromShape(st.Val, reach, depth+1, seen) {
				return false
			}
		}
	}
	return n > 0
}

func (c *Ctx) derivesFromShape(v ssa.Value, reach map[*ssa.Function]bool, depth int, seen map[ssa.Value]bool) bool {
	if v == nil || depth > 10 || seen[v] {
		return false
	}
	seen[v] = true
	isShape := func(x ssa.Value) bool {
		for i := 0; i < 4; i++ {
			switch y := x.(type) {
			case *ssa.ChangeType:
				x = y.X
			case *ssa.Slice:
				x = y.X
			case *ssa.Call:
				name, _ := tensorMethod(y)
				return name == "Shape"
			default:
				return false
			}
		}
		return false
	}
	switch x := v.(type) {
	case *ssa.Call:
		if b, ok := x.Common().Value.(*ssa.Builtin); ok && b.Name() == "len" {
			return isShape(x.Common().Args[0])
		}
		if name, _ := tensorMethod(x); name == "Dims" {
			return true
		}
	case *ssa.UnOp:
		if ia, ok := x.X.(*ssa.IndexAddr); ok && isShape(ia.X) {
			return true
		}
		if x.Op == token.MUL {
			switch cell := x.X.(type) {
			case *ssa.FreeVar:
				// load of a captured variable (closures capture cells)
				return c.derivesFromShape(cell, reach, depth+1, seen)
			case *ssa.Alloc:
				return c.cellDerivesFromShape(cell, reach, depth, seen)
			}
		}
	case *ssa.BinOp:
		return c.derivesFromShape(x.X, reach, depth+1, seen) || c.derivesFromShape(x.Y, reach, depth+1, seen)
	case *ssa.Convert:
		return c.derivesFromShape(x.X, reach, depth+1, seen)
	case *ssa.Phi:
		for _, e := range x.Edges {
			if c.derivesFromShape(e, reach, depth+1, seen) {
				return true
			}
		}
	case *ssa.Parameter:
		fn := x.Parent()
		idx := -1
		for i, p := range fn.Params {
			if p == x {
				idx = i
			}
		}
		// every call site inside this operator's code must pass a shape-derived value
		n, ok := 0, true
		if node := c.cg.Nodes[fn]; node != nil {
			for _, e := range node.In {
				if e.Site == nil || !reach[e.Caller.Func] {
					continue
				}
				args := e.Site.Common().Args
				if idx < len(args) {
					n++
					if !c.derivesFromShape(args[idx], reach, depth+1, seen) {
						ok = false
					}
				}
			}
		}
		return n > 0 && ok
	case *ssa.FreeVar:
		fn := x.Parent()
		idx := -1
		for i, p := range fn.FreeVars {
			if p == x {
				idx = i
			}
		}
		if par := fn.Parent(); par != nil {
			for _, b := range par.Blocks {
				for _, in := range b.Instrs {
					if mc, ok := in.(*ssa.MakeClosure); ok && mc.Fn == fn && idx < len(mc.Bindings) {
						bv := mc.Bindings[idx]
						// captured variables are cells: look at what is stored into them / the param
						if al, ok := bv.(*ssa.Alloc); ok {
							return c.cellDerivesFromShape(al, reach, depth, seen)
						}
						if c.derivesFromShape(bv, reach, depth+1, seen) {
							return true
						}
					}
				}
			}
		}
	}
	return false
}

// ---------------------------------------------------------------------------------------------
// R9f — no valid axis is refused, and the axis that reaches gorgonia is the requested one
// ---------------------------------------------------------------------------------------------
//
// "negative axes allowed" / "every axis in positive and negative spelling" / "any set of valid axes, negative or
// unsorted": the space is a finite table — rank 1..4 (0..3 for the list operators), every valid axis or every
// subset of valid axes in positive, negative and mixed spelling, ascending and descending. The partial path
// interpreter (pinterp.go) binds the attribute field or the list-valued input to the cell's axes, the rank and
// the extents of inputs[0] to the cell's shape, and walks Apply (and Init, with the attribute getter bound):
//   refused     a branch whose condition is fully determined by the cell and whose taken edge always returns a
//               non-nil error or panics (an index out of range on a cell-dependent index counts as a panic);
//   wrong-axis  an axis argument of a gorgonia call with an axis contract that is not axis mod rank;
//   wrong-shape the shape handed to Reshape is not the one ONNX prescribes for the cell (Flatten, Squeeze,
//               Unsqueeze).
// Conditions and values that depend on anything else are unknown and never reported.

type axisCell struct {
	rank     int64
	extents  []int64
	axis     int64             // scalar sources
	lists    map[int64][]int64 // list-valued inputs (by input position)
	field    []int64           // list-valued attribute
	absent   map[int64]bool
	shapes   map[int64][]int64 // shapes of further inputs (input 0: rank/extents)
	outShape []int64           // expected argument of tensor.WithShape(list) (nil: not checked)
	objects  bool              // walk with lists of arbitrary values (slicer lists)
	keep     *bool             // value of the operator's keepdims field (nil: left symbolic)
	retShape []int64           // expected shape of the tensor that is returned (nil: outShape, if any)
	refuse   bool              // the request is invalid: Reshape must not be reached with an acceptable shape
	norm     []int64           // the normalised axes, in the order given
	shape    []int64           // expected argument of Reshape (nil: not checked)
	desc     string
}

type axisHit struct {
	kind string // refused / wrong-axis / wrong-shape / panic
	pos  token.Pos
	fn   *ssa.Function
	cell *axisCell
	got  string
}

type axisRun struct {
	c                   *Ctx
	named               *types.Named
	fi                  int
	keepIdx             int // index of the boolean keepdims field (-1: none)
	listFld             bool
	getter              *ssa.Call
	hits                []axisHit
	seen                map[string]bool
	decided             int
	sinks               int
	reshapes            int
	refused             int // invalid cells that end in an error on every path the walk could follow
	dupWant, dupRefused int // invalid cells that name an axis twice (in either spelling), and how many of them are refused
	aborted             bool
	outWant             int // valid cells with a prescribed output shape
	outOK               int // ... in which a tensor was created (WithShape) with exactly that shape and no other
	retWant             int // valid cells with a prescribed shape of the returned tensor
	retOK               int // ... in which the walk reached the return with a tensor of exactly that shape
}

func fmtInts(l []int64) string { return strings.ReplaceAll(fmt.Sprint(l), " ", ",") }

func (ar *axisRun) add(kind string, pos token.Pos, fn *ssa.Function, cell *axisCell, got string) {
	k := fmt.Sprintf("%s@%d@%p", kind, pos, fn)
	if ar.seen[k] {
		return
	}
	ar.seen[k] = true
	ar.hits = append(ar.hits, axisHit{kind, pos, fn, cell, got})
}

func (ar *axisRun) run(entry *ssa.Function, args []pval, cell *axisCell, init bool) {
	c := ar.c
	p := &pinterp{c: c, budget: 600000, objects: cell.objects, trace: os.Getenv("R9FTRACE") != "" && strings.Contains(cell.desc, os.Getenv("R9FTRACE"))}
	if !init {
		shapeOf := func(k int64) ([]int64, bool) {
			if k == 0 {
				if int64(len(cell.extents)) != cell.rank {
					return nil, false
				}
				return cell.extents, true
			}
			sh, ok := cell.shapes[k]
			return sh, ok
		}
		p.rankOf = func(k int64) (int64, bool) {
			if k == 0 {
				return cell.rank, true
			}
			sh, ok := shapeOf(k)
			return int64(len(sh)), ok
		}
		p.extentOf = func(k, i int64) (int64, bool) {
			sh, ok := shapeOf(k)
			if !ok || i < 0 || i >= int64(len(sh)) {
				return 0, false
			}
			return sh[i], true
		}
		p.present = func(k int64) bool { return !cell.absent[k] }
		p.inputList = func(k int64) ([]int64, bool) { l, ok := cell.lists[k]; return l, ok }
		if ar.named != nil {
			p.field = func(h *pheap, nn *types.Named, idx int) (pval, bool) {
				if nn.Obj() == ar.named.Obj() && cell.keep != nil && idx == ar.keepIdx && ar.keepIdx >= 0 {
					return pval{k: pBool, b: *cell.keep}, true
				}
				if nn.Obj() != ar.named.Obj() || idx != ar.fi {
					return pval{}, false
				}
				if ar.listFld {
					l := make([]pval, len(cell.field))
					for i, v := range cell.field {
						l[i] = pval{k: pInt, i: v, dep: true}
					}
					return h.alloc(l), true
				}
				return pval{k: pInt, i: cell.axis, dep: true}, true
			}
		}
	} else {
		p.callSeed = func(cl *ssa.Call) (pval, bool) {
			if cl == ar.getter {
				return pval{k: pInt, i: cell.axis, dep: true}, true
			}
			return pval{}, false
		}
	}
	p.onReject = func(fn *ssa.Function, iff *ssa.If, truth bool) {
		pos := iff.Cond.Pos()
		if pos == token.NoPos {
			pos = fn.Pos()
		}
		if cell.refuse {
			return // the refusal ONNX asks for
		}
		ar.add("refused", pos, fn, cell, "")
	}
	p.onPanic = func(fn *ssa.Function, in ssa.Instruction, what string) {
		ar.add("panic", in.Pos(), fn, cell, what)
	}
	shaped, shapedBad := false, false
	defer func() {
		if !init && !cell.refuse && cell.outShape != nil {
			ar.outWant++
			if shaped && !shapedBad {
				ar.outOK++
			}
		}
	}()
	if !init {
		p.onExt = func(fn *ssa.Function, call *ssa.Call, key string, operands []pval, h *pheap) {
			if strings.HasSuffix(key, ".WithShape") && cell.outShape != nil && len(operands) == 1 && operands[0].k == pList {
				l := h.lists[operands[0].i]
				if l == nil {
					return
				}
				got := make([]int64, len(l))
				for i, e := range l {
					if e.k != pInt {
						return
					}
					got[i] = e.i
				}
				ar.reshapes++
				if fmtInts(got) != fmtInts(cell.outShape) {
					ar.add("wrong-shape", call.Pos(), fn, cell, fmtInts(got))
					shapedBad = true
				} else {
					shaped = true
				}
				return
			}
			if strings.HasSuffix(key, "#Reshape") && fn != entry && !(fnPkgPath(fn) == fnPkgPath(entry) && fn.Object() != nil && !fn.Object().Exported() && fn.Signature.Recv() == nil) {
				// views inside shared helpers (ops.ReduceAxes) are judged by the helper's own contract; an unexported
				// function next to the operator is part of the operator
				return
			}
			if strings.HasSuffix(key, "#Reshape") && cell.refuse && len(operands) == 2 && operands[1].k == pList {
				l := h.lists[operands[1].i]
				if l == nil {
					return
				}
				prod, okp := int64(1), true
				got := make([]int64, len(l))
				for i, e := range l {
					if e.k != pInt || e.i <= 0 {
						okp = false
						break
					}
					got[i] = e.i
					prod *= e.i
				}
				ar.reshapes++
				if okp && prod == prodInts(cell.extents) {
					ar.add("accepted", call.Pos(), fn, cell, fmtInts(got))
				}
				return
			}
			if strings.HasSuffix(key, "#Reshape") && cell.shape != nil && len(operands) == 2 && operands[1].k == pList {
				l := h.lists[operands[1].i]
				if l == nil {
					return
				}
				got := make([]int64, len(l))
				for i, e := range l {
					if e.k != pInt {
						return
					}
					got[i] = e.i
				}
				ar.reshapes++
				if fmtInts(got) != fmtInts(cell.shape) {
					ar.add("wrong-shape", call.Pos(), fn, cell, fmtInts(got))
				}
				return
			}
			if strings.HasSuffix(key, ".SoftMax") || strings.HasSuffix(key, ".LogSoftMax") {
				// gorgonia's kernel for the LAST axis takes every row's maximum from the first element of the whole
				// tensor (defaultengine_softmax.go): it must not be reached with more than one row
				if len(operands) >= 2 && operands[1].k == pInt {
					var shp []int64
					switch t := operands[0]; t.k {
					case pTensor:
						if t.i == 0 {
							shp = cell.extents
						}
					case pShaped:
						for _, e := range h.lists[t.j] {
							if e.k != pInt {
								shp = nil
								break
							}
							shp = append(shp, e.i)
						}
					}
					if len(shp) > 0 {
						ax := operands[1].i
						if ax < 0 {
							ax += int64(len(shp))
						}
						rows := prodInts(shp[:len(shp)-1])
						if ax == int64(len(shp))-1 && rows > 1 {
							ar.add("softmax-kernel", call.Pos(), fn, cell, fmt.Sprintf("shape %s, axis %d", fmtInts(shp), operands[1].i))
						}
					}
				}
			}
			ct, ok := axisContracts[key]
			if !ok {
				return
			}
			if ct.arg >= 0 {
				if ct.arg >= len(operands) || len(cell.norm) != 1 {
					return
				}
				v := operands[ct.arg]
				if v.k != pInt || !v.dep {
					return
				}
				ar.sinks++
				if v.i == cell.norm[0] || (ct.resolves && v.i == cell.axis) {
					return
				}
				ar.add("wrong-axis", call.Pos(), fn, cell, fmt.Sprint(v.i))
				return
			}
			if true {
				return // reductions: judged where the axes enter the reduction (onReduce / ops.ReduceAxes below)
			}
			// trailing variadic list of axes (reductions)
			last := operands[len(operands)-1]
			if last.k != pList || !(strings.HasSuffix(key, "#Max") || strings.HasSuffix(key, "#Min")) {
				return
			}
			l := h.lists[last.i]
			if l == nil {
				return
			}
			got := make([]int64, len(l))
			for i, e := range l {
				if e.k != pInt {
					return
				}
				got[i] = e.i
			}
			ar.sinks++
			a, b := append([]int64{}, got...), append([]int64{}, cell.norm...)
			sort.Slice(a, func(i, j int) bool { return a[i] < a[j] })
			sort.Slice(b, func(i, j int) bool { return b[i] < b[j] })
			if fmtInts(a) != fmtInts(b) {
				ar.add("wrong-axis", call.Pos(), fn, cell, fmtInts(got))
			}
		}
	}
	if !init && len(cell.norm) > 0 && (ar.listFld || len(cell.field) > 0) {
		checkAxes := func(fn *ssa.Function, call *ssa.Call, got []int64) {
			ar.sinks++
			a, b := append([]int64{}, got...), append([]int64{}, cell.norm...)
			sort.Slice(a, func(i, j int) bool { return a[i] < a[j] })
			sort.Slice(b, func(i, j int) bool { return b[i] < b[j] })
			if fmtInts(a) != fmtInts(b) {
				ar.add("wrong-axis", call.Pos(), fn, cell, fmtInts(got))
			}
		}
		p.onReduce = func(fn *ssa.Function, call *ssa.Call, name string, shape, axes []int64) {
			if fn == entry {
				checkAxes(fn, call, axes)
			}
		}
		p.onLib = func(fn *ssa.Function, call *ssa.Call, callee *ssa.Function, args []pval, h *pheap) {
			if fn != entry || callee.Name() != "ReduceAxes" || fnPkgPath(callee) != pkgOps || len(args) != 3 || args[1].k != pList {
				return
			}
			l := h.lists[args[1].i]
			if l == nil {
				return
			}
			got := make([]int64, len(l))
			for i, e := range l {
				if e.k != pInt {
					return
				}
				got[i] = e.i
			}
			checkAxes(fn, call, got)
		}
	}
	res, hres := p.run(entry, args, 0, nil)
	if p.trace {
		fmt.Println("R9FTRACE result", res, hres != nil, cell.outShape, cell.refuse)
	}
	wantRet := cell.retShape
	if wantRet == nil {
		wantRet = cell.outShape
	}
	if !cell.refuse && !init && wantRet != nil {
		ar.retWant++
	}
	if !cell.refuse && !init && wantRet != nil && len(res) == 2 && (res[1].k == pNil || res[1].k == pUnknown) && res[0].k == pList && hres != nil {
		// the shape of the tensor that is returned, however it was made
		if l := hres.lists[res[0].i]; len(l) == 1 && l[0].k == pShaped {
			if sh := hres.lists[l[0].j]; sh != nil {
				got := make([]int64, len(sh))
				okAll := true
				for i, e := range sh {
					if e.k != pInt {
						okAll = false
					}
					got[i] = e.i
				}
				if okAll && fmtInts(got) != fmtInts(wantRet) {
					ar.add("wrong-ret", entry.Pos(), entry, cell, fmtInts(got)+" instead of "+fmtInts(wantRet))
				} else if okAll && res[1].k == pNil {
					ar.retOK++
				}
			}
		}
	}
	if cell.refuse && !init && strings.Contains(cell.desc, "duplicate") && hasRepeatedAxis(cell) {
		ar.dupWant++
	}
	if cell.refuse && !init && len(res) == 2 {
		switch {
		case res[1].k == pNil:
			ar.add("accepted", entry.Pos(), entry, cell, "")
		case nonNilKind(res[1].k):
			ar.refused++
			if strings.Contains(cell.desc, "duplicate") && hasRepeatedAxis(cell) {
				ar.dupRefused++
			}
		default:
			if os.Getenv("R9FDEBUG") != "" {
				fmt.Printf("R9FDEBUG undetermined invalid cell: %s -> %v\n", cell.desc, res)
			}
		}
	}
	ar.decided += p.decided
	ar.aborted = ar.aborted || p.aborted
}

func prodInts(l []int64) int64 {
	p := int64(1)
	for _, v := range l {
		p *= v
	}
	return p
}

// spellings of a set of axes: all positive, all negative, alternating; each ascending and descending.
func axisSpellings(axes []int64, rank int64) [][]int64 {
	var out [][]int64
	for mode := 0; mode < 3; mode++ {
		l := make([]int64, len(axes))
		for i, a := range axes {
			neg := mode == 1 || (mode == 2 && i%2 == 0)
			l[i] = a
			if neg {
				l[i] = a - rank
			}
		}
		out = append(out, l)
		if len(l) > 1 {
			r := make([]int64, len(l))
			for i := range l {
				r[len(l)-1-i] = l[i]
			}
			out = append(out, r)
		}
	}
	return out
}

func subsetsOf(n int64) [][]int64 {
	var out [][]int64
	for m := 1; m < 1<<uint(n); m++ {
		var s []int64
		for i := int64(0); i < n; i++ {
			if m&(1<<uint(i)) != 0 {
				s = append(s, i)
			}
		}
		out = append(out, s)
	}
	return out
}

func normAxes(l []int64, rank int64) []int64 {
	out := make([]int64, len(l))
	for i, a := range l {
		out[i] = a
		if a < 0 {
			out[i] = a + rank
		}
	}
	return out
}

func ruleAxisAccept(c *Ctx, prop string) {
	// controls
	ctlBad, ctlGood := StDischarged, StDischarged
	for _, f := range c.ctlFns {
		if f.Name() != "BadAxisGuard" && f.Name() != "GoodAxisGuard" {
			continue
		}
		ar := &axisRun{c: c, seen: map[string]bool{}}
		for r := int64(1); r <= 4; r++ {
			for a := -r; a < r; a++ {
				cell := &axisCell{rank: r, axis: a, norm: normAxes([]int64{a}, r)}
				ar.run(f, []pval{{k: pInt, i: a, dep: true}, {k: pInputs}}, cell, false)
			}
		}
		if f.Name() == "BadAxisGuard" && len(ar.hits) > 0 && ar.hits[0].kind == "refused" && ar.hits[0].cell.axis == -ar.hits[0].cell.rank {
			ctlBad = StViolated
		}
		if f.Name() == "GoodAxisGuard" && len(ar.hits) > 0 {
			ctlGood = StViolated
		}
	}
	c.add(Obligation{Rule: "R9", Key: "R9f:ctl:bad:BadAxisGuard", Status: ctlBad, Control: true, Why: "control: |axis| >= rank refuses axis == -rank"})
	c.wantControls = append(c.wantControls, "R9f:ctl:bad:BadAxisGuard")
	c.add(Obligation{Rule: "R9", Key: "R9f:ctl:good:GoodAxisGuard", Status: ctlGood, Control: true, Why: "control: exact two-sided range check"})
	c.wantControls = append(c.wantControls, "R9f:ctl:good:GoodAxisGuard")

	n := 0
	for _, src := range axisSources {
		mine := false
		for _, p := range src.props {
			if p == prop {
				mine = true
			}
		}
		if !mine || !src.negOK || src.kind == "indices" {
			continue
		}
		oi := c.opByName(src.op)
		label := src.op + "." + src.field
		if src.input >= 0 {
			label = fmt.Sprintf("%s.inputs[%d]", src.op, src.input)
		}
		if oi == nil {
			c.undecided("R9", "R9f:"+label, "", "operator type "+src.op+" not found")
			continue
		}
		apply, init := oi.methods["Apply"], oi.methods["Init"]
		ar := &axisRun{c: c, seen: map[string]bool{}}
		if src.field != "" {
			fi := fieldIndex(oi.named, src.field)
			if fi < 0 {
				c.undecided("R9", "R9f:"+label, c.pos(oi.named.Obj().Pos()), "attribute field "+src.field+" no longer exists")
				continue
			}
			ar.named, ar.fi, ar.listFld = oi.named, fi, src.kind == "axes"
			ar.keepIdx = fieldIndex(oi.named, "keepDims")
		}
		n++
		args := []pval{{k: pRecv}, {k: pInputs}}
		cells, invalid := 0, 0
		listRank := int64(3)
		if c.tier == "thorough" {
			listRank = 4
		}
		switch {
		case src.kind == "axis":
			flatten := src.op == "Flatten"
			maxR := int64(4)
			if c.tier == "thorough" {
				maxR = 6
			}
			for r := int64(1); r <= maxR; r++ {
				hi := r - 1
				if flatten {
					hi = r
				}
				base := make([]int64, r)
				for i := range base {
					base[i] = int64(i) + 2
				}
				variants := [][]int64{base}
				{
					// a unit extent at every position in turn: "one sample", "one class", "one row" are where
					// shortcuts around the kernel's row handling hide
					for j := int64(0); j < r && r > 1; j++ {
						v := append([]int64{}, base...)
						v[j] = 1
						variants = append(variants, v)
					}
				}
				for _, ext := range variants {
					for a := -r; a <= hi; a++ {
						cell := &axisCell{rank: r, extents: ext, axis: a, norm: normAxes([]int64{a}, r), desc: fmt.Sprintf("%s = %d on an operand of shape %s (valid range [%d, %d])", src.field, a, fmtInts(ext), -r, hi)}
						if flatten {
							na := cell.norm[0]
							cell.shape = []int64{prodInts(ext[:na]), prodInts(ext[na:])}
						}
						if src.op == "ArgMax" {
							kept := append([]int64{}, ext...)
							kept[cell.norm[0]] = 1
							cell.shape = kept
						}
						if src.op == "Gather" {
							// output shape = data[:axis] ++ indices.shape ++ data[axis+1:], for index tensors of rank 0..2
							for _, ish := range [][]int64{{}, {2}, {3, 2}} {
								c2 := *cell
								c2.shapes = map[int64][]int64{1: ish}
								c2.lists = map[int64][]int64{1: make([]int64, prodInts(ish))}
								na := cell.norm[0]
								c2.outShape = append(append(append([]int64{}, ext[:na]...), ish...), ext[na+1:]...)
								c2.desc = cell.desc + fmt.Sprintf(" and an index tensor of shape %s", fmtInts(ish))
								c2.objects = true
								cells++
								ar.run(apply, args, &c2, false)
							}
							continue
						}
						cells++
						ar.run(apply, args, cell, false)
					}
				}
			}
			if prop == "C07" || prop == "C08" {
				for r := int64(1); r <= 3; r++ {
					hi := r - 1
					if flatten {
						hi = r
					}
					ext := make([]int64, r)
					for i := range ext {
						ext[i] = int64(i) + 2
					}
					for _, a := range []int64{-r - 2, -r - 1, hi + 1, hi + 2} {
						cell := &axisCell{rank: r, extents: ext, axis: a, norm: []int64{a}, refuse: true, desc: fmt.Sprintf("%s = %d on an operand of shape %s (outside the valid range [%d, %d])", src.field, a, fmtInts(ext), -r, hi)}
						if src.op == "Gather" {
							cell.shapes = map[int64][]int64{1: {2}}
							cell.lists = map[int64][]int64{1: {0, 0}}
						}
						cells++
						invalid++
						ar.run(apply, args, cell, false)
					}
				}
			}
			// Init: the getter call whose value is stored into the field
			if init != nil {
				for f := range c.reachFrom([]*ssa.Function{init}) {
					for _, b := range f.Blocks {
						for _, in := range b.Instrs {
							st, ok := in.(*ssa.Store)
							if !ok {
								continue
							}
							fa, ok := st.Addr.(*ssa.FieldAddr)
							if !ok || fa.Field != ar.fi {
								continue
							}
							if nn, _ := structOfPtr(fa.X.Type()); nn == nil || nn.Obj() != oi.named.Obj() {
								continue
							}
							if cl, ok := stripConv(st.Val).(*ssa.Call); ok {
								ar.getter = cl
							}
						}
					}
				}
				if ar.getter != nil {
					hi := int64(3)
					if flatten {
						hi = 4
					}
					for a := int64(-4); a <= hi; a++ {
						cell := &axisCell{rank: 4, axis: a, norm: normAxes([]int64{a}, 4), desc: fmt.Sprintf("%s = %d at Init (valid for an operand of rank 4)", src.field, a)}
						cells++
						ar.run(init, []pval{{k: pRecv}, {}}, cell, true)
					}
				}
			}
		case src.op == "Squeeze":
			for r := int64(1); r <= listRank; r++ {
				// an operand without any unit extent: every explicit axes request is invalid
				{
					ext := make([]int64, r)
					for i := range ext {
						ext[i] = int64(i) + 2
					}
					for _, bad := range [][]int64{{0}, {-1}, {r}, {0, 0}, {r - 1, -1}} {
						c3 := &axisCell{rank: r, extents: ext, lists: map[int64][]int64{1: bad}, refuse: true, desc: fmt.Sprintf("axes = %s on an operand of shape %s (no axis of extent 1 at all)", fmtInts(bad), fmtInts(ext))}
						cells++
						invalid++
						ar.run(apply, args, c3, false)
					}
				}
				for _, sub := range subsetsOf(r) {
					ext := make([]int64, r)
					for i := range ext {
						ext[i] = int64(i) + 2
					}
					var want []int64
					for _, a := range sub {
						ext[a] = 1
					}
					in := map[int64]bool{}
					for _, a := range sub {
						in[a] = true
					}
					for i := int64(0); i < r; i++ {
						if !in[i] {
							want = append(want, ext[i])
						}
					}
					if want == nil {
						want = []int64{}
					}
					for _, sp := range axisSpellings(sub, r) {
						cell := &axisCell{rank: r, extents: ext, lists: map[int64][]int64{1: sp}, norm: normAxes(sp, r), shape: want, desc: fmt.Sprintf("axes = %s on an operand of shape %s", fmtInts(sp), fmtInts(ext))}
						cells++
						ar.run(apply, args, cell, false)
					}
					// axes input absent: every unit axis goes
					cell := &axisCell{rank: r, extents: ext, absent: map[int64]bool{1: true}, shape: want, desc: fmt.Sprintf("no axes input on an operand of shape %s", fmtInts(ext))}
					cells++
					ar.run(apply, args, cell, false)
					// invalid requests: an axis out of range, a duplicate (in either spelling), an axis whose extent is not 1
					var invalids [][]int64
					invalids = append(invalids, []int64{r}, []int64{-r - 1}, append(append([]int64{}, sub...), r+1), append(append([]int64{}, sub...), sub[0]), append(append([]int64{}, sub...), sub[0]-r))
					for _, bad := range invalids {
						c3 := &axisCell{rank: r, extents: ext, lists: map[int64][]int64{1: bad}, refuse: true, desc: fmt.Sprintf("axes = %s on an operand of shape %s (out of range or duplicate)", fmtInts(bad), fmtInts(ext))}
						cells++
						invalid++
						ar.run(apply, args, c3, false)
					}
					for i := int64(0); i < r; i++ {
						if !in[i] {
							c3 := &axisCell{rank: r, extents: ext, lists: map[int64][]int64{1: {i}}, refuse: true, desc: fmt.Sprintf("axes = %s on an operand of shape %s (the extent of that axis is not 1)", fmtInts([]int64{i}), fmtInts(ext))}
							cells++
							invalid++
							ar.run(apply, args, c3, false)
						}
					}
				}
			}
		case src.op == "Unsqueeze":
			for r := int64(0); r <= listRank-1; r++ {
				for k := int64(1); k <= 2; k++ {
					or := r + k
					for _, sub := range subsetsOf(or) {
						if int64(len(sub)) != k {
							continue
						}
						ext := make([]int64, r)
						for i := range ext {
							ext[i] = int64(i) + 2
						}
						isNew := map[int64]bool{}
						for _, a := range sub {
							isNew[a] = true
						}
						want := make([]int64, 0, or)
						j := 0
						for i := int64(0); i < or; i++ {
							if isNew[i] {
								want = append(want, 1)
							} else {
								want = append(want, ext[j])
								j++
							}
						}
						for _, sp := range axisSpellings(sub, or) {
							cell := &axisCell{rank: r, extents: ext, lists: map[int64][]int64{1: sp}, norm: normAxes(sp, or), shape: want, desc: fmt.Sprintf("axes = %s on an operand of shape %s (output rank %d)", fmtInts(sp), fmtInts(ext), or)}
							cells++
							ar.run(apply, args, cell, false)
						}
						// invalid: out of the output's range, duplicates in either spelling
						var invalids [][]int64
						repl := append([]int64{}, sub...)
						repl[len(repl)-1] = or
						neg := append([]int64{}, sub...)
						neg[0] = -or - 1
						invalids = append(invalids, repl, neg)
						if k == 2 {
							invalids = append(invalids, []int64{sub[0], sub[0]}, []int64{sub[0], sub[0] - or})
							// a repeated axis with another one in between (a neighbour comparison on unsorted axes
							// misses it); three entries make the output rank r+3
							invalids = append(invalids, []int64{sub[0], sub[1], sub[0]}, []int64{sub[0], sub[1], sub[0] - (r + 3)})
						}
						for _, bad := range invalids {
							c3 := &axisCell{rank: r, extents: ext, lists: map[int64][]int64{1: bad}, refuse: true, desc: fmt.Sprintf("axes = %s on an operand of shape %s (out of the output's range or duplicate)", fmtInts(bad), fmtInts(ext))}
							cells++
							invalid++
							ar.run(apply, args, c3, false)
						}
					}
				}
			}
		case src.op == "ReduceMax" || src.op == "ReduceMin":
			for r := int64(1); r <= listRank; r++ {
				base := make([]int64, r)
				for i := range base {
					base[i] = int64(i) + 2
				}
				// also with a unit extent at every position in turn ("a batch of one"): shortcuts for axes that
				// hold one element are where requested axes get lost
				variants := [][]int64{base}
				for j := int64(0); j < r; j++ {
					v := append([]int64{}, base...)
					v[j] = 1
					variants = append(variants, v)
				}
				for _, ext := range variants {
					// no axes: every axis is reduced, with keepdims the kept shape is all ones
					{
						ones := make([]int64, r)
						for i := range ones {
							ones[i] = 1
						}
						cell := &axisCell{rank: r, extents: ext, field: []int64{}, norm: []int64{}, shape: ones, desc: fmt.Sprintf("no axes on an operand of shape %s", fmtInts(ext))}
						cells++
						ar.run(apply, args, cell, false)
						if ar.keepIdx >= 0 {
							// keepdims decided: the shape of what is returned
							for _, kd := range []bool{false, true} {
								kd := kd
								c2 := *cell
								c2.keep = &kd
								c2.retShape = []int64{}
								if kd {
									c2.retShape = ones
								}
								c2.desc = fmt.Sprintf("%s, keepdims = %v", cell.desc, kd)
								cells++
								ar.run(apply, args, &c2, false)
							}
						}
					}
					for _, sub := range subsetsOf(r) {
						for _, sp := range axisSpellings(sub, r) {
							cell := &axisCell{rank: r, extents: ext, field: sp, norm: normAxes(sp, r), desc: fmt.Sprintf("axes = %s on an operand of shape %s", fmtInts(sp), fmtInts(ext))}
							// with keepdims the result is reshaped to the input's shape with ones at the reduced axes
							kept := append([]int64{}, ext...)
							for _, a := range cell.norm {
								kept[a] = 1
							}
							cell.shape = kept
							cells++
							ar.run(apply, args, cell, false)
							if ar.keepIdx >= 0 && len(sp) <= 2 {
								gone := map[int64]bool{}
								for _, a := range cell.norm {
									gone[a] = true
								}
								reduced := []int64{}
								for i, e := range ext {
									if !gone[int64(i)] {
										reduced = append(reduced, e)
									}
								}
								for _, kd := range []bool{false, true} {
									kd := kd
									c2 := *cell
									c2.keep = &kd
									c2.retShape = reduced
									if kd {
										c2.retShape = kept
									}
									c2.desc = fmt.Sprintf("%s, keepdims = %v", cell.desc, kd)
									cells++
									ar.run(apply, args, &c2, false)
								}
							}
						}
					}
				}
			}
		case src.op == "Slice":
			for r := int64(1); r <= listRank; r++ {
				ext := make([]int64, r)
				for i := range ext {
					ext[i] = int64(i) + 2
				}
				for _, sub := range subsetsOf(r) {
					if len(sub) > 2 {
						continue
					}
					zeros, ones := make([]int64, len(sub)), make([]int64, len(sub))
					for i := range ones {
						ones[i] = 1
					}
					for _, sp := range axisSpellings(sub, r) {
						for _, steps := range []bool{false, true} {
							cell := &axisCell{rank: r, extents: ext, lists: map[int64][]int64{1: zeros, 2: ones, 3: sp}, absent: map[int64]bool{4: true}, norm: normAxes(sp, r), desc: fmt.Sprintf("starts = %s, ends = %s, axes = %s on an operand of shape %s", fmtInts(zeros), fmtInts(ones), fmtInts(sp), fmtInts(ext))}
							if steps {
								cell.absent = nil
								cell.lists[4] = ones
							}
							cells++
							ar.run(apply, args, cell, false)
						}
					}
					for _, badAxis := range []int64{r, -r - 1} {
						bad := append([]int64{}, sub...)
						bad[0] = badAxis
						c3 := &axisCell{rank: r, extents: ext, lists: map[int64][]int64{1: zeros, 2: ones, 3: bad}, absent: map[int64]bool{4: true}, refuse: true, desc: fmt.Sprintf("axes = %s on an operand of shape %s (out of range)", fmtInts(bad), fmtInts(ext))}
						cells++
						invalid++
						ar.run(apply, args, c3, false)
					}
				}
			}
		default:
			c.note("R9", "R9f:"+label, c.pos(apply.Pos()), "no table for this source")
			continue
		}
		sort.Slice(ar.hits, func(i, j int) bool {
			if ar.hits[i].kind != ar.hits[j].kind {
				return ar.hits[i].kind < ar.hits[j].kind
			}
			return ar.hits[i].pos < ar.hits[j].pos
		})
		per := map[string]int{}
		for _, h := range ar.hits {
			per[h.kind]++
			key := fmt.Sprintf("R9f:%s:%s@%s#%d", label, h.kind, fname(h.fn), per[h.kind])
			pos := h.pos
			if pos == token.NoPos {
				pos = h.fn.Pos()
			}
			switch h.kind {
			case "refused":
				c.violate("R9", key, c.pos(pos), "a valid request is refused: with "+h.cell.desc+" this branch is taken and it always ends in an error — the property allows every valid axis in positive and negative spelling, in any order")
			case "panic":
				c.violate("R9", key, c.pos(pos), "a valid request panics: with "+h.cell.desc+": "+h.got)
			case "wrong-axis":
				c.violate("R9", key, c.pos(pos), fmt.Sprintf("with %s the axes handed to gorgonia are %s, not %s: other axes than the requested ones are used", h.cell.desc, h.got, fmtInts(h.cell.norm)))
			case "accepted":
				c.violate("R9", key, c.pos(pos), "an invalid request is answered with a tensor instead of an error: with "+h.cell.desc+" the operator returns a result and a nil error")
			case "softmax-kernel":
				c.violate("R9", key, c.pos(pos), fmt.Sprintf("with %s gorgonia's softmax is called on a tensor of %s: that is its last-axis kernel with more than one row, which takes every row's maximum from the first element of the whole tensor (NaN / overflow for large values, other rows influence the result)", h.cell.desc, h.got))
			case "wrong-ret":
				c.violate("R9", key, c.pos(pos), fmt.Sprintf("with %s the result has shape %s", h.cell.desc, h.got))
			case "wrong-shape":
				if h.cell.outShape != nil {
					c.violate("R9", key, c.pos(pos), fmt.Sprintf("with %s the result has shape %s, ONNX prescribes %s", h.cell.desc, h.got, fmtInts(h.cell.outShape)))
				} else {
					c.violate("R9", key, c.pos(pos), fmt.Sprintf("with %s the shape handed to Reshape is %s, ONNX prescribes %s", h.cell.desc, h.got, fmtInts(h.cell.shape)))
				}
			}
		}
		c.counts["R9f.cells"] += cells
		c.counts["R9f.branches_evaluated"] += ar.decided
		c.counts["R9f.axis_arguments_evaluated"] += ar.sinks
		c.counts["R9f.reshape_arguments_evaluated"] += ar.reshapes
		if len(ar.hits) > 0 {
			continue
		}
		if ar.decided == 0 {
			c.undecided("R9", "R9f:"+label, c.pos(apply.Pos()), "no branch on the "+src.kind+" could be evaluated in Apply (not even the negative-axis normalisation): the way the value reaches its uses is not recognised")
			continue
		}
		why := fmt.Sprintf("%d table cells (rank x every valid spelling): no branch decided by the cell leads to an error (%d such branches evaluated), %d axis arguments and %d Reshape arguments of gorgonia calls have the prescribed value", cells, ar.decided, ar.sinks, ar.reshapes)
		if invalid > 0 {
			why += fmt.Sprintf("; %d invalid requests (out of range, duplicate, extent not 1): none is answered with a result, %d end in an error on every path followed", invalid, ar.refused)
		}
		if ar.aborted {
			c.note("R9", "R9f:"+label, c.pos(apply.Pos()), why+"; some paths were abandoned at the step budget")
		} else {
			c.discharge("R9", "R9f:"+label, c.pos(apply.Pos()), why)
			// the table decides this source when it also saw (nearly) every invalid request refused
			if c.tableCovered == nil {
				c.tableCovered = map[string]string{}
			}
			if invalid == 0 || ar.refused*10 >= invalid*9 {
				c.tableCovered["R9f:"+label] = "R9f:" + label
			}
			if ar.dupWant > 0 && ar.dupRefused == ar.dupWant {
				c.tableCovered["R9f:"+label+":duplicates"] = fmt.Sprintf("R9f:%s (all %d requests that name an axis twice, in either spelling, end in an error)", label, ar.dupWant)
			}
			if os.Getenv("R9FDEBUG") != "" {
				fmt.Printf("R9FDEBUG %s returned shapes confirmed %d of %d, output shapes %d of %d\n", label, ar.retOK, ar.retWant, ar.outOK, ar.outWant)
			}
			if ar.outWant > 0 && ar.outOK == ar.outWant {
				c.tableCovered["R9f:"+label+":out"] = fmt.Sprintf("R9f:%s (a tensor of the prescribed output shape, and of no other, is created in all %d valid cells)", label, ar.outWant)
			}
			if ar.retWant > 0 && ar.retOK == ar.retWant {
				// every valid cell was followed to its return, and the returned tensor has the prescribed shape
				c.tableCovered["R9f:"+label+":ret"] = fmt.Sprintf("R9f:%s (the returned tensor has the prescribed shape in all %d valid cells)", label, ar.retWant)
			}
		}
		c.counts["R9f.invalid_cells"] += invalid
		c.counts["R9f.invalid_cells_refused"] += ar.refused
	}
	c.counts["R9f.sources"] += n
}

// hasRepeatedAxis: the axes list of the cell names one axis twice once negative spellings are normalised.
func hasRepeatedAxis(cell *axisCell) bool {
	l := cell.lists[1]
	if l == nil {
		l = cell.field
	}
	for i := range l {
		for j := i + 1; j < len(l); j++ {
			if l[i] == l[j] {
				return true
			}
			// the same axis in its two spellings differs by the rank of the tensor the axes refer to (unknown here
			// for Unsqueeze: the output rank); accept any difference that makes one negative and one non-negative
			if (l[i] < 0) != (l[j] < 0) {
				return true
			}
		}
	}
	return false
}
