package main

import (
	"fmt"
	"go/types"
	"os"
	"sort"
	"strings"

	"golang.org/x/tools/go/ssa"
)

// modelInfo locates the Model type and its entry points by role.
type modelInfo struct {
	named     *types.Named
	fParams   int // field index of the map[string]tensor.Tensor weights
	fProto    int // field index of *onnx.ModelProto
	fGetter   int
	run       *ssa.Function
	ctors     []*ssa.Function // functions returning *Model
	newModel  *ssa.Function   // the constructor that builds the struct
	validator *ssa.Function
}

func (c *Ctx) findModel() *modelInfo {
	p := c.pkgByPath[modPath]
	if p == nil {
		return nil
	}
	sc := p.Types.Scope()
	for _, n := range sc.Names() {
		tn, ok := sc.Lookup(n).(*types.TypeName)
		if !ok {
			continue
		}
		named, ok := tn.Type().(*types.Named)
		if !ok {
			continue
		}
		st, ok := named.Underlying().(*types.Struct)
		if !ok {
			continue
		}
		mi := &modelInfo{named: named, fParams: -1, fProto: -1, fGetter: -1}
		for i := 0; i < st.NumFields(); i++ {
			ft := st.Field(i).Type()
			if m, ok := ft.Underlying().(*types.Map); ok && isTensorish(m.Elem()) {
				mi.fParams = i
			}
			if pt, ok := ft.(*types.Pointer); ok {
				if nn, ok := pt.Elem().(*types.Named); ok && nn.Obj().Pkg() != nil && nn.Obj().Pkg().Path() == pkgOnnx && nn.Obj().Name() == "ModelProto" {
					mi.fProto = i
				}
			}
			if _, ok := ft.Underlying().(*types.Signature); ok {
				mi.fGetter = i
			}
		}
		if mi.fParams < 0 || mi.fProto < 0 {
			continue
		}
		// Run: exported method (map of tensors) -> (map of tensors, error)
		for _, fn := range c.libFns {
			if recvNamed(fn) == named && fn.Parent() == nil && fn.Object() != nil && fn.Object().Exported() {
				s := fn.Signature
				if s.Params().Len() == 1 && s.Results().Len() == 2 && isErrorType(s.Results().At(1).Type()) {
					if m, ok := s.Params().At(0).Type().Underlying().(*types.Map); ok && isTensorish(m.Elem()) {
						mi.run = fn
					}
				}
			}
			if fn.Parent() == nil && fn.Signature.Recv() == nil && fnPkgPath(fn) == modPath && fn.Signature.Results().Len() == 2 {
				if pt, ok := fn.Signature.Results().At(0).Type().(*types.Pointer); ok && pt.Elem() == types.Type(named) {
					mi.ctors = append(mi.ctors, fn)
					for _, b := range fn.Blocks {
						for _, in := range b.Instrs {
							if al, ok := in.(*ssa.Alloc); ok {
								if apt, ok := al.Type().(*types.Pointer); ok && apt.Elem() == types.Type(named) {
									mi.newModel = fn
								}
							}
						}
					}
				}
			}
		}
		return mi
	}
	return nil
}

// seedLibrary installs the borrowed / shared roots for the real analysis.
func (c *Ctx) seedLibrary(mi *modelInfo, opsAll []*opInfo) func(e *e2) {
	return func(e *e2) {
		if mi != nil {
			if mi.run != nil {
				e.param[mi.run][1].addAll(rootTokens("Borrowed(Run.inputs)", "CHD"))
			}
			e.cellOf(fieldKey{mi.named, mi.fParams}).addAll(rootTokens("Weights", "CHD"))
			e.cellOf(fieldKey{mi.named, mi.fProto}).addAll(rootTokens("Proto", "CD"))
			for _, ct := range mi.ctors {
				for i, p := range ct.Params {
					if pt, ok := p.Type().(*types.Pointer); ok {
						if nn, ok := pt.Elem().(*types.Named); ok && nn.Obj().Pkg() != nil && nn.Obj().Pkg().Path() == pkgOnnx {
							e.param[ct][i].addAll(rootTokens("Proto", "CD"))
						}
					}
				}
			}
		}
		for _, oi := range opsAll {
			if oi.control {
				continue
			}
			if f := oi.methods["Apply"]; f != nil && e.inSet[f] {
				e.param[f][1].addAll(rootTokens("Borrowed(op.inputs)", "HD"))
			}
			if f := oi.methods["ValidateInputs"]; f != nil && e.inSet[f] {
				e.param[f][1].addAll(rootTokens("Borrowed(op.inputs)", "HD"))
			}
			if f := oi.methods["Init"]; f != nil && e.inSet[f] && len(f.Params) > 1 {
				e.param[f][1].addAll(rootTokens("Proto", "CD"))
			}
		}
		// exported helpers of package ops that return a tensor must not modify their tensor arguments
		for _, f := range e.fns {
			if !c.isPureHelperEntry(f) {
				continue
			}
			for i, p := range f.Params {
				if isTensorish(p.Type()) {
					e.param[f][i].addAll(rootTokens("Borrowed(ops."+f.Name()+")", "HD"))
				}
			}
		}
	}
}

// isPureHelperEntry: exported package-level function of package ops taking tensors and returning at
// least one tensor (documented in-place helpers return only an error and are judged at call sites).
func (c *Ctx) isPureHelperEntry(f *ssa.Function) bool {
	if f.Parent() != nil || f.Signature.Recv() != nil || fnPkgPath(f) != pkgOps || f.Object() == nil || !f.Object().Exported() {
		return false
	}
	hasT := false
	for _, p := range f.Params {
		if isTensorish(p.Type()) {
			hasT = true
		}
	}
	retT := false
	res := f.Signature.Results()
	for i := 0; i < res.Len(); i++ {
		t := res.At(i).Type()
		if isTensorish(t) {
			retT = true
		}
		if s, ok := t.Underlying().(*types.Slice); ok && isTensorish(s.Elem()) {
			retT = true
		}
	}
	return hasT && retT
}

func (c *Ctx) entryFuncs(mi *modelInfo, opsAll []*opInfo) []*ssa.Function {
	var out []*ssa.Function
	if mi != nil {
		if mi.run != nil {
			out = append(out, mi.run)
		}
		out = append(out, mi.ctors...)
	}
	for _, oi := range opsAll {
		for _, m := range []string{"Apply", "ValidateInputs", "Init"} {
			if f := oi.methods[m]; f != nil {
				out = append(out, f)
			}
		}
	}
	for _, f := range c.libFns {
		if c.isPureHelperEntry(f) {
			out = append(out, f)
		}
	}
	return out
}

// effects runs E2 once per invocation (real pass and control pass) and caches the result.
type effects struct {
	real, ctl *e2Result
	mi        *modelInfo
	ops       []*opInfo
	entries   []*ssa.Function
}

func (c *Ctx) effects() *effects {
	if c.eff != nil {
		return c.eff
	}
	mi := c.findModel()
	opsAll := c.operators()
	ef := &effects{mi: mi, ops: opsAll}
	ef.entries = c.entryFuncs(mi, opsAll)
	ef.real = c.runE2(c.analysable(c.libFns), c.seedLibrary(mi, opsAll))
	seedLib := c.seedLibrary(mi, opsAll)
	ef.ctl = c.runE2(c.analysable(c.allFns), func(e *e2) {
		seedLib(e)
		for _, f := range c.ctlFns {
			if f.Parent() != nil || f.Object() == nil || !f.Object().Exported() {
				continue
			}
			for i, p := range f.Params {
				if recv := f.Signature.Recv(); recv != nil && i == 0 {
					continue
				}
				if strings.HasSuffix(f.Name(), "Inner") {
					continue
				}
				switch p.Type().Underlying().(type) {
				case *types.Slice, *types.Map, *types.Interface, *types.Pointer:
					e.param[f][i].addAll(rootTokens("Borrowed(control)", "HD"))
				}
			}
		}
	})
	c.eff = ef
	c.counts["E2.functions"] = ef.real.nFuncs
	c.counts["E2.passes"] = ef.real.passes
	c.counts["E2.mutation_sites"] = len(ef.real.sites)
	return ef
}

// siteTokens returns the non-fresh tokens of the written storage at a site.
func siteTokens(r *e2Result, s mutSite) tokset {
	t := r.tok[s.target]
	if s.viaOpt != "" {
		inner := tokset{}
		pre := "OPT:" + s.viaOpt + ":"
		for k := range t {
			if strings.HasPrefix(k, pre) && len(k) > len(pre) {
				inner.add(k[len(pre):])
			}
		}
		return withLevels(inner, "CHD", false)
	}
	return withLevels(t, s.levels, false)
}

func siteKey(s mutSite) string {
	return fmt.Sprintf("R3:mut:%s:%s#%d", fname(s.fn), s.what, s.ord)
}

type scopeFn func(fn *ssa.Function) bool

// reachFrom computes the library functions reachable from the roots in the call graph.
func (c *Ctx) reachFrom(roots []*ssa.Function) map[*ssa.Function]bool {
	seen := map[*ssa.Function]bool{}
	var walk func(f *ssa.Function)
	walk = func(f *ssa.Function) {
		if f == nil || seen[f] || !isLibFn(f) {
			return
		}
		seen[f] = true
		if n := c.cg.Nodes[f]; n != nil {
			for _, e := range n.Out {
				walk(e.Callee.Func)
			}
		}
		for _, af := range f.AnonFuncs {
			walk(af)
		}
	}
	for _, r := range roots {
		walk(r)
	}
	return seen
}

func sharedOnly(t tokset) tokset {
	out := tokset{}
	for k := range t {
		r := rootOf(k)
		if r == "Weights" || r == "Proto" || strings.HasPrefix(r, "Global(") {
			out.add(k)
		}
	}
	return out
}

// ruleR3 — borrowed tensors (and shared storage) are never mutated.
func ruleR3(c *Ctx, prop string) {
	ef := c.effects()
	r := ef.real
	// unknown externals make the analysis undecided
	for _, k := range sortedKeys(r.unknown) {
		c.undecided("R3", "R3:unknown-external:"+k, r.unknown[k][0], "external symbol without a contract receives a reference the library does not own ("+strings.Join(r.unknown[k], " ")+"); write a contract in contracts.go")
	}
	if dbg := os.Getenv("E2TOKENS"); dbg != "" {
		for _, f := range c.libFns {
			if !strings.HasSuffix(fname(f), dbg) {
				continue
			}
			fmt.Println("E2TOKENS", fname(f))
			for _, p := range f.Params {
				fmt.Printf("   param %s: %v\n", p.Name(), sortedKeysTok(r.tok[p]))
			}
			for _, b := range f.Blocks {
				for _, in := range b.Instrs {
					if v, ok := in.(ssa.Value); ok && len(r.tok[v]) > 0 {
						fmt.Printf("   %s = %s: %v\n", v.Name(), in.String(), sortedKeysTok(r.tok[v]))
					}
				}
			}
		}
	}
	scope := c.scopeFor(prop, ef)
	counts := map[string]int{}
	n := 0
	for _, s := range r.sites {
		if !isLibFn(s.fn) || strings.HasSuffix(c.fileOf(s.fn.Pos()), ".pb.go") {
			continue
		}
		if s.what == "store-global" {
			continue // R1
		}
		if !scope(s.fn) {
			continue
		}
		t := siteTokens(r, s)
		if prop == "C17" {
			t = sharedOnly(t)
		}
		// writes to package state are R1's
		g := tokset{}
		for k := range t {
			if !strings.HasPrefix(rootOf(k), "Global(") {
				g.add(k)
			}
		}
		t = g
		if len(t) == 0 && localFresh(s.target) {
			c.counts["R3.trivial_local_writes"]++
			continue
		}
		n++
		counts[s.what]++
		key := siteKey(s)
		site := c.pos(s.instr.Pos())
		if site == "" {
			site = c.pos(s.fn.Pos())
		}
		if len(t) == 0 {
			c.discharge("R3", key, site, s.what+" writes storage created by the library in this call (no borrowed/shared origin reaches it)")
		} else {
			o := Obligation{Rule: "R3", Key: key, Site: site, Status: StViolated,
				Why:  fmt.Sprintf("%s writes level %s of storage originating from %s: the caller's tensor / the model's weights are modified in place", s.what, s.levels, describeTokens(t)),
				Path: c.witness(ef.entries, s.fn)}
			c.add(o)
		}
	}
	for k, v := range counts {
		c.counts["R3."+k] += v
	}
	c.counts["R3.sites_in_scope"] = n
	if prop != "C02" && prop != "C17" && prop != "C01" {
		// scoped use: say what the scope was, and refuse to pass vacuously on an empty scope
		nFn := 0
		for _, f := range c.libFns {
			if scope(f) {
				nFn++
			}
		}
		if nFn == 0 {
			c.undecided("R3", "R3:scope:"+prop, "", "no function in this property's scope: anchors not found")
		} else {
			c.discharge("R3", "R3:scope:"+prop, "", fmt.Sprintf("%d functions in scope, %d non-trivial mutation sites, none writes borrowed or shared storage", nFn, n))
		}
	}
	// floors (whole-library scopes only)
	if prop == "C02" || prop == "C17" {
		if counts["Reshape"] < 20 || counts["SetAt"] < 4 || counts["Zero"] < 4 {
			c.undecided("R3", "R3:floor", "", fmt.Sprintf("mutation-site census below the confirmed floor (Reshape=%d SetAt=%d Zero=%d)", counts["Reshape"], counts["SetAt"], counts["Zero"]))
		}
	}
	// controls
	c.r3Controls(ef)
}

func (c *Ctx) r3Controls(ef *effects) {
	want := map[string]bool{}
	for _, s := range ef.ctl.sites {
		if !isControlFn(s.fn) || s.what == "store-global" {
			continue
		}
		name := s.fn.Name()
		if s.fn.Parent() != nil {
			continue
		}
		var kind string
		switch {
		case strings.HasPrefix(name, "BadMut"):
			kind = "bad"
		case strings.HasPrefix(name, "GoodMut"):
			kind = "good"
		default:
			continue
		}
		t := siteTokens(ef.ctl, s)
		key := "R3:ctl:" + kind + ":" + name
		if want[key] && len(t) == 0 && kind == "bad" {
			continue
		}
		st := StDischarged
		if len(t) > 0 {
			st = StViolated
		}
		// one obligation per control function: bad => at least one violated site; good => none
		found := false
		for i := range c.obls {
			if c.obls[i].Control && c.obls[i].Key == key {
				found = true
				if st == StViolated {
					c.obls[i].Status = StViolated
				}
			}
		}
		if !found {
			c.add(Obligation{Rule: "R3", Key: key, Site: c.pos(s.instr.Pos()), Status: st, Control: true, Why: "control: " + describeTokens(t)})
		}
		want[key] = true
	}
	for _, f := range c.ctlFns {
		if f.Parent() == nil && (strings.HasPrefix(f.Name(), "BadMut") || strings.HasPrefix(f.Name(), "GoodMut")) && !strings.HasSuffix(f.Name(), "Outer") {
			kind := "good"
			if strings.HasPrefix(f.Name(), "BadMut") {
				kind = "bad"
			}
			c.wantControls = append(c.wantControls, "R3:ctl:"+kind+":"+f.Name())
		}
	}
}

// scopeFor restricts R3 to the functions a property talks about.
func (c *Ctx) scopeFor(prop string, ef *effects) scopeFn {
	typeNames := map[string][]string{
		"C07": {"Reshape", "Flatten", "Squeeze", "Unsqueeze", "Shape"},
		"C08": {"Transpose", "Concat", "Slice", "Gather", "Expand"},
		"C05": {"Conv"},
		"C06": {"RNN", "GRU", "LSTM"},
		"C09": {"ArgMax", "ReduceMax", "ReduceMin", "Softmax", "LogSoftmax"},
	}
	switch prop {
	case "C02", "C17", "C01":
		return func(*ssa.Function) bool { return true }
	case "C13":
		var roots []*ssa.Function
		if ef.mi != nil && ef.mi.run != nil {
			if v := c.findValidator(ef.mi); v != nil {
				roots = append(roots, v)
			}
		}
		reach := c.reachFrom(roots)
		if len(roots) == 0 && ef.mi != nil && ef.mi.run != nil {
			// the validation is written out in Run itself: Run and what it reaches in the model package
			all := c.reachFrom([]*ssa.Function{ef.mi.run})
			reach = map[*ssa.Function]bool{}
			for f := range all {
				if fnPkgPath(f) == modPath {
					reach[f] = true
				}
			}
		}
		return func(f *ssa.Function) bool { return reach[f] }
	case "C12":
		// the decoders: everything in package onnx that is hand-written
		return func(f *ssa.Function) bool {
			return fnPkgPath(f) == pkgOnnx && !strings.HasSuffix(c.fileOf(f.Pos()), ".pb.go")
		}
	case "C14", "C03":
		var roots []*ssa.Function
		for _, f := range c.libFns {
			if fnPkgPath(f) == pkgOps && f.Parent() == nil && f.Object() != nil && f.Object().Exported() && strings.Contains(f.Name(), "roadcast") {
				roots = append(roots, f)
			}
			if prop == "C14" && f.Name() == "AddExtraDimsToTensor" {
				roots = append(roots, f)
			}
		}
		if prop == "C03" {
			for _, oi := range ef.ops {
				if inScope("C03", oi.name) || inScope("C03", strings.TrimSuffix(oi.name, "")) {
					roots = append(roots, oi.methods["Apply"])
				}
			}
		}
		reach := c.reachFrom(roots)
		return func(f *ssa.Function) bool { return reach[f] }
	}
	if names, ok := typeNames[prop]; ok {
		var roots []*ssa.Function
		for _, oi := range ef.ops {
			for _, n := range names {
				if oi.name == n && !oi.control {
					roots = append(roots, oi.methods["Apply"], oi.methods["Init"], oi.methods["ValidateInputs"])
				}
			}
		}
		reach := c.reachFrom(roots)
		return func(f *ssa.Function) bool { return reach[f] }
	}
	return func(*ssa.Function) bool { return true }
}

// findValidator: the callee of Run that receives Run's parameter, returns error, and is called first.
func (c *Ctx) findValidator(mi *modelInfo) *ssa.Function {
	if mi.validator != nil {
		return mi.validator
	}
	if mi.run == nil {
		return nil
	}
	for _, b := range mi.run.DomPreorder() {
		for _, in := range b.Instrs {
			call, ok := in.(*ssa.Call)
			if !ok {
				continue
			}
			f := call.Common().StaticCallee()
			if f == nil || !isLibFn(f) {
				continue
			}
			for _, a := range call.Common().Args {
				if a == mi.run.Params[1] && f.Signature.Results().Len() == 1 && isErrorType(f.Signature.Results().At(0).Type()) {
					mi.validator = f
					return f
				}
			}
		}
	}
	return nil
}

// ruleR1 — no package-level state is written after initialisation; no goroutines/unsafe/sync.
func ruleR1(c *Ctx, prop string) {
	ef := c.effects()
	r := ef.real
	nGlobals := 0
	for path, sp := range c.ssaPkg {
		if !isLibPkgPath(path) || isControlPkgPath(path) {
			continue
		}
		for _, m := range sp.Members {
			if g, ok := m.(*ssa.Global); ok && !strings.HasPrefix(g.Name(), "init$") {
				if strings.HasSuffix(c.fileOf(g.Pos()), ".pb.go") {
					continue
				}
				nGlobals++
			}
		}
	}
	c.counts["R1.globals"] = nGlobals
	viol := 0
	for _, s := range r.sites {
		if !isLibFn(s.fn) || strings.HasSuffix(c.fileOf(s.fn.Pos()), ".pb.go") {
			continue
		}
		isInit := s.fn.Name() == "init" && s.fn.Synthetic != ""
		if s.what == "store-global" {
			g := s.target.(*ssa.Global)
			key := "R1:store:" + shortPkg(g.Pkg.Pkg.Path()) + "." + g.Name() + ":" + fname(s.fn)
			if isInit {
				continue
			}
			viol++
			c.add(Obligation{Rule: "R1", Key: key, Site: c.pos(s.instr.Pos()), Status: StViolated,
				Why: "package-level variable assigned outside the package initialiser: state survives a Run and is shared by all goroutines", Path: c.witness(ef.entries, s.fn)})
			continue
		}
		t := siteTokens(r, s)
		g := tokset{}
		for k := range t {
			if strings.HasPrefix(rootOf(k), "Global(") {
				g.add(k)
			}
		}
		if len(g) == 0 || isInit {
			continue
		}
		viol++
		key := fmt.Sprintf("R1:write-through:%s:%s#%d", fname(s.fn), s.what, s.ord)
		c.add(Obligation{Rule: "R1", Key: key, Site: c.pos(s.instr.Pos()), Status: StViolated,
			Why: fmt.Sprintf("%s writes through a reference loaded from %s", s.what, describeTokens(g)), Path: c.witness(ef.entries, s.fn)})
	}
	// one discharged obligation per global: no write found
	written := map[string]bool{}
	for _, o := range c.obls {
		if o.Rule == "R1" && o.Status == StViolated {
			written[o.Key] = true
		}
	}
	var names []string
	for path, sp := range c.ssaPkg {
		if !isLibPkgPath(path) || isControlPkgPath(path) {
			continue
		}
		for _, m := range sp.Members {
			if g, ok := m.(*ssa.Global); ok && !strings.HasPrefix(g.Name(), "init$") && !strings.HasSuffix(c.fileOf(g.Pos()), ".pb.go") {
				names = append(names, shortPkg(path)+"."+g.Name())
			}
		}
	}
	sort.Strings(names)
	for _, n := range names {
		bad := false
		for k := range written {
			if strings.Contains(k, n+":") || strings.Contains(k, "Global("+n+")") {
				bad = true
			}
		}
		for _, o := range c.obls {
			if o.Rule == "R1" && o.Status == StViolated && strings.Contains(o.Why, "Global("+n+")") {
				bad = true
			}
		}
		if !bad {
			c.discharge("R1", "R1:global:"+n, "", "no store to and no write through "+n+" outside the package initialiser")
		}
	}
	if nGlobals < 30 {
		c.undecided("R1", "R1:floor", "", fmt.Sprintf("only %d package-level variables found (floor 30)", nGlobals))
	}
	// concurrency / escape hatches: the C17 argument needs a library without goroutines, locks, unsafe
	bad := []string{}
	for path, p := range c.pkgByPath {
		if !isLibPkgPath(path) || isControlPkgPath(path) {
			continue
		}
		for i, f := range p.Syntax {
			file := p.CompiledGoFiles[i]
			if strings.HasSuffix(file, ".pb.go") {
				continue
			}
			for _, im := range f.Imports {
				switch strings.Trim(im.Path.Value, `"`) {
				case "unsafe", "sync", "sync/atomic":
					bad = append(bad, c.fileOf(f.Pos())+" imports "+im.Path.Value)
				}
			}
		}
	}
	for _, fn := range c.libFns {
		if strings.HasSuffix(c.fileOf(fn.Pos()), ".pb.go") {
			continue
		}
		for _, b := range fn.Blocks {
			for _, in := range b.Instrs {
				if _, ok := in.(*ssa.Go); ok {
					bad = append(bad, c.pos(in.Pos())+" starts a goroutine")
				}
			}
		}
	}
	if len(bad) > 0 {
		c.undecided("R1", "R1:concurrency-free", "", "library now uses goroutines/locks/unsafe; the effect argument no longer covers it: "+strings.Join(bad, "; "))
	} else {
		c.discharge("R1", "R1:concurrency-free", "", "no go statement, no import of unsafe/sync/sync/atomic in hand-written library files")
	}
	// control
	found := false
	for _, s := range ef.ctl.sites {
		if isControlFn(s.fn) && s.fn.Name() == "BadGlobalWrite" {
			t := siteTokens(ef.ctl, s)
			for k := range t {
				if strings.HasPrefix(rootOf(k), "Global(") {
					found = true
				}
			}
			if s.what == "store-global" {
				found = true
			}
		}
	}
	st := StDischarged
	if found {
		st = StViolated
	}
	c.add(Obligation{Rule: "R1", Key: "R1:ctl:bad:BadGlobalWrite", Status: st, Control: true, Why: "control: memoising map update"})
	c.wantControls = append(c.wantControls, "R1:ctl:bad:BadGlobalWrite")
}

// analysable drops generated protobuf code other than plain getters (their bodies are reflection
// plumbing; calls into them from hand-written code are handled as externals).
func (c *Ctx) analysable(fns []*ssa.Function) []*ssa.Function {
	var out []*ssa.Function
	for _, f := range fns {
		if strings.HasSuffix(c.fileOf(f.Pos()), ".pb.go") {
			root := f
			for root.Parent() != nil {
				root = root.Parent()
			}
			if !strings.HasPrefix(root.Name(), "Get") {
				continue
			}
		}
		if f.Synthetic != "" && f.Name() == "init" && fnPkgPath(f) == pkgOnnx {
			// package initialiser of the generated package: only its stores matter (R1 exempts init)
		}
		out = append(out, f)
	}
	return out
}

// localFresh: the written storage is an allocation made in the same function (new/make/composite
// literal), directly or through element/field addressing.
func localFresh(v ssa.Value) bool {
	for i := 0; i < 8; i++ {
		switch x := v.(type) {
		case *ssa.Alloc, *ssa.MakeSlice, *ssa.MakeMap:
			return true
		case *ssa.IndexAddr:
			v = x.X
		case *ssa.Slice:
			v = x.X
		case *ssa.FieldAddr:
			v = x.X
		default:
			return false
		}
	}
	return false
}

// ruleR3Weights — the map of initializers, which the shape validator consults to decide which inputs
// may be omitted, is never written after construction (C13).
func ruleR3Weights(c *Ctx, prop string) {
	ef := c.effects()
	n := 0
	for _, s := range ef.real.sites {
		if !isLibFn(s.fn) || s.levels != "C" {
			continue
		}
		t := siteTokens(ef.real, s)
		has := false
		for k := range t {
			if rootOf(k) == "Weights" && lvl(k) == 'C' {
				has = true
			}
		}
		if !has {
			continue
		}
		n++
		c.add(Obligation{Rule: "R3", Key: fmt.Sprintf("R3:weights-map:%s:%s#%d", fname(s.fn), s.what, s.ord), Site: c.pos(s.instr.Pos()), Status: StViolated,
			Why:  s.what + " writes into the model's map of initializers: names stored there are treated as initializers by the shape validator, which then no longer requires or checks them on later Runs",
			Path: c.witness(ef.entries, s.fn)})
	}
	if n == 0 {
		c.discharge("R3", "R3:weights-map", "", fmt.Sprintf("%d container-level write sites in the library; none can reach Model.parameters", countLevelC(ef.real)))
	}
}

func countLevelC(r *e2Result) int {
	n := 0
	for _, s := range r.sites {
		if s.levels == "C" {
			n++
		}
	}
	return n
}

func sortedKeysTok(t tokset) []string {
	var out []string
	for k := range t {
		out = append(out, k)
	}
	sort.Strings(out)
	return out
}
