package main

// The Constant operator's attribute table by finite walk (C11).
//
// Constant.Init is walked (not executed) with a node that carries 0, 1 or 2 attributes, the single attribute named
// value, value_float, value_floats, value_int, value_ints, one of the unsupported names or an unknown name. The
// attribute's payload fields hold tokens, so the walk sees which field reaches which tensor constructor: the
// operator's value must be tensor.New(FromScalar(f)) / tensor.New(WithShape(len), WithBacking(list)) of the ONNX
// field of that name or the decoded tensor of the T field; every other node is refused with an error.

import (
	"fmt"
	"go/types"
	"os"

	"golang.org/x/tools/go/ssa"
)

// constantTable: known=false when a cell cannot be followed; bads maps the obligation suffix (attribute name,
// "refusals", "count") to what is wrong.
func (c *Ctx) constantTable() (known bool, bads map[string]string) {
	oi := c.opByName("Constant")
	onnxPkg := c.pkgByPath[pkgOnnx]
	if oi == nil || oi.methods["Init"] == nil || onnxPkg == nil {
		return false, nil
	}
	st := c.libInit()
	if len(st.failed) > 0 {
		return false, nil
	}
	init := oi.methods["Init"]
	bads = map[string]string{}
	type cellRes struct {
		followed, isErr bool
		value           pval
		heap            *pheap
		news            map[int64][]pval // abstract tensor id -> options it was built from
	}
	cov := newCover(init)
	tokF, tokI := pval{k: pAbs, i: 8101, s: "attr.F"}, pval{k: pAbs, i: 8102, s: "attr.I"}
	decoded := pval{k: pAbs, i: 8201, s: "tensor"}
	run := func(names []string, decodeFails bool) (cellRes, pval, pval, pval) {
		heap := st.heap.clone()
		b := &rtBuilder{c: c, heap: heap, onnx: onnxPkg.Types}
		floats := heap.alloc([]pval{{k: pAbs, i: 8111, s: "f0"}, {k: pAbs, i: 8112, s: "f1"}})
		ints := heap.alloc([]pval{{k: pAbs, i: 8121, s: "i0"}, {k: pAbs, i: 8122, s: "i1"}, {k: pAbs, i: 8123, s: "i2"}})
		tproto := b.obj(onnxPkg.Types, "TensorProto", map[string]pval{})
		var attrs []pval
		for _, n := range names {
			attrs = append(attrs, b.obj(onnxPkg.Types, "AttributeProto", map[string]pval{"Name": {k: pStr, s: n}, "F": tokF, "I": tokI, "Floats": floats, "Ints": ints, "T": tproto}))
		}
		node := b.obj(onnxPkg.Types, "NodeProto", map[string]pval{"Attribute": b.list(attrs...)})
		recv := heap.newObj(oi.named)
		p := &pinterp{c: c, budget: 300000, objects: true, globals: st.globals, cover: cov, trace: os.Getenv("CONSTTRACE") != "" && len(names) == 1 && names[0] == os.Getenv("CONSTTRACE")}
		res := cellRes{news: map[int64][]pval{}}
		next := int64(8300)
		p.extModel = func(key string, call *ssa.Call, ops []pval, h *pheap) ([]pval, bool) {
			switch key {
			case pkgTensor + ".FromScalar", pkgTensor + ".WithBacking", pkgTensor + ".WithShape":
				next++
				h.lists[next] = append([]pval{{k: pStr, s: key[len(pkgTensor)+1:]}}, ops...)
				return []pval{{k: pAbs, i: next, s: "option"}}, true
			case pkgTensor + ".New":
				next++
				var opts []pval
				if len(ops) == 1 && ops[0].k == pList {
					opts = h.lists[ops[0].i]
				}
				res.news[next] = opts
				return []pval{{k: pAbs, i: next, s: "tensor"}}, true
			}
			return nil, false
		}
		p.intercept = func(fn *ssa.Function, call *ssa.Call, callee *ssa.Function, args []pval, h *pheap) ([]pval, bool) {
			if fnPkgPath(callee) == pkgOnnx && callee.Name() == "TensorFromProto" && callee.Parent() == nil {
				if len(args) != 1 || args[0].k != pObj || args[0].i != tproto.i {
					return []pval{{k: pPoison}, {k: pPoison}}, true
				}
				if decodeFails {
					return []pval{{k: pNil}, {k: pNonNil}}, true
				}
				return []pval{decoded, {k: pNil}}, true
			}
			return nil, false
		}
		r, h := p.run(init, []pval{recv, node}, 0, heap)
		if p.aborted || len(r) != 1 || h == nil {
			return res, floats, ints, tproto
		}
		switch {
		case nonNilKind(r[0].k):
			res.followed, res.isErr = true, true
		case r[0].k == pNil:
			res.followed = true
		}
		res.heap = h
		if o := h.objs[recv.i]; o != nil {
			if stt, ok := oi.named.Underlying().(*types.Struct); ok {
				for i := 0; i < stt.NumFields(); i++ {
					if stt.Field(i).Name() == "value" {
						res.value = o.fields[i]
					}
				}
			}
		}
		return res, floats, ints, tproto
	}
	// option of the built tensor: (kind, operands)
	opt := func(r cellRes, kind string) ([]pval, bool) {
		if r.value.k != pAbs {
			return nil, false
		}
		for _, o := range r.news[r.value.i] {
			if o.k == pAbs && o.s == "option" {
				if l := r.heap.lists[o.i]; len(l) >= 1 && l[0].s == kind {
					return l[1:], true
				}
			}
		}
		return nil, false
	}
	cells := 0
	for _, name := range []string{"value_float", "value_int"} {
		r, _, _, _ := run([]string{name}, false)
		if !r.followed {
			return false, nil
		}
		cells++
		want := tokF
		if name == "value_int" {
			want = tokI
		}
		a, ok := opt(r, "FromScalar")
		switch {
		case r.isErr:
			bads[name] = "a node with the single attribute " + name + " is refused"
		case !ok || len(a) < 1 || a[0].k != pAbs || a[0].i != want.i || len(r.news[r.value.i]) != 1:
			bads[name] = "attribute " + name + " does not become tensor.New(FromScalar(" + want.s + ")) in the operator's value"
		}
	}
	for _, name := range []string{"value_floats", "value_ints"} {
		r, floats, ints, _ := run([]string{name}, false)
		if !r.followed {
			return false, nil
		}
		cells++
		want, n := floats, int64(2)
		if name == "value_ints" {
			want, n = ints, 3
		}
		bk, ok1 := opt(r, "WithBacking")
		sh, ok2 := opt(r, "WithShape")
		shapeOK := false
		if ok2 && len(sh) == 1 && sh[0].k == pList {
			l := r.heap.lists[sh[0].i]
			shapeOK = len(l) == 1 && l[0].k == pInt && l[0].i == n
		}
		switch {
		case r.isErr:
			bads[name] = "a node with the single attribute " + name + " is refused"
		case !ok1 || len(bk) < 1 || bk[0].k != pList || bk[0].i != want.i:
			bads[name] = "attribute " + name + " is not the backing of the operator's value"
		case !shapeOK:
			bads[name] = fmt.Sprintf("the tensor built from %s does not state the shape (len) of the list", name)
		}
	}
	{
		r, _, _, _ := run([]string{"value"}, false)
		r2, _, _, _ := run([]string{"value"}, true)
		if !r.followed || !r2.followed {
			return false, nil
		}
		cells += 2
		switch {
		case r.isErr:
			bads["value"] = "a node with the single attribute value is refused"
		case r.value.k != pAbs || r.value.i != decoded.i:
			bads["value"] = "attribute value does not become the decoded tensor of its T field"
		case !r2.isErr:
			bads["value"] = "a value tensor that cannot be decoded is not refused"
		}
	}
	for _, name := range []string{"sparse_value", "value_string", "value_strings", "no_such_attribute", ""} {
		r, _, _, _ := run([]string{name}, false)
		if !r.followed {
			return false, nil
		}
		cells++
		if !r.isErr {
			bads["refusals"] = fmt.Sprintf("a node with the single attribute %q is not refused", name)
		}
	}
	for _, names := range [][]string{{}, {"value_float", "value_int"}, {"value_int", "value_int"}} {
		r, _, _, _ := run(names, false)
		if !r.followed {
			return false, nil
		}
		cells++
		if !r.isErr {
			bads["count"] = fmt.Sprintf("a node with %d attributes is accepted", len(names))
		}
	}
	if unc := cov.uncovered(c); len(unc) > 0 && len(bads) == 0 {
		c.declined("Constant attribute table", unc)
		return false, nil
	}
	c.counts["R14:constant:table-cells"] = cells
	return true, bads
}
