package main

import (
	"go/constant"
	"go/token"
	"go/types"
	"strings"

	"golang.org/x/tools/go/ssa"
)

// guard is one conditional edge that dominates a block: cond evaluated to `truth`.
type guard struct {
	cond  ssa.Value
	truth bool
	at    *ssa.BasicBlock // the block ending in the If
}

// guardsOf lists the conditional edges dominating block b (edge-sensitive: an edge p->d counts only
// when d has p as its sole predecessor, so that every path into d took that edge).
func guardsOf(b *ssa.BasicBlock) []guard {
	var out []guard
	for d := b; d != nil; d = d.Idom() {
		if len(d.Preds) != 1 {
			continue
		}
		p := d.Preds[0]
		if len(p.Instrs) == 0 {
			continue
		}
		iff, ok := p.Instrs[len(p.Instrs)-1].(*ssa.If)
		if !ok {
			continue
		}
		if p.Succs[0] == d && p.Succs[1] == d {
			continue
		}
		out = append(out, guard{cond: iff.Cond, truth: p.Succs[0] == d, at: p})
	}
	return out
}

// atom is a normalised comparison "x op y" known to hold.
type atom struct {
	op   token.Token
	x, y ssa.Value
}

func negate(op token.Token) token.Token {
	switch op {
	case token.EQL:
		return token.NEQ
	case token.NEQ:
		return token.EQL
	case token.LSS:
		return token.GEQ
	case token.GEQ:
		return token.LSS
	case token.GTR:
		return token.LEQ
	case token.LEQ:
		return token.GTR
	}
	return token.ILLEGAL
}

// atomsOf expands a guard into the comparison atoms that hold on that edge (through !x).
// Boolean calls are returned as op=ILLEGAL with x = the call (truth folded into y == nil => true, y != nil => false marker).
func atomsOf(g guard) []atom {
	v, truth := g.cond, g.truth
	for {
		if u, ok := v.(*ssa.UnOp); ok && u.Op == token.NOT {
			v = u.X
			truth = !truth
			continue
		}
		break
	}
	if b, ok := v.(*ssa.BinOp); ok {
		op := b.Op
		if !truth {
			op = negate(op)
		}
		if op == token.ILLEGAL {
			return nil
		}
		return []atom{{op: op, x: b.X, y: b.Y}}
	}
	return nil
}

// boolGuards returns the non-comparison boolean values (calls, extracts) known true/false at b.
func boolFacts(b *ssa.BasicBlock) map[ssa.Value]bool {
	out := map[ssa.Value]bool{}
	for _, g := range guardsOf(b) {
		v, truth := g.cond, g.truth
		for {
			if u, ok := v.(*ssa.UnOp); ok && u.Op == token.NOT {
				v = u.X
				truth = !truth
				continue
			}
			break
		}
		if _, ok := v.(*ssa.BinOp); ok {
			continue
		}
		out[v] = truth
	}
	return out
}

func isNilConst(v ssa.Value) bool {
	c, ok := v.(*ssa.Const)
	return ok && c.Value == nil
}

func constInt(v ssa.Value) (int64, bool) {
	c, ok := v.(*ssa.Const)
	if !ok || c.Value == nil {
		return 0, false
	}
	if c.Value.Kind() != constant.Int {
		return 0, false
	}
	n, ok := constant.Int64Val(c.Value)
	return n, ok
}

// knownNonNil: is value v known to be != nil in block b (dominating edge of v != nil)?
func knownNonNil(v ssa.Value, b *ssa.BasicBlock) bool {
	for _, g := range guardsOf(b) {
		for _, a := range atomsOf(g) {
			if a.op == token.NEQ && ((a.x == v && isNilConst(a.y)) || (a.y == v && isNilConst(a.x))) {
				return true
			}
		}
	}
	return false
}

// unwrapIface strips MakeInterface/ChangeInterface/ChangeType.
func unwrapConv(v ssa.Value) ssa.Value {
	for {
		switch x := v.(type) {
		case *ssa.MakeInterface:
			v = x.X
		case *ssa.ChangeInterface:
			v = x.X
		case *ssa.ChangeType:
			v = x.X
		default:
			return v
		}
	}
}

// returnsOf lists the Return instructions of fn.
func returnsOf(fn *ssa.Function) []*ssa.Return {
	var out []*ssa.Return
	for _, b := range fn.Blocks {
		if len(b.Instrs) == 0 {
			continue
		}
		if r, ok := b.Instrs[len(b.Instrs)-1].(*ssa.Return); ok {
			out = append(out, r)
		}
	}
	return out
}

// errResultIndex returns the index of the (last) result of type error, or -1.
func errResultIndex(sig *types.Signature) int {
	res := sig.Results()
	for i := res.Len() - 1; i >= 0; i-- {
		if isErrorType(res.At(i).Type()) {
			return i
		}
	}
	return -1
}

func isErrorType(t types.Type) bool {
	n, ok := t.(*types.Named)
	return ok && n.Obj().Pkg() == nil && n.Obj().Name() == "error"
}

// definitelyNonNilErr decides whether error-typed value v, used in block b, cannot be nil.
func (c *Ctx) definitelyNonNilErr(v ssa.Value, b *ssa.BasicBlock, depth int) bool {
	if depth > 4 {
		return false
	}
	switch x := v.(type) {
	case *ssa.Const:
		return false
	case *ssa.MakeInterface:
		return true // an interface built from a concrete value is != nil
	case *ssa.ChangeInterface:
		return c.definitelyNonNilErr(x.X, b, depth+1)
	case *ssa.Phi:
		all := len(x.Edges) > 0
		for i, e := range x.Edges {
			pb := x.Block().Preds[i]
			if !c.definitelyNonNilErr(e, pb, depth+1) {
				all = false
				break
			}
		}
		if all {
			return true
		}
		// else: a dominating nil test of the merged value may still settle it
	case *ssa.UnOp:
		if x.Op == token.MUL {
			if g, ok := x.X.(*ssa.Global); ok {
				return c.isSentinelGlobal(g)
			}
		}
	case *ssa.Call:
		if c.callAlwaysNonNilErr(x, depth) {
			return true
		}
	case *ssa.Extract:
		// error component of a tuple: a callee of the library every return of which gives a non-nil error at that
		// position (a local closure or helper that builds the refusal), else only via a dominating check
		if call, ok := x.Tuple.(*ssa.Call); ok {
			if f := call.Common().StaticCallee(); f != nil && isLibFn(f) && f.Blocks != nil && x.Index < f.Signature.Results().Len() &&
				isErrorType(f.Signature.Results().At(x.Index).Type()) {
				all := true
				for _, r := range returnsOf(f) {
					if !c.definitelyNonNilErr(r.Results[x.Index], r.Block(), depth+1) {
						all = false
						break
					}
				}
				if all && len(returnsOf(f)) > 0 {
					return true
				}
			}
		}
	}
	if b != nil && knownNonNil(v, b) {
		return true
	}
	return false
}

func (c *Ctx) callAlwaysNonNilErr(call *ssa.Call, depth int) bool {
	f := call.Common().StaticCallee()
	if f == nil {
		return false
	}
	q := ""
	if o := calleeObj(call); o != nil {
		q = qualName(o)
	}
	switch q {
	case "fmt.Errorf", "errors.New":
		return true
	}
	if !isLibFn(f) || f.Blocks == nil {
		return false
	}
	idx := errResultIndex(f.Signature)
	if idx < 0 || f.Signature.Results().Len() != 1 {
		return false
	}
	for _, r := range returnsOf(f) {
		if !c.definitelyNonNilErr(r.Results[idx], r.Block(), depth+1) {
			return false
		}
	}
	return true
}

// isSentinelGlobal: a package-level error variable initialised once by errors.New in the package
// initialiser (R1 separately guarantees nobody writes it later).
func (c *Ctx) isSentinelGlobal(g *ssa.Global) bool {
	if g.Pkg == nil || !isLibPkgPath(g.Pkg.Pkg.Path()) {
		return false
	}
	pt, ok := g.Type().(*types.Pointer)
	if !ok || !isErrorType(pt.Elem()) {
		return false
	}
	init := g.Pkg.Func("init")
	if init == nil {
		return false
	}
	for _, b := range init.Blocks {
		for _, in := range b.Instrs {
			if st, ok := in.(*ssa.Store); ok && st.Addr == g {
				if call, ok := st.Val.(*ssa.Call); ok {
					if o := calleeObj(call); o != nil && (qualName(o) == "errors.New" || qualName(o) == "fmt.Errorf") {
						return true
					}
				}
			}
		}
	}
	return false
}

// errWraps decides whether error value v is (or wraps with %w) the sentinel global.
func (c *Ctx) errWraps(v ssa.Value, sentinel *ssa.Global, depth int) bool {
	if depth > 4 {
		return false
	}
	switch x := v.(type) {
	case *ssa.UnOp:
		if x.Op == token.MUL && x.X == sentinel {
			return true
		}
	case *ssa.Phi:
		for _, e := range x.Edges {
			if !c.errWraps(e, sentinel, depth+1) {
				return false
			}
		}
		return len(x.Edges) > 0
	case *ssa.Call:
		o := calleeObj(x)
		if o != nil && qualName(o) == "fmt.Errorf" {
			args := x.Common().Args
			if len(args) < 2 {
				return false
			}
			fc, ok := args[0].(*ssa.Const)
			if !ok || fc.Value == nil || fc.Value.Kind() != constant.String {
				return false
			}
			if !strings.Contains(constant.StringVal(fc.Value), "%w") {
				return false
			}
			// variadic args: stores into the varargs array
			for _, e := range varargElems(args[1]) {
				if c.errWraps(unwrapConvKeepIface(e), sentinel, depth+1) {
					return true
				}
			}
			return false
		}
		f := x.Common().StaticCallee()
		if f != nil && isLibFn(f) && f.Blocks != nil {
			idx := errResultIndex(f.Signature)
			if idx < 0 {
				return false
			}
			rs := returnsOf(f)
			for _, r := range rs {
				if !c.errWraps(r.Results[idx], sentinel, depth+1) {
					return false
				}
			}
			return len(rs) > 0
		}
	}
	return false
}

func unwrapConvKeepIface(v ssa.Value) ssa.Value {
	for {
		switch x := v.(type) {
		case *ssa.ChangeInterface:
			v = x.X
		case *ssa.MakeInterface:
			// error stored into any: error -> any is ChangeInterface; MakeInterface means concrete
			return x.X
		default:
			return v
		}
	}
}

// varargElems returns the values stored into the backing array of a variadic slice argument
// (`new [n]T (varargs)` + IndexAddr stores + Slice).
func varargElems(v ssa.Value) []ssa.Value {
	sl, ok := v.(*ssa.Slice)
	if !ok {
		return nil
	}
	al, ok := sl.X.(*ssa.Alloc)
	if !ok {
		return nil
	}
	var out []ssa.Value
	for _, ref := range *al.Referrers() {
		ia, ok := ref.(*ssa.IndexAddr)
		if !ok {
			continue
		}
		for _, r2 := range *ia.Referrers() {
			if st, ok := r2.(*ssa.Store); ok && st.Addr == ia {
				out = append(out, st.Val)
			}
		}
	}
	return out
}

// rejectingEdge: does the edge of `iff` with the given truth lead (immediately, in the successor
// block or through straight-line blocks) to a Return whose error result is definitely non-nil?
func (c *Ctx) edgeRejects(iff *ssa.If, truth bool) bool {
	b := iff.Block()
	s := b.Succs[1]
	if truth {
		s = b.Succs[0]
	}
	return c.blockRejects(s, 0)
}

func (c *Ctx) blockRejects(s *ssa.BasicBlock, depth int) bool {
	if depth > 6 || len(s.Instrs) == 0 {
		return false
	}
	switch last := s.Instrs[len(s.Instrs)-1].(type) {
	case *ssa.Return:
		idx := errResultIndex(s.Parent().Signature)
		if idx < 0 {
			return false
		}
		return c.definitelyNonNilErr(last.Results[idx], s, 0)
	case *ssa.Jump:
		return c.blockRejects(s.Succs[0], depth+1)
	case *ssa.If:
		return c.blockRejects(s.Succs[0], depth+1) && c.blockRejects(s.Succs[1], depth+1)
	case *ssa.Panic:
		return false
	}
	return false
}
