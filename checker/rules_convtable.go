package main

// R42 — Conv against direct convolution by finite provenance table (C05, C16)
//
// Conv.Init and Conv.Apply are walked (not executed) on tensors whose elements are names (x0.., w0.., b0..): gorgonia's
// NewDense / Zero / Concat / Slice / Materialize / Reshape / Repeat / Mul / Sum / Add / At / SetAt / Iterator enter as
// their element-placement contracts, so the result carries, per output position, the sum of products it is made of.
// That is compared with the ONNX definition
//
//	out[n,m,o..] = sum over c,k.. of x[n,c,o*stride + k*dilation - pad_begin ..] * w[m,c,k..]  (+ b[m])
//
// for 1-D and 2-D geometries with non-square images and kernels, unequal strides, asymmetric pads, dilations, bias
// given or not, SAME_UPPER / SAME_LOWER. How the operator is factored (helpers, closures, loops) does not matter;
// nothing is computed numerically.

import (
	"fmt"
	"go/types"
	"os"
	"regexp"
	"sort"
	"strings"

	"golang.org/x/tools/go/ssa"
)

type convOut struct {
	cell  convCell
	shape []int64
	elems []string
}

type convCell struct {
	x, w                       []int64
	strides, pads, dil, kshape []int64
	autoPad                    string
	refuse                     bool // a configuration the library does not implement
	f64                        bool // float64 operands (float32 otherwise)
	bias                       bool
	autoPadFirst               bool // the auto_pad attribute is listed before the others (attribute order carries no meaning)
}

func (cell convCell) String() string {
	s := fmt.Sprintf("x %s, w %s", fmtInts(cell.x), fmtInts(cell.w))
	if cell.strides != nil {
		s += ", strides " + fmtInts(cell.strides)
	}
	if cell.pads != nil {
		s += ", pads " + fmtInts(cell.pads)
	}
	if cell.dil != nil {
		s += ", dilations " + fmtInts(cell.dil)
	}
	if cell.kshape != nil {
		s += ", kernel_shape " + fmtInts(cell.kshape)
	}
	if cell.autoPad != "" {
		s += ", auto_pad " + cell.autoPad
		if cell.autoPadFirst {
			s += " (listed first)"
		} else if cell.pads != nil {
			s += " (listed after pads)"
		}
	}
	if cell.bias {
		s += ", with bias"
	}
	if cell.f64 {
		s += ", float64"
	}
	return s
}

// convExpected: output shape and element expressions of the direct convolution.
func convExpected(cell convCell) ([]int64, []string) {
	nsp := len(cell.x) - 2
	strides, dil := make([]int64, nsp), make([]int64, nsp)
	for i := range strides {
		strides[i], dil[i] = 1, 1
		if cell.strides != nil {
			strides[i] = cell.strides[i]
		}
		if cell.dil != nil {
			dil[i] = cell.dil[i]
		}
	}
	pb, pe := make([]int64, nsp), make([]int64, nsp)
	if cell.pads != nil {
		copy(pb, cell.pads[:nsp])
		copy(pe, cell.pads[nsp:])
	}
	dk := make([]int64, nsp)
	for i := range dk {
		k := cell.w[2+i]
		dk[i] = k + (k-1)*(dil[i]-1)
	}
	if cell.autoPad == "SAME_UPPER" || cell.autoPad == "SAME_LOWER" {
		for i := 0; i < nsp; i++ {
			in := cell.x[2+i]
			out := (in + strides[i] - 1) / strides[i]
			need := (out-1)*strides[i] + dk[i] - in
			if need < 0 {
				need = 0
			}
			if cell.autoPad == "SAME_UPPER" {
				pb[i] = need / 2
			} else {
				pb[i] = need - need/2
			}
			pe[i] = need - pb[i]
		}
	}
	outShape := []int64{cell.x[0], cell.w[0]}
	for i := 0; i < nsp; i++ {
		outShape = append(outShape, (cell.x[2+i]+pb[i]+pe[i]-dk[i])/strides[i]+1)
	}
	flat := func(shape, idx []int64) int64 {
		f := int64(0)
		for d := range shape {
			f = f*shape[d] + idx[d]
		}
		return f
	}
	var out []string
	var rec func(d int, idx []int64)
	rec = func(d int, idx []int64) {
		if d == len(outShape) {
			var terms []string
			var krec func(kd int, kidx []int64)
			krec = func(kd int, kidx []int64) {
				if kd == nsp+1 {
					// kidx[0] = channel, kidx[1:] = kernel position
					xi := []int64{idx[0], kidx[0]}
					for i := 0; i < nsp; i++ {
						p := idx[2+i]*strides[i] + kidx[1+i]*dil[i] - pb[i]
						if p < 0 || p >= cell.x[2+i] {
							return
						}
						xi = append(xi, p)
					}
					wi := append([]int64{idx[1]}, kidx...)
					f := []string{fmt.Sprintf("w%d", flat(cell.w, wi)), fmt.Sprintf("x%d", flat(cell.x, xi))}
					sort.Strings(f)
					terms = append(terms, strings.Join(f, "*"))
					return
				}
				lim := cell.x[1]
				if kd > 0 {
					lim = cell.w[1+kd]
				}
				for k := int64(0); k < lim; k++ {
					krec(kd+1, append(append([]int64{}, kidx...), k))
				}
			}
			krec(0, nil)
			if cell.bias {
				terms = append(terms, fmt.Sprintf("b%d", idx[1]))
			}
			sort.Strings(terms)
			if len(terms) == 0 {
				out = append(out, "0")
			} else {
				out = append(out, strings.Join(terms, "+"))
			}
			return
		}
		for k := int64(0); k < outShape[d]; k++ {
			rec(d+1, append(append([]int64{}, idx...), k))
		}
	}
	rec(0, nil)
	return outShape, out
}

func (c *Ctx) convTable() (known bool, bad string, cells int) {
	if c.convMemo != nil {
		return c.convMemo.known, c.convMemo.bad, c.convMemo.cells
	}
	known, bad, cells = c.convTable1()
	c.convMemo = &recRes{known, bad, cells}
	return
}

func (c *Ctx) convTable1() (known bool, bad string, cells int) {
	oi := c.opByName("Conv")
	st := c.libInit()
	onnxPkg := c.pkgByPath[pkgOnnx]
	if oi == nil || oi.methods["Apply"] == nil || oi.methods["Init"] == nil || len(st.failed) > 0 || onnxPkg == nil {
		return false, "", 0
	}
	list := []convCell{
		{x: []int64{2, 2, 5}, w: []int64{3, 2, 2}},
		{x: []int64{2, 2, 5}, w: []int64{3, 2, 2}, strides: []int64{2}, pads: []int64{1, 0}},
		{x: []int64{1, 2, 6}, w: []int64{2, 2, 2}, dil: []int64{2}, pads: []int64{0, 2}, bias: true},
		{x: []int64{1, 1, 5}, w: []int64{1, 1, 3}, kshape: []int64{3}, strides: []int64{3}, pads: []int64{2, 1}},
		{x: []int64{1, 2, 4, 5}, w: []int64{2, 2, 2, 3}, bias: true},
		{x: []int64{1, 2, 4, 5}, w: []int64{2, 2, 2, 3}, strides: []int64{1, 2}, pads: []int64{1, 0, 0, 2}},
		{x: []int64{1, 1, 4, 6}, w: []int64{1, 1, 2, 2}, dil: []int64{1, 3}, strides: []int64{2, 1}},
		{x: []int64{2, 1, 3, 4}, w: []int64{1, 1, 2, 1}, pads: []int64{0, 1, 1, 0}, dil: []int64{2, 1}},
		{x: []int64{2, 3, 5, 4}, w: []int64{1, 3, 3, 2}, strides: []int64{2, 3}, autoPad: "SAME_UPPER"},
		{x: []int64{1, 1, 7}, w: []int64{1, 1, 2}, dil: []int64{2}, autoPad: "SAME_UPPER"}, // the dilated extent counts
		{x: []int64{1, 1, 3}, w: []int64{1, 1, 2}, pads: []int64{1, 3}},                    // windows that start beyond the unpadded input
		{x: []int64{1, 1, 3, 4}, w: []int64{1, 1, 2, 2}, pads: []int64{0, 1, 0, 2}},        // only the second axis is padded
		{x: []int64{1, 1, 5, 4}, w: []int64{1, 1, 3, 2}, strides: []int64{2, 3}, autoPad: "SAME_LOWER"},
		{x: []int64{1, 1, 6}, w: []int64{1, 1, 2}, strides: []int64{4}, autoPad: "SAME_UPPER"},
		{x: []int64{1, 1, 6}, w: []int64{1, 1, 2}, strides: []int64{3}, autoPad: "SAME_UPPER"}, // the windows cover the input without padding
		{x: []int64{1, 2, 4, 3}, w: []int64{2, 2, 1, 2}},                                       // kernel extents of one
		{x: []int64{2, 2, 3, 3}, w: []int64{1, 2, 1, 1}, bias: true},
		{x: []int64{1, 3, 5, 4}, w: []int64{1, 3, 3, 2}, strides: []int64{2, 3}, autoPad: "SAME_UPPER"}, // derived pads with one sample
		{x: []int64{1, 2, 5}, w: []int64{3, 2, 2}},                                                      // the first geometry with one sample
		{x: []int64{1, 2, 3, 3}, w: []int64{1, 2, 1, 1}, bias: true},                                    // and the 1x1 kernel with one sample
		{x: []int64{1, 1, 2, 2, 2}, w: []int64{1, 1, 1, 1, 1}, refuse: true},                            // 3-D: not implemented, to be refused
		// auto_pad given explicitly as NOTSET next to explicit pads, in both attribute orders
		{x: []int64{1, 2, 4, 5}, w: []int64{2, 2, 2, 3}, strides: []int64{1, 2}, pads: []int64{1, 0, 0, 2}, autoPad: "NOTSET"},
		{x: []int64{1, 2, 4, 5}, w: []int64{2, 2, 2, 3}, strides: []int64{1, 2}, pads: []int64{1, 0, 0, 2}, autoPad: "NOTSET", autoPadFirst: true},
		{x: []int64{1, 1, 5}, w: []int64{1, 1, 3}, pads: []int64{2, 1}, autoPad: "NOTSET"},
		{x: []int64{1, 1, 5}, w: []int64{1, 1, 3}, pads: []int64{2, 1}, autoPad: "NOTSET", autoPadFirst: true},
		{x: []int64{1, 1, 5, 4}, w: []int64{1, 1, 3, 2}, strides: []int64{2, 3}, autoPad: "SAME_LOWER", autoPadFirst: true},
	}
	// both admitted element types: the hand-picked geometries once more with float64 operands
	for _, cell := range append([]convCell{}, list...) {
		if !cell.refuse {
			cell.f64 = true
			list = append(list, cell)
		}
	}
	list = append(list, convSweep(c.tier == "thorough")...)
	ctor := c.registeredCtor(oi, "Conv")
	if ctor == nil {
		return false, "", 0
	}
	cov := newCover(oi.methods["Apply"])
	cov.skip = skipInitOnly(c, oi, ctor)
	cov.pkgs = map[string]bool{pkgOpset13: true} // the broadcast helper's other branches are R36's subject
	prep := func(cell convCell) (p *pinterp, recv pval, heap *pheap, mk func(prefix string, shape []int64) pval, panicked *string, ok bool) {
		heap = st.heap.clone()
		b := &rtBuilder{c: c, heap: heap, onnx: onnxPkg.Types}
		ints := func(l []int64) pval {
			pl := make([]pval, len(l))
			for i, v := range l {
				pl[i] = pval{k: pInt, i: v}
			}
			return heap.alloc(pl)
		}
		var attrs []pval
		add := func(name string, fields map[string]pval) {
			fields["Name"] = pval{k: pStr, s: name}
			attrs = append(attrs, b.obj(onnxPkg.Types, "AttributeProto", fields))
		}
		if cell.autoPad != "" && cell.autoPadFirst {
			add("auto_pad", map[string]pval{"S": {k: pStr, s: cell.autoPad}})
		}
		if cell.strides != nil {
			add("strides", map[string]pval{"Ints": ints(cell.strides)})
		}
		if cell.pads != nil {
			add("pads", map[string]pval{"Ints": ints(cell.pads)})
		}
		if cell.dil != nil {
			add("dilations", map[string]pval{"Ints": ints(cell.dil)})
		}
		if cell.kshape != nil {
			add("kernel_shape", map[string]pval{"Ints": ints(cell.kshape)})
		}
		if cell.autoPad != "" && !cell.autoPadFirst {
			add("auto_pad", map[string]pval{"S": {k: pStr, s: cell.autoPad}})
		}
		node := b.obj(onnxPkg.Types, "NodeProto", map[string]pval{"Attribute": b.list(attrs...)})
		p = &pinterp{c: c, budget: 6000000, objects: true, content: true, globals: st.globals, cover: cov, listsAreSlicesOf: types.Typ[types.Int64], trace: os.Getenv("CONVTRACE") != ""}
		panicked = new(string)
		p.onPanic = func(fn *ssa.Function, in ssa.Instruction, what string) { *panicked = what + " at " + c.pos(in.Pos()) }
		res, h := p.run(ctor, nil, 0, heap)
		if h == nil || len(res) != 1 || res[0].k != pObj {
			if os.Getenv("CONVDEBUG") != "" {
				fmt.Println("CONVDEBUG exit 1", cell)
			}
			return
		}
		recv = res[0]
		res, h = p.run(oi.methods["Init"], []pval{recv, node}, 0, h)
		if h == nil || len(res) != 1 || res[0].k != pNil {
			if os.Getenv("CONVDEBUG") != "" {
				fmt.Println("CONVDEBUG Init not followed", cell, res)
			}
			return
		}
		mk = func(prefix string, shape []int64) pval {
			total := int64(1)
			for _, e := range shape {
				total *= e
			}
			cont := make([]pval, total)
			for k := range cont {
				cont[k] = pval{k: pStr, s: fmt.Sprintf("%s%d", prefix, k)}
			}
			return pval{k: pShaped, i: 900, j: ints(shape).i, m: heap.alloc(cont).i}
		}
		heap = h
		return p, recv, heap, mk, panicked, true
	}
	firstBad := ""
	noteBad := func(what string) {
		if firstBad == "" {
			firstBad = what
		}
	}
	c.convOuts = nil
	for _, cell := range list {
		p, recv, heap, mk, panicked, ok := prep(cell)
		if !ok {
			return false, "", cells
		}
		inputs := []pval{mk("x", cell.x), mk("w", cell.w), {k: pNil}}
		if cell.bias {
			inputs[2] = mk("b", []int64{cell.w[0]})
		}
		// what Dtype() answers and what a raw backing (Data()) of an operand is a slice of
		elemT, dtName := types.Type(types.Typ[types.Float32]), "Float32"
		if cell.f64 {
			elemT, dtName = types.Typ[types.Float64], "Float64"
		}
		p.listsAreSlicesOf = elemT
		p.contentType = elemT
		if dt, ok := c.dtypeToken(dtName); ok {
			p.contentDtype = dt
		}
		res, h := p.run(oi.methods["Apply"], []pval{recv, heap.alloc(inputs)}, 0, heap)
		if *panicked != "" {
			noteBad(fmt.Sprintf("Conv with %s panics: %s", cell, *panicked))
			continue
		}
		if p.aborted || len(res) != 2 {
			if os.Getenv("CONVDEBUG") != "" {
				fmt.Println("CONVDEBUG Apply not followed", cell, res, p.aborted)
			}
			return false, "", cells
		}
		if cell.refuse {
			if nonNilKind(res[1].k) {
				cells++
				continue
			}
			if res[1].k == pNil {
				noteBad(fmt.Sprintf("Conv with %s is computed; the library implements 1-D and 2-D convolution only", cell))
				continue
			}
			return false, "", cells
		}
		if nonNilKind(res[1].k) {
			noteBad(fmt.Sprintf("Conv with %s is refused", cell))
			continue
		}
		if h == nil || res[0].k != pList || (res[1].k != pNil && res[1].k != pUnknown) {
			if os.Getenv("CONVDEBUG") != "" {
				fmt.Println("CONVDEBUG result not followed", cell, res, h != nil)
			}
			return false, "", cells
		}
		outs := h.lists[res[0].i]
		if len(outs) != 1 || outs[0].k != pShaped || outs[0].m == 0 {
			if os.Getenv("CONVDEBUG") != "" {
				fmt.Println("CONVDEBUG output not a tensor with content", cell, outs)
			}
			return false, "", cells
		}
		shl, cont := h.lists[outs[0].j], h.lists[outs[0].m]
		if shl == nil || cont == nil {
			if os.Getenv("CONVDEBUG") != "" {
				fmt.Println("CONVDEBUG exit 2", cell)
			}
			return false, "", cells
		}
		cells++
		wantShape, want := convExpected(cell)
		got := make([]int64, len(shl))
		for i, e := range shl {
			got[i] = e.i
		}
		elems, allStr := make([]string, len(cont)), true
		for k := range cont {
			if cont[k].k != pStr {
				allStr = false
			}
			elems[k] = cont[k].s
		}
		if allStr {
			c.convOuts = append(c.convOuts, convOut{cell: cell, shape: got, elems: elems})
		}
		if fmtInts(got) != fmtInts(wantShape) {
			noteBad(fmt.Sprintf("Conv with %s has output shape %s, direct convolution gives %s", cell, fmtInts(got), fmtInts(wantShape)))
			continue
		}
		if len(cont) != len(want) {
			if os.Getenv("CONVDEBUG") != "" {
				fmt.Println("CONVDEBUG exit 3", cell)
			}
			return false, "", cells
		}
		for k := range want {
			if cont[k].k != pStr {
				if os.Getenv("CONVDEBUG") != "" {
					fmt.Println("CONVDEBUG element not followed", cell, k, cont[k])
				}
				return false, "", cells
			}
			if cont[k].s != want[k] {
				idx := make([]int64, len(wantShape))
				rem := int64(k)
				for d := len(wantShape) - 1; d >= 0; d-- {
					idx[d] = rem % wantShape[d]
					rem /= wantShape[d]
				}
				noteBad(fmt.Sprintf("Conv with %s: output element %s is %s, direct convolution gives %s (x and w are numbered in row-major order)", cell, fmtInts(idx), abbreviate(cont[k].s, want[k]), abbreviate(want[k], cont[k].s)))
				break
			}
		}
	}
	// two branches no call of Apply reaches (their callers guard them); entered directly, so that every block of
	// the code the table stands for has been seen with a decided outcome
	var subImageFn, autoPadFn *ssa.Function
	for fn := range cov.fns {
		if fn.Signature.Recv() == nil || fn.Parent() != nil || len(fn.Params) == 0 || convNamedOf(fn.Params[0].Type()) != oi.named || fn == oi.methods["Apply"] {
			continue
		}
		sig := fn.Signature
		isT := isTensorish
		switch {
		case sig.Params().Len() == 3 && sig.Results().Len() == 2 && isT(sig.Params().At(0).Type()) && isIntType(sig.Params().At(1).Type()) && isIntSlice(sig.Params().At(2).Type()) && isErrorType(sig.Results().At(1).Type()):
			subImageFn = fn // (x, batch index, start coordinates) -> (window, error)
		case sig.Params().Len() == 1 && sig.Results().Len() == 0 && isT(sig.Params().At(0).Type()):
			fi := fieldIndex(oi.named, "autoPad")
			for _, b := range fn.Blocks {
				for _, in := range b.Instrs {
					if fa, ok := in.(*ssa.FieldAddr); ok && fi >= 0 && fa.Field == fi && convNamedOf(fa.X.Type()) == oi.named {
						autoPadFn = fn // derives the pads from the input under an auto_pad mode
					}
				}
			}
		}
	}
	if m := subImageFn; m != nil {
		// coordinates of another rank than the kernel: refused
		cell := convCell{x: []int64{1, 1, 3}, w: []int64{1, 1, 2}, kshape: []int64{2}}
		if p, recv, heap, mk, panicked, ok := prep(cell); ok {
			coords := heap.alloc([]pval{{k: pInt, i: 0}, {k: pInt, i: 0}})
			res, _ := p.run(m, []pval{recv, mk("x", cell.x), {k: pInt, i: 0}, coords}, 0, heap)
			if *panicked == "" && len(res) == 2 && res[1].k == pNil {
				noteBad("the sub image helper accepts start coordinates of another rank than the kernel shape")
			}
		}
	}
	if m := autoPadFn; m != nil {
		// auto_pad NOTSET: the given pads stay
		cell := convCell{x: []int64{1, 1, 4}, w: []int64{1, 1, 2}, pads: []int64{1, 2}}
		if p, recv, heap, mk, panicked, ok := prep(cell); ok {
			_, h := p.run(m, []pval{recv, mk("x", cell.x)}, 0, heap)
			fi := fieldIndex(oi.named, "pads")
			if *panicked == "" && h != nil && fi >= 0 && recv.k == pObj && h.objs[recv.i] != nil {
				if l := h.objs[recv.i].fields[fi]; l.k == pList && h.lists[l.i] != nil {
					got := h.lists[l.i]
					if len(got) != 2 || got[0].k != pInt || got[1].k != pInt || got[0].i != 1 || got[1].i != 2 {
						noteBad("the auto_pad helper replaces the given pads although auto_pad is NOTSET")
					}
				}
			}
		}
	}
	if firstBad != "" {
		return true, firstBad, cells
	}
	if unc := cov.uncovered(c); len(unc) > 0 {
		c.declined("Conv provenance table", unc)
		if os.Getenv("CONVDEBUG") != "" {
			fmt.Println("CONVDEBUG uncovered", unc)
		}
		return false, "", cells
	}
	return true, "", cells
}

func ruleConvTable(c *Ctx, prop string) {
	oi := c.opByName("Conv")
	if oi == nil {
		return
	}
	site := c.pos(oi.methods["Apply"].Pos())
	known, bad, cells := c.convTable()
	if prop == "C16" {
		// the batch clause only: what the table says about values common to all samples is C05's business
		nb, pairs, badB := convBatchCheck(c.convOuts)
		switch {
		case badB != "":
			c.violate("R42", "R42:conv-batch", site, badB)
		case known && bad == "" && nb >= 4 && pairs >= 3:
			c.discharge("R42", "R42:conv-batch", site, fmt.Sprintf("%d geometries with several samples: every output element of sample n is made of elements of sample n only, and is the expression sample 0 has with the indices shifted; %d geometries walked with batch 1 and batch 2: the same expressions", nb, pairs))
			if c.tableCovered == nil {
				c.tableCovered = map[string]string{}
			}
			c.tableCovered["table:conv"] = "R42:conv-batch"
		default:
			c.note("R42", "R42:conv-batch", site, "the provenance table cannot follow this code to one outcome per cell; the structural rules R11 (K2, K3) decide")
		}
		return
	}
	switch {
	case !known:
		// R11 decides the index plumbing (which axis an expression talks about); nothing else looks at the
		// multiply-accumulate itself, so a Conv the table cannot follow is a Conv whose values are not established
		c.undecided("R42", "R42:conv-table", site, "the provenance table cannot follow Conv to one outcome per geometry (a construct the walk does not model, or code no geometry reaches): that every output element is the direct convolution's sum of products is not established - the structural rules R11 decide the index plumbing only")
	case bad != "":
		c.violate("R42", "R42:conv-table", site, bad)
	default:
		c.discharge("R42", "R42:conv-table", site, fmt.Sprintf("%d geometries (1-D and 2-D, non-square, unequal strides, asymmetric pads, dilations, bias, SAME_UPPER / SAME_LOWER, kernel extents of one, 3-D refused): every output element is the sum of products the direct convolution prescribes", cells))
		if c.tableCovered == nil {
			c.tableCovered = map[string]string{}
		}
		c.tableCovered["table:conv"] = "R42:conv-table"
	}
}

var convLeafRe = regexp.MustCompile(`x(\d+)`)

// convBatchCheck: in every walked geometry, sample n's outputs are made of sample n's inputs only and are sample 0's
// expressions with the indices shifted; geometries that differ in the batch size only agree on sample 0.
func convBatchCheck(outs []convOut) (multi, pairs int, bad string) {
	canon := func(e string) string {
		if e == "0" || e == "" {
			return "0"
		}
		ts := strings.Split(e, "+")
		for i, t := range ts {
			f := strings.Split(t, "*")
			sort.Strings(f)
			ts[i] = strings.Join(f, "*")
		}
		sort.Strings(ts)
		return strings.Join(ts, "+")
	}
	for _, o := range outs {
		n := o.shape[0]
		if len(o.shape) < 3 || n < 1 || o.cell.x[0] != n || int64(len(o.elems))%n != 0 {
			continue
		}
		per := int64(len(o.elems)) / n
		size := int64(1)
		for _, e := range o.cell.x[1:] {
			size *= e
		}
		if n > 1 {
			multi++
		}
		for b := int64(0); b < n; b++ {
			for j := int64(0); j < per; j++ {
				e := o.elems[b*per+j]
				foreign := int64(-1)
				shifted := convLeafRe.ReplaceAllStringFunc(e, func(m string) string {
					var i int64
					fmt.Sscanf(m[1:], "%d", &i)
					if i/size != b {
						foreign = i / size
					}
					return fmt.Sprintf("x%d", i-b*size)
				})
				if foreign >= 0 {
					return multi, pairs, fmt.Sprintf("Conv with %s: output position %d of sample %d is computed from an element of sample %d (%s)", o.cell, j, b, foreign, abbreviate(e, ""))
				}
				if b > 0 && canon(shifted) != canon(o.elems[j]) {
					return multi, pairs, fmt.Sprintf("Conv with %s: output position %d of sample %d is %s, of sample 0 %s: the samples of a batch are not treated alike", o.cell, j, b, abbreviate(canon(shifted), canon(o.elems[j])), abbreviate(canon(o.elems[j]), canon(shifted)))
				}
			}
		}
	}
	// the same geometry with one sample and with two
	key := func(cell convCell) string {
		cp := cell
		cp.x = append([]int64{0}, cell.x[1:]...)
		return cp.String()
	}
	by := map[string][]convOut{}
	for _, o := range outs {
		by[key(o.cell)] = append(by[key(o.cell)], o)
	}
	var keys []string
	for k := range by {
		keys = append(keys, k)
	}
	sort.Strings(keys)
	for _, k := range keys {
		g := by[k]
		if len(g) < 2 {
			continue
		}
		pairs++
		a := g[0]
		perA := int64(len(a.elems)) / a.shape[0]
		for _, o := range g[1:] {
			per := int64(len(o.elems)) / o.shape[0]
			if per != perA || fmtInts(a.shape[1:]) != fmtInts(o.shape[1:]) {
				return multi, pairs, fmt.Sprintf("Conv with %s gives %s per sample, with %s it gives %s: the result depends on the batch size", a.cell, fmtInts(a.shape[1:]), o.cell, fmtInts(o.shape[1:]))
			}
			for j := int64(0); j < per; j++ {
				if canon(a.elems[j]) != canon(o.elems[j]) {
					return multi, pairs, fmt.Sprintf("Conv: output position %d of sample 0 is %s with %s and %s with %s: the result depends on the batch size", j, abbreviate(canon(a.elems[j]), canon(o.elems[j])), a.cell, abbreviate(canon(o.elems[j]), canon(a.elems[j])), o.cell)
				}
			}
		}
	}
	return multi, pairs, ""
}

func convNamedOf(t types.Type) *types.Named {
	if p, ok := t.(*types.Pointer); ok {
		t = p.Elem()
	}
	n, _ := t.(*types.Named)
	return n
}

func isIntSlice(t types.Type) bool {
	sl, ok := t.Underlying().(*types.Slice)
	return ok && isIntType(sl.Elem())
}

// convSweep: small single-channel geometries, systematically: every combination of extent, kernel extent, stride,
// dilation and padding (explicit, asymmetric; or derived by SAME_UPPER / SAME_LOWER) in one and two dimensions. A
// formula that is right for the hand-picked cells only by coincidence (a stride taken from the wrong axis, a rounding
// that matters only for some remainders) shows here.
func convSweep(thorough bool) []convCell {
	var out []convCell
	fits := func(d, k, dil, pb, pe int64) bool { return (k-1)*dil+1 <= d+pb+pe }
	dims := []int64{4, 7}
	if thorough {
		dims = []int64{3, 4, 5, 7, 8}
	}
	for _, d := range dims {
		for k := int64(1); k <= 3; k++ {
			for st := int64(1); st <= 3; st++ {
				for dil := int64(1); dil <= 2; dil++ {
					if k == 1 && dil > 1 {
						continue
					}
					for _, pd := range [][]int64{{0, 0}, {1, 0}, {0, 2}, {2, 1}} {
						if !fits(d, k, dil, pd[0], pd[1]) {
							continue
						}
						cell := convCell{x: []int64{1, 1, d}, w: []int64{1, 1, k}, strides: []int64{st}, dil: []int64{dil}}
						if pd[0]+pd[1] > 0 {
							cell.pads = pd
						}
						out = append(out, cell)
					}
					for _, mode := range []string{"SAME_UPPER", "SAME_LOWER"} {
						out = append(out, convCell{x: []int64{1, 1, d}, w: []int64{1, 1, k}, strides: []int64{st}, dil: []int64{dil}, autoPad: mode})
					}
				}
			}
		}
	}
	for _, hw := range [][]int64{{4, 7}, {5, 3}} {
		for _, k := range [][]int64{{2, 3}, {3, 1}, {1, 2}} {
			for _, st := range [][]int64{{1, 2}, {2, 3}, {3, 1}} {
				base := convCell{x: []int64{1, 1, hw[0], hw[1]}, w: []int64{1, 1, k[0], k[1]}, strides: st}
				a := base
				a.autoPad = "SAME_UPPER"
				b := base
				b.autoPad = "SAME_LOWER"
				cc := base
				cc.pads = []int64{1, 0, 0, 2}
				out = append(out, a, cc)
				if thorough {
					out = append(out, b, base)
				}
			}
		}
	}
	return out
}

// skipInitOnly: the constructor, Init and what only they reach (attribute parsing is judged by R8 / R27 and the
// tables of its own); what Apply reaches as well stays in.
func skipInitOnly(c *Ctx, oi *opInfo, ctor *ssa.Function) map[*ssa.Function]bool {
	skip := map[*ssa.Function]bool{}
	fromApply := c.reachFrom([]*ssa.Function{oi.methods["Apply"]})
	for f := range c.reachFrom([]*ssa.Function{oi.methods["Init"], ctor}) {
		if !fromApply[f] {
			skip[f] = true
		}
	}
	skip[oi.methods["Init"]] = true
	skip[ctor] = true
	return skip
}
