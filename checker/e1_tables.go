package main

import (
	"go/ast"
	"go/constant"
	"go/token"
	"go/types"
	"sort"
	"strings"

	"golang.org/x/tools/go/ssa"
)

const (
	pkgOps     = modPath + "/ops"
	pkgOpset13 = modPath + "/ops/opset13"
	pkgOnnx    = modPath + "/onnx"
	pkgTensor  = "gorgonia.org/tensor"
)

// opInfo describes one operator type (a named type whose pointer implements ops.Operator).
type opInfo struct {
	named    *types.Named
	name     string // type name
	regNames []string
	ctor     *ssa.Function
	methods  map[string]*ssa.Function
	control  bool
}

func (c *Ctx) operatorIface() *types.Interface {
	p := c.pkgByPath[pkgOps]
	if p == nil {
		return nil
	}
	o := p.Types.Scope().Lookup("Operator")
	if o == nil {
		return nil
	}
	it, _ := o.Type().Underlying().(*types.Interface)
	return it
}

// operators enumerates every operator type of the library (and of the control package).
func (c *Ctx) operators() []*opInfo {
	it := c.operatorIface()
	if it == nil {
		return nil
	}
	var out []*opInfo
	for path, p := range c.pkgByPath {
		if !isLibPkgPath(path) {
			continue
		}
		sc := p.Types.Scope()
		for _, n := range sc.Names() {
			tn, ok := sc.Lookup(n).(*types.TypeName)
			if !ok || tn.IsAlias() {
				continue
			}
			named, ok := tn.Type().(*types.Named)
			if !ok || named.TypeParams().Len() > 0 {
				continue
			}
			if _, isIface := named.Underlying().(*types.Interface); isIface {
				continue
			}
			if !types.Implements(types.NewPointer(named), it) && !types.Implements(named, it) {
				continue
			}
			oi := &opInfo{named: named, name: n, methods: map[string]*ssa.Function{}, control: isControlPkgPath(path)}
			for _, m := range []string{"Init", "Apply", "ValidateInputs", "GetMinInputs", "GetMaxInputs", "GetInputTypeConstraints", "String"} {
				oi.methods[m] = c.method(named, m)
			}
			out = append(out, oi)
		}
	}
	sort.Slice(out, func(i, j int) bool { return out[i].name < out[j].name })
	return out
}

// registry describes one opset registry: the package-level map[string]func() ops.Operator literal.
type registry struct {
	global  *ssa.Global
	obj     *types.Var
	entries map[string]*ssa.Function // registry name -> constructor
	bad     []string                 // entries that are not plain named functions
	lit     *ast.CompositeLit
	pkgPath string
}

// findRegistries locates every package-level var whose type is map[string]func() ops.Operator.
func (c *Ctx) findRegistries() []*registry {
	it := c.pkgByPath[pkgOps].Types.Scope().Lookup("Operator")
	var out []*registry
	for path, p := range c.pkgByPath {
		if !isLibPkgPath(path) || isControlPkgPath(path) {
			continue
		}
		for _, f := range p.Syntax {
			for _, d := range f.Decls {
				gd, ok := d.(*ast.GenDecl)
				if !ok || gd.Tok != token.VAR {
					continue
				}
				for _, s := range gd.Specs {
					vs := s.(*ast.ValueSpec)
					for i, nm := range vs.Names {
						obj, _ := p.TypesInfo.Defs[nm].(*types.Var)
						if obj == nil {
							continue
						}
						mt, ok := obj.Type().Underlying().(*types.Map)
						if !ok {
							continue
						}
						sig, ok := mt.Elem().Underlying().(*types.Signature)
						if !ok || sig.Params().Len() != 0 || sig.Results().Len() != 1 || !types.Identical(sig.Results().At(0).Type(), it.Type()) {
							continue
						}
						if b, ok := mt.Key().Underlying().(*types.Basic); !ok || b.Kind() != types.String {
							continue
						}
						r := &registry{obj: obj, entries: map[string]*ssa.Function{}, pkgPath: path}
						if sp := c.ssaPkg[path]; sp != nil {
							r.global, _ = sp.Members[nm.Name].(*ssa.Global)
						}
						if i < len(vs.Values) {
							if cl, ok := vs.Values[i].(*ast.CompositeLit); ok {
								r.lit = cl
								for _, e := range cl.Elts {
									kv, ok := e.(*ast.KeyValueExpr)
									if !ok {
										r.bad = append(r.bad, "<non key-value>")
										continue
									}
									tv := p.TypesInfo.Types[kv.Key]
									if tv.Value == nil || tv.Value.Kind() != constant.String {
										r.bad = append(r.bad, "<non-constant key>")
										continue
									}
									key := constant.StringVal(tv.Value)
									var fobj *types.Func
									switch v := kv.Value.(type) {
									case *ast.Ident:
										fobj, _ = p.TypesInfo.Uses[v].(*types.Func)
									case *ast.SelectorExpr:
										fobj, _ = p.TypesInfo.Uses[v.Sel].(*types.Func)
									}
									if fobj == nil {
										r.bad = append(r.bad, key)
										continue
									}
									fn := c.prog.FuncValue(fobj)
									if fn == nil {
										r.bad = append(r.bad, key)
										continue
									}
									r.entries[key] = fn
								}
							}
						}
						out = append(out, r)
					}
				}
			}
		}
	}
	return out
}

// evalIntReturn evaluates a getter of the form `return <constant expr | package var with constant initialiser>`.
// ok=false when the body has another form.
func (c *Ctx) evalIntReturn(fn *ssa.Function) (val int64, how string, ok bool) {
	d := c.astFuncDecl(fn)
	if d == nil || d.Body == nil || len(d.Body.List) != 1 {
		return 0, "body is not a single return", false
	}
	rs, isRet := d.Body.List[0].(*ast.ReturnStmt)
	if !isRet || len(rs.Results) != 1 {
		return 0, "body is not a single return", false
	}
	info := c.typesInfo(fnPkgPath(fn))
	tv := info.Types[rs.Results[0]]
	if tv.Value != nil && tv.Value.Kind() == constant.Int {
		n, _ := constant.Int64Val(tv.Value)
		return n, "constant", true
	}
	// package-level var with constant initialiser
	var id *ast.Ident
	switch e := rs.Results[0].(type) {
	case *ast.Ident:
		id = e
	case *ast.SelectorExpr:
		id = e.Sel
	}
	if id != nil {
		if v, isVar := info.Uses[id].(*types.Var); isVar && v.Parent() == v.Pkg().Scope() {
			if n, ok := c.globalConstInit(v); ok {
				return n, "package var " + v.Name() + " with constant initialiser (never reassigned: R1)", true
			}
		}
	}
	return 0, "return expression is not a constant: " + types.ExprString(rs.Results[0]), false
}

// globalConstInit finds the constant integer initialiser of a package-level var.
func (c *Ctx) globalConstInit(v *types.Var) (int64, bool) {
	p := c.pkgByPath[v.Pkg().Path()]
	if p == nil {
		return 0, false
	}
	for _, f := range p.Syntax {
		for _, d := range f.Decls {
			gd, ok := d.(*ast.GenDecl)
			if !ok || gd.Tok != token.VAR {
				continue
			}
			for _, s := range gd.Specs {
				vs := s.(*ast.ValueSpec)
				for i, nm := range vs.Names {
					if p.TypesInfo.Defs[nm] != v || i >= len(vs.Values) {
						continue
					}
					tv := p.TypesInfo.Types[vs.Values[i]]
					if tv.Value != nil && tv.Value.Kind() == constant.Int {
						n, _ := constant.Int64Val(tv.Value)
						return n, true
					}
				}
			}
		}
	}
	return 0, false
}

// evalDtypeMatrix evaluates `return [][]tensor.Dtype{ {tensor.X, ...}, ops.AllTypes, ... }`.
// Each row is a list of Dtype variable names ("Float32").
func (c *Ctx) evalDtypeMatrix(fn *ssa.Function) (rows [][]string, how string, ok bool) {
	d := c.astFuncDecl(fn)
	if d == nil || d.Body == nil || len(d.Body.List) != 1 {
		return nil, "body is not a single return", false
	}
	rs, isRet := d.Body.List[0].(*ast.ReturnStmt)
	if !isRet || len(rs.Results) != 1 {
		return nil, "body is not a single return", false
	}
	info := c.typesInfo(fnPkgPath(fn))
	cl, isLit := rs.Results[0].(*ast.CompositeLit)
	if !isLit {
		return nil, "return expression is not a composite literal: " + types.ExprString(rs.Results[0]), false
	}
	for _, e := range cl.Elts {
		if _, isKV := e.(*ast.KeyValueExpr); isKV {
			return nil, "keyed literal", false
		}
		row, ok := c.evalDtypeRow(info, e)
		if !ok {
			return nil, "row is not a literal of tensor.Dtype identifiers: " + types.ExprString(e), false
		}
		rows = append(rows, row)
	}
	return rows, "composite literal", true
}

func (c *Ctx) evalDtypeRow(info *types.Info, e ast.Expr) ([]string, bool) {
	switch x := e.(type) {
	case *ast.CompositeLit:
		var row []string
		for _, el := range x.Elts {
			n, ok := dtypeIdent(info, el)
			if !ok {
				return nil, false
			}
			row = append(row, n)
		}
		return row, true
	case *ast.Ident, *ast.SelectorExpr:
		var id *ast.Ident
		if s, ok := x.(*ast.SelectorExpr); ok {
			id = s.Sel
		} else {
			id = x.(*ast.Ident)
		}
		v, ok := info.Uses[id].(*types.Var)
		if !ok || v.Pkg() == nil || v.Parent() != v.Pkg().Scope() {
			return nil, false
		}
		return c.evalDtypeRowOfVar(v)
	}
	return nil, false
}

// dtypeIdent resolves tensor.Float32-style identifiers (package-level vars of type tensor.Dtype in gorgonia).
func dtypeIdent(info *types.Info, e ast.Expr) (string, bool) {
	var id *ast.Ident
	switch x := e.(type) {
	case *ast.SelectorExpr:
		id = x.Sel
	case *ast.Ident:
		id = x
	default:
		return "", false
	}
	v, ok := info.Uses[id].(*types.Var)
	if !ok || v.Pkg() == nil || v.Pkg().Path() != pkgTensor {
		return "", false
	}
	if n, ok := v.Type().(*types.Named); !ok || n.Obj().Name() != "Dtype" {
		return "", false
	}
	return v.Name(), true
}

func has(row []string, s string) bool {
	for _, r := range row {
		if r == s {
			return true
		}
	}
	return false
}

func joinRows(rows [][]string) string {
	var parts []string
	for _, r := range rows {
		parts = append(parts, "{"+strings.Join(r, ",")+"}")
	}
	return strings.Join(parts, " ")
}

// evalDtypeRowOfVar evaluates a package-level `var X = []tensor.Dtype{...}`.
func (c *Ctx) evalDtypeRowOfVar(v *types.Var) ([]string, bool) {
	p := c.pkgByPath[v.Pkg().Path()]
	if p == nil {
		return nil, false
	}
	for _, f := range p.Syntax {
		for _, d := range f.Decls {
			gd, ok := d.(*ast.GenDecl)
			if !ok || gd.Tok != token.VAR {
				continue
			}
			for _, s := range gd.Specs {
				vs := s.(*ast.ValueSpec)
				for i, nm := range vs.Names {
					if p.TypesInfo.Defs[nm] == v && i < len(vs.Values) {
						if cl, ok := vs.Values[i].(*ast.CompositeLit); ok {
							return c.evalDtypeRow(p.TypesInfo, cl)
						}
					}
				}
			}
		}
	}
	return nil, false
}
