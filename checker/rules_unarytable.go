package main

// The dtype dispatch of the generic unary operators by finite table (C10).
//
// The operator's Apply is walked (not executed) with an abstract input tensor that answers Dtype() with one of
// gorgonia's element types: for Float32 and Float64 exactly one tensor.Apply on that input must be reached, with
// the instance of the element function for that very type, and its result must be the operator's single output.
// How the dispatch is written (switch, lookup table, helper) does not matter.

import (
	"fmt"
	"go/types"
	"os"
	"strings"

	"golang.org/x/tools/go/ssa"
)

type initState struct {
	globals map[*ssa.Global]pval
	heap    *pheap
	failed  []string
}

// libInit: the state after the package initialisers of ops and ops/opset13 (walked once).
func (c *Ctx) libInit() *initState {
	if c.initMemo != nil {
		return c.initMemo
	}
	p0 := &pinterp{c: c, budget: 3000000, objects: true}
	h := p0.initGlobals(newHeap(), modPath+"/ops", modPath+"/ops/opset13")
	c.initMemo = &initState{globals: p0.globals, heap: h, failed: p0.initFailed}
	return c.initMemo
}

func (c *Ctx) dtypeToken(name string) (pval, bool) {
	for _, sp := range c.prog.AllPackages() {
		if sp.Pkg.Path() == pkgTensor {
			if g, ok := sp.Members[name].(*ssa.Global); ok {
				p := &pinterp{c: c}
				return p.globalValue(g)
			}
		}
	}
	return pval{}, false
}

type unaryCell struct {
	followed bool
	isErr    bool
	applies  []*ssa.Function // element functions handed to inputs[0].Apply
	binds    [][]pval        // for closures: the values of their free variables
	onInput  bool            // every Apply had the input tensor as its receiver
	outIsRes bool            // the single output is the result of the Apply
}

// unaryDtypeCell walks op.Apply([]{tensor of dtype dt}).
func (c *Ctx) unaryDtypeCell(oi *opInfo, dt pval, cov *pcover) unaryCell {
	st := c.libInit()
	apply := oi.methods["Apply"]
	if apply == nil || len(st.failed) > 0 {
		return unaryCell{}
	}
	heap := st.heap.clone()
	p := &pinterp{c: c, budget: 200000, objects: true, globals: st.globals, cover: cov}
	recv := heap.newObj(oi.named)
	in := pval{k: pAbs, i: 7001, s: "tensor"}
	cell := unaryCell{onInput: true}
	nextRes := int64(7100)
	var results []int64
	p.onInvoke = func(fn *ssa.Function, call *ssa.Call, r pval, method string, args []pval, h *pheap) ([]pval, bool) {
		if r.k != pAbs || r.s != "tensor" {
			return nil, false
		}
		switch method {
		case "Dtype":
			if r.i == in.i {
				return []pval{dt}, true
			}
		case "Apply":
			if r.i != in.i {
				cell.onInput = false
			}
			var f *ssa.Function
			if len(args) >= 1 && args[0].k == pFunc {
				f = args[0].fn
			}
			cell.applies = append(cell.applies, f)
			var bd []pval
			if f != nil && len(f.FreeVars) > 0 {
				for _, bv := range h.lists[args[0].i] {
					// free variables are the addresses of the captured variables: the values behind them
					if bv.k == pElemAddr {
						if l := h.lists[bv.i]; l != nil && bv.j < int64(len(l)) {
							bv = l[bv.j]
						}
					}
					bd = append(bd, bv)
				}
			}
			cell.binds = append(cell.binds, bd)
			nextRes++
			results = append(results, nextRes)
			return []pval{{k: pAbs, i: nextRes, s: "tensor"}, {k: pNil}}, true
		}
		return nil, false
	}
	res, h := p.run(apply, []pval{recv, heap.alloc([]pval{in})}, 0, heap)
	if p.aborted || len(res) != 2 {
		return unaryCell{}
	}
	switch {
	case nonNilKind(res[1].k):
		cell.followed, cell.isErr = true, true
	case res[1].k == pNil && res[0].k == pList && h != nil && h.lists[res[0].i] != nil:
		cell.followed = true
		l := h.lists[res[0].i]
		cell.outIsRes = len(l) == 1 && len(results) == 1 && l[0].k == pAbs && l[0].i == results[0]
	}
	return cell
}

// unaryDtypeTable: known=false when a cell cannot be followed (the structural rule decides then).
func (c *Ctx) unaryDtypeTable(oi *opInfo, name string) (known bool, bad string) {
	cov := newCover(oi.methods["Apply"])
	// an element type the operator does not compute: only walked, so that the refusing branch is seen
	if dt, ok := c.dtypeToken("Int64"); ok {
		c.unaryDtypeCell(oi, dt, cov)
	}
	for _, dn := range []string{"Float32", "Float64"} {
		dt, ok := c.dtypeToken(dn)
		if !ok {
			return false, ""
		}
		cell := c.unaryDtypeCell(oi, dt, cov)
		if os.Getenv("UNARYDEBUG") != "" {
			fmt.Printf("UNARYDEBUG %s %s followed=%v err=%v applies=%v binds=%v\n", name, dn, cell.followed, cell.isErr, cell.applies, cell.binds)
		}
		if !cell.followed {
			return false, ""
		}
		T := dtypeGo[dn]
		switch {
		case cell.isErr:
			return true, fmt.Sprintf("a %s input is refused", T)
		case len(cell.applies) != 1:
			return true, fmt.Sprintf("a %s input reaches %d element-wise applications, expected one", T, len(cell.applies))
		case !cell.onInput:
			return true, "the element function is applied to something other than inputs[0]"
		case !cell.outIsRes:
			return true, fmt.Sprintf("the result of the element-wise application is not the operator's single output for a %s input", T)
		}
		fn := cell.applies[0]
		trail, pt, okTrail := c.elementTrail(fn, cell.binds[0], cov)
		if os.Getenv("UNARYDEBUG") != "" {
			fmt.Printf("UNARYDEBUG %s %s trail=%q param=%s ok=%v\n", name, dn, trail, pt, okTrail)
		}
		if okTrail {
			// the element function walked on one element: what is done to it, however the function is written
			// (generic instance, literal, adapter closure, or the function of package math itself)
			want := "math." + mathUnary[name]
			if T != "float64" {
				want = "conv:float64|" + want + "|conv:" + T
			}
			switch {
			case pt != T:
				return true, fmt.Sprintf("dtype %s applies an element function on %s: elements are read as the wrong type (the closure is never called or panics inside gorgonia)", T, pt)
			case trail != want:
				return true, fmt.Sprintf("%s elements are computed as %s, expected %s", T, showTrail(trail), showTrail(want))
			}
			continue
		}
		if fn != nil && len(fn.FreeVars) > 0 {
			// an adapter closure func(x T) T { return T(f(float64(x))) } around a function of package math
			got, ok := adapterOf(fn, cell.binds[0])
			if !ok {
				return false, ""
			}
			cov.mark(fn, fn.Blocks[0]) // read in full by adapterOf
			if pt := types.TypeString(fn.Signature.Params().At(0).Type(), nil); pt != T {
				return true, fmt.Sprintf("dtype %s applies an element function on %s: elements are read as the wrong type (the closure is never called or panics inside gorgonia)", T, pt)
			}
			if got != "math."+mathUnary[name] {
				return true, fmt.Sprintf("%s elements are computed with %s, expected math.%s(x)", T, got, mathUnary[name])
			}
			continue
		}
		if fn == nil || len(fn.TypeArgs()) != 1 {
			return false, ""
		}
		if got := types.TypeString(fn.TypeArgs()[0], nil); got != T {
			return true, fmt.Sprintf("dtype %s applies the %s instance: elements are read as the wrong type (the closure is never called or panics inside gorgonia)", T, got)
		}
		if got, want := c.kernelTerm(fn), mathUnary[name]+"(P0)"; got != want {
			return true, fmt.Sprintf("%s instance computes %s, expected math.%s(x)", T, got, mathUnary[name])
		}
		for _, b2 := range fn.Blocks {
			for _, in2 := range b2.Instrs {
				if c2, ok := in2.(*ssa.Call); ok {
					if sc := c2.Common().StaticCallee(); sc == nil || fnPkgPath(sc) != "math" {
						return true, "element function calls outside package math"
					}
				}
			}
		}
	}
	if unc := cov.uncovered(c); len(unc) > 0 {
		if os.Getenv("UNARYDEBUG") != "" {
			fmt.Println("UNARYDEBUG uncovered", name, unc)
		}
		c.declined("dtype table of "+name, unc)
		return false, ""
	}
	c.counts["R7:unary:dtype-table-cells"] += 2
	return true, ""
}

// adapterOf recognises func(x T) T { return T(f(float64(x))) } with f a free variable bound to a function, and
// names that function ("math.Sinh").
func adapterOf(fn *ssa.Function, binds []pval) (string, bool) {
	rets := returnsOf(fn)
	if len(rets) != 1 || len(rets[0].Results) != 1 || len(fn.Params) != 1 || len(fn.Blocks) != 1 {
		return "", false
	}
	v := rets[0].Results[0]
	if cv, ok := v.(*ssa.Convert); ok {
		v = cv.X
	}
	call, ok := v.(*ssa.Call)
	if !ok || len(call.Common().Args) != 1 {
		return "", false
	}
	a := call.Common().Args[0]
	if cv, ok := a.(*ssa.Convert); ok {
		a = cv.X
	}
	if a != ssa.Value(fn.Params[0]) {
		return "", false
	}
	cv := call.Common().Value
	if ld, ok := cv.(*ssa.UnOp); ok {
		cv = ld.X // free variables are addresses
	}
	fv, ok := cv.(*ssa.FreeVar)
	if !ok {
		return "", false
	}
	for i, f := range fn.FreeVars {
		if f == fv && i < len(binds) && binds[i].k == pFunc && binds[i].fn != nil {
			return fnPkgPath(binds[i].fn) + "." + binds[i].fn.Name(), true
		}
	}
	return "", false
}

// elementTrail walks an element function func(x T) T on one element token and returns what is done to the element
// (conversions that change the type and calls of package math, in order) and the Go type of its parameter. A
// function without a body (math.Cos handed to Apply as it is) is its own trail.
func (c *Ctx) elementTrail(fn *ssa.Function, binds []pval, cov *pcover) (trail, paramT string, ok bool) {
	if fn == nil || fn.Signature.Params().Len() != 1 || fn.Signature.Results().Len() != 1 {
		return "", "", false
	}
	paramT = types.TypeString(fn.Signature.Params().At(0).Type(), nil)
	resT := types.TypeString(fn.Signature.Results().At(0).Type(), nil)
	raw := ""
	if fnPkgPath(fn) == "math" && fn.Signature.Recv() == nil && fn.Parent() == nil {
		raw = "|math." + fn.Name()
	} else if len(fn.Blocks) == 0 {
		return "", "", false
	} else {
		if !isLibFn(fn) {
			return "", "", false
		}
		st := c.libInit()
		heap := st.heap.clone()
		p := &pinterp{c: c, budget: 20000, objects: true, globals: st.globals, cover: cov}
		if len(fn.FreeVars) > 0 {
			if len(binds) != len(fn.FreeVars) {
				return "", "", false
			}
			// the bindings as cells of their own
			cells := make([]pval, len(binds))
			for i, b := range binds {
				l := heap.alloc([]pval{b})
				cells[i] = pval{k: pElemAddr, i: l.i, j: 0}
			}
			p.nextFree = cells
		}
		res, _ := p.run(fn, []pval{{k: pTok, i: 0}}, 0, heap)
		if p.aborted || len(res) != 1 || res[0].k != pTok || res[0].i != 0 {
			return "", "", false
		}
		raw = res[0].s
	}
	cur := paramT
	var parts []string
	for _, step := range strings.Split(raw, "|") {
		switch {
		case step == "":
		case strings.HasPrefix(step, "conv:"):
			if t := strings.TrimPrefix(step, "conv:"); t != cur {
				cur = t
				parts = append(parts, step)
			}
		case strings.HasPrefix(step, "math."):
			if cur != "float64" {
				return "", "", false
			}
			parts = append(parts, step)
		default:
			parts = append(parts, step)
		}
	}
	if cur != resT {
		return "", "", false
	}
	return strings.Join(parts, "|"), paramT, true
}

func showTrail(t string) string {
	if t == "" {
		return "x"
	}
	out := "x"
	for _, step := range strings.Split(t, "|") {
		if strings.HasPrefix(step, "conv:") {
			out = strings.TrimPrefix(step, "conv:") + "(" + out + ")"
		} else {
			out = step + "(" + out + ")"
		}
	}
	return out
}
