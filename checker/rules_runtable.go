package main

// R37 — the interpreter plumbing of Run and the shape validator, by a finite table of abstract graphs
//
// C01: "Run returns exactly the tensors the graph declares as outputs, each equal to the value obtained by
// applying every node's operator, in order, to the tensors named by its inputs ...". C13: "Run returns an error
// ... when a declared graph input that is not an initializer is missing, or when a supplied tensor's rank or any
// of its fixed dimensions differs from the declaration; it accepts every tensor whose rank matches ...".
//
// The partial interpreter (pinterp.go) walks Model.Run over small abstract models: the protobuf messages are
// heap objects built field by field (the generated getters are walked like any other code), operators and
// tensors are abstract values whose methods answer through hooks (GetOperator(type) hands out a new abstract
// operator, ValidateInputs returns a NEW list with one nil appended, Apply returns new abstract tensors labelled
// with the node, the output position and the labels of the tensors it received). The environment, the
// initializer map and the result are ordinary maps of the walk. The outcome of each cell is compared with an
// independent evaluation of the same abstract graph. Nothing of gonnx is executed; a cell the walk cannot
// follow to a single outcome is not claimed (and the rule is undischarged when too few can be followed).

import (
	"fmt"
	"go/types"
	"os"
	"sort"
	"strings"

	"golang.org/x/tools/go/ssa"
)

type rtBuilder struct {
	c    *Ctx
	heap *pheap
	onnx *types.Package
}

func (b *rtBuilder) structType(pkg *types.Package, name string) *types.Named {
	if o := pkg.Scope().Lookup(name); o != nil {
		if n, ok := o.Type().(*types.Named); ok {
			return n
		}
	}
	return nil
}

// obj allocates a struct object of the named type with the given fields (by field name).
func (b *rtBuilder) obj(pkg *types.Package, name string, fields map[string]pval) pval {
	n := b.structType(pkg, name)
	if n == nil {
		return pval{}
	}
	st, ok := n.Underlying().(*types.Struct)
	if !ok {
		return pval{}
	}
	o := b.heap.newObj(n)
	for fname, v := range fields {
		found := false
		for i := 0; i < st.NumFields(); i++ {
			if st.Field(i).Name() == fname {
				b.heap.objs[o.i].fields[i] = v
				found = true
			}
		}
		if !found {
			return pval{}
		}
	}
	return o
}

func (b *rtBuilder) list(vals ...pval) pval { return b.heap.alloc(append([]pval{}, vals...)) }

func (b *rtBuilder) strs(ss ...string) pval {
	l := make([]pval, len(ss))
	for i, s := range ss {
		l[i] = pval{k: pStr, s: s}
	}
	return b.heap.alloc(l)
}

// dim kinds of a declared input
const (
	dimFixed = iota
	dimSymbolic
	dimUnspecified
)

type rtDim struct {
	kind int
	size int64
}

func (b *rtBuilder) valueInfo(name string, dims []rtDim, withType, withShape bool) pval {
	var dimObjs []pval
	for _, d := range dims {
		var v pval
		switch d.kind {
		case dimFixed:
			v = b.obj(b.onnx, "TensorShapeProto_Dimension_DimValue", map[string]pval{"DimValue": {k: pInt, i: d.size}})
		case dimSymbolic:
			v = b.obj(b.onnx, "TensorShapeProto_Dimension_DimParam", map[string]pval{"DimParam": {k: pStr, s: "N"}})
		default:
			v = pval{k: pNil}
		}
		dimObjs = append(dimObjs, b.obj(b.onnx, "TensorShapeProto_Dimension", map[string]pval{"Value": v}))
	}
	fields := map[string]pval{"Name": {k: pStr, s: name}}
	if withType {
		tensorFields := map[string]pval{"ElemType": {k: pInt, i: 1}}
		if withShape {
			tensorFields["Shape"] = b.obj(b.onnx, "TensorShapeProto", map[string]pval{"Dim": b.list(dimObjs...)})
		}
		tt := b.obj(b.onnx, "TypeProto_Tensor", tensorFields)
		wrap := b.obj(b.onnx, "TypeProto_TensorType", map[string]pval{"TensorType": tt})
		fields["Type"] = b.obj(b.onnx, "TypeProto", map[string]pval{"Value": wrap})
	}
	return b.obj(b.onnx, "ValueInfoProto", fields)
}

type rtNode struct {
	op      string
	inputs  []string
	outputs []string
}

type rtGraph struct {
	name     string
	inputs   []string           // declared graph inputs (rank-1 tensors with a symbolic extent unless inDims says otherwise)
	inDims   map[string][]rtDim // declared dims per input
	outputs  []string
	inits    []string // initializer names
	nodes    []rtNode
	supplied map[string][]int64 // tensors handed to Run: name -> shape
	noType   map[string]bool    // inputs declared without a TypeProto
	noShape  map[string]bool    // inputs declared with a tensor type that has no shape
	initDims map[string][]int64 // shape of an initializer's tensor (default [3])
}

// arity of the abstract operator types
var rtArity = map[string]int{"T1": 1, "T2": 1, "TM": 2, "Bad": 1}

// expected evaluates the abstract graph independently: the label of every declared output, or "" for an error.
// validationFails: the inputs do not fit the declaration (Run must refuse before any node runs).
func (g *rtGraph) validationFails() bool {
	saved := g.nodes
	g.nodes = nil
	outs := g.outputs
	g.outputs = nil
	_, ok := g.expected()
	g.nodes, g.outputs = saved, outs
	return !ok
}

func (g *rtGraph) expected() (map[string]string, bool) {
	// the validator
	for _, in := range g.inputs {
		isInit := false
		for _, i := range g.inits {
			if i == in {
				isInit = true
			}
		}
		if _, given := g.supplied[in]; isInit && !given {
			continue // the initializer is the default; what the caller does supply is held to the declaration
		}
		sh, ok := g.supplied[in]
		if !ok {
			return nil, false
		}
		dims, declared := g.inDims[in]
		if !declared || g.noType[in] || g.noShape[in] {
			continue // nothing declared to compare with
		}
		if len(dims) != len(sh) {
			return nil, false
		}
		for i, d := range dims {
			if d.kind == dimFixed && d.size != sh[i] {
				return nil, false
			}
		}
	}
	env := map[string]string{}
	for _, i := range g.inits {
		env[i] = "W:" + i
	}
	for n := range g.supplied {
		env[n] = "X:" + n
	}
	for k, n := range g.nodes {
		ar, known := rtArity[n.op]
		if !known {
			return nil, false
		}
		var args []string
		for _, in := range n.inputs {
			if in == "" {
				args = append(args, "nil")
				continue
			}
			v, ok := env[in]
			if !ok {
				return nil, false
			}
			args = append(args, v)
		}
		args = append(args, "nil") // the padding of the abstract ValidateInputs
		if n.op == "Bad" {
			return nil, false
		}
		if len(n.outputs) != ar {
			return nil, false
		}
		for j, out := range n.outputs {
			env[out] = fmt.Sprintf("out(%d,%d;%s)", k, j, strings.Join(args, ","))
		}
	}
	res := map[string]string{}
	for _, o := range g.outputs {
		v, ok := env[o]
		if !ok {
			return nil, false
		}
		res[o] = v
	}
	return res, true
}

func ruleRunTable(c *Ctx, prop string) {
	mi := c.findModel()
	if mi == nil || mi.run == nil {
		c.undecided("R37", "R37:run-table", "", "no Model type with a Run method found")
		return
	}
	onnxPkg := c.pkgByPath[modPath+"/onnx"]
	if onnxPkg == nil {
		c.undecided("R37", "R37:run-table", "", "package onnx not loaded")
		return
	}
	sym := []rtDim{{kind: dimSymbolic}}
	graphs := []rtGraph{
		{name: "chain with a weight", inputs: []string{"x"}, outputs: []string{"y"}, inits: []string{"w"},
			nodes: []rtNode{{"T1", []string{"x"}, []string{"a"}}, {"T2", []string{"a", "w"}, []string{"y"}}}, supplied: map[string][]int64{"x": {3}}},
		{name: "initializer that is also a graph input, not supplied", inputs: []string{"x", "w"}, outputs: []string{"y"}, inits: []string{"w"},
			nodes: []rtNode{{"T2", []string{"x", "w"}, []string{"y"}}}, supplied: map[string][]int64{"x": {3}}},
		{name: "initializer that is also a graph input, overridden by the caller", inputs: []string{"x", "w"}, outputs: []string{"y"}, inits: []string{"w"},
			nodes: []rtNode{{"T2", []string{"x", "w"}, []string{"y"}}}, supplied: map[string][]int64{"x": {3}, "w": {3}}},
		{name: "a declared output with an empty name that no node produces", inputs: []string{"x"}, outputs: []string{"y", ""},
			nodes: []rtNode{{"T1", []string{"x"}, []string{"y"}}}, supplied: map[string][]int64{"x": {3}}},
		{name: "an omitted node output (empty name) that the graph declares as an output", inputs: []string{"x"}, outputs: []string{"p", ""},
			nodes: []rtNode{{"TM", []string{"x"}, []string{"p", ""}}}, supplied: map[string][]int64{"x": {3}}},
		{name: "skipped optional input (empty name)", inputs: []string{"x"}, outputs: []string{"y"}, inits: []string{"w"},
			nodes: []rtNode{{"T1", []string{"x", "", "w"}, []string{"y"}}}, supplied: map[string][]int64{"x": {3}}},
		{name: "two outputs with arbitrary names, fan-out", inputs: []string{"x"}, outputs: []string{"y", "q"},
			nodes: []rtNode{{"TM", []string{"x"}, []string{"p", "q"}}, {"T1", []string{"q"}, []string{"y"}}}, supplied: map[string][]int64{"x": {3}}},
		{name: "two nodes of the same operator type", inputs: []string{"x"}, outputs: []string{"y"},
			nodes: []rtNode{{"T1", []string{"x"}, []string{"a"}}, {"T1", []string{"a"}, []string{"y"}}}, supplied: map[string][]int64{"x": {3}}},
		{name: "a declared output that no node produces", inputs: []string{"x"}, outputs: []string{"y", "z"},
			nodes: []rtNode{{"T1", []string{"x"}, []string{"y"}}}, supplied: map[string][]int64{"x": {3}}},
		{name: "an operator type the opset does not have", inputs: []string{"x"}, outputs: []string{"y"},
			nodes: []rtNode{{"Nope", []string{"x"}, []string{"y"}}}, supplied: map[string][]int64{"x": {3}}},
		{name: "an unknown operator type on a side branch", inputs: []string{"x"}, outputs: []string{"y"},
			nodes: []rtNode{{"Nope", []string{"x"}, []string{"z"}}, {"T1", []string{"x"}, []string{"y"}}}, supplied: map[string][]int64{"x": {3}}},
		{name: "a failing operator on a side branch", inputs: []string{"x"}, outputs: []string{"y"},
			nodes: []rtNode{{"Bad", []string{"x"}, []string{"z"}}, {"T1", []string{"x"}, []string{"y"}}}, supplied: map[string][]int64{"x": {3}}},
		{name: "nodes behind an input of the wrong rank", inputs: []string{"x"}, inDims: map[string][]rtDim{"x": {{dimFixed, 2}}}, outputs: []string{"y"},
			nodes: []rtNode{{"T1", []string{"x"}, []string{"y"}}}, supplied: map[string][]int64{"x": {2, 2}}},
		{name: "nodes behind a missing input", inputs: []string{"x", "z"}, outputs: []string{"y"},
			nodes: []rtNode{{"T1", []string{"x"}, []string{"y"}}}, supplied: map[string][]int64{"x": {3}}},
		{name: "a node whose operator fails", inputs: []string{"x"}, outputs: []string{"y"},
			nodes: []rtNode{{"Bad", []string{"x"}, []string{"y"}}}, supplied: map[string][]int64{"x": {3}}},
		{name: "a node that names fewer outputs than its operator returns", inputs: []string{"x"}, outputs: []string{"p"},
			nodes: []rtNode{{"TM", []string{"x"}, []string{"p"}}}, supplied: map[string][]int64{"x": {3}}},
		{name: "a node input that nothing produced", inputs: []string{"x"}, outputs: []string{"y"},
			nodes: []rtNode{{"T1", []string{"ghost"}, []string{"y"}}}, supplied: map[string][]int64{"x": {3}}},
		{name: "an output that is a graph input", inputs: []string{"x"}, outputs: []string{"x"}, supplied: map[string][]int64{"x": {3}}},
		{name: "an extra tensor the graph does not declare", inputs: []string{"x"}, outputs: []string{"y"},
			nodes: []rtNode{{"T1", []string{"x"}, []string{"y"}}}, supplied: map[string][]int64{"x": {3}, "extra": {2, 2}}},
		{name: "an omitted node output (empty name) and a later skipped optional input", inputs: []string{"x"}, outputs: []string{"y"},
			nodes: []rtNode{{"TM", []string{"x"}, []string{"p", ""}}, {"T1", []string{"p", ""}, []string{"y"}}}, supplied: map[string][]int64{"x": {3}}},
		{name: "three nodes of one operator type in a row", inputs: []string{"x"}, outputs: []string{"y"},
			nodes: []rtNode{{"T1", []string{"x"}, []string{"a"}}, {"T1", []string{"a"}, []string{"b"}}, {"T1", []string{"b"}, []string{"y"}}}, supplied: map[string][]int64{"x": {3}}},
		{name: "a graph input declared without a type", inputs: []string{"x", "s"}, inDims: map[string][]rtDim{"s": nil}, noType: map[string]bool{"s": true}, outputs: []string{"y"},
			nodes: []rtNode{{"T2", []string{"x", "s"}, []string{"y"}}}, supplied: map[string][]int64{"x": {3}, "s": {2, 2}}},
		{name: "a graph input declared without a shape", inputs: []string{"x", "s"}, inDims: map[string][]rtDim{"s": nil}, noShape: map[string]bool{"s": true}, outputs: []string{"y"},
			nodes: []rtNode{{"T2", []string{"x", "s"}, []string{"y"}}}, supplied: map[string][]int64{"x": {3}, "s": {2}}},
		{name: "a scalar graph input (no dims)", inputs: []string{"x", "s"}, inDims: map[string][]rtDim{"s": {}}, outputs: []string{"y"},
			nodes: []rtNode{{"T2", []string{"x", "s"}, []string{"y"}}}, supplied: map[string][]int64{"x": {3}, "s": {}}},
		{name: "a missing graph input", inputs: []string{"x", "z"}, outputs: []string{"y"},
			nodes: []rtNode{{"T1", []string{"x"}, []string{"y"}}}, supplied: map[string][]int64{"x": {3}}},
	}
	for i := range graphs {
		if graphs[i].inDims == nil {
			graphs[i].inDims = map[string][]rtDim{}
		}
		for _, in := range graphs[i].inputs {
			if _, ok := graphs[i].inDims[in]; !ok {
				graphs[i].inDims[in] = sym
			}
			if graphs[i].noType == nil {
				graphs[i].noType = map[string]bool{}
			}
			if graphs[i].noShape == nil {
				graphs[i].noShape = map[string]bool{}
			}
		}
	}
	if prop == "C13" {
		// what the caller supplies for an input that has an initializer is held to the declaration; the initializer
		// itself is the model's business
		graphs = append(graphs, []rtGraph{
			{name: "initializer that is also a graph input, overridden with a tensor of another rank", inputs: []string{"x", "w"}, inDims: map[string][]rtDim{"w": {{dimFixed, 1}, {dimFixed, 3}}}, outputs: []string{"y"}, inits: []string{"w"}, initDims: map[string][]int64{"w": {1, 3}},
				nodes: []rtNode{{"T2", []string{"x", "w"}, []string{"y"}}}, supplied: map[string][]int64{"x": {3}, "w": {3}}},
			{name: "initializer that is also a graph input, overridden with another fixed extent", inputs: []string{"x", "w"}, inDims: map[string][]rtDim{"w": {{dimFixed, 1}, {dimFixed, 3}}}, outputs: []string{"y"}, inits: []string{"w"}, initDims: map[string][]int64{"w": {1, 3}},
				nodes: []rtNode{{"T2", []string{"x", "w"}, []string{"y"}}}, supplied: map[string][]int64{"x": {3}, "w": {1, 2}}},
			{name: "initializer that is also a graph input, overridden with a tensor that fits the declaration", inputs: []string{"x", "w"}, inDims: map[string][]rtDim{"w": {{dimFixed, 1}, {dimFixed, 3}}}, outputs: []string{"y"}, inits: []string{"w"}, initDims: map[string][]int64{"w": {1, 3}},
				nodes: []rtNode{{"T2", []string{"x", "w"}, []string{"y"}}}, supplied: map[string][]int64{"x": {3}, "w": {1, 3}}},
			{name: "initializer that is also a graph input, not supplied, stored with other dims than declared", inputs: []string{"x", "w"}, inDims: map[string][]rtDim{"w": {{dimFixed, 1}, {dimFixed, 3}}}, outputs: []string{"y"}, inits: []string{"w"}, initDims: map[string][]int64{"w": {3}},
				nodes: []rtNode{{"T2", []string{"x", "w"}, []string{"y"}}}, supplied: map[string][]int64{"x": {3}}},
		}...)
		for i := range graphs {
			if graphs[i].noType == nil {
				graphs[i].noType = map[string]bool{}
			}
			if graphs[i].noShape == nil {
				graphs[i].noShape = map[string]bool{}
			}
			for _, in := range graphs[i].inputs {
				if _, ok := graphs[i].inDims[in]; !ok {
					graphs[i].inDims[in] = sym
				}
			}
		}
	}
	// the validator: one declared input with every combination of dimension kinds, against supplied shapes
	if prop == "C13" || prop == "C01" {
		kinds := []rtDim{{dimFixed, 2}, {dimFixed, 1}, {dimSymbolic, 0}, {dimUnspecified, 0}}
		var decls [][]rtDim
		for _, a := range kinds {
			decls = append(decls, []rtDim{a})
			for _, b := range kinds {
				decls = append(decls, []rtDim{a, b})
			}
		}
		decls = append(decls, []rtDim{{dimFixed, 2}, {dimFixed, 3}, {dimSymbolic, 0}})
		for _, d := range decls {
			var shapes [][]int64
			var gen func(cur []int64, r int)
			gen = func(cur []int64, r int) {
				if len(cur) == r {
					shapes = append(shapes, append([]int64{}, cur...))
					return
				}
				for _, e := range []int64{1, 2, 3} {
					gen(append(cur, e), r)
				}
			}
			for r := len(d) - 1; r <= len(d)+1; r++ {
				if r >= 0 {
					gen(nil, r)
				}
			}
			for _, sh := range shapes {
				graphs = append(graphs, rtGraph{name: fmt.Sprintf("declared dims %s against a tensor of shape %s", fmtDims(d), fmtInts(sh)),
					inputs: []string{"x"}, inDims: map[string][]rtDim{"x": d}, outputs: []string{"x"}, supplied: map[string][]int64{"x": sh}})
			}
		}
	}

	bad, badPos := "", c.pos(mi.run.Pos())
	cells, evaluated := 0, 0
	for gi := range graphs {
		g := &graphs[gi]
		cells++
		got, gotOK, followed, why := c.runAbstractGraph(mi, onnxPkg.Types, g)
		if why != "" && bad == "" {
			bad = fmt.Sprintf("model %q: %s", g.name, why)
		}
		if !followed {
			if os.Getenv("R37DEBUG") != "" {
				fmt.Printf("R37DEBUG unfollowed: %s\n", g.name)
			}
			continue
		}
		evaluated++
		want, wantOK := g.expected()
		switch {
		case wantOK && !gotOK:
			if bad == "" {
				bad = fmt.Sprintf("model %q: Run answers with an error although the graph is well-formed and the inputs fit", g.name)
			}
		case !wantOK && gotOK:
			if bad == "" {
				bad = fmt.Sprintf("model %q: Run succeeds (%s) although it has to report an error", g.name, fmtLabels(got))
			}
		case wantOK && gotOK && fmtLabels(got) != fmtLabels(want):
			if bad == "" {
				bad = fmt.Sprintf("model %q: Run returns %s, the dataflow composition is %s", g.name, fmtLabels(got), fmtLabels(want))
			}
		}
	}
	c.counts["R37.cells"] += cells
	c.counts["R37.cells_evaluated"] += evaluated
	switch {
	case bad != "":
		c.violate("R37", "R37:run-table", badPos, bad)
	case evaluated < cells:
		c.undecided("R37", "R37:run-table", badPos, fmt.Sprintf("only %d of %d abstract models could be followed to a single outcome: the interpreter's factoring is not recognised", evaluated, cells))
	default:
		c.discharge("R37", "R37:run-table", badPos, fmt.Sprintf("%d abstract models (chains, fan-out, multi-output nodes, skipped optional inputs, initializer defaults and overrides, missing producers, unknown and failing operators, every combination of fixed / symbolic / unspecified dims against supplied shapes): Run's result equals the independent dataflow evaluation, each twice in a row on the same Model with the Model left unchanged", cells))
		if c.tableCovered == nil {
			c.tableCovered = map[string]string{}
		}
		c.tableCovered["table:run"] = "R37:run-table"
	}
}

func fmtDims(d []rtDim) string {
	var parts []string
	for _, x := range d {
		switch x.kind {
		case dimFixed:
			parts = append(parts, fmt.Sprint(x.size))
		case dimSymbolic:
			parts = append(parts, "N")
		default:
			parts = append(parts, "?")
		}
	}
	return "[" + strings.Join(parts, ",") + "]"
}

func fmtLabels(m map[string]string) string {
	var ks []string
	for k := range m {
		ks = append(ks, k)
	}
	sort.Strings(ks)
	var parts []string
	for _, k := range ks {
		parts = append(parts, k+"="+m[k])
	}
	return "{" + strings.Join(parts, " ") + "}"
}

// runAbstractGraph walks Run over the abstract model twice. followed=false: the walk did not reach a single outcome.
func (c *Ctx) runAbstractGraph(mi *modelInfo, onnx *types.Package, g *rtGraph) (got map[string]string, ok bool, followed bool, why string) {
	heap := newHeap()
	b := &rtBuilder{c: c, heap: heap, onnx: onnx}
	labels := map[int64]string{}  // abstract tensor id -> label
	shapes := map[int64][]int64{} // abstract tensor id -> shape
	opNode := map[int64]int64{}   // abstract operator id -> node object id (set by Init)
	opType := map[int64]string{}
	nodeIdx := map[int64]int{} // node object id -> position
	applied := map[int64]bool{}
	opMisuse := ""
	nextAbs := int64(1000)
	newTensor := func(label string, shape []int64) pval {
		nextAbs++
		labels[nextAbs] = label
		shapes[nextAbs] = shape
		return pval{k: pAbs, i: nextAbs, s: "tensor"}
	}
	// protobuf
	var nodes, ins, outs, inits []pval
	for i, n := range g.nodes {
		o := b.obj(onnx, "NodeProto", map[string]pval{"OpType": {k: pStr, s: n.op}, "Input": b.strs(n.inputs...), "Output": b.strs(n.outputs...)})
		nodeIdx[o.i] = i
		nodes = append(nodes, o)
	}
	for _, in := range g.inputs {
		ins = append(ins, b.valueInfo(in, g.inDims[in], !g.noType[in], !g.noType[in] && !g.noShape[in]))
	}
	for _, o := range g.outputs {
		outs = append(outs, b.valueInfo(o, nil, true, false))
	}
	for _, i := range g.inits {
		inits = append(inits, b.obj(onnx, "TensorProto", map[string]pval{"Name": {k: pStr, s: i}}))
	}
	graph := b.obj(onnx, "GraphProto", map[string]pval{"Node": b.list(nodes...), "Input": b.list(ins...), "Output": b.list(outs...), "Initializer": b.list(inits...)})
	mp := b.obj(onnx, "ModelProto", map[string]pval{"Graph": graph})
	params := heap.newMap()
	for _, i := range g.inits {
		ish := []int64{3}
		if d, ok := g.initDims[i]; ok {
			ish = d
		}
		heap.maps[params.i].set(pval{k: pStr, s: i}, newTensor("W:"+i, ish))
	}
	model := heap.newObj(mi.named)
	heap.objs[model.i].fields[mi.fProto] = mp
	heap.objs[model.i].fields[mi.fParams] = params
	heap.objs[model.i].fields[mi.fGetter] = pval{k: pHookFn, i: 1}
	if graph.k != pObj || mp.k != pObj {
		return nil, false, false, ""
	}

	modelStores := 0
	run := func() (map[string]string, bool, bool) {
		inputs := heap.newMap()
		var names []string
		for n := range g.supplied {
			names = append(names, n)
		}
		sort.Strings(names)
		for _, n := range names {
			heap.maps[inputs.i].set(pval{k: pStr, s: n}, newTensor("X:"+n, g.supplied[n]))
		}
		p := &pinterp{c: c, budget: 600000, objects: true, trace: os.Getenv("R37TRACE") == g.name}
		p.onStore = func(fn *ssa.Function, in ssa.Instruction, obj int64, field int) {
			if obj == model.i {
				modelStores++
			}
		}
		p.onDyn = func(fn *ssa.Function, call *ssa.Call, args []pval, h *pheap) ([]pval, bool) {
			if len(args) != 2 || args[0].k != pHookFn || args[1].k != pStr {
				return nil, false
			}
			if _, known := rtArity[args[1].s]; !known {
				return []pval{{k: pNil}, {k: pNonNil}}, true
			}
			nextAbs++
			opType[nextAbs] = args[1].s
			return []pval{{k: pAbs, i: nextAbs, s: "operator"}, {k: pNil}}, true
		}
		p.onInvoke = func(fn *ssa.Function, call *ssa.Call, recv pval, method string, args []pval, h *pheap) ([]pval, bool) {
			if recv.k != pAbs {
				return nil, false
			}
			if recv.s == "tensor" {
				switch method {
				case "Shape":
					sh := shapes[recv.i]
					l := make([]pval, len(sh))
					for i, v := range sh {
						l[i] = pval{k: pInt, i: v}
					}
					return []pval{h.alloc(l)}, true
				case "Dims":
					return []pval{{k: pInt, i: int64(len(shapes[recv.i]))}}, true
				}
				return nil, false
			}
			switch method {
			case "Init":
				if _, again := opNode[recv.i]; again {
					opMisuse = "an operator instance is initialised for a second node: operators are not fresh per node (attribute state of one node leaks into another)"
				}
				if len(args) == 1 && args[0].k == pObj {
					opNode[recv.i] = args[0].i
				}
				return []pval{{k: pNil}}, true
			case "ValidateInputs":
				if len(args) != 1 {
					return nil, false
				}
				var l []pval
				switch args[0].k {
				case pList:
					l = h.lists[args[0].i]
				case pNil:
				default:
					return nil, false
				}
				return []pval{h.alloc(append(append([]pval{}, l...), pval{k: pNil})), {k: pNil}}, true
			case "Apply":
				if len(args) != 1 || args[0].k != pList || h.lists[args[0].i] == nil {
					return nil, false
				}
				if applied[recv.i] {
					opMisuse = "an operator instance is applied twice"
				}
				applied[recv.i] = true
				if _, inited := opNode[recv.i]; !inited {
					opMisuse = "an operator is applied without having been initialised with its node"
				}
				if opType[recv.i] == "Bad" {
					return []pval{{k: pNil}, {k: pNonNil}}, true
				}
				var parts []string
				for _, a := range h.lists[args[0].i] {
					switch a.k {
					case pNil:
						parts = append(parts, "nil")
					case pAbs:
						parts = append(parts, labels[a.i])
					default:
						parts = append(parts, "?")
					}
				}
				node, inited := opNode[recv.i]
				k := -1
				if inited {
					k = nodeIdx[node]
				}
				outs := make([]pval, rtArity[opType[recv.i]])
				for j := range outs {
					outs[j] = newTensor(fmt.Sprintf("out(%d,%d;%s)", k, j, strings.Join(parts, ",")), []int64{3})
				}
				return []pval{h.alloc(outs), {k: pNil}}, true
			}
			return nil, false
		}
		res, h := p.run(mi.run, []pval{model, inputs}, 0, heap)
		if len(res) != 2 || h == nil {
			return nil, false, false
		}
		heap = h
		b.heap = h
		if nonNilKind(res[1].k) {
			return nil, false, true
		}
		if res[1].k != pNil || res[0].k != pMap || h.maps[res[0].i] == nil {
			return nil, false, false
		}
		out := map[string]string{}
		mm := h.maps[res[0].i]
		for i, k := range mm.keys {
			if k.k != pStr {
				return nil, false, false
			}
			switch v := mm.vals[i]; v.k {
			case pAbs:
				out[k.s] = labels[v.i]
			case pNil:
				out[k.s] = "nil"
			default:
				return nil, false, false
			}
		}
		return out, true, true
	}
	got, ok, followed = run()
	if !followed {
		return
	}
	// once more on the same Model: the result does not depend on the first Run, the Model is left alone
	got2, ok2, followed2 := run()
	if followed2 && (ok2 != ok || fmtLabels(stripIDs(got2)) != fmtLabels(stripIDs(got))) {
		why = fmt.Sprintf("a second Run on the same Model gives %v %s after %v %s", ok2, fmtLabels(got2), ok, fmtLabels(got))
	}
	if modelStores > 0 {
		why = "Run writes a field of the Model"
	}
	if opMisuse != "" {
		why = opMisuse
	}
	if g.validationFails() && len(opType) > 0 {
		why = "operators are resolved or applied although the inputs do not fit the declared signature: the validator does not run first"
	}
	if pm := heap.maps[params.i]; pm == nil || len(pm.keys) != len(g.inits) {
		why = "Run changes the Model's map of initializers"
	}
	return
}

func stripIDs(m map[string]string) map[string]string { return m }

// ruleOpsetTable (R37:opset-table, C18): NewModel hands the resolver the highest version among the opset imports.
// The walk binds ModelProto.OpsetImport to small lists and observes the argument of the call of the resolver
// (the library function that maps an opset id to an operator getter).
func ruleOpsetTable(c *Ctx, prop string) {
	mi := c.findModel()
	if mi == nil || mi.newModel == nil {
		c.undecided("R37", "R37:opset-table", "", "the constructor of Model was not found")
		return
	}
	onnxPkg := c.pkgByPath[modPath+"/onnx"]
	if onnxPkg == nil {
		return
	}
	bad, cells, seen := "", 0, 0
	domains := []string{"", "ai.onnx.ml", "com.example", "ai.onnx"}
	var lists [][]int64
	for _, l := range [][]int64{{13}, {1, 13}, {13, 1}, {7, 13, 9}, {9, 7}, {}, {13, 13}, {5, 6, 7, 8}} {
		lists = append(lists, l, l) // second copy: with a different domain per import
	}
	for li, versions := range lists {
		cells++
		heap := newHeap()
		b := &rtBuilder{c: c, heap: heap, onnx: onnxPkg.Types}
		var imps []pval
		for vi, v := range versions {
			dom := ""
			if li%2 == 1 {
				dom = domains[(vi+1)%len(domains)]
			}
			imps = append(imps, b.obj(onnxPkg.Types, "OperatorSetIdProto", map[string]pval{"Version": {k: pInt, i: v}, "Domain": {k: pStr, s: dom}}))
		}
		graph := b.obj(onnxPkg.Types, "GraphProto", map[string]pval{})
		mp := b.obj(onnxPkg.Types, "ModelProto", map[string]pval{"Graph": graph, "OpsetImport": b.list(imps...)})
		want := int64(0)
		for _, v := range versions {
			if v > want {
				want = v
			}
		}
		p := &pinterp{c: c, budget: 200000, objects: true}
		var got []int64
		p.onLib = func(fn *ssa.Function, call *ssa.Call, callee *ssa.Function, args []pval, h *pheap) {
			// the resolver: (int64) -> (getter, error)
			sig := callee.Signature
			if sig.Params().Len() == 1 && sig.Results().Len() == 2 && isErrorType(sig.Results().At(1).Type()) {
				if bt, ok := sig.Params().At(0).Type().Underlying().(*types.Basic); ok && bt.Kind() == types.Int64 && len(args) == 1 && args[0].k == pInt {
					got = append(got, args[0].i)
				}
			}
		}
		p.run(mi.newModel, []pval{mp}, 0, heap)
		if len(got) == 0 {
			continue
		}
		seen++
		for _, g := range got {
			if g != want && bad == "" {
				bad = fmt.Sprintf("with opset imports %s the resolver is asked for opset %d, the highest imported version is %d", fmtInts(versions), g, want)
			}
		}
	}
	switch {
	case bad != "":
		c.violate("R37", "R37:opset-table", c.pos(mi.newModel.Pos()), bad)
	case seen < cells:
		c.undecided("R37", "R37:opset-table", c.pos(mi.newModel.Pos()), fmt.Sprintf("the call of the opset resolver could be observed for %d of %d import lists only", seen, cells))
	default:
		c.discharge("R37", "R37:opset-table", c.pos(mi.newModel.Pos()), fmt.Sprintf("%d import lists (single, ascending, descending, unsorted, empty, repeated; default and other domains): the resolver always receives the highest version", cells))
		if c.tableCovered == nil {
			c.tableCovered = map[string]string{}
		}
		c.tableCovered["table:opset"] = "R37:opset-table"
	}
}
