package main

import (
	"fmt"
	"go/constant"
	"go/token"
	"go/types"
	"sort"
	"strings"

	"golang.org/x/tools/go/ssa"
)

// R25 — contracts of the small shared helpers in package ops.
//
// The operator rules treat helpers such as NElements, NewSlicer, AnyToIntSlice or ExtractMatrices as
// doing what their name says. Each of them is a few lines whose meaning is visible in the SSA form, so
// the contract is checked on the body itself, under every property whose operators rely on the helper:
// a change that is right for the common case only (first element skipped, default end = start, blocks
// cut at i*hidden+1) breaks all of them at once and passes the operator-level rules.
//
// The patterns accept both loop spellings (range, classic for) and either accumulation style where it
// matters; what they pin is the dataflow (which element reaches which position), not the text.

type helperSpec struct {
	name  string
	props []string
	check func(c *Ctx, f *ssa.Function) string // "" = contract holds
	doc   string
}

var helperSpecs = []helperSpec{
	{"NElements", []string{"C06", "C07"}, checkNElements, "product of all entries, 1 for none"},
	{"NewSlicer", []string{"C05", "C06", "C08", "C16"}, checkNewSlicer, "start; end = options[0] or start+1; step = options[1] or 1; getters return their own field"},
	{"ExtractMatrices", []string{"C06", "C16"}, checkExtractMatrices, "result[i] = M[0, i*h:(i+1)*h, ...] for i < n"},
	{"AnyToIntSlice", []string{"C05", "C07", "C08", "C09", "C11"}, checkAnyToIntSlice, "every element of an integer slice, in order, converted to int; int64 supported"},
	{"IfScalarToSlice", []string{"C07", "C08", "C09", "C10", "C11"}, checkIfScalarToSlice, "a bare value v of type T becomes []T{v}; anything else is returned as is"},
	{"HasDuplicates", []string{"C07"}, checkHasDuplicates, "true iff two neighbouring entries are equal (all neighbours compared)"},
	{"Zeros", []string{"C06"}, func(c *Ctx, f *ssa.Function) string { return checkFill(c, f, 0) }, "size entries, all 0"},
	{"Ones", []string{"C06"}, func(c *Ctx, f *ssa.Function) string { return checkFill(c, f, 1) }, "size entries, all 1"},
	{"ConvertNegativeAxis", []string{"C09"}, checkConvertNegativeAxis, "axis + rank when axis < 0, axis otherwise"},
}

func ruleHelpers(c *Ctx, prop string) {
	n := 0
	for _, hs := range helperSpecs {
		applies := false
		for _, p := range hs.props {
			if p == prop {
				applies = true
			}
		}
		if !applies {
			continue
		}
		key := "R25:helper:" + hs.name
		var f *ssa.Function
		for _, g := range c.libFns {
			if fnPkgPath(g) == pkgOps && g.Parent() == nil && g.Signature.Recv() == nil && g.Name() == hs.name {
				f = g
			}
		}
		if f == nil {
			// the helper is gone: nothing relies on its contract any more (callers are judged by their own rules)
			c.note("R25", key, "", "helper ops."+hs.name+" does not exist")
			continue
		}
		n++
		why := hs.check(c, f)
		if why != "" && hs.name == "ExtractMatrices" {
			// the structural reading is one spelling of the loop; the contract itself is decided by table
			if tw, decided := c.extractMatricesTable(f); decided {
				why = tw
				if tw == "" {
					c.counts["R25.helpers_by_table"]++
				}
			}
		}
		if why != "" && hs.name == "NewSlicer" {
			if tw := checkNewSlicerTable(c, f); tw != "?" {
				why = tw
				if tw == "" {
					c.counts["R25.helpers_by_table"]++
				}
			}
		}
		if why != "" && hs.name == "AnyToIntSlice" {
			if tw := checkAnyToIntSliceTable(c, f); tw != "?" {
				why = tw
				if tw == "" {
					c.counts["R25.helpers_by_table"]++
				}
			}
		}
		c.decide(why == "", "R25", key, c.pos(f.Pos()), "ops."+hs.name+": "+hs.doc, "ops."+hs.name+" no longer has its contract ("+hs.doc+"): "+why)
	}
	c.counts["R25.helpers"] = n
}

// ---- loops -------------------------------------------------------------------------------------

type indLoop struct {
	hdr   *ssa.BasicBlock
	idx   ssa.Value // the current index inside the body
	start int64
	bound ssa.Value // idx < bound
}

// indLoopOf recognises `for i := s; i < n; i++` and `for i := range x` (rotated range-index form).
func indLoopOf(h *ssa.BasicBlock) (indLoop, bool) {
	if len(h.Instrs) == 0 {
		return indLoop{}, false
	}
	iff, ok := h.Instrs[len(h.Instrs)-1].(*ssa.If)
	if !ok {
		return indLoop{}, false
	}
	cmp, ok := iff.Cond.(*ssa.BinOp)
	if !ok || cmp.Op != token.LSS {
		return indLoop{}, false
	}
	isInc := func(v ssa.Value, of ssa.Value) bool {
		b, ok := v.(*ssa.BinOp)
		if !ok || b.Op != token.ADD {
			return false
		}
		k, isK := constInt(b.Y)
		return isK && k == 1 && b.X == of
	}
	// range-index: X = phi + 1, phi = [-1, X]
	if inc, ok := cmp.X.(*ssa.BinOp); ok && inc.Op == token.ADD {
		if phi, ok := inc.X.(*ssa.Phi); ok && phi.Block() == h && isInc(inc, phi) && len(phi.Edges) == 2 {
			okStart, okStep := false, false
			for _, e := range phi.Edges {
				if k, isK := constInt(e); isK && k == -1 {
					okStart = true
				} else if e == ssa.Value(inc) {
					okStep = true
				}
			}
			if okStart && okStep {
				return indLoop{hdr: h, idx: inc, start: 0, bound: cmp.Y}, true
			}
		}
	}
	if phi, ok := cmp.X.(*ssa.Phi); ok && phi.Block() == h && len(phi.Edges) == 2 {
		start, okStart, okStep := int64(0), false, false
		for _, e := range phi.Edges {
			if k, isK := constInt(e); isK {
				start, okStart = k, true
			} else if isInc(e, phi) {
				okStep = true
			}
		}
		if okStart && okStep {
			return indLoop{hdr: h, idx: phi, start: start, bound: cmp.Y}, true
		}
	}
	return indLoop{}, false
}

func loopsOf(f *ssa.Function) []indLoop {
	var out []indLoop
	for _, h := range f.Blocks {
		isHdr := false
		for _, p := range h.Preds {
			if h.Dominates(p) {
				isHdr = true
			}
		}
		if !isHdr {
			continue
		}
		if l, ok := indLoopOf(h); ok {
			out = append(out, l)
		} else {
			out = append(out, indLoop{hdr: h})
		}
	}
	return out
}

// isLenOf: v is len(x) (x compared by identity or as the same parameter).
func isLenOf(v, x ssa.Value) bool {
	cl, ok := v.(*ssa.Call)
	if !ok {
		return false
	}
	bi, ok := cl.Common().Value.(*ssa.Builtin)
	return ok && bi.Name() == "len" && cl.Common().Args[0] == x
}

// elemAt: v is x[idx] (a load through IndexAddr).
func elemAt(v, x, idx ssa.Value) bool {
	ld, ok := v.(*ssa.UnOp)
	if !ok || ld.Op != token.MUL {
		return false
	}
	ia, ok := ld.X.(*ssa.IndexAddr)
	return ok && ia.X == x && ia.Index == idx
}

func stripConv(v ssa.Value) ssa.Value {
	for {
		switch x := v.(type) {
		case *ssa.Convert:
			v = x.X
		case *ssa.ChangeType:
			v = x.X
		default:
			return v
		}
	}
}

// fullLoopOver: the loop walks 0 .. len(x)-1 and is only left when exhausted (or with an error).
func (c *Ctx) fullLoopOver(f *ssa.Function, x ssa.Value) (indLoop, string) {
	for _, l := range loopsOf(f) {
		if l.idx == nil || !isLenOf(l.bound, x) {
			continue
		}
		if l.start != 0 {
			return l, fmt.Sprintf("the loop over the elements starts at %d", l.start)
		}
		if early, _ := c.loopEarlyExit(l.hdr); early {
			return l, "the loop over the elements can be left before the last element"
		}
		return l, ""
	}
	return indLoop{}, "no loop from 0 to len(...) over the elements"
}

// ---- NElements ----------------------------------------------------------------------------------

func checkNElements(c *Ctx, f *ssa.Function) string {
	if len(f.Params) != 1 {
		return "signature changed"
	}
	p := f.Params[0]
	l, why := c.fullLoopOver(f, p)
	if why != "" {
		return why
	}
	rets := returnsOf(f)
	if len(rets) != 1 {
		return "more than one return"
	}
	acc, ok := rets[0].Results[0].(*ssa.Phi)
	if !ok || acc.Block() != l.hdr || len(acc.Edges) != 2 {
		return "the result is not the value accumulated over the loop"
	}
	okInit, okMul := false, false
	for _, e := range acc.Edges {
		if k, isK := constInt(e); isK {
			okInit = k == 1
			continue
		}
		if m, isM := e.(*ssa.BinOp); isM && m.Op == token.MUL {
			if m.X == ssa.Value(acc) && elemAt(m.Y, p, l.idx) || m.Y == ssa.Value(acc) && elemAt(m.X, p, l.idx) {
				okMul = runsEveryIteration(m.Block())
			}
		}
	}
	if !okInit {
		return "the product does not start at 1"
	}
	if !okMul {
		return "the accumulator is not multiplied by every entry"
	}
	return ""
}

// ---- NewSlicer ----------------------------------------------------------------------------------

func checkNewSlicer(c *Ctx, f *ssa.Function) string {
	if len(f.Params) != 2 {
		return "signature changed"
	}
	start, opts := f.Params[0], f.Params[1]
	// field stores on the new Slicer
	stored := map[string]ssa.Value{}
	var named *types.Named
	for _, b := range f.Blocks {
		for _, in := range b.Instrs {
			st, ok := in.(*ssa.Store)
			if !ok {
				continue
			}
			fa, ok := st.Addr.(*ssa.FieldAddr)
			if !ok {
				continue
			}
			if _, isAlloc := fa.X.(*ssa.Alloc); !isAlloc {
				continue
			}
			n, stt := structOfPtr(fa.X.Type())
			if stt == nil {
				continue
			}
			named = n
			stored[stt.Field(fa.Field).Name()] = st.Val
		}
	}
	if stored["start"] != ssa.Value(start) {
		return "field start is not the start argument"
	}
	optAt := func(v ssa.Value, k int64) bool {
		ld, ok := v.(*ssa.UnOp)
		if !ok {
			return false
		}
		ia, ok := ld.X.(*ssa.IndexAddr)
		if !ok || ia.X != ssa.Value(opts) {
			return false
		}
		kk, isK := constInt(ia.Index)
		if !isK || kk != k {
			return false
		}
		// read only when len(options) > k
		for _, g := range guardsOf(ld.Block()) {
			for _, a := range atomsOf(g) {
				if isLenOf(a.x, opts) {
					if n, isN := constInt(a.y); isN && (a.op == token.GEQ && n == k+1 || a.op == token.GTR && n == k) {
						return true
					}
				}
			}
		}
		return false
	}
	phiOf := func(v ssa.Value, dflt func(ssa.Value) bool, k int64) string {
		phi, ok := v.(*ssa.Phi)
		if !ok || len(phi.Edges) != 2 {
			return "is not chosen between its default and the option"
		}
		okD, okO := false, false
		for _, e := range phi.Edges {
			if dflt(e) {
				okD = true
			} else if optAt(e, k) {
				okO = true
			}
		}
		if !okD {
			return "has another default"
		}
		if !okO {
			return fmt.Sprintf("is not taken from options[%d] when that option is given", k)
		}
		return ""
	}
	if w := phiOf(stored["end"], func(e ssa.Value) bool {
		b, ok := e.(*ssa.BinOp)
		if !ok || b.Op != token.ADD {
			return false
		}
		k, isK := constInt(b.Y)
		return isK && k == 1 && b.X == ssa.Value(start)
	}, 0); w != "" {
		return "field end " + w + " (default start+1)"
	}
	if w := phiOf(stored["step"], func(e ssa.Value) bool { k, isK := constInt(e); return isK && k == 1 }, 1); w != "" {
		return "field step " + w + " (default 1)"
	}
	// getters
	if named != nil {
		for _, g := range []struct{ m, fld string }{{"Start", "start"}, {"End", "end"}, {"Step", "step"}} {
			m := c.method(named, g.m)
			if m == nil {
				return "method " + g.m + " missing"
			}
			rets := returnsOf(m)
			okG := len(rets) == 1
			if okG {
				ld, isLd := rets[0].Results[0].(*ssa.UnOp)
				okG = false
				if isLd {
					if fa, isFA := ld.X.(*ssa.FieldAddr); isFA && fa.X == ssa.Value(m.Params[0]) {
						_, stt := structOfPtr(fa.X.Type())
						okG = stt != nil && stt.Field(fa.Field).Name() == g.fld
					}
				}
			}
			if !okG {
				return fmt.Sprintf("%s() does not return the field %s", g.m, g.fld)
			}
		}
	}
	return ""
}

// ---- ExtractMatrices ------------------------------------------------------------------------------

func checkExtractMatrices(c *Ctx, f *ssa.Function) string {
	if len(f.Params) != 4 {
		return "signature changed"
	}
	M, n, hidden := f.Params[0], f.Params[1], f.Params[3]
	// outer loop i = 0 .. n-1
	var outer indLoop
	for _, l := range loopsOf(f) {
		if l.idx != nil && l.bound == ssa.Value(n) {
			outer = l
		}
	}
	if outer.idx == nil {
		return "no loop over the requested number of matrices"
	}
	if outer.start != 0 {
		return fmt.Sprintf("the loop over the matrices starts at %d", outer.start)
	}
	if early, _ := c.loopEarlyExit(outer.hdr); early {
		return "the loop over the matrices can be left early without an error"
	}
	mulBy := func(v ssa.Value, a func(ssa.Value) bool) bool {
		m, ok := v.(*ssa.BinOp)
		if !ok || m.Op != token.MUL {
			return false
		}
		return a(m.X) && m.Y == ssa.Value(hidden) || a(m.Y) && m.X == ssa.Value(hidden)
	}
	isI := func(v ssa.Value) bool { return v == outer.idx }
	isI1 := func(v ssa.Value) bool {
		b, ok := v.(*ssa.BinOp)
		if !ok || b.Op != token.ADD {
			return false
		}
		k, isK := constInt(b.Y)
		return isK && k == 1 && b.X == outer.idx
	}
	var slicerOf = func(call *ssa.Call) (startV ssa.Value, opt []ssa.Value, ok bool) {
		sc := call.Common().StaticCallee()
		if sc == nil || sc.Name() != "NewSlicer" || len(call.Common().Args) != 2 {
			return nil, nil, false
		}
		return call.Common().Args[0], varargElems(call.Common().Args[1]), true
	}
	var hiddenSl, dirSl *ssa.Call
	for _, b := range f.Blocks {
		for _, in := range b.Instrs {
			cl, ok := in.(*ssa.Call)
			if !ok {
				continue
			}
			s, opt, ok := slicerOf(cl)
			if !ok {
				continue
			}
			if k, isK := constInt(s); isK && k == 0 && len(opt) == 0 {
				dirSl = cl
				continue
			}
			if mulBy(s, isI) && len(opt) == 1 && mulBy(opt[0], isI1) {
				hiddenSl = cl
			} else {
				return "a block is not cut as [i*hidden, (i+1)*hidden)"
			}
		}
	}
	if hiddenSl == nil || dirSl == nil {
		return "the direction slice [0,1) or the block slice is missing"
	}
	// M.Slice(allSlices...) with allSlices[0] = dir, allSlices[1] = block, others nil
	var sl *ssa.Call
	for _, b := range f.Blocks {
		for _, in := range b.Instrs {
			if cl, ok := in.(*ssa.Call); ok {
				if nm, recv := tensorMethod(cl); nm == "Slice" && recv == ssa.Value(M) {
					sl = cl
				}
			}
		}
	}
	if sl == nil {
		return "M is not sliced"
	}
	list := sl.Common().Args[len(sl.Common().Args)-1]
	at := map[int64]ssa.Value{}
	okOthers := true
	if ms, ok := list.(*ssa.MakeSlice); ok {
		for _, r := range *ms.Referrers() {
			ia, ok := r.(*ssa.IndexAddr)
			if !ok {
				continue
			}
			for _, rr := range *ia.Referrers() {
				st, ok := rr.(*ssa.Store)
				if !ok {
					continue
				}
				if k, isK := constInt(ia.Index); isK {
					at[k] = st.Val
				} else if !isNilConst(st.Val) {
					okOthers = false
				}
			}
		}
	} else {
		for i, e := range varargElems(list) {
			at[int64(i)] = e
		}
	}
	if at[0] != ssa.Value(dirSl) || at[1] != ssa.Value(hiddenSl) || !okOthers {
		return "the slices are not (direction 0, block i, everything else)"
	}
	for k, v := range at {
		if k >= 2 && !isNilConst(v) {
			return "a trailing axis is not taken whole"
		}
	}
	// result[i] = that view
	okStore := false
	for _, b := range f.Blocks {
		for _, in := range b.Instrs {
			st, ok := in.(*ssa.Store)
			if !ok {
				continue
			}
			ia, ok := st.Addr.(*ssa.IndexAddr)
			if !ok {
				continue
			}
			if ms, isMS := ia.X.(*ssa.MakeSlice); isMS && ms.Len == ssa.Value(n) {
				v := st.Val
				if ci, isCI := v.(*ssa.ChangeInterface); isCI {
					v = ci.X
				}
				// the view itself, or its materialised copy
				var mat ssa.Value
				if mc, isCall := v.(*ssa.Call); isCall {
					if nm, recv := tensorMethod(mc); nm == "Materialize" {
						mat, v = mc, recv
						if ci, isCI := v.(*ssa.ChangeInterface); isCI {
							v = ci.X
						}
					}
				}
				ex, isEx := v.(*ssa.Extract)
				if ia.Index == outer.idx && isEx && ex.Tuple == ssa.Value(sl) && ex.Index == 0 {
					okStore = true
				} else {
					return "a block is stored at a position other than its own index"
				}
				// gorgonia's Slice drops the block axis when hidden == 1 (and returns a scalar for 1x1 blocks): the
				// block is given its shape (hidden, trailing axes of M...) back before it is handed out
				restored := false
				if mat != nil {
					for _, r := range *mat.Referrers() {
						rs, isCall := r.(*ssa.Call)
						if !isCall {
							continue
						}
						if nm, recv := tensorMethod(rs); nm == "Reshape" && recv == mat && (rs.Block().Dominates(st.Block()) && (rs.Block() != st.Block() || instrBefore(rs, st))) {
							args := rs.Common().Args
							if ap, isAp := stripConv(args[len(args)-1]).(*ssa.Call); isAp {
								if bi, isB := ap.Common().Value.(*ssa.Builtin); isB && bi.Name() == "append" {
									first := varargElems(ap.Common().Args[0])
									if len(first) == 1 && first[0] == ssa.Value(hidden) && isShapeTail(ap.Common().Args[1], M, 2) {
										restored = true
									}
								}
							}
						}
					}
				}
				if !restored {
					return "a block is handed out with whatever shape gorgonia's Slice leaves: for hidden size 1 the block axis is dropped (W[k] becomes a vector, a bias block a scalar) and the operator refuses a valid model; the block must be reshaped to (hidden, trailing axes of M...)"
				}
			}
		}
	}
	if !okStore {
		return "block i is not stored as result i"
	}
	return ""
}

// ---- AnyToIntSlice --------------------------------------------------------------------------------

func checkAnyToIntSlice(c *Ctx, f *ssa.Function) string {
	if len(f.Params) != 1 {
		return "signature changed"
	}
	seen := map[string]bool{}
	for _, b := range f.Blocks {
		for _, in := range b.Instrs {
			ta, ok := in.(*ssa.TypeAssert)
			if !ok || ta.X != ssa.Value(f.Params[0]) {
				continue
			}
			sl, isSl := ta.AssertedType.Underlying().(*types.Slice)
			if !isSl {
				continue
			}
			bt, isB := sl.Elem().Underlying().(*types.Basic)
			if !isB || bt.Info()&types.IsInteger == 0 {
				return "a non-integer list is converted to ints: " + ta.AssertedType.String()
			}
			// the asserted slice value
			var src ssa.Value = ta
			if ta.CommaOk {
				src = nil
				for _, r := range *ta.Referrers() {
					if ex, ok := r.(*ssa.Extract); ok && ex.Index == 0 {
						src = ex
					}
				}
			}
			if src == nil {
				continue
			}
			l, why := c.fullLoopOver(f, lenArgEquivalent(f, src))
			if why != "" {
				return ta.AssertedType.String() + ": " + why
			}
			// accumulation: append(acc, int(src[idx])) in every iteration, or out[idx] = int(src[idx])
			okAcc := false
			var accPhi *ssa.Phi
			for _, in2 := range l.hdr.Instrs {
				phi, ok := in2.(*ssa.Phi)
				if !ok {
					continue
				}
				for _, e := range phi.Edges {
					ap, ok := e.(*ssa.Call)
					if !ok {
						continue
					}
					bi, isBi := ap.Common().Value.(*ssa.Builtin)
					if !isBi || bi.Name() != "append" || ap.Common().Args[0] != ssa.Value(phi) {
						continue
					}
					els := varargElems(ap.Common().Args[1])
					if len(els) == 1 && elemAt(stripConv(els[0]), src, l.idx) && runsEveryIteration(ap.Block()) {
						okAcc = true
						accPhi = phi
					}
				}
			}
			if !okAcc {
				return ta.AssertedType.String() + ": not every element is appended, in order, as int(element)"
			}
			// the loop's exit returns the accumulated list and a nil error
			okRet := false
			for _, r := range returnsOf(f) {
				if len(r.Results) == 2 && r.Results[0] == ssa.Value(accPhi) && isNilConst(r.Results[1]) {
					okRet = true
				}
			}
			if !okRet {
				return ta.AssertedType.String() + ": the converted list is not what is returned"
			}
			seen[sl.Elem().String()] = true
		}
	}
	if !seen["int64"] {
		return "[]int64 (the type of ONNX shape/axes tensors) is not converted"
	}
	if !seen["int32"] {
		return "[]int32 is not converted"
	}
	return ""
}

// checkAnyToIntSliceTable: the same contract over a finite table (lists of 0..3 token elements behind an interface
// holding []int32 / []int64): every element, in order, converted to int and nothing else. "" when it holds, "?" when
// the walk cannot follow.
func checkAnyToIntSliceTable(c *Ctx, f *ssa.Function) string {
	cov := newCover(f)
	convs := func(trail string) bool { return trail == "" || onlyConversions(trail) }
	// every integer element type is walked (so that all the code is seen); int64 and int32 must be converted
	for _, k := range []types.BasicKind{types.Int64, types.Int32, types.Int16, types.Int8, types.Int, types.Uint8, types.Uint16, types.Uint32, types.Uint64, types.Float32} {
		known, pass, why := c.elementwiseCells(f, 0, convs, cov, types.Typ[k])
		must := k == types.Int64 || k == types.Int32
		if !known {
			return "?" // a list type whose conversion cannot be followed: the structural reading decides
		}
		if !pass && (must || !strings.HasSuffix(why, "is refused")) {
			return "[]" + types.Typ[k].String() + ": " + why
		}
	}
	if unc := cov.uncovered(c); len(unc) > 0 {
		c.declined("table of ops.AnyToIntSlice", unc)
		return "?"
	}
	return ""
}

// lenArgEquivalent returns the value whose len() bounds the loop over src: src itself.
func lenArgEquivalent(f *ssa.Function, src ssa.Value) ssa.Value { return src }

// ---- IfScalarToSlice ------------------------------------------------------------------------------

func checkIfScalarToSlice(c *Ctx, f *ssa.Function) string {
	if len(f.Params) != 1 {
		return "signature changed"
	}
	p := f.Params[0]
	nCases := 0
	for _, r := range returnsOf(f) {
		v := r.Results[0]
		if v == ssa.Value(p) {
			continue // not a scalar: returned as is
		}
		mi, ok := v.(*ssa.MakeInterface)
		if !ok {
			return "a return is neither the argument itself nor a wrapped list"
		}
		sl, ok := mi.X.(*ssa.Slice)
		if !ok {
			return "a wrapped value is not a list literal"
		}
		els := varargElems(sl)
		if len(els) != 1 {
			return fmt.Sprintf("a scalar is wrapped into a list of %d elements", len(els))
		}
		// the element is the argument asserted to the list's own element type
		ex, ok := els[0].(*ssa.Extract)
		var ta *ssa.TypeAssert
		if ok {
			ta, _ = ex.Tuple.(*ssa.TypeAssert)
		} else {
			ta, _ = els[0].(*ssa.TypeAssert)
		}
		if ta == nil || ta.X != ssa.Value(p) {
			return "the list element is not the argument itself"
		}
		st, _ := mi.X.Type().Underlying().(*types.Slice)
		if st == nil || !types.Identical(st.Elem(), ta.AssertedType) {
			return "a scalar of one type is wrapped into a list of another type"
		}
		// returned on the edge where the assertion succeeded
		if ta.CommaOk {
			okEdge := false
			for _, g := range guardsOf(r.Block()) {
				if e, isE := g.cond.(*ssa.Extract); isE && e.Tuple == ssa.Value(ta) && e.Index == 1 && g.truth {
					okEdge = true
				}
			}
			if !okEdge {
				return "a wrapped list is returned although the type test failed"
			}
		}
		nCases++
	}
	if nCases < 8 {
		return fmt.Sprintf("only %d scalar types are wrapped", nCases)
	}
	return ""
}

// ---- HasDuplicates --------------------------------------------------------------------------------

func checkHasDuplicates(c *Ctx, f *ssa.Function) string {
	if len(f.Params) != 1 {
		return "signature changed"
	}
	p := f.Params[0]
	// a loop over arr[1:] (or 1..len) comparing each entry with its predecessor; true on equality; false at the end
	for _, l := range loopsOf(f) {
		if l.idx == nil {
			continue
		}
		var cur, prev ssa.Value
		var overTail bool
		if cl, ok := l.bound.(*ssa.Call); ok {
			if bi, isB := cl.Common().Value.(*ssa.Builtin); isB && bi.Name() == "len" {
				a := cl.Common().Args[0]
				if s, isS := a.(*ssa.Slice); isS && s.X == ssa.Value(p) && s.High == nil {
					if lo, isK := constInt(s.Low); isK && lo == 1 && l.start == 0 {
						overTail = true
						cur = a
					}
				} else if a == ssa.Value(p) && l.start == 1 {
					cur = a
				}
			}
		}
		if cur == nil {
			continue
		}
		// the equality test
		for b := range loopBlocks(l.hdr) {
			if len(b.Instrs) == 0 {
				continue
			}
			iff, ok := b.Instrs[len(b.Instrs)-1].(*ssa.If)
			if !ok || b == l.hdr {
				continue
			}
			eq, ok := iff.Cond.(*ssa.BinOp)
			if !ok || eq.Op != token.EQL {
				continue
			}
			x, y := eq.X, eq.Y
			if elemAt(x, cur, l.idx) {
				x, y = y, x
			}
			if !elemAt(y, cur, l.idx) {
				continue
			}
			prev = x
			// prev is the previous entry: phi(arr[0], current) (tail form) or arr[idx-1]
			okPrev := false
			if phi, isPhi := prev.(*ssa.Phi); isPhi && phi.Block() == l.hdr && overTail {
				okFirst, okNext := false, false
				for _, e := range phi.Edges {
					if ld, isLd := e.(*ssa.UnOp); isLd {
						if ia, isIA := ld.X.(*ssa.IndexAddr); isIA && ia.X == ssa.Value(p) {
							if k, isK := constInt(ia.Index); isK && k == 0 {
								okFirst = true
							}
						}
					}
					if e == y {
						okNext = true
					}
				}
				okPrev = okFirst && okNext
			} else if ld, isLd := prev.(*ssa.UnOp); isLd {
				if ia, isIA := ld.X.(*ssa.IndexAddr); isIA && ia.X == ssa.Value(p) {
					if sb, isSb := ia.Index.(*ssa.BinOp); isSb && sb.Op == token.SUB && sb.X == l.idx {
						k, isK := constInt(sb.Y)
						okPrev = isK && k == 1
					}
				}
			}
			if !okPrev {
				return "an entry is not compared with its direct predecessor"
			}
			// true on the equal edge, and the only other way out is the exhausted loop returning false
			tb := b.Succs[0]
			if !returnsBool(tb, true) {
				return "equal neighbours do not lead to the result true"
			}
			for bb := range loopBlocks(l.hdr) {
				for _, s := range bb.Succs {
					if !loopBlocks(l.hdr)[s] && bb != l.hdr && s != tb {
						return "the loop over the entries can be left before the last pair is compared"
					}
				}
			}
			if !returnsBool(l.hdr.Succs[1], false) {
				return "a list without equal neighbours does not lead to the result false"
			}
			return ""
		}
	}
	return "no loop comparing every entry with its predecessor"
}

func returnsBool(b *ssa.BasicBlock, want bool) bool {
	for i := 0; i < 3 && b != nil; i++ {
		if len(b.Instrs) == 0 {
			return false
		}
		switch x := b.Instrs[len(b.Instrs)-1].(type) {
		case *ssa.Return:
			if k, ok := x.Results[0].(*ssa.Const); ok && k.Value != nil && k.Value.Kind() == constant.Bool {
				return constant.BoolVal(k.Value) == want
			}
			return false
		case *ssa.Jump:
			b = b.Succs[0]
		default:
			return false
		}
	}
	return false
}

// ---- Zeros / Ones ---------------------------------------------------------------------------------

func checkFill(c *Ctx, f *ssa.Function, want int64) string {
	if len(f.Params) < 1 {
		return "signature changed"
	}
	rets := returnsOf(f)
	if len(rets) != 1 {
		return "more than one return"
	}
	v := rets[0].Results[0]
	// delegation to a sibling: Full(size, k)
	if cl, ok := v.(*ssa.Call); ok {
		if sc := cl.Common().StaticCallee(); sc != nil && fnPkgPath(sc) == pkgOps && len(cl.Common().Args) == 2 && cl.Common().Args[0] == ssa.Value(f.Params[0]) {
			if k, isK := constFloat(cl.Common().Args[1]); isK && k == float64(want) {
				return checkFillParam(c, sc)
			}
		}
		return "delegates to another helper with other arguments"
	}
	ms, ok := v.(*ssa.MakeSlice)
	if !ok || ms.Len != ssa.Value(f.Params[0]) {
		return "the result is not a new list of the requested size"
	}
	// every store into it writes the constant, over the full range (Go zero-initialises: no store needed for 0)
	nSt := 0
	for _, r := range *ms.Referrers() {
		ia, ok := r.(*ssa.IndexAddr)
		if !ok {
			continue
		}
		for _, rr := range *ia.Referrers() {
			st, ok := rr.(*ssa.Store)
			if !ok {
				continue
			}
			nSt++
			k, isK := constFloat(st.Val)
			if !isK || k != float64(want) {
				return fmt.Sprintf("an entry is set to something other than %d", want)
			}
			okLoop := false
			for _, l := range loopsOf(f) {
				if l.idx != nil && l.idx == ia.Index && l.start == 0 && (l.bound == ssa.Value(f.Params[0]) || isLenOf(l.bound, ms)) && runsEveryIteration(st.Block()) {
					if early, _ := c.loopEarlyExit(l.hdr); !early {
						okLoop = true
					}
				}
			}
			if !okLoop {
				return "the entries are not all set (loop does not cover 0..size-1)"
			}
		}
	}
	if nSt == 0 && want != 0 {
		return "the entries are never set"
	}
	return ""
}

// checkFillParam: Full(size, value): every entry = value.
func checkFillParam(c *Ctx, f *ssa.Function) string {
	rets := returnsOf(f)
	if len(rets) != 1 || len(f.Params) != 2 {
		return "the fill helper changed shape"
	}
	ms, ok := rets[0].Results[0].(*ssa.MakeSlice)
	if !ok || ms.Len != ssa.Value(f.Params[0]) {
		return "the fill helper does not return a new list of the requested size"
	}
	nSt := 0
	for _, r := range *ms.Referrers() {
		ia, ok := r.(*ssa.IndexAddr)
		if !ok {
			continue
		}
		for _, rr := range *ia.Referrers() {
			st, ok := rr.(*ssa.Store)
			if !ok {
				continue
			}
			nSt++
			if st.Val != ssa.Value(f.Params[1]) {
				return "the fill helper stores something other than the value"
			}
			okLoop := false
			for _, l := range loopsOf(f) {
				if l.idx != nil && l.idx == ia.Index && l.start == 0 && (l.bound == ssa.Value(f.Params[0]) || isLenOf(l.bound, ms)) && runsEveryIteration(st.Block()) {
					if early, _ := c.loopEarlyExit(l.hdr); !early {
						okLoop = true
					}
				}
			}
			if !okLoop {
				return "the fill helper does not set every entry"
			}
		}
	}
	if nSt == 0 {
		return "the fill helper never stores the value"
	}
	return ""
}

func constFloat(v ssa.Value) (float64, bool) {
	k, ok := v.(*ssa.Const)
	if !ok || k.Value == nil {
		return 0, false
	}
	switch k.Value.Kind() {
	case constant.Int, constant.Float:
		f, _ := constant.Float64Val(k.Value)
		return f, true
	}
	return 0, false
}

// ---- ConvertNegativeAxis --------------------------------------------------------------------------

func checkConvertNegativeAxis(c *Ctx, f *ssa.Function) string {
	if len(f.Params) != 2 {
		return "signature changed"
	}
	axis, rank := f.Params[0], f.Params[1]
	rets := returnsOf(f)
	if len(rets) != 1 {
		// two returns: one under axis<0 returning axis+rank, the other axis
		okNeg, okPos := false, false
		for _, r := range rets {
			v := r.Results[0]
			if v == ssa.Value(axis) {
				okPos = !guardSaysNegative(guardsOf(r.Block()), axis)
				continue
			}
			if isSumOf(v, axis, rank) && guardSaysNegative(guardsOf(r.Block()), axis) {
				okNeg = true
			}
		}
		if okNeg && okPos {
			return ""
		}
		return "the result is not axis+rank exactly when axis < 0"
	}
	phi, ok := rets[0].Results[0].(*ssa.Phi)
	if !ok || len(phi.Edges) != 2 {
		return "the result is not chosen between axis and axis+rank"
	}
	okNeg, okPos := false, false
	for i, e := range phi.Edges {
		gs := edgeGuards(phi.Block().Preds[i], phi.Block())
		if e == ssa.Value(axis) && !guardSaysNegative(gs, axis) {
			okPos = true
		}
		if isSumOf(e, axis, rank) && (guardSaysNegative(gs, axis) || guardSaysNegative(guardsOf(e.(*ssa.BinOp).Block()), axis)) {
			okNeg = true
		}
	}
	if !okNeg || !okPos {
		return "the result is not axis+rank exactly when axis < 0"
	}
	return ""
}

func isSumOf(v, a, b ssa.Value) bool {
	s, ok := v.(*ssa.BinOp)
	return ok && s.Op == token.ADD && (s.X == a && s.Y == b || s.X == b && s.Y == a)
}

func guardSaysNegative(gs []guard, v ssa.Value) bool {
	for _, g := range gs {
		for _, a := range atomsOf(g) {
			if a.x == v {
				if k, ok := constInt(a.y); ok && (a.op == token.LSS && k == 0 || a.op == token.LEQ && k == -1) {
					return true
				}
			}
		}
	}
	return false
}

var _ = strings.Contains
var _ = sort.Strings

// isShapeTail: v is t.Shape()[k:] for the tensor value t.
func isShapeTail(v, t ssa.Value, k int64) bool {
	sl, ok := stripConv(v).(*ssa.Slice)
	if !ok || sl.High != nil {
		return false
	}
	if lo, isK := constInt(sl.Low); !isK || lo != k {
		return false
	}
	cl, ok := stripConv(sl.X).(*ssa.Call)
	if !ok {
		return false
	}
	nm, recv := tensorMethod(cl)
	return nm == "Shape" && recv == t
}

// extractMatricesTable walks ops.ExtractMatrices(M, n, nDims, h) over tensors M of shape (1, n*h[, d]) whose
// elements are their own positions: result[i] must be M[0, i*h:(i+1)*h, ...] with shape (h[, d]), for n in 1..4,
// h in 1..3, d in {absent, 1, 3}. gorgonia's Slice (unit axes dropped), Materialize and Reshape are modelled by
// their shape and content contracts.
func (c *Ctx) extractMatricesTable(f *ssa.Function) (string, bool) {
	if len(f.Params) != 4 {
		return "", false
	}
	cells := 0
	for n := int64(1); n <= 4; n++ {
		for h := int64(1); h <= 3; h++ {
			for _, d := range []int64{0, 1, 3} {
				shape := []int64{1, n * h}
				if d > 0 {
					shape = append(shape, d)
				}
				heap := newHeap()
				mk := func(l []int64) pval {
					pl := make([]pval, len(l))
					for i, v := range l {
						pl[i] = pval{k: pInt, i: v}
					}
					return heap.alloc(pl)
				}
				total := prodInts(shape)
				content := make([]int64, total)
				for i := range content {
					content[i] = int64(i)
				}
				M := pval{k: pShaped, i: 0, j: mk(shape).i, m: mk(content).i}
				p := &pinterp{c: c, budget: 200000, objects: true}
				res, hp := p.run(f, []pval{M, {k: pInt, i: n}, {k: pInt, i: int64(len(shape))}, {k: pInt, i: h}}, 0, heap)
				if hp == nil || len(res) != 2 || res[1].k != pNil || res[0].k != pList || hp.lists[res[0].i] == nil {
					return "", false
				}
				cells++
				got := hp.lists[res[0].i]
				desc := fmt.Sprintf("M of shape %s, %d matrices, hidden size %d", fmtInts(shape), n, h)
				if int64(len(got)) != n {
					return fmt.Sprintf("%s: %d matrices returned", desc, len(got)), true
				}
				inner := int64(1)
				if d > 0 {
					inner = d
				}
				for i, g := range got {
					if g.k != pShaped || hp.lists[g.j] == nil {
						return "", false
					}
					wantShape := []int64{h}
					if d > 0 {
						wantShape = append(wantShape, d)
					}
					var gs []int64
					for _, e := range hp.lists[g.j] {
						gs = append(gs, e.i)
					}
					if fmtInts(gs) != fmtInts(wantShape) {
						return fmt.Sprintf("%s: matrix %d has shape %s, not %s", desc, i, fmtInts(gs), fmtInts(wantShape)), true
					}
					ct := hp.lists[g.m]
					if g.m == 0 || ct == nil || int64(len(ct)) != h*inner {
						return "", false
					}
					for k := int64(0); k < h*inner; k++ {
						want := (int64(i)*h)*inner + k
						if ct[k].k != pInt || ct[k].i != want {
							return fmt.Sprintf("%s: element %d of matrix %d is element %d of M, the contract asks for element %d (rows %d..%d)", desc, k, i, ct[k].i, want, int64(i)*h, (int64(i)+1)*h-1), true
						}
					}
				}
			}
		}
	}
	return "", cells > 0
}

// elementwiseTable interprets a function list -> list over inputs of 0..3 token elements: the result must have one
// element per input element, element i derived from input element i alone, by the same operations for every i,
// and those operations must be acceptable to the caller (allow receives the recorded trail, e.g. "|conv:int8").
// known=false when the walk cannot follow the function to one result (the structural rule decides then).
func (c *Ctx) elementwiseTable(f *ssa.Function, inIdx int, allow func(trail string) bool, dynElem ...types.Type) (known, pass bool, why string) {
	cov := newCover(f)
	known, pass, why = c.elementwiseCells(f, inIdx, allow, cov, dynElem...)
	if known && pass {
		if unc := cov.uncovered(c); len(unc) > 0 {
			known = false // code no cell reached: the table does not know the function
			c.declined("elementwise table of "+fname(f), unc)
		}
	}
	return
}

func (c *Ctx) elementwiseCells(f *ssa.Function, inIdx int, allow func(trail string) bool, cov *pcover, dynElem ...types.Type) (known, pass bool, why string) {
	if f == nil || len(f.Blocks) == 0 || inIdx >= len(f.Params) {
		return false, false, ""
	}
	for n := 0; n <= 3; n++ {
		p := &pinterp{c: c, budget: 20000, objects: true, cover: cov}
		if len(dynElem) == 1 {
			p.listsAreSlicesOf = dynElem[0] // the argument is an interface holding a slice of this element type
		}
		heap := newHeap()
		in := make([]pval, n)
		for i := range in {
			in[i] = pval{k: pTok, i: int64(i)}
		}
		args := make([]pval, len(f.Params))
		args[inIdx] = heap.alloc(in)
		res, h := p.run(f, args, 0, heap)
		if p.aborted || len(res) == 0 || h == nil {
			return false, false, ""
		}
		if len(res) == 2 && len(dynElem) == 1 {
			if nonNilKind(res[1].k) {
				return true, false, "a list of " + dynElem[0].String() + " is refused"
			}
			if res[1].k != pNil {
				return false, false, ""
			}
		}
		var out []pval
		switch res[0].k {
		case pList:
			out = h.lists[res[0].i]
			if out == nil {
				return false, false, ""
			}
		case pNil:
		default:
			return false, false, ""
		}
		if len(out) != n {
			return true, false, fmt.Sprintf("%d input elements give %d output elements", n, len(out))
		}
		for i, e := range out {
			if e.k != pTok {
				if e.k == pUnknown || e.k == pPoison {
					return false, false, ""
				}
				return true, false, fmt.Sprintf("output element %d of %d does not derive from the input elements", i, n)
			}
			if e.i != int64(i) {
				return true, false, fmt.Sprintf("output element %d of %d derives from input element %d", i, n, e.i)
			}
			if e.s != out[0].s {
				return true, false, fmt.Sprintf("output elements are computed differently (%q at 0, %q at %d)", out[0].s, e.s, i)
			}
			if allow != nil && !allow(e.s) {
				return true, false, fmt.Sprintf("output element %d is not the expected function of input element %d (operations: %q)", i, i, e.s)
			}
		}
	}
	return true, true, ""
}

// onlyConversions: a trail of conversions and nothing else.
func onlyConversions(trail string) bool {
	for _, st := range strings.Split(trail, "|") {
		if st != "" && !strings.HasPrefix(st, "conv:") {
			return false
		}
	}
	return trail != ""
}

// checkNewSlicerTable walks ops.NewSlicer(start, options...) for 0..3 options and reads the result through its own
// Start / End / Step methods: start; end = options[0] or start+1; step = options[1] or 1. "?" when not followed.
func checkNewSlicerTable(c *Ctx, f *ssa.Function) string {
	if len(f.Params) != 2 {
		return "?"
	}
	cov := newCover(f)
	for _, start := range []int64{0, 3, 7} {
		for n := 0; n <= 3; n++ {
			opts := []int64{11, 5, 9}[:n]
			heap := newHeap()
			var ov pval = pval{k: pNil}
			if n > 0 {
				l := make([]pval, n)
				for i, o := range opts {
					l[i] = pval{k: pInt, i: o}
				}
				ov = heap.alloc(l)
			}
			p := &pinterp{c: c, budget: 20000, objects: true, cover: cov}
			res, h := p.run(f, []pval{{k: pInt, i: start}, ov}, 0, heap)
			if p.aborted || h == nil || len(res) != 1 || res[0].k != pObj || h.objs[res[0].i] == nil || h.objs[res[0].i].typ == nil {
				return "?"
			}
			typ := h.objs[res[0].i].typ
			var pkg *types.Package
			if nn, ok := typ.(*types.Named); ok {
				pkg = nn.Obj().Pkg()
			}
			want := map[string]int64{"Start": start, "End": start + 1, "Step": 1}
			if n >= 1 {
				want["End"] = opts[0]
			}
			if n >= 2 {
				want["Step"] = opts[1]
			}
			for _, mname := range []string{"Start", "End", "Step"} {
				m := c.prog.LookupMethod(types.NewPointer(typ), pkg, mname)
				if m == nil || len(m.Blocks) == 0 {
					return "?"
				}
				p2 := &pinterp{c: c, budget: 2000, objects: true}
				r2, _ := p2.run(m, []pval{res[0]}, 0, h.clone())
				if len(r2) != 1 || r2[0].k != pInt {
					return "?"
				}
				if r2[0].i != want[mname] {
					return fmt.Sprintf("NewSlicer(%d, %s...).%s() is %d, expected %d", start, fmtInts(opts), mname, r2[0].i, want[mname])
				}
			}
		}
	}
	if unc := cov.uncovered(c); len(unc) > 0 {
		c.declined("table of ops.NewSlicer", unc)
		return "?"
	}
	return ""
}
