package main

import (
	"fmt"
	"go/ast"
	"go/token"
	"go/types"
	"os"
	"path/filepath"
	"sort"
	"strings"

	"golang.org/x/tools/go/callgraph"
	"golang.org/x/tools/go/packages"
	"golang.org/x/tools/go/ssa"
)

// Status of an obligation.
const (
	StDischarged = "discharged"
	StViolated   = "violated"
	StNote       = "note"      // recorded, never counted as a violation
	StUndecided  = "undecided" // neither discharged nor refuted: reported as an undischarged obligation (exit 1)
)

// Obligation is one (rule, construct) pair the checker had to decide.
type Obligation struct {
	Rule    string   `json:"rule"`
	Key     string   `json:"key"` // semantic, position independent
	Site    string   `json:"site,omitempty"`
	Status  string   `json:"status"`
	Why     string   `json:"why,omitempty"`
	Path    []string `json:"path,omitempty"`
	Control bool     `json:"control,omitempty"` // positive/negative control in the fixture overlay
}

const modPath = "github.com/advancedclimatesystems/gonnx"
const controlPkgSuffix = "/zzverifcontrol"

// Ctx is the loaded program plus the obligation sink.
// theCtx: the context of the running check (set once after loading; for helpers without a receiver)
var theCtx *Ctx

type Ctx struct {
	repo  string
	tier  string
	pkgs  []*packages.Package
	fset  *token.FileSet
	prog  *ssa.Program
	cg    *callgraph.Graph
	cgAlg string

	pkgByPath map[string]*packages.Package
	ssaPkg    map[string]*ssa.Package

	allFns  []*ssa.Function // every function with a body in library + control packages (incl. anon, instances)
	libFns  []*ssa.Function // library only
	ctlFns  []*ssa.Function // control package only
	nFiles  int
	obls    []Obligation
	counts  map[string]int // rule instance counters for floors
	notes   []string
	trusted map[string]bool

	wantControls     []string
	termMemo         map[ssa.Value]string
	termBusy         map[ssa.Value]bool
	inlineExtractors map[*ssa.Call]*extractor
	termInline       bool
	termSubst        []map[*ssa.Parameter]string
	termSubstVals    []map[*ssa.Parameter]ssa.Value
	rangeCheckerMemo map[*ssa.Function]bool
	tableCovered     map[string]string // function name -> key of the finite table that walked it and passed
	dimsGateMemo     map[string]dimsGateRes
	initMemo         *initState
	recMemo          map[string]recRes
	decodeMemo       *decodeTableRes
	onnxInitMemo     *initState
	readerMemo       map[*ssa.Function]readerRes
	castMemo         *castTableRes
	boolKernels      map[string]*ssa.Function
	seqLensRefused   map[string]string
	recProvMemo      map[string]recProvRes
	gemmBatchBad     string
	mutParamMemo     map[*ssa.Function]bool
	convOuts         []convOut
	convMemo         *recRes
	expandHelpers    bool // successTerms follows unexported helpers that compute the output (R16)
	d6Witness        string
	eff              *effects
}

// declined records that a finite table saw code it could not reach with any cell and leaves the decision to the
// structural rule.
func (c *Ctx) declined(table string, uncovered []string) {
	if len(uncovered) > 3 {
		uncovered = append(uncovered[:3:3], fmt.Sprintf("and %d more", len(uncovered)-3))
	}
	c.notes = append(c.notes, table+" does not decide: no cell reaches "+strings.Join(uncovered, "; "))
	if os.Getenv("GONNXCHECK_DECLINED") != "" {
		fmt.Println("DECLINED:", c.notes[len(c.notes)-1])
	}
}

func (c *Ctx) add(o Obligation) {
	c.obls = append(c.obls, o)
}

func (c *Ctx) discharge(rule, key, site, why string) {
	c.add(Obligation{Rule: rule, Key: key, Site: site, Status: StDischarged, Why: why})
}
func (c *Ctx) violate(rule, key, site, why string) {
	c.add(Obligation{Rule: rule, Key: key, Site: site, Status: StViolated, Why: why})
}
func (c *Ctx) note(rule, key, site, why string) {
	c.add(Obligation{Rule: rule, Key: key, Site: site, Status: StNote, Why: why})
}
func (c *Ctx) undecided(rule, key, site, why string) {
	c.add(Obligation{Rule: rule, Key: key, Site: site, Status: StUndecided, Why: why})
}

// decide records discharged when ok, violated otherwise.
func (c *Ctx) decide(ok bool, rule, key, site, whyOK, whyBad string) {
	if ok {
		c.discharge(rule, key, site, whyOK)
	} else {
		c.violate(rule, key, site, whyBad)
	}
}

// pos renders a position relative to the repository root.
func (c *Ctx) pos(p token.Pos) string {
	if !p.IsValid() {
		return ""
	}
	pp := c.fset.Position(p)
	rel, err := filepath.Rel(c.repo, pp.Filename)
	if err != nil || strings.HasPrefix(rel, "..") {
		rel = pp.Filename
	}
	return fmt.Sprintf("%s:%d", rel, pp.Line)
}

func (c *Ctx) fileOf(p token.Pos) string {
	if !p.IsValid() {
		return ""
	}
	pp := c.fset.Position(p)
	rel, err := filepath.Rel(c.repo, pp.Filename)
	if err != nil {
		return pp.Filename
	}
	return rel
}

func isLibPkgPath(p string) bool {
	return p == modPath || strings.HasPrefix(p, modPath+"/")
}
func isControlPkgPath(p string) bool {
	return strings.HasSuffix(p, controlPkgSuffix)
}

func fnPkgPath(fn *ssa.Function) string {
	if fn == nil {
		return ""
	}
	if fn.Pkg != nil {
		return fn.Pkg.Pkg.Path()
	}
	if o := fn.Origin(); o != nil && o.Pkg != nil {
		return o.Pkg.Pkg.Path()
	}
	if fn.Parent() != nil {
		return fnPkgPath(fn.Parent())
	}
	if fn.Object() != nil && fn.Object().Pkg() != nil {
		return fn.Object().Pkg().Path()
	}
	return ""
}

func isLibFn(fn *ssa.Function) bool {
	p := fnPkgPath(fn)
	return isLibPkgPath(p) && !isControlPkgPath(p)
}
func isControlFn(fn *ssa.Function) bool { return isControlPkgPath(fnPkgPath(fn)) }

// shortPkg strips the module prefix.
func shortPkg(p string) string {
	if p == modPath {
		return "gonnx"
	}
	if strings.HasPrefix(p, modPath+"/") {
		p = p[len(modPath)+1:]
	}
	if i := strings.LastIndex(p, "/"); i >= 0 {
		p = p[i+1:]
	}
	return p
}

// fname renders a function as "(*opset13.Conv).addBias" / "ops.ReLU" / "ops.Or$1".
func fname(fn *ssa.Function) string {
	if fn == nil {
		return "<nil>"
	}
	if fn.Parent() != nil {
		return fname(fn.Parent()) + "$" + strings.TrimPrefix(fn.Name(), fn.Parent().Name()+"$")
	}
	name := fn.Name()
	if recv := fn.Signature.Recv(); recv != nil {
		t := recv.Type()
		ptr := ""
		if p, ok := t.(*types.Pointer); ok {
			t = p.Elem()
			ptr = "*"
		}
		if n, ok := t.(*types.Named); ok {
			pk := ""
			if n.Obj().Pkg() != nil {
				pk = shortPkg(n.Obj().Pkg().Path()) + "."
			}
			return "(" + ptr + pk + n.Obj().Name() + ")." + name
		}
		return "(" + t.String() + ")." + name
	}
	return shortPkg(fnPkgPath(fn)) + "." + name
}

// recvNamed returns the named receiver type of a method (through pointer), or nil.
func recvNamed(fn *ssa.Function) *types.Named {
	if fn == nil || fn.Signature.Recv() == nil {
		return nil
	}
	t := fn.Signature.Recv().Type()
	if p, ok := t.(*types.Pointer); ok {
		t = p.Elem()
	}
	n, _ := t.(*types.Named)
	return n
}

// libFunc finds a package-level function or method by package suffix and rendered name.
// Used only to locate anchors whose role was established otherwise, or for reports.
func (c *Ctx) fnByName(name string) *ssa.Function {
	for _, f := range c.libFns {
		if fname(f) == name {
			return f
		}
	}
	return nil
}

// method returns the SSA function of method name on *T (or T).
func (c *Ctx) method(named *types.Named, name string) *ssa.Function {
	for _, t := range []types.Type{types.NewPointer(named), named} {
		ms := c.prog.MethodSets.MethodSet(t)
		for i := 0; i < ms.Len(); i++ {
			if ms.At(i).Obj().Name() == name {
				return c.prog.MethodValue(ms.At(i))
			}
		}
	}
	return nil
}

// astFuncDecl finds the *ast.FuncDecl of an SSA function.
func (c *Ctx) astFuncDecl(fn *ssa.Function) *ast.FuncDecl {
	if fn == nil {
		return nil
	}
	if d, ok := fn.Syntax().(*ast.FuncDecl); ok {
		return d
	}
	return nil
}

func (c *Ctx) typesInfo(pkgPath string) *types.Info {
	if p := c.pkgByPath[pkgPath]; p != nil {
		return p.TypesInfo
	}
	return nil
}

func sortedKeys[M ~map[string]V, V any](m M) []string {
	ks := make([]string, 0, len(m))
	for k := range m {
		ks = append(ks, k)
	}
	sort.Strings(ks)
	return ks
}

// calleeOf resolves the static callee of a call instruction (nil for dynamic calls).
func calleeOf(call ssa.CallInstruction) *ssa.Function {
	return call.Common().StaticCallee()
}

// calleeObj returns the types.Func called (static callee's object, or the interface method for invoke).
func calleeObj(call ssa.CallInstruction) *types.Func {
	cc := call.Common()
	if cc.IsInvoke() {
		return cc.Method
	}
	if f := cc.StaticCallee(); f != nil {
		if o, ok := f.Object().(*types.Func); ok {
			return o
		}
		if f.Origin() != nil {
			if o, ok := f.Origin().Object().(*types.Func); ok {
				return o
			}
		}
	}
	return nil
}

// qualName renders a types.Func as "pkgpath.Name" or "pkgpath.(Recv).Name".
func qualName(f *types.Func) string {
	if f == nil {
		return ""
	}
	sig := f.Type().(*types.Signature)
	pk := ""
	if f.Pkg() != nil {
		pk = f.Pkg().Path()
	}
	if r := sig.Recv(); r != nil {
		t := r.Type()
		if p, ok := t.(*types.Pointer); ok {
			t = p.Elem()
		}
		switch tt := t.(type) {
		case *types.Named:
			return pk + ".(" + tt.Obj().Name() + ")." + f.Name()
		default:
			// interface method declared in an (embedded) interface: find by package
			return pk + ".(iface)." + f.Name()
		}
	}
	return pk + "." + f.Name()
}
