package main

// R48 — the recurrent operators by element provenance (C06, C16): RNN / GRU / LSTM are walked (constructor, Init,
// Apply; not executed) on tensors whose elements are names. gorgonia's element-wise arithmetic, MatMul, Transpose,
// views and Concat enter as the placement contracts of the other provenance tables; the library's activation
// functions are answered element by element with an opaque application of their name (what they compute is C10's
// subject, which one is applied to what is this table's). Every element of every output is then a polynomial over
// the names of X, W, R, B, initial_h, initial_c, P and activation atoms, in a normal form (sorted sum of signed
// sorted products), and must equal the ONNX recurrence evaluated independently over the same names. How the
// operator is factored - one Gemm per gate, transposed states, fused biases - does not matter.
//
// Under C16 the same walk shows the clause directly: an output element of sample b is built from the elements of
// sample b of X, initial_h and initial_c (and the weights) only.

import (
	"fmt"
	"go/types"
	"os"
	"sort"
	"strings"

	"golang.org/x/tools/go/ssa"
)

type recProvCell struct {
	seq, batch, in, hs     int64
	hasB, hasH, hasC, hasP bool
	lbr                    bool
	acts                   []string // custom activations (ONNX names); nil: the defaults
}

func (k recProvCell) String() string {
	s := fmt.Sprintf("seq_length %d, batch %d, input size %d, hidden size %d, B given=%v, initial_h given=%v", k.seq, k.batch, k.in, k.hs, k.hasB, k.hasH)
	if k.hasC || k.hasP {
		s += fmt.Sprintf(", initial_c given=%v, P given=%v", k.hasC, k.hasP)
	}
	if k.lbr {
		s += ", linear_before_reset=1"
	}
	if k.acts != nil {
		s += ", activations=" + strings.Join(k.acts, ",")
	}
	return s
}

type recProvRes struct {
	known bool
	bad   string
	batch string // a violation of the batch clause (C16)
	cells int
}

func elemAdd(a, b pval) pval { return combineElems("Add", a, b) }
func elemMul(a, b pval) pval { return combineElems("Mul", a, b) }
func elemSub(a, b pval) pval { return combineElems("Sub", a, b) }
func elemName(prefix string, k int64) pval {
	return pval{k: pStr, s: fmt.Sprintf("%s%d", prefix, k)}
}

var elemZero = pval{k: pStr, s: "0"}
var elemOne = pval{k: pStr, s: "f1"}

// recProvExpected: the ONNX recurrence over names. Returns Y (seq,1,batch,hs), Y_h (1,batch,hs) and for LSTM Y_c.
func recProvExpected(name string, k recProvCell) [][]pval {
	gates := map[string]int64{"RNN": 1, "GRU": 3, "LSTM": 4}[name]
	x := func(t, b, i int64) pval { return elemName("x", (t*k.batch+b)*k.in+i) }
	w := func(g, h, i int64) pval { return elemName("w", (g*k.hs+h)*k.in+i) }
	r := func(g, h, j int64) pval { return elemName("r", (g*k.hs+h)*k.hs+j) }
	wb := func(g, h int64) pval {
		if !k.hasB {
			return elemZero
		}
		return elemName("b", g*k.hs+h)
	}
	rb := func(g, h int64) pval {
		if !k.hasB {
			return elemZero
		}
		return elemName("b", (gates+g)*k.hs+h)
	}
	pp := func(g, h int64) pval {
		if !k.hasP {
			return elemZero
		}
		return elemName("p", g*k.hs+h)
	}
	// activation atoms carry the name of the library function behind the ONNX name
	fnOf := map[string]string{"Tanh": "Tanh", "Sigmoid": "Sigmoid", "Relu": "ReLU", "tanh": "Tanh", "sigmoid": "Sigmoid", "relu": "ReLU"}
	def := map[string][]string{"RNN": {"Tanh"}, "GRU": {"Sigmoid", "Tanh"}, "LSTM": {"Sigmoid", "Tanh", "Tanh"}}[name]
	if k.acts != nil {
		def = k.acts
	}
	actF := func(role int, e pval) pval { return atomElem(fnOf[def[role]], e) }
	H := make([][]pval, k.batch)
	C := make([][]pval, k.batch)
	for b := int64(0); b < k.batch; b++ {
		H[b], C[b] = make([]pval, k.hs), make([]pval, k.hs)
		for j := int64(0); j < k.hs; j++ {
			H[b][j], C[b][j] = elemZero, elemZero
			if k.hasH {
				H[b][j] = elemName("h", b*k.hs+j)
			}
			if k.hasC {
				C[b][j] = elemName("c", b*k.hs+j)
			}
		}
	}
	// x W^T and h R^T for gate g, unit h
	xw := func(t, b, g, h int64) pval {
		acc := elemZero
		for i := int64(0); i < k.in; i++ {
			acc = elemAdd(acc, elemMul(x(t, b, i), w(g, h, i)))
		}
		return acc
	}
	hr := func(hv []pval, g, h int64) pval {
		acc := elemZero
		for j := int64(0); j < k.hs; j++ {
			acc = elemAdd(acc, elemMul(hv[j], r(g, h, j)))
		}
		return acc
	}
	var Y []pval
	for t := int64(0); t < k.seq; t++ {
		nH := make([][]pval, k.batch)
		nC := make([][]pval, k.batch)
		for b := int64(0); b < k.batch; b++ {
			nH[b], nC[b] = make([]pval, k.hs), make([]pval, k.hs)
			switch name {
			case "RNN":
				for h := int64(0); h < k.hs; h++ {
					nH[b][h] = actF(0, elemAdd(elemAdd(xw(t, b, 0, h), hr(H[b], 0, h)), elemAdd(wb(0, h), rb(0, h))))
				}
			case "GRU":
				z, rr := make([]pval, k.hs), make([]pval, k.hs)
				for h := int64(0); h < k.hs; h++ {
					z[h] = actF(0, elemAdd(elemAdd(xw(t, b, 0, h), hr(H[b], 0, h)), elemAdd(wb(0, h), rb(0, h))))
					rr[h] = actF(0, elemAdd(elemAdd(xw(t, b, 1, h), hr(H[b], 1, h)), elemAdd(wb(1, h), rb(1, h))))
				}
				for h := int64(0); h < k.hs; h++ {
					var rec pval
					if k.lbr {
						rec = elemMul(rr[h], elemAdd(hr(H[b], 2, h), rb(2, h)))
					} else {
						rh := make([]pval, k.hs)
						for j := range rh {
							rh[j] = elemMul(rr[j], H[b][j])
						}
						rec = elemAdd(hr(rh, 2, h), rb(2, h))
					}
					cand := actF(1, elemAdd(elemAdd(xw(t, b, 2, h), rec), wb(2, h)))
					nH[b][h] = elemAdd(elemMul(elemSub(elemOne, z[h]), cand), elemMul(z[h], H[b][h]))
				}
			case "LSTM":
				// gate order i o f c; peepholes i o f
				for h := int64(0); h < k.hs; h++ {
					gate := func(g int64, peep pval) pval {
						return elemAdd(elemAdd(elemAdd(xw(t, b, g, h), hr(H[b], g, h)), elemAdd(wb(g, h), rb(g, h))), peep)
					}
					it := actF(0, gate(0, elemMul(pp(0, h), C[b][h])))
					ft := actF(0, gate(2, elemMul(pp(2, h), C[b][h])))
					ct := actF(1, gate(3, elemZero))
					nC[b][h] = elemAdd(elemMul(ft, C[b][h]), elemMul(it, ct))
					ot := actF(0, gate(1, elemMul(pp(1, h), nC[b][h])))
					nH[b][h] = elemMul(ot, actF(2, nC[b][h]))
				}
			}
		}
		H, C = nH, nC
		for b := int64(0); b < k.batch; b++ {
			Y = append(Y, H[b]...)
		}
	}
	var Yh, Yc []pval
	for b := int64(0); b < k.batch; b++ {
		Yh = append(Yh, H[b]...)
		Yc = append(Yc, C[b]...)
	}
	if name == "LSTM" {
		return [][]pval{Y, Yh, Yc}
	}
	return [][]pval{Y, Yh}
}

// baseNames: the input elements an element expression is built from (atoms expanded).
func baseNames(s string, into map[string]bool, depth int) {
	if depth > 12 {
		return
	}
	for _, term := range strings.Split(s, "+") {
		for _, f := range strings.Split(strings.TrimLeft(term, "-"), "*") {
			f = strings.TrimLeft(f, "-")
			if inner, ok := atomInner[f]; ok {
				baseNames(inner, into, depth+1)
			} else if f != "" {
				into[f] = true
			}
		}
	}
}

func (c *Ctx) recProvTable(name string) recProvRes {
	if r, ok := c.recProvMemo[name]; ok {
		return r
	}
	res := c.recProvTable0(name)
	if c.recProvMemo == nil {
		c.recProvMemo = map[string]recProvRes{}
	}
	c.recProvMemo[name] = res
	return res
}

func (c *Ctx) recProvTable0(name string) recProvRes {
	m := c.newMoveRun(name)
	if m == nil {
		return recProvRes{}
	}
	m.trace = os.Getenv("MOVETRACE") == name
	m.intercept = c.activationAtoms()
	// Gemm is R46's subject: the recurrent operators use one configuration of it (transB, a bias), its other
	// branches are not theirs to enter
	if g := c.opByName("Gemm"); g != nil {
		for _, f := range g.methods {
			if f != nil {
				m.cov.skip[f] = true
			}
		}
	}
	gates := map[string]int64{"RNN": 1, "GRU": 3, "LSTM": 4}[name]
	var list []recProvCell
	for _, o := range [][4]bool{{true, true, true, true}, {false, false, false, false}, {true, false, true, false}, {false, true, false, true}} {
		k := recProvCell{seq: 2, batch: 2, in: 3, hs: 2, hasB: o[0], hasH: o[1]}
		if name == "LSTM" {
			k.hasC, k.hasP = o[2], o[3]
		}
		list = append(list, k)
		if name == "GRU" {
			k.lbr = true
			list = append(list, k)
		}
	}
	full := recProvCell{seq: 3, batch: 1, in: 1, hs: 1, hasB: true, hasH: true, hasC: name == "LSTM", hasP: name == "LSTM"}
	wide := recProvCell{seq: 1, batch: 3, in: 2, hs: 3, hasB: true, hasH: true, hasC: name == "LSTM", hasP: name == "LSTM"}
	list = append(list, full, wide)
	if name == "GRU" {
		full.lbr, wide.lbr = true, true
		list = append(list, full, wide)
	}
	// custom activations, all different where the operator has several roles
	// (the library knows them by their lower-case names; a spelling it refuses is a refusal, which C06 allows)
	for _, custom := range [][]string{
		map[string][]string{"RNN": {"relu"}, "GRU": {"tanh", "relu"}, "LSTM": {"relu", "sigmoid", "tanh"}}[name],
		map[string][]string{"RNN": {"Relu"}, "GRU": {"Tanh", "Relu"}, "LSTM": {"Relu", "Sigmoid", "Tanh"}}[name],
	} {
		ck := list[0]
		ck.acts = custom
		list = append(list, ck)
	}
	out := recProvRes{known: true}
	outName := []string{"Y", "Y_h", "Y_c"}
	for _, k := range list {
		inputs := []*moveTensor{
			{shape: []int64{k.seq, k.batch, k.in}, name: "x"},
			{shape: []int64{1, gates * k.hs, k.in}, name: "w"},
			{shape: []int64{1, gates * k.hs, k.hs}, name: "r"},
			nil, nil, nil,
		}
		if k.hasB {
			inputs[3] = &moveTensor{shape: []int64{1, 2 * gates * k.hs}, name: "b"}
		}
		if k.hasH {
			inputs[5] = &moveTensor{shape: []int64{1, k.batch, k.hs}, name: "h"}
		}
		nOut := 2
		if name == "LSTM" {
			nOut = 3
			inputs = append(inputs, nil, nil)
			if k.hasC {
				inputs[6] = &moveTensor{shape: []int64{1, k.batch, k.hs}, name: "c"}
			}
			if k.hasP {
				inputs[7] = &moveTensor{shape: []int64{1, 3 * k.hs}, name: "p"}
			}
		}
		hs := k.hs
		attrs := []moveAttr{{name: "hidden_size", i: &hs}}
		if k.lbr {
			one := int64(1)
			attrs = append(attrs, moveAttr{name: "linear_before_reset", i: &one})
		}
		if k.acts != nil {
			attrs = append(attrs, moveAttr{name: "activations", strs: k.acts})
		}
		outs := m.cellN(attrs, inputs, nOut)
		desc := name + " with " + k.String()
		if m.panicked != "" {
			out.bad = desc + " panics: " + m.panicked
			return out
		}
		if m.orderBad != "" {
			out.bad = desc + ": " + m.orderBad
			return out
		}
		if len(outs) == 1 && outs[0].followed && outs[0].isErr {
			if k.acts != nil {
				out.cells++
				continue // "honoured or refused"
			}
			out.bad = desc + " is refused"
			return out
		}
		if len(outs) != nOut || !outs[0].followed {
			if os.Getenv("MOVEDEBUG") != "" {
				fmt.Println("MOVEDEBUG not followed:", desc)
			}
			return recProvRes{cells: out.cells}
		}
		out.cells++
		want := recProvExpected(name, k)
		wantShape := [][]int64{{k.seq, 1, k.batch, k.hs}, {1, k.batch, k.hs}, {1, k.batch, k.hs}}
		for i, o := range outs {
			if fmtInts(o.shape) != fmtInts(wantShape[i]) {
				out.bad = fmt.Sprintf("%s: output %s has shape %s, ONNX prescribes %s", desc, outName[i], fmtInts(o.shape), fmtInts(wantShape[i]))
				return out
			}
			got, ok := elemsString(o.elems)
			if !ok || len(got) != len(want[i]) {
				return recProvRes{cells: out.cells}
			}
			for f := range got {
				if got[f] != want[i][f].s && out.bad == "" {
					out.bad = fmt.Sprintf("%s: element %d of output %s is not the ONNX recurrence; computed %s ; prescribed %s", desc, f, outName[i], abbreviate(atomText(got[f], 0), atomText(want[i][f].s, 0)), abbreviate(atomText(want[i][f].s, 0), atomText(got[f], 0)))
				}
				// the batch clause: which sample's inputs the element is made of
				if out.batch == "" && k.batch > 1 {
					per := int64(len(got)) / k.batch
					sample := int64(f) / k.hs % k.batch
					_ = per
					names := map[string]bool{}
					baseNames(got[f], names, 0)
					var foreign []string
					for n := range names {
						var idx int64
						var owner int64 = -1
						switch {
						case strings.HasPrefix(n, "x"):
							if _, err := fmt.Sscanf(n[1:], "%d", &idx); err == nil {
								owner = idx / k.in % k.batch
							}
						case strings.HasPrefix(n, "h"), strings.HasPrefix(n, "c"):
							if _, err := fmt.Sscanf(n[1:], "%d", &idx); err == nil {
								owner = idx / k.hs
							}
						}
						if owner >= 0 && owner != sample {
							foreign = append(foreign, n)
						}
					}
					if len(foreign) > 0 {
						sort.Strings(foreign)
						out.batch = fmt.Sprintf("%s: element %d of output %s belongs to sample %d but is computed from %s, elements of other samples of the batch", desc, f, outName[i], sample, strings.Join(foreign, ", "))
					}
				}
			}
		}
		if out.bad != "" {
			return out
		}
	}
	// a node that names fewer outputs gets the leading ones (LSTM: Y, Y_h without Y_c; Y alone)
	for nOut := 1; nOut < len(outName) && (name == "LSTM" || nOut < 2); nOut++ {
		k := list[0]
		hs := k.hs
		inputs := []*moveTensor{
			{shape: []int64{k.seq, k.batch, k.in}, name: "x"},
			{shape: []int64{1, gates * k.hs, k.in}, name: "w"},
			{shape: []int64{1, gates * k.hs, k.hs}, name: "r"},
			{shape: []int64{1, 2 * gates * k.hs}, name: "b"},
			nil,
			{shape: []int64{1, k.batch, k.hs}, name: "h"},
		}
		if name == "LSTM" {
			inputs = append(inputs, &moveTensor{shape: []int64{1, k.batch, k.hs}, name: "c"}, &moveTensor{shape: []int64{1, 3 * k.hs}, name: "p"})
		}
		m.nameOutputs = true
		outs := m.cellN([]moveAttr{{name: "hidden_size", i: &hs}}, inputs, nOut)
		m.nameOutputs = false
		desc := fmt.Sprintf("%s with %s and %d named outputs", name, k, nOut)
		if m.panicked != "" {
			out.bad = desc + " panics: " + m.panicked
			return out
		}
		if len(outs) != nOut || !outs[0].followed || outs[0].isErr {
			if name != "LSTM" {
				break // only LSTM binds by count; the others are Run's matter (R5)
			}
			return recProvRes{cells: out.cells}
		}
		want := recProvExpected(name, k)
		for i, o := range outs {
			got, ok := elemsString(o.elems)
			if !ok || len(got) != len(want[i]) {
				return recProvRes{cells: out.cells}
			}
			for f := range got {
				if got[f] != want[i][f].s {
					out.bad = fmt.Sprintf("%s: element %d of output %s is not the ONNX recurrence; computed %s ; prescribed %s", desc, f, outName[i], abbreviate(atomText(got[f], 0), atomText(want[i][f].s, 0)), abbreviate(atomText(want[i][f].s, 0), atomText(got[f], 0)))
					return out
				}
			}
		}
		out.cells++
	}
	// "processing a sequence in two pieces while feeding the final state of the first piece into the second gives the
	// same result as processing it whole": the element expressions of the two ways are the same polynomials
	{
		k := recProvCell{seq: 2, batch: 2, in: 3, hs: 2, hasB: true, hasH: true, hasC: name == "LSTM", hasP: name == "LSTM"}
		hs := k.hs
		attrs := []moveAttr{{name: "hidden_size", i: &hs}}
		nOut := 2
		if name == "LSTM" {
			nOut = 3
		}
		names := func(prefix string, from, to int64) []pval {
			var l []pval
			for q := from; q < to; q++ {
				l = append(l, elemName(prefix, q))
			}
			return l
		}
		run := func(xElems []pval, seq int64, h0, c0 []pval) []moveOut {
			inputs := []*moveTensor{
				{shape: []int64{seq, k.batch, k.in}, elems: xElems},
				{shape: []int64{1, gates * k.hs, k.in}, name: "w"},
				{shape: []int64{1, gates * k.hs, k.hs}, name: "r"},
				{shape: []int64{1, 2 * gates * k.hs}, name: "b"},
				nil,
				{shape: []int64{1, k.batch, k.hs}, elems: h0},
			}
			if name == "LSTM" {
				inputs = append(inputs, &moveTensor{shape: []int64{1, k.batch, k.hs}, elems: c0}, &moveTensor{shape: []int64{1, 3 * k.hs}, name: "p"})
			}
			return m.cellN(attrs, inputs, nOut)
		}
		step := k.batch * k.in
		h0, c0 := names("h", 0, k.batch*k.hs), names("c", 0, k.batch*k.hs)
		whole := run(names("x", 0, 2*step), 2, h0, c0)
		first := run(names("x", 0, step), 1, h0, c0)
		okRuns := len(whole) == nOut && len(first) == nOut && whole[0].followed && first[0].followed && !whole[0].isErr && !first[0].isErr && m.panicked == ""
		if !okRuns {
			return recProvRes{cells: out.cells}
		}
		var c1 []pval
		if name == "LSTM" {
			c1 = first[2].elems
		}
		second := run(names("x", step, 2*step), 1, first[1].elems, c1)
		if len(second) != nOut || !second[0].followed || second[0].isErr || m.panicked != "" {
			return recProvRes{cells: out.cells}
		}
		same := func(a, b []pval) (int, bool) {
			if len(a) != len(b) {
				return -1, false
			}
			for q := range a {
				if a[q].k != pStr || b[q].k != pStr || a[q].s != b[q].s {
					return q, false
				}
			}
			return 0, true
		}
		pieces := append(append([]pval{}, first[0].elems...), second[0].elems...)
		if q, ok := same(whole[0].elems, pieces); !ok {
			out.bad = fmt.Sprintf("%s: a sequence of 2 steps processed whole and in two pieces (the final state of the first fed into the second) differ at element %d of Y", name, q)
			return out
		}
		for o := 1; o < nOut; o++ {
			if q, ok := same(whole[o].elems, second[o].elems); !ok {
				out.bad = fmt.Sprintf("%s: a sequence of 2 steps processed whole and in two pieces (the final state of the first fed into the second) differ at element %d of %s", name, q, outName[o])
				return out
			}
		}
		out.cells += 3
	}
	// the optional sequence_lens input is refused (R12:seqlens says what follows when it is not)
	{
		k := list[0]
		hs := k.hs
		inputs := []*moveTensor{
			{shape: []int64{k.seq, k.batch, k.in}, name: "x"},
			{shape: []int64{1, gates * k.hs, k.in}, name: "w"},
			{shape: []int64{1, gates * k.hs, k.hs}, name: "r"},
			nil,
			{shape: []int64{k.batch}, name: "s"},
			nil,
		}
		nOut := 2
		if name == "LSTM" {
			inputs, nOut = append(inputs, nil, nil), 3
		}
		outs := m.cellN([]moveAttr{{name: "hidden_size", i: &hs}}, inputs, nOut)
		if m.panicked != "" {
			out.bad = name + " with a sequence_lens input panics: " + m.panicked
			return out
		}
		if len(outs) == 0 || !outs[0].followed || !outs[0].isErr {
			return recProvRes{cells: out.cells} // accepted: nothing here establishes per-sample lengths
		}
		out.cells++
		if c.seqLensRefused == nil {
			c.seqLensRefused = map[string]string{}
		}
		if c.seqLensRefused[name] == "" {
			c.seqLensRefused[name] = "R48:rec-provenance:" + name
		}
	}
	if unc := m.cov.uncovered(c); len(unc) > 0 {
		c.declined(name+" provenance table", unc)
		return recProvRes{cells: out.cells}
	}
	return out
}

func ruleRecProvTable(c *Ctx, prop string) {
	for _, name := range []string{"RNN", "GRU", "LSTM"} {
		oi := c.opByName(name)
		if oi == nil || oi.methods["Apply"] == nil {
			continue
		}
		site := c.pos(oi.methods["Apply"].Pos())
		key := "R48:rec-provenance:" + name
		r := c.recProvTable(name)
		if prop == "C16" {
			key = "R48:rec-batch:" + name
			switch {
			case !r.known:
				c.note("R48", key, site, "the provenance table cannot follow this code to one outcome per cell; R12.P6/P7 decide")
			case r.batch != "":
				c.violate("R48", key, site, r.batch)
			case r.bad != "":
				// wrong values, but made of the right sample: C06's matter
				c.note("R48", key, site, "the outputs are not the ONNX recurrence (reported under C06), but every element is made of its own sample's inputs")
			default:
				c.discharge("R48", key, site, fmt.Sprintf("%d cells: every element of Y, Y_h (Y_c) of sample b is a polynomial over elements of X, initial_h (initial_c) of sample b, the weights and activation atoms only", r.cells))
				if c.tableCovered == nil {
					c.tableCovered = map[string]string{}
				}
				if c.tableCovered["table:recurrent:"+name] == "" {
					c.tableCovered["table:recurrent:"+name] = key // shapes and values of the outputs are the recurrence's in every cell
				}
			}
			continue
		}
		switch {
		case !r.known:
			c.note("R48", key, site, "the provenance table cannot follow this code to one outcome per cell; R40 and the structural rules R12 decide")
		case r.bad != "":
			c.violate("R48", key, site, r.bad)
		default:
			c.discharge("R48", key, site, fmt.Sprintf("%d cells (unequal sizes, unit sizes, optional inputs given or not, linear_before_reset, custom activations honoured or refused, fewer named outputs, sequence_lens refused): every element of every output equals the ONNX recurrence as a polynomial over the names of X, W, R, B, initial_h, initial_c, P and activation atoms; a sequence of two steps processed whole and in two pieces (final state of the first fed into the second) gives the same polynomials", r.cells))
			if c.tableCovered == nil {
				c.tableCovered = map[string]string{}
			}
			if c.tableCovered["table:recurrent:"+name] == "" {
				c.tableCovered["table:recurrent:"+name] = key
			}
		}
	}
}

// activationAtoms answers the library's activation functions (exported functions of package ops from one tensor to
// (tensor, error)) element by element with an opaque application of the function's name.
func (c *Ctx) activationAtoms() func(fn *ssa.Function, call *ssa.Call, callee *ssa.Function, args []pval, h *pheap) ([]pval, bool) {
	return func(fn *ssa.Function, call *ssa.Call, callee *ssa.Function, args []pval, h *pheap) ([]pval, bool) {
		if callee == nil || fnPkgPath(callee) != pkgOps || callee.Parent() != nil || callee.Object() == nil || !callee.Object().Exported() || callee.Signature.Recv() != nil {
			return nil, false
		}
		sig := callee.Signature
		if sig.Params().Len() != 1 || sig.Results().Len() != 2 || !isTensorish(sig.Params().At(0).Type()) || !isTensorish(sig.Results().At(0).Type()) || !isErrorType(sig.Results().At(1).Type()) {
			return nil, false
		}
		if _, isIface := sig.Params().At(0).Type().Underlying().(*types.Interface); !isIface {
			return nil, false
		}
		if len(args) != 1 || args[0].k != pShaped || args[0].m == 0 || h.lists[args[0].m] == nil || h.lists[args[0].j] == nil {
			return nil, false
		}
		cont := h.lists[args[0].m]
		out := make([]pval, len(cont))
		for i, e := range cont {
			out[i] = atomElem(callee.Name(), e)
			if out[i].k != pStr {
				return nil, false
			}
		}
		shl := append([]pval{}, h.lists[args[0].j]...)
		return []pval{{k: pShaped, i: args[0].i, j: h.alloc(shl).i, m: h.alloc(out).i}, {k: pNil}}, true
	}
}
