package main

import (
	"go/token"
	"go/types"
	"strings"

	"golang.org/x/tools/go/ssa"
)

// E4-taint: forward value-flow set from a set of seed values, across library functions
// (static calls, closures, struct field cells, containers merged with their elements).

type taintSet struct {
	c        *Ctx
	in       map[ssa.Value]bool
	fields   map[fieldKey]bool
	retIdx   map[*ssa.Function]map[int]bool
	changed  bool
	callers  map[*ssa.Function][]ssa.CallInstruction
	fnScope  func(*ssa.Function) bool
	seedFlds map[fieldKey]bool
	ctx      *taintSet // optional: a call site also counts as 'passing taint' when an argument is in ctx
}

func (t *taintSet) has(v ssa.Value) bool { return v != nil && t.in[v] }
func (t *taintSet) add(v ssa.Value) {
	if v == nil || t.in[v] {
		return
	}
	switch v.(type) {
	case *ssa.Const, *ssa.Function, *ssa.Builtin, *ssa.Global:
		return
	}
	t.in[v] = true
	t.changed = true
}

// externals whose result carries the data of a tainted operand
var dataProjectors = map[string]bool{
	"Data": true, "At": true, "ScalarValue": true, "WithBacking": true, "New": true, "NewDense": true,
	"Clone": true, "Materialize": true, "Slice": true, "FromScalar": true,
}

func (c *Ctx) forwardSet(seeds []ssa.Value, seedFields []fieldKey, scope func(*ssa.Function) bool) *taintSet {
	return c.forwardSetCtx(seeds, seedFields, scope, nil)
}

func (c *Ctx) forwardSetCtx(seeds []ssa.Value, seedFields []fieldKey, scope func(*ssa.Function) bool, ctx *taintSet) *taintSet {
	t := &taintSet{c: c, ctx: ctx, in: map[ssa.Value]bool{}, fields: map[fieldKey]bool{}, retIdx: map[*ssa.Function]map[int]bool{},
		callers: map[*ssa.Function][]ssa.CallInstruction{}, fnScope: scope}
	for _, s := range seeds {
		t.in[s] = true
	}
	for _, k := range seedFields {
		t.fields[k] = true
	}
	var fns []*ssa.Function
	for _, f := range c.libFns {
		if strings.HasSuffix(c.fileOf(f.Pos()), ".pb.go") {
			continue
		}
		if scope != nil && !scope(f) {
			continue
		}
		fns = append(fns, f)
	}
	for _, f := range fns {
		for _, b := range f.Blocks {
			for _, in := range b.Instrs {
				if call, ok := in.(ssa.CallInstruction); ok {
					if sc := call.Common().StaticCallee(); sc != nil {
						t.callers[sc] = append(t.callers[sc], call)
					}
				}
			}
		}
	}
	for pass := 0; pass < 40; pass++ {
		t.changed = false
		for _, f := range fns {
			t.function(f)
		}
		if !t.changed {
			break
		}
	}
	return t
}

func (t *taintSet) function(f *ssa.Function) {
	for _, b := range f.Blocks {
		for _, in := range b.Instrs {
			switch x := in.(type) {
			case *ssa.Phi:
				for _, e := range x.Edges {
					if t.has(e) {
						t.add(x)
					}
				}
			case *ssa.BinOp:
				switch x.Op {
				case token.ADD, token.SUB, token.MUL, token.QUO, token.REM:
					if t.has(x.X) || t.has(x.Y) {
						t.add(x)
					}
				}
			case *ssa.UnOp:
				if x.Op == token.MUL || x.Op == token.SUB {
					if t.has(x.X) {
						t.add(x)
					}
				}
			case *ssa.Convert:
				if t.has(x.X) {
					t.add(x)
				}
			case *ssa.ChangeType:
				if t.has(x.X) {
					t.add(x)
				}
			case *ssa.ChangeInterface:
				if t.has(x.X) {
					t.add(x)
				}
			case *ssa.MakeInterface:
				if t.has(x.X) {
					t.add(x)
				}
			case *ssa.TypeAssert:
				if t.has(x.X) {
					t.add(x)
				}
			case *ssa.Extract:
				if t.has(x.Tuple) {
					// tuple-level taint: typeassert,ok / lookup / next
					switch tup := x.Tuple.(type) {
					case *ssa.TypeAssert:
						if x.Index == 0 {
							t.add(x)
						}
					case *ssa.Lookup:
						if x.Index == 0 {
							t.add(x)
						}
					case *ssa.Next:
						if x.Index == 2 || (x.Index == 1 && !tup.IsString) {
							// key of a map range is not data of the container; value is
							if x.Index == 2 {
								t.add(x)
							}
						}
					}
				}
				if call, ok := x.Tuple.(*ssa.Call); ok {
					if sc := call.Common().StaticCallee(); sc != nil && t.retIdx[sc][x.Index] && t.anyArgTainted(call) {
						t.add(x)
					}
					if t.extResultTainted(call) && x.Index == 0 {
						t.add(x)
					}
				}
			case *ssa.Slice:
				if t.has(x.X) {
					t.add(x)
				}
			case *ssa.IndexAddr:
				if t.has(x.X) {
					t.add(x)
				}
			case *ssa.Index:
				if t.has(x.X) {
					t.add(x)
				}
			case *ssa.Lookup:
				if t.has(x.X) {
					t.add(x)
				}
			case *ssa.Range:
				if t.has(x.X) {
					t.add(x)
				}
			case *ssa.Next:
				if t.has(x.Iter) {
					t.add(x)
				}
			case *ssa.FieldAddr:
				if n, _ := structOfPtr(x.X.Type()); n != nil && t.fields[fieldKey{n, x.Field}] {
					t.add(x)
				}
			case *ssa.Field:
				if n, _ := structOfPtr(x.X.Type()); n != nil && t.fields[fieldKey{n, x.Field}] {
					t.add(x)
				}
			case *ssa.Store:
				if !t.has(x.Val) {
					continue
				}
				switch a := x.Addr.(type) {
				case *ssa.FieldAddr:
					if n, _ := structOfPtr(a.X.Type()); n != nil {
						k := fieldKey{n, a.Field}
						if !t.fields[k] {
							t.fields[k] = true
							t.changed = true
						}
					}
					// a struct built locally carries the data it is given (slicer objects, option structs)
					if al, ok := a.X.(*ssa.Alloc); ok {
						t.add(al)
					}
				case *ssa.IndexAddr:
					base := baseOf(a)
					t.add(base)
					t.writeBack(base)
				default:
					t.add(x.Addr)
				}
			case *ssa.MapUpdate:
				if t.has(x.Value) {
					t.add(x.Map)
				}
			case *ssa.MakeClosure:
				fn := x.Fn.(*ssa.Function)
				for i, b := range x.Bindings {
					if t.has(b) && i < len(fn.FreeVars) {
						t.add(fn.FreeVars[i])
					}
				}
			case *ssa.Return:
				for i, r := range x.Results {
					if t.has(r) {
						m := t.retIdx[f]
						if m == nil {
							m = map[int]bool{}
							t.retIdx[f] = m
						}
						if !m[i] {
							m[i] = true
							t.changed = true
						}
					}
				}
			case *ssa.Call:
				t.call(f, x)
			}
		}
	}
}

// writeBack: a container that is a parameter (or loaded from one) was written with tainted data:
// the caller's argument sees it too (in-place helpers).
func (t *taintSet) writeBack(base ssa.Value) {
	p, ok := base.(*ssa.Parameter)
	if !ok {
		return
	}
	fn := p.Parent()
	idx := -1
	for i, q := range fn.Params {
		if q == p {
			idx = i
		}
	}
	for _, cs := range t.callers[fn] {
		args := cs.Common().Args
		if idx >= 0 && idx < len(args) {
			t.add(args[idx])
			t.add(unwrapConv(args[idx]))
			// and the caller's own container, transitively
			t.writeBack(baseOf(args[idx]))
		}
	}
}

func (t *taintSet) extResultTainted(call *ssa.Call) bool {
	cc := call.Common()
	name := ""
	if cc.IsInvoke() {
		name = cc.Method.Name()
		if dataProjectors[name] && t.has(cc.Value) {
			return true
		}
	} else if sc := cc.StaticCallee(); sc != nil && !isLibFn(sc) {
		name = sc.Name()
		if !dataProjectors[name] {
			return false
		}
	} else {
		return false
	}
	if !dataProjectors[name] {
		return false
	}
	for _, a := range cc.Args {
		if t.has(a) {
			return true
		}
		// variadic option slices
		for _, e := range varargElems(a) {
			if t.has(e) {
				return true
			}
		}
	}
	return false
}

func (t *taintSet) call(f *ssa.Function, call *ssa.Call) {
	cc := call.Common()
	if b, ok := cc.Value.(*ssa.Builtin); ok {
		switch b.Name() {
		case "append":
			for _, a := range cc.Args {
				if t.has(a) {
					t.add(call)
				}
			}
		case "copy":
			if t.has(cc.Args[1]) {
				t.add(baseOf(cc.Args[0]))
			}
		}
		return
	}
	sc := cc.StaticCallee()
	if sc != nil && isLibFn(sc) && sc.Blocks != nil && (t.fnScope == nil || t.fnScope(sc)) {
		for i, a := range cc.Args {
			if t.has(a) && i < len(sc.Params) {
				t.add(sc.Params[i])
			}
		}
		if m := t.retIdx[sc]; m != nil && sc.Signature.Results().Len() == 1 && m[0] && t.anyArgTainted(call) {
			t.add(call)
		}
		return
	}
	if mc, ok := cc.Value.(*ssa.MakeClosure); ok {
		fn := mc.Fn.(*ssa.Function)
		for i, a := range cc.Args {
			if t.has(a) && i < len(fn.Params) {
				t.add(fn.Params[i])
			}
		}
		if m := t.retIdx[fn]; m != nil && m[0] {
			t.add(call)
		}
		return
	}
	// external
	if t.extResultTainted(call) {
		if _, isTuple := call.Type().(*types.Tuple); !isTuple {
			t.add(call)
		}
	}
	// t.Apply(fn, opts...) on a tainted tensor: the element closure sees the data; with reuse the
	// receiver holds what the closure returns.
	name := ""
	var recv ssa.Value
	if cc.IsInvoke() {
		name, recv = cc.Method.Name(), cc.Value
	} else if sc != nil && sc.Signature.Recv() != nil && len(cc.Args) > 0 {
		name, recv = sc.Name(), cc.Args[0]
	}
	if name == "Apply" && recv != nil {
		var fns []*ssa.Function
		for _, a := range cc.Args {
			fns = append(fns, closureTargets(a, 0)...)
		}
		for _, fn := range fns {
			if t.has(recv) {
				for _, p := range fn.Params {
					t.add(p)
				}
			}
			if m := t.retIdx[fn]; m != nil && m[0] {
				t.add(recv)
				t.writeBack(baseOf(recv))
				if p, ok := recv.(*ssa.Parameter); ok {
					t.writeBack(p)
				}
			}
		}
	}
}

// anyArgTainted: cheap context sensitivity — the result of a library call is tainted only when this
// call site hands the callee something tainted (a method's receiver counts; a callee without
// parameters is judged by its return alone).
func (t *taintSet) anyArgTainted(call *ssa.Call) bool {
	args := call.Common().Args
	if len(args) == 0 {
		return true
	}
	for _, a := range args {
		if t.has(a) || (t.ctx != nil && t.ctx.has(a)) {
			return true
		}
		for _, e := range varargElems(a) {
			if t.has(e) || (t.ctx != nil && t.ctx.has(e)) {
				return true
			}
		}
	}
	// receivers whose fields are tainted (attribute fields of the operator)
	if sc := call.Common().StaticCallee(); sc != nil && sc.Signature.Recv() != nil {
		if n := recvNamed(sc); n != nil {
			for k := range t.fields {
				if k.t == n {
					return true
				}
			}
		}
	}
	return false
}

// closureTargets: the functions a function-typed value can be: a literal or named function, what a library
// function called here returns (a closure factory), or one of several by phi.
func closureTargets(v ssa.Value, depth int) []*ssa.Function {
	if depth > 3 {
		return nil
	}
	switch x := unwrapConv(v).(type) {
	case *ssa.MakeClosure:
		if f, ok := x.Fn.(*ssa.Function); ok {
			return []*ssa.Function{f}
		}
	case *ssa.Function:
		return []*ssa.Function{x}
	case *ssa.Phi:
		var out []*ssa.Function
		for _, e := range x.Edges {
			out = append(out, closureTargets(e, depth+1)...)
		}
		return out
	case *ssa.Call:
		if _, isFn := x.Type().Underlying().(*types.Signature); !isFn {
			return nil
		}
		if sc := x.Common().StaticCallee(); sc != nil && isLibFn(sc) {
			var out []*ssa.Function
			for _, r := range returnsOf(sc) {
				if len(r.Results) == 1 {
					out = append(out, closureTargets(r.Results[0], depth+1)...)
				}
			}
			return out
		}
	}
	return nil
}
