package main

import (
	"fmt"
	"go/ast"
	"go/constant"
	"go/token"
	"go/types"
	"sort"
	"strings"

	"golang.org/x/tools/go/ssa"
)

// Rules added after the second round of independently seeded changes.

// ruleOptionalDefaults — a default (zeros, computed value) replaces an optional input only when that
// input is absent: every phi that merges a load of inputs[k] with something else takes the other
// value only on edges where inputs[k] == nil is established.
func ruleOptionalDefaults(c *Ctx, prop string) {
	names, scoped := propOps[prop]
	regNames := c.regNamesByType()
	n := 0
	for _, oi := range c.operators() {
		if oi.control {
			continue
		}
		reg := oi.name
		if ns := regNames[oi.named]; len(ns) > 0 {
			reg = ns[0]
		}
		if scoped {
			found := false
			for _, x := range names {
				if x == reg {
					found = true
				}
			}
			if !found {
				continue
			}
		}
		apply := oi.methods["Apply"]
		if apply == nil {
			continue
		}
		inputs := ssa.Value(apply.Params[1])
		bad, badSite := "", ""
		cnt := 0
		gt := c.gateTableOf(oi)
		if !gt.evaluable {
			continue
		}
		minIn := gt.min
		for _, b := range apply.Blocks {
			for _, in := range b.Instrs {
				phi, ok := in.(*ssa.Phi)
				if !ok || !isTensorish(phi.Type()) {
					continue
				}
				k := int64(-1)
				for _, e := range phi.Edges {
					if ld, ok := e.(*ssa.UnOp); ok {
						if ia, ok := ld.X.(*ssa.IndexAddr); ok && ia.X == inputs {
							if kk, ok := constInt(ia.Index); ok {
								k = kk
							}
						}
					}
				}
				if k < 0 || k < minIn {
					continue // required inputs are never defaulted; phis over them are ordinary data flow
				}
				cnt++
				for i, e := range phi.Edges {
					if sameInputLoad(e, inputs, k) {
						continue
					}
					// the default edge: inputs[k] == nil must hold on it
					pred := b.Preds[i]
					okNil := false
					for _, g := range edgeGuards(pred, b) {
						for _, a := range atomsOf(g) {
							if a.op == token.EQL && ((sameInputLoad(a.x, inputs, k) && isNilConst(a.y)) || (sameInputLoad(a.y, inputs, k) && isNilConst(a.x))) {
								okNil = true
							}
						}
					}
					if !okNil {
						bad = fmt.Sprintf("a default value replaces inputs[%d] on a path where inputs[%d] is not known to be absent: a supplied optional input is silently discarded (e.g. when another optional input is missing)", k, k)
						badSite = c.pos(phi.Pos())
						if badSite == "" {
							badSite = c.pos(apply.Pos())
						}
					}
				}
			}
		}
		if cnt == 0 {
			continue
		}
		n += cnt
		c.decide(bad == "", "R24", "R24:optional-default:"+reg, firstNonEmpty(badSite, c.pos(apply.Pos())), fmt.Sprintf("%d optional inputs with a default; the default is taken only under inputs[k] == nil", cnt), bad)
	}
	c.counts["R24.optional_defaults"] = n
}

// ruleTermsShapeOps — who-must-call rules for operators that delegate to one gorgonia call on the
// requested axis / permutation (C08 Transpose, C09 Softmax/LogSoftmax, C16 Transpose).
func ruleTermsShapeOps(c *Ctx, prop string) {
	want := map[string]string{
		"Transpose":  "Transpose(P1[0],.perm)",
		"Softmax":    "SoftMax(P1[0],AXIS)",
		"LogSoftmax": "LogSoftMax(P1[0],AXIS)",
		"Expand":     "MultidirectionalBroadcast(P1[0],TARGET)",
	}
	want["Concat"] = "CONCAT"
	scope := map[string][]string{"C08": {"Transpose", "Expand", "Concat"}, "C16": {"Transpose", "Softmax", "LogSoftmax"}, "C09": {"Softmax", "LogSoftmax"}}
	for _, name := range scope[prop] {
		oi := c.opByName(name)
		key := "R7:delegates:" + name
		if oi == nil {
			c.undecided("R7", key, "", "operator not found")
			continue
		}
		apply := oi.methods["Apply"]
		got := c.successTerms(apply)
		if name == "Concat" {
			okC, why := c.concatDelegates(apply, got)
			if okC {
				c.discharge("R7", key, c.pos(apply.Pos()), "Concat returns tensor.Concat(normalised axis, inputs[0], inputs[1:]...), or its single input as it is")
			} else {
				c.undecided("R7", key, c.pos(apply.Pos()), "Concat no longer hands all its inputs, in order, to gorgonia's Concat ("+why+"): a concatenation done by hand is not followed by any rule; computed: "+strings.Join(got, " | "))
			}
			continue
		}
		ok := len(got) == 1
		if ok {
			g := got[0]
			w := want[name]
			if strings.Contains(w, "AXIS") {
				// the axis operand: the attribute, possibly normalised: phi(.axis|(.axis+len(Shape(P1[0])))) or .axis
				pre := strings.Split(w, "AXIS")[0]
				ok = strings.HasPrefix(g, pre) && strings.HasSuffix(g, ")") && strings.Contains(g[len(pre):], ".axis") && !strings.Contains(g[len(pre):], "Transpose")
				if !ok {
					// through a helper that is handed the gorgonia kernel itself: helper(fn:SoftMax,P1[0],axis); the
					// helper's own kernel calls are judged by R7:softmax-kernel
					kern := strings.TrimSuffix(pre, "(P1[0],")
					if i := strings.Index(g, "(fn:"+kern+",P1[0],"); i > 0 && !strings.ContainsAny(g[:i], "(,") {
						rest := g[i+len("(fn:"+kern+",P1[0],"):]
						ok = strings.HasSuffix(rest, ")") || strings.HasSuffix(rest, ")#1")
						ok = ok && strings.Contains(rest, ".axis") && !strings.Contains(rest, "Transpose")
					}
				}
			} else if strings.Contains(w, "TARGET") {
				// the target operand: a fresh tensor built from the requested shape (inputs[1]); first result of the helper
				pre := strings.Split(w, "TARGET")[0]
				ok = strings.HasPrefix(g, pre+"New(") && strings.HasSuffix(g, ")") && strings.Contains(g[len(pre):], "P1[1]") && !strings.HasSuffix(g, "#1")
			} else {
				ok = g == w
			}
		}
		c.decide(ok, "R7", key, c.pos(apply.Pos()), name+" returns exactly "+want[name]+" (gorgonia validates and resolves the axis / permutation)",
			fmt.Sprintf("%s no longer returns the result of the single gorgonia call on the requested axis/permutation; computed: %s — data movement done by hand (extra transposes, reshape shortcuts) is where axes get mixed", name, strings.Join(got, " | ")))
	}
}

// ruleConvOrdering (K6) — in Conv.Apply every step that reads the kernel shape runs after the step
// that sets it to the dilated kernel's extents.
func ruleConvOrdering(c *Ctx, prop string) {
	oi := c.opByName("Conv")
	if oi == nil {
		return
	}
	apply := oi.methods["Apply"]
	fi := fieldIndex(oi.named, "kernelShape")
	if fi < 0 {
		c.undecided("R11", "R11:K6:kernel-shape-order", c.pos(apply.Pos()), "Conv has no kernelShape field any more")
		return
	}
	readsField := func(f *ssa.Function) bool {
		for g := range c.reachFrom([]*ssa.Function{f}) {
			if recvNamed(g) != oi.named {
				continue
			}
			for _, b := range g.Blocks {
				for _, in := range b.Instrs {
					if fa, ok := in.(*ssa.FieldAddr); ok && fa.Field == fi {
						for _, r := range *fa.Referrers() {
							if ld, ok := r.(*ssa.UnOp); ok && len(*ld.Referrers()) > 0 {
								return true
							}
						}
					}
				}
			}
		}
		return false
	}
	dilates := func(f *ssa.Function) bool {
		// reads dilations and (transitively) stores kernelShape from a tensor it builds
		di := fieldIndex(oi.named, "dilations")
		readsD, builds, sets := false, false, false
		for g := range c.reachFrom([]*ssa.Function{f}) {
			if recvNamed(g) != oi.named {
				continue
			}
			for _, b := range g.Blocks {
				for _, in := range b.Instrs {
					switch x := in.(type) {
					case *ssa.FieldAddr:
						if x.Field == di {
							readsD = true
						}
						if x.Field == fi {
							for _, r := range *x.Referrers() {
								if _, ok := r.(*ssa.Store); ok {
									sets = true
								}
							}
						}
					case *ssa.Call:
						if sc := x.Common().StaticCallee(); sc != nil && sc.Name() == "NewDense" {
							builds = true
						}
					}
				}
			}
		}
		return readsD && builds && sets
	}
	var dil *ssa.Call
	var readers []*ssa.Call
	for _, b := range apply.Blocks {
		for _, in := range b.Instrs {
			cl, ok := in.(*ssa.Call)
			if !ok {
				continue
			}
			g := cl.Common().StaticCallee()
			if g == nil || recvNamed(g) != oi.named {
				continue
			}
			if dilates(g) {
				dil = cl
				continue
			}
			// setters of the kernel shape itself are not readers
			if readsField(g) {
				readers = append(readers, cl)
			}
		}
	}
	key := "R11:K6:kernel-shape-order"
	if dil == nil {
		c.undecided("R11", key, c.pos(apply.Pos()), "no kernel dilation step found in Conv.Apply")
		return
	}
	bad, badSite := "", ""
	for _, r := range readers {
		if !instrBefore(dil, r) {
			bad = fmt.Sprintf("%s reads the kernel shape before the kernel has been dilated: with dilations > 1 it works with the undilated extents (wrong auto_pad paddings / output shape)", fname(r.Common().StaticCallee()))
			badSite = c.pos(r.Pos())
		}
	}
	c.decide(bad == "", "R11", key, firstNonEmpty(badSite, c.pos(dil.Pos())), fmt.Sprintf("%d steps that read the kernel shape all run after the dilation step", len(readers)), bad)
}

// ---- R11:K7: derived paddings are never negative ---------------------------------------------------
//
// Every value stored into a PADS-kind list by a Conv method (the auto_pad derivation, the zero default)
// must be provably >= 0: padInput builds a zero tensor with that extent, and gorgonia panics on a
// negative dimension. With stride > kernel extent the ONNX "pad needed" formula is negative, so the
// derivation needs a clamp.
func ruleConvPadsNonNeg(c *Ctx, prop string) {
	oi := c.opByName("Conv")
	if oi == nil {
		return
	}
	n := 0
	per := map[string]int{}
	var fns []*ssa.Function
	for _, f := range c.libFns {
		if recvNamed(f) == oi.named && f.Parent() == nil && len(f.Params) > 0 {
			fns = append(fns, f)
		}
	}
	sort.Slice(fns, func(i, j int) bool { return fname(fns[i]) < fname(fns[j]) })
	for _, f := range fns {
		kc := &kindCtx{c: c, recv: f.Params[0], memo: map[ssa.Value]dimKind{}, fn: f,
			paramKind: map[string]map[int]dimKind{}, retKind: map[string]dimKind{}}
		for _, b := range f.Blocks {
			for _, in := range b.Instrs {
				st, ok := in.(*ssa.Store)
				if !ok {
					continue
				}
				ia, ok := st.Addr.(*ssa.IndexAddr)
				if !ok || kc.sliceKind(ia.X, 0) != kPads {
					continue
				}
				n++
				per[fname(f)]++
				key := fmt.Sprintf("R11:K7:pads-nonneg:%s#%d", fname(f), per[fname(f)])
				c.decide(c.nonNegAt(st.Val, b, 0), "R11", key, c.pos(st.Pos()),
					"the stored padding is provably >= 0",
					"a padding derived here can be negative (e.g. auto_pad with a stride larger than the kernel extent: (ceil(d/s)-1)*s + k - d < 0): padInput then asks gorgonia for a tensor with a negative dimension, which panics; the derivation must clamp at 0")
			}
		}
	}
	c.counts["R11.K7.pad_stores"] = n
	if n < 2 {
		c.undecided("R11", "R11:K7:floor", "", fmt.Sprintf("only %d stores into a paddings list found in Conv's methods (floor 2)", n))
	}
}

// nonNegAt: the integer value v is provably >= 0 when block b executes. Structural: constants, lengths,
// dominating comparisons, clamps (phi whose edges are each non-negative under that edge's guards),
// sums/products/quotients of non-negative values, and `a - h` where h is at most a.
func (c *Ctx) nonNegAt(v ssa.Value, b *ssa.BasicBlock, depth int) bool {
	if depth > 8 || v == nil {
		return false
	}
	if nonNegExpr(v, 0) {
		return true
	}
	if guardsImplyNonNeg(guardsOf(b), v) {
		return true
	}
	switch x := v.(type) {
	case *ssa.Phi:
		pb := x.Block()
		for i, e := range x.Edges {
			pred := pb.Preds[i]
			if guardsImplyNonNeg(edgeGuards(pred, pb), e) {
				continue
			}
			if !c.nonNegAt(e, pred, depth+1) {
				return false
			}
		}
		return true
	case *ssa.BinOp:
		at := x.Block()
		switch x.Op {
		case token.ADD, token.MUL:
			return c.nonNegAt(x.X, at, depth+1) && c.nonNegAt(x.Y, at, depth+1)
		case token.QUO, token.REM:
			k, ok := constInt(x.Y)
			return ok && k > 0 && c.nonNegAt(x.X, at, depth+1)
		case token.SUB:
			return c.nonNegAt(x.X, at, depth+1) && c.atMost(x.Y, x.X, depth+1)
		}
	case *ssa.Convert:
		return c.nonNegAt(x.X, x.Block(), depth+1)
	case *ssa.Call:
		if bi, ok := x.Common().Value.(*ssa.Builtin); ok && bi.Name() == "max" {
			for _, a := range x.Common().Args {
				if c.nonNegAt(a, x.Block(), depth+1) {
					return true
				}
			}
		}
	}
	return false
}

// guardsImplyNonNeg: one of the conditional edges states v >= k (k >= 0), v > k (k >= -1) or v == k (k >= 0).
func guardsImplyNonNeg(gs []guard, v ssa.Value) bool {
	for _, g := range gs {
		for _, a := range atomsOf(g) {
			x, y, op := a.x, a.y, a.op
			if y == v { // k op v  ->  v op' k
				x, y = y, x
				switch op {
				case token.LSS:
					op = token.GTR
				case token.LEQ:
					op = token.GEQ
				case token.GTR:
					op = token.LSS
				case token.GEQ:
					op = token.LEQ
				}
			}
			if x != v {
				continue
			}
			k, ok := constInt(y)
			if !ok {
				continue
			}
			switch op {
			case token.GEQ, token.EQL:
				if k >= 0 {
					return true
				}
			case token.GTR:
				if k >= -1 {
					return true
				}
			}
		}
	}
	return false
}

// atMost: h <= a for a non-negative a: h is a/k (k >= 1), (a+1)/2, a itself, 0, or a phi of such.
func (c *Ctx) atMost(h, a ssa.Value, depth int) bool {
	if depth > 8 {
		return false
	}
	if h == a {
		return true
	}
	if k, ok := constInt(h); ok && k == 0 {
		return true
	}
	switch x := h.(type) {
	case *ssa.Phi:
		for _, e := range x.Edges {
			if !c.atMost(e, a, depth+1) {
				return false
			}
		}
		return len(x.Edges) > 0
	case *ssa.BinOp:
		if x.Op == token.SUB {
			// a - z <= a for z >= 0 (a >= 0 is the caller's premise)
			return c.atMost(x.X, a, depth+1) && c.nonNegAt(x.Y, x.Block(), depth+1)
		}
		if x.Op != token.QUO {
			return false
		}
		k, ok := constInt(x.Y)
		if !ok || k < 1 {
			return false
		}
		if x.X == a {
			return true
		}
		// (a + 1) / 2 <= a for a >= 0
		if s, ok := x.X.(*ssa.BinOp); ok && s.Op == token.ADD && k >= 2 {
			if one, ok := constInt(s.Y); ok && one == 1 && s.X == a {
				return true
			}
			if one, ok := constInt(s.X); ok && one == 1 && s.Y == a {
				return true
			}
		}
	}
	return false
}

// ---- R9d: the reduction receives every requested axis --------------------------------------------
//
// ReduceMax/ReduceMin hand gorgonia a list with exactly one (normalised) entry per requested axis: the
// list is the attribute itself, or make(len(attr)) filled at the range index of a loop over the
// attribute, or an append that runs in every iteration. A filtered list (axes dropped on a condition)
// changes which axes disappear from the output shape, and an empty list means "all axes" to gorgonia.
func ruleAxesPreserved(c *Ctx, prop string) {
	for _, name := range []string{"ReduceMax", "ReduceMin"} {
		oi := c.opByName(name)
		key := "R9d:" + name + ":axes-preserved"
		if oi == nil {
			c.undecided("R9", key, "", "operator not found")
			continue
		}
		apply := oi.methods["Apply"]
		recv := apply.Params[0]
		isAxesLoad := func(v ssa.Value) bool {
			u, ok := v.(*ssa.UnOp)
			if !ok || u.Op != token.MUL {
				return false
			}
			fa, ok := u.X.(*ssa.FieldAddr)
			if !ok || fa.X != ssa.Value(recv) {
				return false
			}
			_, st := structOfPtr(fa.X.Type())
			return st != nil && st.Field(fa.Field).Name() == "axes"
		}
		var red *ssa.Call
		for _, b := range apply.Blocks {
			for _, in := range b.Instrs {
				if cl, ok := in.(*ssa.Call); ok {
					if nm, _ := tensorMethod(cl); nm == "Max" || nm == "Min" {
						red = cl
					}
				}
			}
		}
		// or: ops.ReduceAxes(t, axes, (*tensor.Dense).Max) — the per-axis driver (its own contract: R34)
		viaDriver := ""
		if red == nil {
			for _, b := range apply.Blocks {
				for _, in := range b.Instrs {
					cl, ok := in.(*ssa.Call)
					if !ok {
						continue
					}
					sc := cl.Common().StaticCallee()
					if sc == nil || fnPkgPath(sc) != pkgOps || sc.Name() != "ReduceAxes" || len(cl.Common().Args) != 3 {
						continue
					}
					if fv, ok := stripConv(cl.Common().Args[2]).(*ssa.Function); ok && fnPkgPath(fv) == pkgTensor {
						red, viaDriver = cl, strings.TrimSuffix(fv.Name(), "$thunk")
					} else if mc, ok := cl.Common().Args[2].(*ssa.MakeClosure); ok {
						if fv, ok := mc.Fn.(*ssa.Function); ok {
							red, viaDriver = cl, "closure "+fv.Name()
						}
					}
				}
			}
		}
		if red == nil {
			c.undecided("R9", key, c.pos(apply.Pos()), name+".Apply no longer calls gorgonia's Max/Min (directly or through ops.ReduceAxes): unrecognised factoring")
			continue
		}
		// the reduction is the operator's own: ReduceMax -> Max, ReduceMin -> Min
		nm, _ := tensorMethod(red)
		if viaDriver != "" {
			nm = viaDriver
		}
		if "Reduce"+nm != name {
			c.violate("R9", "R9e:"+name+":kernel", c.pos(red.Pos()), name+" reduces with gorgonia's "+nm+"(): the sibling operator's reduction")
		} else {
			c.discharge("R9", "R9e:"+name+":kernel", c.pos(red.Pos()), name+" reduces with "+nm+"()")
		}
		args := red.Common().Args
		s := args[len(args)-1]
		if viaDriver != "" {
			s = args[1]
		}
		ok, why := false, "the axes list handed to the reduction is not built with one entry per requested axis"
		switch x := s.(type) {
		case *ssa.UnOp:
			ok = isAxesLoad(x)
		case *ssa.MakeSlice:
			lenOK := false
			if cl, isCall := x.Len.(*ssa.Call); isCall {
				if bi, isB := cl.Common().Value.(*ssa.Builtin); isB && bi.Name() == "len" && isAxesLoad(cl.Common().Args[0]) {
					lenOK = true
				}
			}
			if !lenOK {
				why = "the axes list is not made with len(requested axes) entries"
				break
			}
			nStores := 0
			ok = true
			for _, r := range *x.Referrers() {
				ia, isIA := r.(*ssa.IndexAddr)
				if !isIA {
					continue
				}
				for _, rr := range *ia.Referrers() {
					st, isSt := rr.(*ssa.Store)
					if !isSt || st.Addr != ssa.Value(ia) {
						continue
					}
					nStores++
					// the same index reads the attribute in this iteration, and the store runs in every iteration
					readsAttr := false
					for _, r2 := range *ia.Index.Referrers() {
						if ia2, isIA2 := r2.(*ssa.IndexAddr); isIA2 && ia2 != ia && isAxesLoad(ia2.X) {
							readsAttr = true
						}
					}
					if !readsAttr {
						ok, why = false, "an entry is stored at an index that does not walk the requested axes"
					} else if !runsEveryIteration(st.Block()) {
						ok, why = false, "the entry for a requested axis is stored only on a condition: axes are dropped from the list (an empty list means all axes to gorgonia)"
					}
				}
			}
			if nStores == 0 {
				ok, why = false, "the axes list is never filled"
			}
		case *ssa.Phi:
			// s = phi(make(0, n), append(s, x)) with the append running in every iteration
			ok = true
			nApp := 0
			for _, e := range x.Edges {
				switch y := e.(type) {
				case *ssa.MakeSlice:
				case *ssa.Call:
					bi, isB := y.Common().Value.(*ssa.Builtin)
					if !isB || bi.Name() != "append" || y.Common().Args[0] != ssa.Value(x) {
						ok = false
					} else {
						nApp++
						if !runsEveryIteration(y.Block()) {
							ok, why = false, "the append of a requested axis runs only on a condition: axes are dropped from the list (an empty list means all axes to gorgonia)"
						}
					}
				default:
					ok = false
				}
			}
			if nApp == 0 {
				ok = false
			}
		}
		c.decide(ok, "R9", key, c.pos(red.Pos()), "one list entry per requested axis reaches gorgonia's reduction", why)
	}
}

// runsEveryIteration: block b lies in a loop and dominates every latch of its innermost loop.
func runsEveryIteration(b *ssa.BasicBlock) bool {
	// innermost loop header: the closest dominator h with a predecessor dominated by h whose loop contains b
	for h := b; h != nil; h = h.Idom() {
		var latches []*ssa.BasicBlock
		for _, p := range h.Preds {
			if h.Dominates(p) {
				latches = append(latches, p)
			}
		}
		if len(latches) == 0 || !loopBlocks(h)[b] {
			continue
		}
		for _, l := range latches {
			if !b.Dominates(l) {
				return false
			}
		}
		return true
	}
	return false
}

// ---- integer expression normal form --------------------------------------------------------------
//
// normInt renders an integer SSA value as a polynomial over atoms in a canonical order, so that
// formula rules compare meaning (modulo commutativity, associativity and distribution of + - *) and
// not spelling. Integer division and remainder are opaque atoms over normalised operands.
type poly map[string]int64 // monomial (sorted atoms joined by '*', "" = constant) -> coefficient

func (c *Ctx) normInt(v ssa.Value, depth int) string {
	return renderPoly(c.polyOf(v, depth))
}

func renderPoly(p poly) string {
	var ks []string
	for k, co := range p {
		if co != 0 {
			ks = append(ks, k)
		}
	}
	sort.Strings(ks)
	if len(ks) == 0 {
		return "0"
	}
	var sb strings.Builder
	for i, k := range ks {
		co := p[k]
		if i > 0 {
			sb.WriteString(" ")
		}
		switch {
		case k == "":
			fmt.Fprintf(&sb, "%+d", co)
		case co == 1:
			sb.WriteString("+" + k)
		case co == -1:
			sb.WriteString("-" + k)
		default:
			fmt.Fprintf(&sb, "%+d*%s", co, k)
		}
	}
	return sb.String()
}

func (c *Ctx) polyOf(v ssa.Value, depth int) poly {
	if depth > 12 {
		return poly{"?deep": 1}
	}
	if k, ok := constInt(v); ok {
		return poly{"": k}
	}
	switch x := v.(type) {
	case *ssa.Convert:
		if isIntType(x.X.Type()) && isIntType(x.Type()) {
			return c.polyOf(x.X, depth+1)
		}
	case *ssa.BinOp:
		switch x.Op {
		case token.ADD, token.SUB:
			a, b := c.polyOf(x.X, depth+1), c.polyOf(x.Y, depth+1)
			out := poly{}
			for k, co := range a {
				out[k] += co
			}
			for k, co := range b {
				if x.Op == token.ADD {
					out[k] += co
				} else {
					out[k] -= co
				}
			}
			return out
		case token.MUL:
			a, b := c.polyOf(x.X, depth+1), c.polyOf(x.Y, depth+1)
			out := poly{}
			for ka, ca := range a {
				for kb, cb := range b {
					out[mulMono(ka, kb)] += ca * cb
				}
			}
			return out
		case token.QUO, token.REM:
			op := "/"
			if x.Op == token.REM {
				op = "%"
			}
			return poly{"((" + c.normInt(x.X, depth+1) + ")" + op + "(" + c.normInt(x.Y, depth+1) + "))": 1}
		}
	}
	return poly{c.term(v, 0): 1}
}

func mulMono(a, b string) string {
	if a == "" {
		return b
	}
	if b == "" {
		return a
	}
	parts := append(strings.Split(a, "*"), strings.Split(b, "*")...)
	sort.Strings(parts)
	return strings.Join(parts, "*")
}

// ---- R11:K8: Conv's extent formulas -----------------------------------------------------------------
//
// The three places where Conv computes an extent or coordinate from per-axis quantities are compared,
// as polynomials over kind-labelled atoms (list[index kind]), with the ONNX formulas:
//
//	output extent   out[2+i]  = (X[2+i] - K[i] + pads[i] + pads[i+n]) / strides[i] + 1      (floor)
//	dilated extent  new[2+i]  = K[2+i]*d[i] - d[i] + 1                                       (= k + (k-1)(d-1))
//	dilated coord   new[2+i]  = old[2+i] * d[i]
//
// The comparison is modulo + - * algebra; integer division is opaque, so floor vs ceil spellings differ.
func ruleConvFormulas(c *Ctx, prop string) {
	oi := c.opByName("Conv")
	if oi == nil {
		return
	}
	type want struct {
		fn    string
		exprs []string // acceptable normal forms of the value stored at FULL[SPATIAL+2]
		doc   string
	}
	wants := []want{
		{"getOutputShape", []string{"+((-.kernelShape[SPATIAL] +.pads[SPATIAL+nSpatial] +.pads[SPATIAL] +Shape(P1)[SPATIAL+2])/(+.strides[SPATIAL])) +1"},
			"output extent = floor((X - K + pad_begin + pad_end) / stride) + 1"},
		{"getDilatedKernel", []string{"+.dilations[SPATIAL]*Shape(P1)[SPATIAL+2] +1 -.dilations[SPATIAL]"},
			"dilated kernel extent = k + (k-1)(d-1)"},
		{"getNewCoordsAfterDilation", []string{"+.dilations[SPATIAL]*P1[SPATIAL+2]"},
			"dilated coordinate = old coordinate * dilation"},
	}
	for _, w := range wants {
		key := "R11:K8:formula:" + w.fn
		var f *ssa.Function
		for _, g := range c.libFns {
			if recvNamed(g) == oi.named && g.Parent() == nil && convRole(g) == w.fn {
				f = g
			}
		}
		if f == nil {
			c.undecided("R11", key, "", "Conv has no method "+w.fn+" any more: where the "+w.doc+" is computed cannot be located")
			continue
		}
		kc := &kindCtx{c: c, recv: f.Params[0], memo: map[ssa.Value]dimKind{}, fn: f,
			paramKind: map[string]map[int]dimKind{"getNewCoordsAfterDilation": {1: kFull}},
			retKind:   map[string]dimKind{}}
		var got []string
		site := c.pos(f.Pos())
		for _, b := range f.Blocks {
			for _, in := range b.Instrs {
				st, ok := in.(*ssa.Store)
				if !ok {
					continue
				}
				ia, ok := st.Addr.(*ssa.IndexAddr)
				if !ok {
					continue
				}
				if _, isArr := ia.X.Type().Underlying().(*types.Pointer); isArr {
					continue
				}
				if kc.indexKind(ia.Index, 0) != iSpatialOff {
					continue
				}
				got = append(got, renderPoly(c.kindPoly(kc, st.Val, 0)))
				site = c.pos(st.Pos())
			}
		}
		ok := len(got) == 1
		if ok {
			ok = false
			for _, e := range w.exprs {
				if normSpaces(got[0]) == normSpaces(e) {
					ok = true
				}
			}
		}
		c.decide(ok, "R11", key, site, w.doc,
			fmt.Sprintf("%s does not compute the ONNX %s: the value stored per spatial axis is %s (expected %s, up to + - * algebra)", w.fn, w.doc, strings.Join(got, " | "), strings.Join(w.exprs, " or ")))
	}
}

func normSpaces(s string) string {
	parts := strings.Fields(s)
	sort.Strings(parts)
	return strings.Join(parts, " ")
}

// kindPoly: polyOf with atoms named by list and index *kind* (Shape(P1)[SPATIAL+2], .pads[SPATIAL+nSpatial]).
func (c *Ctx) kindPoly(kc *kindCtx, v ssa.Value, depth int) poly {
	if depth > 12 {
		return poly{"?deep": 1}
	}
	if k, ok := constInt(v); ok {
		return poly{"": k}
	}
	switch x := v.(type) {
	case *ssa.BinOp:
		switch x.Op {
		case token.ADD, token.SUB:
			a, b := c.kindPoly(kc, x.X, depth+1), c.kindPoly(kc, x.Y, depth+1)
			out := poly{}
			for k, co := range a {
				out[k] += co
			}
			for k, co := range b {
				if x.Op == token.ADD {
					out[k] += co
				} else {
					out[k] -= co
				}
			}
			return out
		case token.MUL:
			a, b := c.kindPoly(kc, x.X, depth+1), c.kindPoly(kc, x.Y, depth+1)
			out := poly{}
			for ka, ca := range a {
				for kb, cb := range b {
					out[mulMono(ka, kb)] += ca * cb
				}
			}
			return out
		case token.QUO, token.REM:
			op := "/"
			if x.Op == token.REM {
				op = "%"
			}
			return poly{"((" + renderPoly(c.kindPoly(kc, x.X, depth+1)) + ")" + op + "(" + renderPoly(c.kindPoly(kc, x.Y, depth+1)) + "))": 1}
		}
	case *ssa.UnOp:
		if ia, ok := x.X.(*ssa.IndexAddr); ok && x.Op == token.MUL {
			if ik := kc.indexKind(ia.Index, 0); ik != iUnknown && ik != iConst {
				return poly{c.term(ia.X, 0) + "[" + ik.String() + "]": 1}
			}
		}
	}
	return poly{c.term(v, 0): 1}
}

// ---- R7:softmax-kernel: gorgonia's last-axis softmax kernel is never reached with several rows ------
//
// Audited in gorgonia.org/tensor@v0.9.24 defaultengine_softmax.go: softMaxLastDimF32/F64 (l.204, l.451)
// seed the maximum of every row with xArr[0], the first element of the WHOLE tensor, and start comparing
// at the row's second element. For every row but the first the shift is max(x[0,0], row[1:]): with
// [[1000,0],[0,0]] the second row becomes NaN (exp(-1000) sums to 0), with [[0,0],[1000,0]] it overflows.
// The kernel for inner axes (softMaxInnerDim*) takes the maximum from the lane itself. So every call of
// tensor.SoftMax / tensor.LogSoftMax must either be on a path where the axis is known not to be the last
// one, or be given a tensor that was reshaped to carry a trailing axis of extent 1.
func ruleSoftmaxKernel(c *Ctx, prop string) {
	var roots []*ssa.Function
	for _, name := range []string{"Softmax", "LogSoftmax"} {
		if oi := c.opByName(name); oi != nil {
			roots = append(roots, oi.methods["Apply"])
		}
	}
	isKernel := func(f *ssa.Function) bool {
		return f != nil && fnPkgPath(f) == pkgTensor && (f.Name() == "SoftMax" || f.Name() == "LogSoftMax")
	}
	var fns []*ssa.Function
	for f := range c.reachFrom(roots) {
		if isLibFn(f) {
			fns = append(fns, f)
		}
	}
	sort.Slice(fns, func(i, j int) bool { return fname(fns[i]) < fname(fns[j]) })
	n := 0
	per := map[string]int{}
	for _, f := range fns {
		for _, b := range f.Blocks {
			for _, in := range b.Instrs {
				cl, ok := in.(*ssa.Call)
				if !ok || len(cl.Common().Args) < 2 {
					continue
				}
				kernel := false
				if isKernel(cl.Common().StaticCallee()) {
					kernel = true
				} else if p, isP := cl.Common().Value.(*ssa.Parameter); isP && !cl.Common().IsInvoke() {
					// a function-typed parameter that every caller binds to one of the kernels
					idx := -1
					for i, q := range f.Params {
						if q == p {
							idx = i
						}
					}
					nSites, all := 0, true
					if node := c.cg.Nodes[f]; node != nil && idx >= 0 {
						for _, e := range node.In {
							if e.Site == nil || !isLibFn(e.Caller.Func) {
								continue
							}
							args := e.Site.Common().Args
							if idx < len(args) {
								nSites++
								if !isKernel(funcValueOf(args[idx])) {
									all = false
								}
							}
						}
					}
					kernel = nSites > 0 && all
				}
				if !kernel {
					continue
				}
				n++
				per[fname(f)]++
				key := fmt.Sprintf("R7:softmax-kernel:%s#%d", fname(f), per[fname(f)])
				T, A := cl.Common().Args[0], cl.Common().Args[1]
				// (i) the axis is known not to be the last one
				notLast := false
				for _, g := range guardsOf(b) {
					for _, a := range atomsOf(g) {
						if a.op != token.NEQ {
							continue
						}
						x, y := a.x, a.y
						// any spelling of axis != len(shape)-1: the difference of the two sides is +-(axis - len + 1)
						if lx, ok1 := c.linAxisLen(x, A, 0); ok1 {
							if ly, ok2 := c.linAxisLen(y, A, 0); ok2 {
								d := [3]int64{lx[0] - ly[0], lx[1] - ly[1], lx[2] - ly[2]}
								if d == [3]int64{1, -1, 1} || d == [3]int64{-1, 1, -1} {
									notLast = true
								}
							}
						}
						if y == A {
							x, y = y, x
						}
						if x != A {
							continue
						}
						if sb, isSb := y.(*ssa.BinOp); isSb && sb.Op == token.SUB {
							if k, isK := constInt(sb.Y); isK && k == 1 {
								if lc, isL := sb.X.(*ssa.Call); isL {
									if bi, isB := lc.Common().Value.(*ssa.Builtin); isB && bi.Name() == "len" && strings.Contains(c.term(lc.Common().Args[0], 0), "Shape(") {
										notLast = true
									}
								}
							}
						}
					}
				}
				// (ii) the tensor carries a trailing unit axis: T.Reshape(append(shape, 1)...) dominates the call
				trailing := false
				for _, bb := range f.Blocks {
					if !bb.Dominates(b) {
						continue
					}
					for _, in2 := range bb.Instrs {
						rs, ok := in2.(*ssa.Call)
						if !ok {
							continue
						}
						if nm, recv := tensorMethod(rs); nm != "Reshape" || recv != T {
							continue
						}
						if bb == b && !instrBefore(rs, cl) {
							continue
						}
						args := rs.Common().Args
						if ap, isAp := stripConv(args[len(args)-1]).(*ssa.Call); isAp {
							if bi, isB := ap.Common().Value.(*ssa.Builtin); isB && bi.Name() == "append" && strings.Contains(c.term(ap.Common().Args[0], 0), "Shape(") {
								els := varargElems(ap.Common().Args[1])
								if len(els) == 1 {
									if k, isK := constInt(els[0]); isK && k == 1 {
										trailing = true
									}
								}
							}
						}
					}
				}
				c.decide(notLast || trailing, "R7", key, c.pos(cl.Pos()),
					"gorgonia's softmax kernel is reached either with an axis that is not the last one or with a tensor that carries a trailing unit axis",
					"gorgonia's kernel for the LAST axis can be reached with a tensor of several rows: it takes every row's maximum from the first element of the whole tensor (defaultengine_softmax.go, softMaxLastDim*), so a large value in one sample turns other samples into NaN/Inf - e.g. softmax([[1000,0],[0,0]]) has a second row of NaN where that row alone gives [0.5 0.5]")
			}
		}
	}
	c.counts["R7.softmax_kernel_calls"] = n
	if n < 2 {
		c.undecided("R7", "R7:softmax-kernel:floor", "", fmt.Sprintf("%d calls of gorgonia's SoftMax/LogSoftMax found under Softmax/LogSoftmax (floor 2)", n))
	}
}

// ---- R28: no error result is dropped in the code behind the property -------------------------------
//
// Every call that returns an error, in a library function reachable from the property's operators, has
// its error value consumed (compared, returned, passed on). An error that is assigned to a shadowed
// variable or overwritten before anyone looks at it has no use in SSA form; the function then returns a
// stale or partial result as success.
// errorDropAudited: explicit `_` discards of an error that were read and cannot hide a failure.
var errorDropAudited = map[string]string{
	"R28:error-dropped:opset13.gather:Slice#1": "data.Slice([k,k+1) on the gather axis): k comes from the index tensor, which Gather.Apply offsets and range-checks against that axis before gather() runs (obligation R9a:Gather.inputs[1] under C08); no other slicer is set",
	"R28:error-dropped:opset13.gather:Slice#2": "out.Slice at the coordinates of the index iterator: out is allocated by Gather.Apply with exactly the shape data[:axis] + indices.shape + data[axis+1:], so every coordinate of the iterator is in range",
}

func ruleErrorsConsumed(c *Ctx, prop string) {
	var roots []*ssa.Function
	for _, name := range opsOfProp(prop) {
		if oi := c.opByName(name); oi != nil {
			for _, m := range []string{"Apply", "Init", "ValidateInputs"} {
				if f := oi.methods[m]; f != nil {
					roots = append(roots, f)
				}
			}
		}
	}
	if prop == "C14" || prop == "C03" || prop == "C16" {
		for _, f := range c.libFns {
			if fnPkgPath(f) == pkgOps && f.Parent() == nil && f.Object() != nil && f.Object().Exported() && strings.Contains(f.Name(), "roadcast") {
				roots = append(roots, f)
			}
		}
	}
	if prop == "C12" || prop == "C18" || prop == "C11" {
		if di := c.decodeInfo(); di != nil {
			roots = append(roots, di.fn)
		}
	}
	var fns []*ssa.Function
	for f := range c.reachFrom(roots) {
		if isLibFn(f) && !strings.HasSuffix(c.fileOf(f.Pos()), ".pb.go") {
			fns = append(fns, f)
		}
	}
	sort.Slice(fns, func(i, j int) bool { return fname(fns[i]) < fname(fns[j]) })
	n := 0
	per := map[string]int{}
	for _, f := range fns {
		for _, b := range f.Blocks {
			for _, in := range b.Instrs {
				call, ok := in.(*ssa.Call)
				if !ok {
					continue
				}
				var sig *types.Signature
				if call.Common().IsInvoke() {
					sig = call.Common().Method.Type().(*types.Signature)
				} else {
					sig, _ = call.Common().Value.Type().Underlying().(*types.Signature)
				}
				if sig == nil || errResultIndex(sig) < 0 {
					continue
				}
				ev := errOfCall(call)
				used := false
				if ev != nil {
					for _, r := range *ev.Referrers() {
						if _, dbg := r.(*ssa.DebugRef); !dbg {
							used = true
						}
					}
				}
				n++
				if used {
					// consumed: when it is tested against nil, the failing edge must refuse (return a non-nil error);
					// an error that is looked at and then forgotten turns the failure into success just the same
					for _, r := range *ev.Referrers() {
						cmp, ok := r.(*ssa.BinOp)
						if !ok || !(cmp.Op == token.NEQ || cmp.Op == token.EQL) || !(isNilConst(cmp.X) || isNilConst(cmp.Y)) {
							continue
						}
						for _, rr := range *cmp.Referrers() {
							iff, ok := rr.(*ssa.If)
							if !ok {
								continue
							}
							failEdge := cmp.Op == token.NEQ // true edge is the failing one for !=
							if c.edgeRejects(iff, failEdge) || c.errorFlowsToReturn(ev, f) || c.failEdgeRetested(iff, failEdge, ev) || c.failEdgeReturnsFlag(iff, failEdge, f, 0) {
								continue
							}
							per[fname(f)]++
							c.violate("R28", fmt.Sprintf("R28:error-not-propagated:%s:%s#%d", fname(f), callName(call), per[fname(f)]), c.pos(call.Pos()),
								"the error of "+callName(call)+" is compared with nil, but its failing edge does not return an error and the value is returned nowhere: the failure is swallowed (e.g. an inner err := shadowing the one that is returned) and a default or stale result is used")
						}
					}
					continue
				}
				per[fname(f)]++
				// iterator.Next() style post statements are part of gorgonia's iteration protocol: the error only says "done"
				if nm := callName(call); nm == "Next" && call.Common().IsInvoke() {
					c.note("R28", fmt.Sprintf("R28:error-dropped:%s:%s#%d", fname(f), nm, per[fname(f)]), c.pos(call.Pos()), "iterator Next() error not looked at (iteration protocol: Done() is tested instead)")
					continue
				}
				key := fmt.Sprintf("R28:error-dropped:%s:%s#%d", fname(f), callName(call), per[fname(f)])
				auditKey := key
				if strings.HasPrefix(key, "R28:error-dropped:opset13.gather") {
					// the audited discards belong to the element routine of Gather, whatever its pieces are called
					auditKey = "R28:error-dropped:opset13.gather" + key[strings.LastIndex(key, ":"):]
				}
				if why, ok := errorDropAudited[auditKey]; ok && c.blankDiscard(f, call, errResultIndex(sig)) {
					c.discharge("R28", key, c.pos(call.Pos()), "audited blank discard: "+why)
					continue
				}
				c.violate("R28", key, c.pos(call.Pos()),
					"the error result of "+callName(call)+" is never looked at (dropped, shadowed by := in an inner scope, or overwritten): a failure of this step is returned as success with a stale or partial result")
			}
		}
	}
	// errors carried around a loop: an error stored in one iteration must stop the loop (or be tested inside it);
	// otherwise a later, successful iteration overwrites it and the function returns success
	for _, f := range fns {
		for _, h := range f.Blocks {
			lb := loopBlocks(h)
			if len(lb) < 2 {
				continue
			}
			for _, in := range h.Instrs {
				phi, ok := in.(*ssa.Phi)
				if !ok || !isErrorType(phi.Type()) {
					continue
				}
				for i, e := range phi.Edges {
					if !lb[h.Preds[i]] || isNilConst(e) || e == ssa.Value(phi) {
						continue
					}
					// some test of this error (or of the carried variable) inside the loop leaves the loop on failure
					tested := false
					for b := range lb {
						iff, ok := b.Instrs[len(b.Instrs)-1].(*ssa.If)
						if !ok {
							continue
						}
						for _, cond := range condAtoms(iff.Cond) {
							cmp, ok := cond.(*ssa.BinOp)
							if !ok || !(cmp.Op == token.NEQ || cmp.Op == token.EQL) {
								continue
							}
							var v ssa.Value
							if isNilConst(cmp.Y) {
								v = cmp.X
							} else if isNilConst(cmp.X) {
								v = cmp.Y
							}
							if v == nil || !(v == e || v == ssa.Value(phi) || phiCarries(v, e)) {
								continue
							}
							for _, s := range b.Succs {
								if !lb[s] {
									tested = true
								}
							}
						}
					}
					if tested {
						continue
					}
					per[fname(f)]++
					c.violate("R28", fmt.Sprintf("R28:error-overwritten:%s#%d", fname(f), per[fname(f)]), c.pos(phi.Pos()),
						"an error produced in one iteration of this loop is only kept in a variable: nothing inside the loop stops on it, so a later iteration that succeeds overwrites it and the function reports success (e.g. an incompatible axis followed by a stretchable one)")
				}
			}
		}
	}
	c.counts["R28.error_calls"] = n
	if n > 0 {
		c.discharge("R28", "R28:error-calls", "", fmt.Sprintf("%d error-returning calls in %d functions behind this property: every error value is consumed (or listed above)", n, len(fns)))
	}
}

// blankDiscard: the call's result at position idx is assigned to the blank identifier in the source.
func (c *Ctx) blankDiscard(f *ssa.Function, call *ssa.Call, idx int) bool {
	top := f
	for top.Parent() != nil {
		top = top.Parent()
	}
	fd := c.astFuncDecl(top)
	if fd == nil {
		return false
	}
	found := false
	ast.Inspect(fd, func(n ast.Node) bool {
		as, ok := n.(*ast.AssignStmt)
		if !ok || len(as.Rhs) != 1 {
			return true
		}
		ce, ok := as.Rhs[0].(*ast.CallExpr)
		if !ok || ce.Lparen != call.Pos() || idx >= len(as.Lhs) {
			return true
		}
		if id, ok := as.Lhs[idx].(*ast.Ident); ok && id.Name == "_" {
			found = true
		}
		return true
	})
	return found
}

// errorFlowsToReturn: the error value (or a phi of it) is a result of some return of f.
func (c *Ctx) errorFlowsToReturn(ev ssa.Value, f *ssa.Function) bool {
	seen := map[ssa.Value]bool{}
	var derives func(v ssa.Value, depth int) bool
	derives = func(v ssa.Value, depth int) bool {
		if v == ev {
			return true
		}
		if depth > 4 || seen[v] {
			return false
		}
		seen[v] = true
		if phi, ok := v.(*ssa.Phi); ok {
			for _, e := range phi.Edges {
				if derives(e, depth+1) {
					return true
				}
			}
		}
		return false
	}
	for _, r := range returnsOf(f) {
		for _, res := range r.Results {
			seen = map[ssa.Value]bool{}
			if derives(res, 0) {
				return true
			}
		}
	}
	return false
}

// condAtoms: the comparison operands of a branch condition (through !).
func condAtoms(v ssa.Value) []ssa.Value {
	for {
		if u, ok := v.(*ssa.UnOp); ok && u.Op == token.NOT {
			v = u.X
			continue
		}
		break
	}
	return []ssa.Value{v}
}

// phiCarries: v is a phi one of whose edges is e (the merged error variable tested at the loop head).
func phiCarries(v, e ssa.Value) bool {
	phi, ok := v.(*ssa.Phi)
	if !ok {
		return false
	}
	for _, x := range phi.Edges {
		if x == e {
			return true
		}
	}
	return false
}

// ---- R29: gorgonia iterator protocol ---------------------------------------------------------------
//
// Audited in gorgonia.org/tensor@v0.9.24 iterator.go: FlatIterator.Start() is Reset() followed by Next(), and
// Coord() reports the position the iterator has advanced to. The element loops of gonnx read Coord() and then
// call Next(): they have to begin with Reset() (or a fresh iterator), never with Start(), and inside an
// iteration Coord() is read before Next() - otherwise coordinate 0 is never visited (and the walk ends one early).
func ruleIteratorProtocol(c *Ctx, prop string) {
	var roots []*ssa.Function
	for _, name := range opsOfProp(prop) {
		if oi := c.opByName(name); oi != nil {
			roots = append(roots, oi.methods["Apply"])
		}
	}
	if prop == "C03" || prop == "C16" {
		for _, f := range c.libFns {
			if fnPkgPath(f) == pkgOps && f.Parent() == nil && (f.Name() == "ApplyBinaryOperation" || f.Name() == "Div" || f.Name() == "And" || f.Name() == "Or" || f.Name() == "Xor") {
				roots = append(roots, f)
			}
		}
	}
	var fns []*ssa.Function
	for f := range c.reachFrom(roots) {
		if isLibFn(f) {
			fns = append(fns, f)
		}
	}
	sort.Slice(fns, func(i, j int) bool { return fname(fns[i]) < fname(fns[j]) })
	n := 0
	for _, f := range fns {
		byIter := map[ssa.Value]map[string][]*ssa.Call{}
		for _, b := range f.Blocks {
			for _, in := range b.Instrs {
				cl, ok := in.(*ssa.Call)
				if !ok || !cl.Common().IsInvoke() {
					continue
				}
				nm := cl.Common().Method.Name()
				if nm != "Coord" && nm != "Next" && nm != "Start" && nm != "Reset" {
					continue
				}
				if p := cl.Common().Method.Pkg(); p == nil || p.Path() != pkgTensor {
					continue
				}
				it := cl.Common().Value
				if byIter[it] == nil {
					byIter[it] = map[string][]*ssa.Call{}
				}
				byIter[it][nm] = append(byIter[it][nm], cl)
			}
		}
		k := 0
		for _, calls := range byIter {
			if len(calls["Coord"]) == 0 {
				continue
			}
			n++
			k++
			key := fmt.Sprintf("R29:iterator:%s#%d", fname(f), k)
			bad, site := "", c.pos(calls["Coord"][0].Pos())
			if len(calls["Start"]) > 0 {
				bad = "the element loop begins with iterator.Start(), which already advances the iterator: the first Coord() read is element 1, coordinate 0 is never visited (and a one-element tensor is skipped entirely)"
				site = c.pos(calls["Start"][0].Pos())
			}
			for _, co := range calls["Coord"] {
				for _, nx := range calls["Next"] {
					lb := map[*ssa.BasicBlock]bool{}
					for d := co.Block(); d != nil; d = d.Idom() {
						if l := loopBlocks(d); len(l) > 1 && l[co.Block()] && l[nx.Block()] {
							lb = l
							break
						}
					}
					if len(lb) == 0 {
						continue
					}
					before := nx.Block() == co.Block() && instrBefore(nx, co)
					if before || (nx.Block() != co.Block() && nx.Block().Dominates(co.Block()) && !isLoopHeaderOf(nx.Block(), lb)) {
						bad = "Coord() is read after Next() within one iteration: every element is paired with the coordinate of its successor"
						site = c.pos(co.Pos())
					}
				}
			}
			c.decide(bad == "", "R29", key, site, "Coord() is read before Next() and the walk starts at the reset position", bad)
		}
	}
	c.counts["R29.iterator_loops"] = n
	if n == 0 {
		c.note("R29", "R29:iterator:none", "", "no coordinate-iterator loop behind this property")
	}
}

func isLoopHeaderOf(b *ssa.BasicBlock, lb map[*ssa.BasicBlock]bool) bool {
	for _, p := range b.Preds {
		if lb[p] && b.Dominates(p) {
			return true
		}
	}
	return false
}

// ---- R30: flat positions are unravelled from the last axis -------------------------------------------
//
// gorgonia tensors (and every []T backing gonnx builds) are row-major: position n of the backing has the
// coordinates obtained by taking n % extent, n / extent from the LAST axis to the first. A hand-written
// unravelling loop that walks the shape forwards yields column-major coordinates: right for vectors and for
// shapes with one non-unit axis, permuted data otherwise.
func ruleUnravelOrder(c *Ctx, prop string) {
	var roots []*ssa.Function
	for _, name := range opsOfProp(prop) {
		if oi := c.opByName(name); oi != nil {
			roots = append(roots, oi.methods["Apply"])
		}
	}
	reach := c.reachFrom(roots)
	var fns []*ssa.Function
	for f := range reach {
		if isLibFn(f) {
			fns = append(fns, f)
		}
	}
	fns = append(fns, c.ctlFns...)
	sort.Slice(fns, func(i, j int) bool { return fname(fns[i]) < fname(fns[j]) })
	n := 0
	ctlBad, ctlGood := StDischarged, StDischarged
	for _, f := range fns {
		for _, l := range loopsOf(f) {
			if l.idx == nil || l.start != 0 {
				continue
			}
			// inside an ascending loop over i: x % shape[i] stored at position i, and x replaced by x / shape[i]
			var remPhi *ssa.Phi
			for _, in := range l.hdr.Instrs {
				phi, ok := in.(*ssa.Phi)
				if !ok || !isIntType(phi.Type()) {
					continue
				}
				for _, e := range phi.Edges {
					if q, ok := e.(*ssa.BinOp); ok && q.Op == token.QUO && q.X == ssa.Value(phi) {
						remPhi = phi
					}
				}
			}
			if remPhi == nil {
				continue
			}
			for b := range loopBlocks(l.hdr) {
				for _, in := range b.Instrs {
					st, ok := in.(*ssa.Store)
					if !ok {
						continue
					}
					ia, ok := st.Addr.(*ssa.IndexAddr)
					rm, isRem := st.Val.(*ssa.BinOp)
					if !ok || !isRem || rm.Op != token.REM || rm.X != ssa.Value(remPhi) || ia.Index != l.idx {
						continue
					}
					n++
					if isControlFn(f) {
						if f.Name() == "BadUnravel" {
							ctlBad = StViolated
						} else {
							ctlGood = StViolated
						}
						continue
					}
					c.violate("R30", "R30:unravel-order:"+fname(f), c.pos(st.Pos()),
						"a flat position is turned into coordinates by taking % and / from the FIRST axis onwards: that is column-major, the backings are row-major - for an index or data tensor with two axes larger than one the elements land at permuted positions")
				}
			}
		}
	}
	c.add(Obligation{Rule: "R30", Key: "R30:ctl:bad:BadUnravel", Status: ctlBad, Control: true, Why: "control: forward unravelling"})
	c.add(Obligation{Rule: "R30", Key: "R30:ctl:good:GoodUnravel", Status: ctlGood, Control: true, Why: "control: backward unravelling"})
	c.wantControls = append(c.wantControls, "R30:ctl:bad:BadUnravel")
	c.counts["R30.unravel_loops"] = n
	c.discharge("R30", "R30:unravel-order:scan", "", fmt.Sprintf("%d functions behind this property scanned for forward unravelling loops (positive control BadUnravel reported, GoodUnravel silent)", len(fns)-len(c.ctlFns)))
}

// ---- R11:K9: padInput puts pads[i] zeros in front and pads[i+n] zeros behind, on axis 2+i ---------------
func ruleConvPadOrder(c *Ctx, prop string) {
	oi := c.opByName("Conv")
	if oi == nil {
		return
	}
	var f *ssa.Function
	for g := range c.reachFrom([]*ssa.Function{oi.methods["Apply"]}) {
		if recvNamed(g) != oi.named || g.Parent() != nil {
			continue
		}
		for _, b := range g.Blocks {
			for _, in := range b.Instrs {
				if cl, ok := in.(*ssa.Call); ok {
					if o := calleeObj(cl); o != nil && qualName(o) == pkgTensor+".Concat" {
						if f == nil || g.Pos() < f.Pos() {
							f = g // the first in source order (deterministic)
						}
					}
				}
			}
		}
	}
	key := "R11:K9:pad-order"
	if f == nil {
		c.undecided("R11", key, c.pos(oi.methods["Apply"].Pos()), "Conv no longer pads its input by concatenating zero tensors: where explicit pads are applied cannot be located")
		return
	}
	kc := &kindCtx{c: c, recv: f.Params[0], memo: map[ssa.Value]dimKind{}, fn: f, paramKind: map[string]map[int]dimKind{}, retKind: map[string]dimKind{}}
	// zero tensors: NewDense(dtype, shape) where shape[SPATIAL+2] was set from pads[kind]
	padKindOf := func(v ssa.Value) idxKind {
		for i := 0; i < 4; i++ {
			switch x := v.(type) {
			case *ssa.ChangeInterface:
				v = x.X
				continue
			case *ssa.MakeInterface:
				v = x.X
				continue
			}
			break
		}
		cl, ok := v.(*ssa.Call)
		if !ok {
			return iUnknown
		}
		if o := calleeObj(cl); o == nil || o.Name() != "NewDense" {
			return iUnknown
		}
		shape := stripConv(cl.Common().Args[1])
		for _, r := range *shape.Referrers() {
			ia, ok := r.(*ssa.IndexAddr)
			if !ok || kc.indexKind(ia.Index, 0) != iSpatialOff {
				continue
			}
			for _, rr := range *ia.Referrers() {
				st, ok := rr.(*ssa.Store)
				if !ok {
					continue
				}
				if ld, ok := st.Val.(*ssa.UnOp); ok {
					if pia, ok := ld.X.(*ssa.IndexAddr); ok && kc.sliceKind(pia.X, 0) == kPads {
						return kc.indexKind(pia.Index, 0)
					}
				}
			}
		}
		// shape may be a ChangeType of the clone the stores went to
		return iUnknown
	}
	n, bad, site := 0, "", c.pos(f.Pos())
	for _, b := range f.Blocks {
		for _, in := range b.Instrs {
			cl, ok := in.(*ssa.Call)
			if !ok {
				continue
			}
			if o := calleeObj(cl); o == nil || qualName(o) != pkgTensor+".Concat" {
				continue
			}
			args := cl.Common().Args
			if kc.indexKind(args[0], 0) != iSpatialOff {
				bad, site = "explicit pads are concatenated along an axis that is not spatial axis 2+i", c.pos(cl.Pos())
				continue
			}
			first := padKindOf(args[1])
			var rest idxKind = iUnknown
			for _, e := range varargElems(args[2]) {
				if k := padKindOf(e); k != iUnknown {
					rest = k
				}
			}
			n++
			switch {
			case first == iSpatial && rest == iUnknown: // zeros(pads[i]) ++ x
			case first == iUnknown && rest == iPadsTail: // x ++ zeros(pads[i+n])
			case first == iPadsTail || rest == iSpatial:
				bad, site = "the zeros sized by pads[i] (begin) are appended behind the data, or those sized by pads[i+n] (end) put in front: asymmetric pads are applied on the wrong side", c.pos(cl.Pos())
			default:
				bad, site = "a concatenation in the padding step cannot be matched to pads[i] in front / pads[i+n] behind", c.pos(cl.Pos())
			}
		}
	}
	if n < 2 && bad == "" {
		bad = fmt.Sprintf("%d padding concatenations found (2 expected: begin and end)", n)
	}
	c.decide(bad == "", "R11", key, site, "zeros(pads[i]) ++ x ++ zeros(pads[i+n]) on axis 2+i", bad)
}

// ruleArgMaxKernel: ArgMax reduces inputs[0] with gorgonia's Argmax (not Argmin / Max) along the normalised axis.
func ruleArgMaxKernel(c *Ctx, prop string) {
	oi := c.opByName("ArgMax")
	if oi == nil {
		return
	}
	apply := oi.methods["Apply"]
	key := "R9e:ArgMax:kernel"
	var found *ssa.Call
	var names []string
	for _, b := range apply.Blocks {
		for _, in := range b.Instrs {
			cl, ok := in.(*ssa.Call)
			if !ok {
				continue
			}
			o := calleeObj(cl)
			if o == nil || o.Pkg() == nil || o.Pkg().Path() != pkgTensor {
				continue
			}
			if strings.HasPrefix(o.Name(), "Arg") || o.Name() == "Max" || o.Name() == "Min" {
				names = append(names, o.Name())
				if o.Name() == "Argmax" {
					found = cl
				}
			}
		}
	}
	ok := found != nil && len(names) == 1 && sameInputLoad(found.Common().Args[0], apply.Params[1], 0)
	site := c.pos(apply.Pos())
	if found != nil {
		site = c.pos(found.Pos())
	}
	c.decide(ok, "R9", key, site, "ArgMax = tensor.Argmax(inputs[0], axis)", "ArgMax does not reduce inputs[0] with gorgonia's Argmax only (found: "+strings.Join(names, ", ")+")")
}

// ---- R31: Gather plumbing ------------------------------------------------------------------------------
//
// out[..., i_0..i_q-1, ...] = data[..., indices[i_0..i_q-1], ...] on `axis`. Decided on the code shape:
// G1 negative indices are offset by the extent of DATA at the normalised axis; G2 the output has the shape
// data[:axis] ++ indices.shape ++ data[axis+1:] (helper contract included); G3 the element routine receives
// (output, data, indices, axis) in that order; G4 it selects [k,k+1) on `axis` of data, places the block at the
// coordinates of the index iterator shifted by `axis`, and assigns output <- data (not the reverse).
func ruleGather(c *Ctx, prop string) {
	oi := c.opByName("Gather")
	if oi == nil {
		return
	}
	apply := oi.methods["Apply"]
	hasAxis := func(t string) bool { return strings.Contains(t, ".axis") }
	var offsetCall, elemCall, insCall *ssa.Call
	for _, b := range apply.Blocks {
		for _, in := range b.Instrs {
			cl, ok := in.(*ssa.Call)
			if !ok {
				continue
			}
			sc := cl.Common().StaticCallee()
			if sc == nil || !isLibFn(sc) {
				continue
			}
			switch {
			case len(cl.Common().Args) == 2 && strings.Contains(sc.Name(), "Offset"):
				offsetCall = cl
			case len(cl.Common().Args) >= 4 && len(cl.Common().Args) <= 6 && fnPkgPath(sc) == pkgOpset13 && sc.Signature.Results().Len() == 1 && isErrorType(sc.Signature.Results().At(0).Type()) &&
				isTensorish(sc.Signature.Params().At(0).Type()) && isTensorish(sc.Signature.Params().At(1).Type()) && isTensorish(sc.Signature.Params().At(2).Type()):
				// (output, data, indices, axis) and possibly values the caller has at hand already (the rank)
				elemCall = cl
			case len(cl.Common().Args) == 3 && sc.Signature.Results().Len() == 1 && fnPkgPath(sc) == pkgOpset13:
				if _, isSl := sc.Signature.Results().At(0).Type().Underlying().(*types.Slice); isSl {
					insCall = cl
				}
			}
		}
	}
	site := c.pos(apply.Pos())
	// G1
	if offsetCall == nil {
		c.undecided("R31", "R31:gather:G1", site, "Gather.Apply no longer offsets negative indices through an ops helper")
	} else {
		t := c.term(offsetCall.Common().Args[1], 0)
		c.decide(strings.HasPrefix(t, "Shape(P1[0])[") && hasAxis(t), "R31", "R31:gather:G1", c.pos(offsetCall.Pos()),
			"negative indices are offset by the extent of data at the gather axis",
			"negative indices are offset by "+t+", not by the extent of DATA (inputs[0]) at the normalised axis: -1 then selects the wrong element")
	}
	// G2
	if insCall == nil {
		c.undecided("R31", "R31:gather:G2", site, "the output shape of Gather is no longer built by a three-argument list helper")
	} else {
		a := insCall.Common().Args
		t0, t1, t2 := c.term(a[0], 0), c.term(a[1], 0), c.term(a[2], 0)
		ok := strings.HasPrefix(t0, "Shape(") && !strings.Contains(t0, "P1[0]") && t1 == "Shape(P1[0])" && hasAxis(t2)
		why := fmt.Sprintf("the output shape is built from (%s, %s, %s) instead of (indices.shape, data.shape, axis)", t0, t1, t2)
		if ok {
			w := checkInsertWithReplace(insCall.Common().StaticCallee())
			if w != "" {
				// the structural reading is one spelling; the contract itself is decided by table
				if known, tw := c.insertWithReplaceTable(insCall.Common().StaticCallee()); known {
					w = tw
				}
			}
			if w != "" {
				ok, why = false, "the list helper "+fname(insCall.Common().StaticCallee())+" is not x[:axis] ++ a ++ x[axis+1:]: "+w
			}
		}
		c.decide(ok, "R31", "R31:gather:G2", c.pos(insCall.Pos()), "output shape = data[:axis] ++ indices.shape ++ data[axis+1:]", why)
	}
	// G3 + G4
	if elemCall == nil {
		c.undecided("R31", "R31:gather:G3", site, "Gather.Apply no longer hands (output, data, indices, axis) to an element routine")
		return
	}
	a := elemCall.Common().Args
	t0, t1, t2, t3 := c.term(a[0], 0), c.term(a[1], 0), c.term(a[2], 0), c.term(a[3], 0)
	c.decide(strings.HasPrefix(t0, "New(") && t1 == "P1[0]" && strings.Contains(t2, "P1[1]") && !strings.Contains(t2, "P1[0]") && hasAxis(t3), "R31", "R31:gather:G3", c.pos(elemCall.Pos()),
		"element routine receives (fresh output, data, indices, axis)", fmt.Sprintf("the element routine receives (%.40s, %.40s, %.60s, %.40s): operands exchanged", t0, t1, t2, t3))
	g := elemCall.Common().StaticCallee()
	bad := ""
	var assign *ssa.Call
	nAxisSl, nShift := 0, 0
	// the per-index block may live in a helper of the element routine that receives (output, data, axis) from it
	pOut, pData, pAxis := "P0", "P1", "P3"
	hasSlicer := func(f *ssa.Function) bool {
		for _, b := range f.Blocks {
			for _, in := range b.Instrs {
				if cl, ok := in.(*ssa.Call); ok {
					if sc := cl.Common().StaticCallee(); sc != nil && sc.Name() == "NewSlicer" {
						return true
					}
				}
			}
		}
		return false
	}
	if !hasSlicer(g) && len(g.Params) >= 4 {
		for _, b := range g.Blocks {
			for _, in := range b.Instrs {
				cl, ok := in.(*ssa.Call)
				if !ok {
					continue
				}
				sc := cl.Common().StaticCallee()
				if sc == nil || !isLibFn(sc) || len(sc.Blocks) == 0 || !hasSlicer(sc) {
					continue
				}
				io, id, ia := -1, -1, -1
				for i, a := range cl.Common().Args {
					switch a {
					case ssa.Value(g.Params[0]):
						io = i
					case ssa.Value(g.Params[1]):
						id = i
					case ssa.Value(g.Params[3]):
						ia = i
					}
				}
				if io >= 0 && id >= 0 && ia >= 0 {
					g = sc
					pOut, pData, pAxis = fmt.Sprintf("P%d", io), fmt.Sprintf("P%d", id), fmt.Sprintf("P%d", ia)
				}
			}
		}
	}
	for _, b := range g.Blocks {
		for _, in := range b.Instrs {
			switch x := in.(type) {
			case *ssa.Store:
				ia, ok := x.Addr.(*ssa.IndexAddr)
				if !ok {
					continue
				}
				cl, ok := stripIface(x.Val).(*ssa.Call)
				if !ok || cl.Common().StaticCallee() == nil || cl.Common().StaticCallee().Name() != "NewSlicer" {
					continue
				}
				it := c.term(ia.Index, 0)
				if sl, ok := ia.X.(*ssa.Slice); ok && sl.Low != nil {
					// a store through a re-sliced view list[low:][i] is a store at low+i
					it = "(" + c.term(sl.Low, 0) + "+" + it + ")"
				}
				switch {
				case it == pAxis:
					nAxisSl++
				case strings.Contains(it, pAxis) && strings.Contains(it, "+"):
					nShift++
				default:
					bad = "a slicer is placed at position " + it + ": neither the gather axis nor an index coordinate shifted by the axis"
				}
			case *ssa.Call:
				if sc := x.Common().StaticCallee(); sc != nil && sc.Name() == "PairwiseAssign" {
					assign = x
				}
			}
		}
	}
	if bad == "" && (nAxisSl != 1 || nShift != 1) {
		bad = fmt.Sprintf("%d slicers on the gather axis of data and %d on the shifted index coordinates of the output (1 and 1 expected)", nAxisSl, nShift)
	}
	if bad == "" {
		if assign == nil {
			bad = "the selected block is not assigned into the output with ops.PairwiseAssign"
		} else {
			d, s := c.term(assign.Common().Args[0], 0), c.term(assign.Common().Args[1], 0)
			if !strings.HasPrefix(d, "Slice("+pOut+",") || !strings.HasPrefix(s, "Slice("+pData+",") {
				bad = "the block assignment is not output[coords] <- data[k]: it assigns " + d + " <- " + s
			}
		}
	}
	c.decide(bad == "", "R31", "R31:gather:G4", c.pos(g.Pos()), "data[.., k, ..] on `axis` is assigned to output at the index coordinates shifted by `axis`", bad)
}

func stripIface(v ssa.Value) ssa.Value {
	for {
		switch x := v.(type) {
		case *ssa.MakeInterface:
			v = x.X
		case *ssa.ChangeInterface:
			v = x.X
		default:
			return v
		}
	}
}

// checkInsertWithReplace: y = x[:axis] ++ a ++ x[axis+1:] for (a, x, axis).
func checkInsertWithReplace(f *ssa.Function) string {
	if f == nil || len(f.Params) != 3 {
		return "signature changed"
	}
	a, x, axis := f.Params[0], f.Params[1], f.Params[2]
	var head, tail *ssa.Slice
	appendsA := false
	for _, b := range f.Blocks {
		for _, in := range b.Instrs {
			switch v := in.(type) {
			case *ssa.Slice:
				if v.X != ssa.Value(x) {
					continue
				}
				if v.Low == nil && v.High == ssa.Value(axis) {
					head = v
				} else if v.High == nil {
					if lo, ok := v.Low.(*ssa.BinOp); ok && lo.Op == token.ADD && lo.X == ssa.Value(axis) {
						if k, isK := constInt(lo.Y); isK && k == 1 {
							tail = v
						}
					}
				} else {
					return "x is cut at other positions than [:axis] and [axis+1:]"
				}
			case *ssa.Call:
				if bi, ok := v.Common().Value.(*ssa.Builtin); ok && bi.Name() == "append" && len(v.Common().Args) == 2 && v.Common().Args[1] == ssa.Value(a) {
					appendsA = true
				}
			}
		}
	}
	switch {
	case head == nil:
		return "the head x[:axis] is missing"
	case tail == nil:
		return "the tail x[axis+1:] is missing"
	case !appendsA:
		return "a is not inserted"
	}
	return ""
}

// ---- R32: element counts are not taken from Dense.DataSize() ---------------------------------------
//
// gorgonia.org/tensor@v0.9.24 dense.go l.124: DataSize() returns 0 for a scalar ("DOUBLE CHECK" in the source)
// and the length of the backing otherwise. A rank-0 tensor has one element: any size arithmetic fed from
// DataSize() (the -1 inference of Reshape, allocation sizes, loop bounds) is wrong for exactly the scalars the
// shape properties quantify over. Shape().TotalSize() and NElements(shape...) give 1.
func ruleSizeQuirks(c *Ctx, prop string) {
	var roots []*ssa.Function
	for _, name := range opsOfProp(prop) {
		if oi := c.opByName(name); oi != nil {
			roots = append(roots, oi.methods["Apply"])
		}
	}
	if prop == "C14" || prop == "C03" {
		for _, f := range c.libFns {
			if fnPkgPath(f) == pkgOps && f.Parent() == nil && f.Object() != nil && f.Object().Exported() && strings.Contains(f.Name(), "roadcast") {
				roots = append(roots, f)
			}
		}
	}
	var fns []*ssa.Function
	for f := range c.reachFrom(roots) {
		if isLibFn(f) {
			fns = append(fns, f)
		}
	}
	fns = append(fns, c.ctlFns...)
	sort.Slice(fns, func(i, j int) bool { return fname(fns[i]) < fname(fns[j]) })
	ctl := StDischarged
	per := map[string]int{}
	for _, f := range fns {
		for _, b := range f.Blocks {
			for _, in := range b.Instrs {
				cl, ok := in.(*ssa.Call)
				if !ok {
					continue
				}
				if nm, _ := tensorMethod(cl); nm != "DataSize" {
					continue
				}
				if isControlFn(f) {
					if f.Name() == "BadDataSize" {
						ctl = StViolated
					}
					continue
				}
				per[fname(f)]++
				c.violate("R32", fmt.Sprintf("R32:datasize:%s#%d", fname(f), per[fname(f)]), c.pos(cl.Pos()),
					"the element count of a tensor is taken from DataSize(), which gorgonia defines as 0 for a rank-0 tensor (dense.go l.124): size arithmetic based on it (a -1 dimension, an allocation, a loop bound) is wrong for scalars; Shape().TotalSize() / ops.NElements give 1")
			}
		}
	}
	c.add(Obligation{Rule: "R32", Key: "R32:ctl:bad:BadDataSize", Status: ctl, Control: true, Why: "control: DataSize() in size arithmetic"})
	c.wantControls = append(c.wantControls, "R32:ctl:bad:BadDataSize")
	c.discharge("R32", "R32:datasize:scan", "", fmt.Sprintf("%d functions behind this property scanned for DataSize() (positive control reported)", len(fns)-len(c.ctlFns)))
}

// linAxisLen writes v as a*A + l*len(shape) + k for the axis value A, the length of a tensor's shape and
// integer constants combined with + and -.
func (c *Ctx) linAxisLen(v, A ssa.Value, depth int) ([3]int64, bool) {
	if depth > 6 {
		return [3]int64{}, false
	}
	v = stripConv(v)
	if v == A || stripConv(A) == v {
		return [3]int64{1, 0, 0}, true
	}
	if k, ok := constInt(v); ok {
		return [3]int64{0, 0, k}, true
	}
	switch x := v.(type) {
	case *ssa.Call:
		if bi, ok := x.Common().Value.(*ssa.Builtin); ok && bi.Name() == "len" && strings.Contains(c.term(x.Common().Args[0], 0), "Shape(") {
			return [3]int64{0, 1, 0}, true
		}
	case *ssa.BinOp:
		if x.Op != token.ADD && x.Op != token.SUB {
			return [3]int64{}, false
		}
		l, ok1 := c.linAxisLen(x.X, A, depth+1)
		r, ok2 := c.linAxisLen(x.Y, A, depth+1)
		if !ok1 || !ok2 {
			return [3]int64{}, false
		}
		if x.Op == token.ADD {
			return [3]int64{l[0] + r[0], l[1] + r[1], l[2] + r[2]}, true
		}
		return [3]int64{l[0] - r[0], l[1] - r[1], l[2] - r[2]}, true
	}
	return [3]int64{}, false
}

// insertWithReplaceTable walks a list helper h(a, x, axis) over small lists: the result must be
// x[:axis] ++ a ++ x[axis+1:] for every a of length 0..2, x of length 1..4 and axis in [0, len(x)).
func (c *Ctx) insertWithReplaceTable(f *ssa.Function) (known bool, bad string) {
	if f == nil || len(f.Params) != 3 || len(f.Blocks) == 0 {
		return false, ""
	}
	cov := newCover(f)
	for la := 0; la <= 2; la++ {
		for lx := 1; lx <= 4; lx++ {
			for axis := 0; axis < lx; axis++ {
				heap := newHeap()
				a, x := make([]pval, la), make([]pval, lx)
				var want []int64
				for i := range x {
					x[i] = pval{k: pInt, i: int64(10 + i)}
				}
				for i := range a {
					a[i] = pval{k: pInt, i: int64(-1 - i)}
				}
				for i := 0; i < axis; i++ {
					want = append(want, x[i].i)
				}
				for i := range a {
					want = append(want, a[i].i)
				}
				for i := axis + 1; i < lx; i++ {
					want = append(want, x[i].i)
				}
				p := &pinterp{c: c, budget: 20000, cover: cov, objects: true}
				res, h := p.run(f, []pval{heap.alloc(a), heap.alloc(x), {k: pInt, i: int64(axis)}}, 0, heap)
				if p.aborted || len(res) != 1 || h == nil {
					return false, ""
				}
				var got []pval
				switch res[0].k {
				case pList:
					got = h.lists[res[0].i]
					if got == nil {
						return false, ""
					}
				case pNil:
				default:
					return false, ""
				}
				gi := make([]int64, len(got))
				for i, e := range got {
					if e.k != pInt {
						return false, ""
					}
					gi[i] = e.i
				}
				if fmtInts(gi) != fmtInts(want) {
					return true, fmt.Sprintf("a = %d entries, x = %d entries, axis %d gives %s instead of %s", la, lx, axis, fmtInts(gi), fmtInts(want))
				}
			}
		}
	}
	if unc := cov.uncovered(c); len(unc) > 0 {
		c.declined("list helper table of "+fname(f), unc)
		return false, ""
	}
	return true, ""
}

// failEdgeRetested: the failing edge of a nil test of ev runs (through jumps) into a second nil test of a value
// merged from ev, whose failing edge refuses (err := f(); if err == nil { err = g() }; if err != nil { return ... }).
func (c *Ctx) failEdgeRetested(iff *ssa.If, failEdge bool, ev ssa.Value) bool {
	s := iff.Block().Succs[1]
	if failEdge {
		s = iff.Block().Succs[0]
	}
	for d := 0; d < 4 && len(s.Instrs) > 0; d++ {
		switch last := s.Instrs[len(s.Instrs)-1].(type) {
		case *ssa.Jump:
			s = s.Succs[0]
			continue
		case *ssa.If:
			bo, ok := last.Cond.(*ssa.BinOp)
			if !ok || !(bo.Op == token.NEQ || bo.Op == token.EQL) {
				return false
			}
			tested := bo.X
			if isNilConst(bo.X) {
				tested = bo.Y
			} else if !isNilConst(bo.Y) {
				return false
			}
			merged := tested == ev
			if phi, ok := tested.(*ssa.Phi); ok {
				for _, e := range phi.Edges {
					if e == ev {
						merged = true
					}
				}
			}
			return merged && c.edgeRejects(last, bo.Op == token.NEQ)
		}
		return false
	}
	return false
}

// failEdgeReturnsFlag: the failing edge runs (through jumps) into a return of the unexported function f whose bool
// result is the constant false, and every caller of f (static calls only, f is not used as a value) tests that
// result and refuses on its false edge - or passes the failure on the same way. The failure is reported, by the
// caller ("ok" results instead of errors the caller would replace anyway).
func (c *Ctx) failEdgeReturnsFlag(iff *ssa.If, failEdge bool, f *ssa.Function, depth int) bool {
	s := iff.Block().Succs[1]
	if failEdge {
		s = iff.Block().Succs[0]
	}
	return c.blockReturnsFlag(s, f, depth)
}

func (c *Ctx) blockReturnsFlag(s *ssa.BasicBlock, f *ssa.Function, depth int) bool {
	if depth > 2 || f.Parent() != nil || f.Object() == nil || f.Object().Exported() || f.Signature.Recv() != nil {
		return false
	}
	var ret *ssa.Return
	for d := 0; d < 4 && len(s.Instrs) > 0; d++ {
		if j, ok := s.Instrs[len(s.Instrs)-1].(*ssa.Jump); ok && len(s.Instrs) == 1 {
			_ = j
			s = s.Succs[0]
			continue
		}
		if r, ok := s.Instrs[len(s.Instrs)-1].(*ssa.Return); ok && len(s.Instrs) == 1 {
			ret = r
		}
		break
	}
	if ret == nil {
		return false
	}
	slot := -1
	for j, r := range ret.Results {
		if k, ok := r.(*ssa.Const); ok && k.Value != nil && k.Value.Kind() == constant.Bool && !constant.BoolVal(k.Value) {
			if slot >= 0 {
				return false
			}
			slot = j
		}
	}
	if slot < 0 {
		return false
	}
	node := c.cg.Nodes[f]
	if node == nil || len(node.In) == 0 {
		return false
	}
	for _, g := range c.libFns {
		for _, blk := range g.Blocks {
			for _, in := range blk.Instrs {
				if _, isDbg := in.(*ssa.DebugRef); isDbg {
					continue
				}
				for _, op := range in.Operands(nil) {
					if *op == ssa.Value(f) {
						if cl, isCall := in.(*ssa.Call); !isCall || cl.Common().Value != ssa.Value(f) {
							return false
						}
					}
				}
			}
		}
	}
	for _, e := range node.In {
		call, ok := e.Site.(*ssa.Call)
		if !ok || call.Common().StaticCallee() != f {
			return false
		}
		flag := resultOfCall(call, slot)
		if flag == nil {
			return false
		}
		tested := false
		for _, r := range *flag.Referrers() {
			var iff2 *ssa.If
			failTrue := false
			switch x := r.(type) {
			case *ssa.DebugRef:
				continue
			case *ssa.If:
				iff2 = x
			case *ssa.UnOp:
				if x.Op != token.NOT {
					return false
				}
				for _, rr := range *x.Referrers() {
					if i2, ok := rr.(*ssa.If); ok {
						iff2, failTrue = i2, true
					}
				}
			}
			if iff2 == nil {
				return false
			}
			if !c.edgeRejects(iff2, failTrue) && !c.failEdgeReturnsFlag(iff2, failTrue, call.Parent(), depth+1) {
				return false
			}
			tested = true
		}
		if !tested {
			return false
		}
	}
	return true
}

// concatDelegates: every success return of Concat.Apply is the inputs list itself under len(inputs) == 1, or the
// result of the one call tensor.Concat(axis, inputs[0], inputs[1:]...) with the axis derived from the attribute.
func (c *Ctx) concatDelegates(apply *ssa.Function, terms []string) (bool, string) {
	var call *ssa.Call
	n := 0
	for _, b := range apply.Blocks {
		for _, in := range b.Instrs {
			if cl, ok := in.(*ssa.Call); ok {
				if sc := cl.Common().StaticCallee(); sc != nil && fnPkgPath(sc) == pkgTensor && sc.Name() == "Concat" && sc.Signature.Recv() == nil {
					call = cl
					n++
				}
			}
		}
	}
	if n != 1 {
		return false, fmt.Sprintf("%d calls of tensor.Concat in Apply", n)
	}
	args := call.Common().Args
	if len(args) != 3 || !sameInputLoad(args[1], apply.Params[1], 0) {
		return false, "the first tensor handed to tensor.Concat is not inputs[0]"
	}
	sl, ok := args[2].(*ssa.Slice)
	if !ok || sl.X != ssa.Value(apply.Params[1]) || sl.High != nil || sl.Max != nil {
		return false, "the remaining tensors are not inputs[1:]"
	}
	if lo, ok := constInt(sl.Low); !ok || lo != 1 {
		return false, "the remaining tensors are not inputs[1:]"
	}
	if !strings.Contains(c.term(args[0], 0), ".axis") {
		return false, "the axis handed to tensor.Concat does not derive from the axis attribute"
	}
	nCall := 0
	for _, t := range terms {
		switch {
		case t == "P1":
		case strings.HasPrefix(t, "Concat(") && strings.HasSuffix(t, ",P1[0])"):
			nCall++
		default:
			return false, "a success return is neither the inputs themselves nor the result of tensor.Concat"
		}
	}
	if nCall != 1 {
		return false, "no success return hands out the result of tensor.Concat"
	}
	// the pass-through return only for a single input
	for _, r := range returnsOf(apply) {
		if len(r.Results) == 2 && r.Results[0] == ssa.Value(apply.Params[1]) {
			guarded := false
			for _, g := range guardsOf(r.Block()) {
				for _, a := range atomsOf(g) {
					if a.op != token.EQL {
						continue
					}
					for _, pr := range [][2]ssa.Value{{a.x, a.y}, {a.y, a.x}} {
						if k, ok := constInt(pr[1]); ok && k == 1 {
							if bi, ok := pr[0].(*ssa.Call); ok {
								if b, ok := bi.Common().Value.(*ssa.Builtin); ok && b.Name() == "len" && bi.Common().Args[0] == ssa.Value(apply.Params[1]) {
									guarded = true
								}
							}
						}
					}
				}
			}
			if !guarded {
				return false, "the inputs are returned as they are on a path that is not guarded by len(inputs) == 1"
			}
		}
	}
	return true, ""
}
