package main

import (
	"fmt"
	"go/token"
	"go/types"
	"sort"
	"strings"

	"golang.org/x/tools/go/ssa"
)

// R20 — small typed facts; R19 — Slice restores rank; R15b — constructor preconditions in operators.

// scalarWrapper: the library function func(any) any whose type switch turns scalars into 1-element slices.
func (c *Ctx) scalarWrapper() (*ssa.Function, map[string]bool) {
	for _, f := range c.libFns {
		if f.Parent() != nil || f.Signature.Recv() != nil || fnPkgPath(f) != pkgOps {
			continue
		}
		s := f.Signature
		if s.Params().Len() != 1 || s.Results().Len() != 1 {
			continue
		}
		if _, ok := s.Params().At(0).Type().Underlying().(*types.Interface); !ok {
			continue
		}
		if _, ok := s.Results().At(0).Type().Underlying().(*types.Interface); !ok {
			continue
		}
		covered := map[string]bool{}
		for _, r := range returnsOf(f) {
			if mi, ok := r.Results[0].(*ssa.MakeInterface); ok {
				if sl, ok := mi.X.Type().Underlying().(*types.Slice); ok {
					covered[sl.Elem().String()] = true
				}
			}
		}
		if len(covered) >= 5 {
			return f, covered
		}
	}
	return nil, nil
}

// ruleR20Scalar: a Data()-derived value that is type-asserted to a slice must first pass the scalar
// wrapper (Data() of a rank-0 tensor is a bare value, not a slice).
func ruleR20Scalar(c *Ctx, prop string) {
	wrapper, covered := c.scalarWrapper()
	if wrapper == nil {
		c.undecided("R20", "R20:scalarwrap:anchor", "", "no scalar-to-slice wrapper found in package ops")
		return
	}
	opNames := map[string][]string{
		"C07": {"Reshape", "Flatten", "Squeeze", "Unsqueeze", "Shape"},
		"C08": {"Transpose", "Concat", "Slice", "Gather", "Expand"},
		"C09": {"ArgMax", "ReduceMax", "ReduceMin", "Softmax", "LogSoftmax"},
		"C10": propOps["C10"],
		"C03": propOps["C03"],
		"C11": {"Cast", "Constant", "ConstantOfShape"},
	}
	n := 0
	for _, name := range opNames[prop] {
		oi := c.opByName(name)
		if oi == nil {
			continue
		}
		apply := oi.methods["Apply"]
		reach := c.reachFrom([]*ssa.Function{apply})
		scope := func(f *ssa.Function) bool { return reach[f] }
		var seeds, wseeds []ssa.Value
		for f := range reach {
			if strings.HasSuffix(c.fileOf(f.Pos()), ".pb.go") {
				continue
			}
			for _, b := range f.Blocks {
				for _, in := range b.Instrs {
					call, ok := in.(*ssa.Call)
					if !ok {
						continue
					}
					if call.Common().IsInvoke() && call.Common().Method.Name() == "Data" && call.Common().Method.Pkg() != nil && call.Common().Method.Pkg().Path() == pkgTensor {
						seeds = append(seeds, call)
					}
					if sc := call.Common().StaticCallee(); sc != nil && sc.Name() == "Data" && fnPkgPath(sc) == pkgTensor {
						seeds = append(seeds, call)
					}
					if call.Common().StaticCallee() == wrapper {
						wseeds = append(wseeds, call)
					}
				}
			}
		}
		D := c.forwardSet(seeds, nil, scope)
		W := c.forwardSetCtx(wseeds, nil, scope, D)
		perFn := map[string]int{}
		seenKey := map[string]bool{}
		var fnsSorted []*ssa.Function
		for f := range reach {
			fnsSorted = append(fnsSorted, f)
		}
		sort.Slice(fnsSorted, func(i, j int) bool { return fname(fnsSorted[i]) < fname(fnsSorted[j]) })
		for _, f := range fnsSorted {
			if f == wrapper || strings.HasSuffix(c.fileOf(f.Pos()), ".pb.go") {
				continue
			}
			// the wrapper's own type switch and pure converters taking `any` are not uses
			for _, b := range f.Blocks {
				for _, in := range b.Instrs {
					ta, ok := in.(*ssa.TypeAssert)
					if !ok {
						continue
					}
					sl, isSlice := ta.AssertedType.Underlying().(*types.Slice)
					if !isSlice || !D.has(ta.X) {
						continue
					}
					// type switches that also have the scalar cases are conversions, not assumptions:
					// a comma-ok assertion whose failure falls through to another assertion is a switch arm
					if ta.CommaOk && c.isTypeSwitchArm(ta) {
						continue
					}
					n++
					fnKey := fname(f)
					if i := strings.Index(fnKey, "["); i > 0 && len(f.TypeArgs()) > 0 {
						fnKey = fnKey[:i] // generic instances share one key per assertion
					}
					ordKey := fname(f)
					perFn[ordKey]++
					key := fmt.Sprintf("R20:scalarwrap:%s#%d", fnKey, perFn[ordKey])
					if seenKey[key] {
						continue
					}
					seenKey[key] = true
					elem := sl.Elem().String()
					switch {
					case W.has(ta.X) && covered[elem]:
						c.discharge("R20", key, c.pos(ta.Pos()), "Data() passes the scalar wrapper (which covers "+elem+") before being asserted to []"+elem)
					case W.has(ta.X) && prop == "C11" && !c.castAdmits(elem):
						c.note("R20", key, c.pos(ta.Pos()), "the scalar wrapper has no case for "+elem+", but Cast's input gate does not admit that element type, so the assertion is unreachable through the operator")
					case W.has(ta.X):
						c.violate("R20", key, c.pos(ta.Pos()), "Data() passes the scalar wrapper, but the wrapper has no case for "+elem+": a rank-0 tensor of that type still arrives as a bare value")
					case ta.CommaOk:
						c.violate("R20", key, c.pos(ta.Pos()), "Data() is asserted to []"+elem+" without the scalar wrapper: for a rank-0 tensor Data() is a bare "+elem+", the assertion fails and a valid request is refused instead of computed")
					default:
						c.violate("R20", key, c.pos(ta.Pos()), "Data() is asserted to []"+elem+" without comma-ok and without the scalar wrapper: a rank-0 tensor panics with an interface conversion error")
					}
				}
			}
		}
	}
	c.counts["R20.scalar_assertions"] += n
}

// isTypeSwitchArm: the assertion is one arm of a type switch (its failing edge leads to another
// assertion on the same operand).
func (c *Ctx) isTypeSwitchArm(ta *ssa.TypeAssert) bool {
	sl, isSlice := ta.AssertedType.Underlying().(*types.Slice)
	other := false
	for _, r := range *ta.X.Referrers() {
		o, ok := r.(*ssa.TypeAssert)
		if !ok || o == ta || !o.CommaOk || o.Block().Parent() != ta.Block().Parent() {
			continue
		}
		other = true
		// the switch also handles the bare value of this element type: a conversion, not an assumption
		if isSlice && types.Identical(o.AssertedType, sl.Elem()) {
			return true
		}
	}
	if !other {
		return false
	}
	// or every arm failing ends in an error: follow the failing edges of the chain to a rejecting block
	b := ta.Block()
	for i := 0; i < 24 && b != nil; i++ {
		iff, ok := b.Instrs[len(b.Instrs)-1].(*ssa.If)
		if !ok {
			return c.blockRejects(b, 0)
		}
		ex, isEx := iff.Cond.(*ssa.Extract)
		if !isEx {
			return c.blockRejects(b, 0)
		}
		if _, isTA := ex.Tuple.(*ssa.TypeAssert); !isTA {
			return c.blockRejects(b, 0)
		}
		b = b.Succs[1]
	}
	return false
}

// ruleR15b: tensor.New in operator code with a dimension that is a runtime len(): must be guarded >= 1.
func ruleR15b(c *Ctx, prop string) {
	names := map[string][]string{"C07": {"Shape"}}
	for _, name := range names[prop] {
		oi := c.opByName(name)
		if oi == nil {
			continue
		}
		apply := oi.methods["Apply"]
		for _, b := range apply.Blocks {
			for _, in := range b.Instrs {
				call, ok := in.(*ssa.Call)
				if !ok {
					continue
				}
				o := calleeObj(call)
				if o == nil || qualName(o) != pkgTensor+".WithShape" {
					continue
				}
				for i, e := range varargElems(call.Common().Args[0]) {
					key := fmt.Sprintf("R15b:%s:WithShape[%d]", fname(apply), i)
					lc, isLen := e.(*ssa.Call)
					if !isLen {
						continue
					}
					bi, isB := lc.Common().Value.(*ssa.Builtin)
					if !isB || bi.Name() != "len" {
						continue
					}
					// guarded by len(x) > 0 / >= 1 / != 0 ?
					ok := false
					for _, g := range guardsOf(b) {
						for _, a := range atomsOf(g) {
							if isLenCallOf(a.x, lc.Common().Args[0]) {
								k, isK := constInt(a.y)
								if isK && ((a.op == token.GTR && k >= 0) || (a.op == token.GEQ && k >= 1) || (a.op == token.NEQ && k == 0)) {
									ok = true
								}
							}
						}
					}
					c.decide(ok, "R15b", key, c.pos(call.Pos()), "dimension len(x) is known to be >= 1 here",
						"tensor.New(WithShape(len(x))) with len(x) == 0 for a rank-0 input: gorgonia panics on a zero dimension, so the rank-0 case of the property crashes")
				}
			}
		}
	}
}

// ruleR19: the Slice operator must restore the axes gorgonia's Slice drops (extent-1 sliced axes).
func ruleR19(c *Ctx, prop string) {
	oi := c.opByName("Slice")
	if oi == nil {
		c.undecided("R19", "R19:anchor", "", "Slice operator not found")
		return
	}
	apply := oi.methods["Apply"]
	var sl *ssa.Call
	for _, b := range apply.Blocks {
		for _, in := range b.Instrs {
			if call, ok := in.(*ssa.Call); ok && call.Common().IsInvoke() && call.Common().Method.Name() == "Slice" {
				sl = call
			}
		}
	}
	if sl == nil {
		c.undecided("R19", "R19:Slice:rank-restored", c.pos(apply.Pos()), "Slice.Apply no longer slices through Tensor.Slice: rule does not apply to this factoring")
		return
	}
	D := c.forwardSet([]ssa.Value{sl}, nil, func(f *ssa.Function) bool { return f == apply })
	restored := false
	for _, b := range apply.Blocks {
		for _, in := range b.Instrs {
			call, ok := in.(*ssa.Call)
			if !ok {
				continue
			}
			if name, recv := tensorMethod(call); name == "Reshape" && D.has(recv) {
				restored = true
			}
			if o := calleeObj(call); o != nil && qualName(o) == pkgTensor+".New" {
				for _, e := range varargElems(call.Common().Args[0]) {
					if D.has(e) {
						restored = true
					}
				}
			}
		}
	}
	c.decide(restored, "R19", "R19:Slice:rank-restored", c.pos(sl.Pos()), "the sliced view is reshaped before being returned",
		"Tensor.Slice drops every sliced axis whose extent becomes 1 and the result is returned as is: `[1:2, 0:4]` of a 3x4 tensor has shape (4) instead of (1,4)")
}

// ruleR20Keepdims: keepdims <=> reshape (C09); ArgMax returns int64.
func ruleR20Keepdims(c *Ctx, prop string) {
	for _, name := range []string{"ArgMax", "ReduceMax", "ReduceMin"} {
		oi := c.opByName(name)
		if oi == nil {
			c.undecided("R20", "R20:keepdims:"+name, "", "operator not found")
			continue
		}
		apply := oi.methods["Apply"]
		key := "R20:keepdims:" + name
		// the reduction result
		var reshapes []*ssa.Call
		for _, b := range apply.Blocks {
			for _, in := range b.Instrs {
				if call, ok := in.(*ssa.Call); ok {
					if name, _ := tensorMethod(call); name == "Reshape" {
						reshapes = append(reshapes, call)
					}
				}
			}
		}
		if len(reshapes) == 0 {
			c.violate("R20", key, c.pos(apply.Pos()), "the reduced axes are never re-inserted: keepdims=1 has no effect")
			continue
		}
		ok := true
		why := ""
		for _, rs := range reshapes {
			dep := false
			for _, g := range guardsOf(rs.Block()) {
				v := stripNot(g.cond)
				if ld, isLd := v.(*ssa.UnOp); isLd {
					if fa, isFA := ld.X.(*ssa.FieldAddr); isFA && fa.X == apply.Params[0] {
						st := fa.X.Type().(*types.Pointer).Elem().Underlying().(*types.Struct)
						fn := strings.ToLower(st.Field(fa.Field).Name())
						if strings.Contains(fn, "keepdim") && g.truth != isNegated(g.cond) {
							dep = true
						}
					}
				}
			}
			if !dep {
				ok, why = false, "the reshape that re-inserts the reduced axes is not conditional on the keepdims attribute: keepdims=0 still keeps the axes (or keepdims=1 drops them)"
			}
		}
		c.decide(ok, "R20", key, c.pos(reshapes[0].Pos()), "re-insertion of reduced axes happens exactly on the keepdims edge", why)
		// "all axes when none are given": gorgonia's Max()/Min() without axes reduce every axis, while a loop
		// "for each requested axis: extent 1" leaves the shape unchanged for the empty list — with keepdims the
		// result () is then reshaped to the input's shape and refused. Any correct keepdims path has to tell the
		// empty list from a non-empty one: a comparison of the length of (a copy of) the axes list with 0 / 1.
		if name != "ArgMax" {
			fi := fieldIndex(oi.named, "axes")
			if fi < 0 {
				c.undecided("R20", key+":all-axes", c.pos(apply.Pos()), "attribute field axes not found")
				continue
			}
			reach := c.reachFrom([]*ssa.Function{apply})
			D := c.forwardSet(nil, []fieldKey{{oi.named, fi}}, func(f *ssa.Function) bool { return reach[f] })
			lenOfAxes := func(v ssa.Value) bool {
				cl, isCall := stripConv(v).(*ssa.Call)
				if !isCall {
					return false
				}
				if b, isB := cl.Common().Value.(*ssa.Builtin); !isB || b.Name() != "len" {
					return false
				}
				x := cl.Common().Args[0]
				if D.has(x) {
					return true
				}
				if mk, isMk := x.(*ssa.MakeSlice); isMk && D.has(mk.Len) {
					return true
				}
				return false
			}
			found := ""
			for f := range reach {
				if fnPkgPath(f) != fnPkgPath(apply) {
					continue // the operator's own code: a test inside a shared helper (ops.ReduceAxes) says nothing about the kept shape
				}
				for _, b := range f.Blocks {
					for _, in := range b.Instrs {
						bo, isBo := in.(*ssa.BinOp)
						if !isBo {
							continue
						}
						var other ssa.Value
						switch {
						case lenOfAxes(bo.X):
							other = bo.Y
						case lenOfAxes(bo.Y):
							other = bo.X
						default:
							continue
						}
						if k, isK := constInt(other); isK && (k == 0 || k == 1) {
							found = c.pos(bo.Pos())
						}
					}
				}
			}
			c.decide(found != "", "R20", key+":all-axes", firstNonEmpty(found, c.pos(reshapes[0].Pos())),
				"the empty axes list (reduce everything) is told apart from a non-empty one before the kept shape is built",
				"nothing distinguishes an empty axes list: gorgonia reduces ALL axes when none are given, but the kept shape is built per requested axis, so with keepdims=1 and no axes the scalar result is reshaped to the input's own shape and the operator answers with an error instead of the all-ones shape")
		}
	}
	// ArgMax result element type
	if oi := c.opByName("ArgMax"); oi != nil {
		apply := oi.methods["Apply"]
		ok := false
		site := c.pos(apply.Pos())
		for _, r := range returnsOf(apply) {
			if !isNilConst(r.Results[1]) {
				continue
			}
			// result slice built from tensor.New(WithBacking([]int64))
			for _, b := range apply.Blocks {
				for _, in := range b.Instrs {
					if call, isC := in.(*ssa.Call); isC {
						if o := calleeObj(call); o != nil && qualName(o) == pkgTensor+".WithBacking" {
							arg := unwrapConv(call.Common().Args[0])
							if sl, isS := arg.Type().Underlying().(*types.Slice); isS {
								if bt, isB := sl.Elem().Underlying().(*types.Basic); isB && bt.Kind() == types.Int64 {
									ok = true
									site = c.pos(call.Pos())
								}
							}
						}
					}
				}
			}
		}
		c.decide(ok, "R20", "R20:argmax:int64", site, "ArgMax's result tensor is backed by []int64", "ArgMax does not return int64 indices")
	}
}

// ruleR20Broadcast: structural facts of the broadcast helpers (C14).
func ruleR20Broadcast(c *Ctx, prop string) {
	var uni, rankEq, addDims, multiEq *ssa.Function
	for _, f := range c.libFns {
		if fnPkgPath(f) != pkgOps || f.Parent() != nil || f.Signature.Recv() != nil {
			continue
		}
		switch {
		case f.Name() == "UnidirectionalBroadcast":
			uni = f
		case f.Name() == "AddExtraDimsToTensor":
			addDims = f
		case f.Name() == "ReshapeTensorsForMultidirBroadcast":
			multiEq = f
		}
	}
	if uni == nil || addDims == nil || multiEq == nil {
		c.undecided("R20", "R20:broadcast:anchors", "", "broadcast helpers not found by name (UnidirectionalBroadcast, AddExtraDimsToTensor, ReshapeTensorsForMultidirBroadcast)")
		return
	}
	// U1: first operand returned as is
	ok := true
	for _, r := range returnsOf(uni) {
		if isNilConst(r.Results[2]) && r.Results[0] != ssa.Value(uni.Params[0]) && !unmodifiedCloneOf(r.Results[0], uni.Params[0]) {
			ok = false
		}
	}
	c.decide(ok, "R20", "R20:unidir:first-as-is", c.pos(uni.Pos()), "UnidirectionalBroadcast returns its first parameter as first result on success", "unidirectional broadcasting changes (or replaces) the first operand")
	// U2: rank rule — the rank equaliser called first succeeds only when rank(A) >= rank(B)
	for _, b := range uni.Blocks {
		for _, in := range b.Instrs {
			if call, isC := in.(*ssa.Call); isC && rankEq == nil {
				if f := call.Common().StaticCallee(); f != nil && isLibFn(f) && len(call.Common().Args) == 2 && call.Common().Args[0] == ssa.Value(uni.Params[0]) {
					rankEq = f
				}
			}
		}
	}
	if rankEq == nil {
		c.violate("R20", "R20:unidir:rank-rule", c.pos(uni.Pos()), "no rank equalisation step")
	} else {
		rankOf := func(v ssa.Value, p ssa.Value) bool {
			lc, isC := v.(*ssa.Call)
			if !isC {
				return false
			}
			bi, isB := lc.Common().Value.(*ssa.Builtin)
			if !isB || bi.Name() != "len" {
				return false
			}
			sh, isS := lc.Common().Args[0].(*ssa.Call)
			return isS && sh.Common().IsInvoke() && sh.Common().Method.Name() == "Shape" && sh.Common().Value == p
		}
		A, B := ssa.Value(rankEq.Params[0]), ssa.Value(rankEq.Params[1])
		ok := true
		n := 0
		for _, r := range returnsOf(rankEq) {
			if !isNilConst(r.Results[len(r.Results)-1]) {
				continue
			}
			n++
			implied := false
			for _, g := range guardsOf(r.Block()) {
				for _, a := range atomsOf(g) {
					switch {
					case rankOf(a.x, A) && rankOf(a.y, B) && (a.op == token.GTR || a.op == token.GEQ || a.op == token.EQL):
						implied = true
					case rankOf(a.x, B) && rankOf(a.y, A) && (a.op == token.LSS || a.op == token.LEQ || a.op == token.EQL):
						implied = true
					}
				}
			}
			if !implied {
				ok = false
			}
		}
		c.decide(ok && n > 0, "R20", "R20:unidir:rank-rule", c.pos(rankEq.Pos()), "the rank step succeeds only when rank(A) >= rank(B)", "unidirectional broadcasting accepts a second operand with more axes than the first: the result shape can no longer equal the first operand's shape")
	}
	// A1: ones are prepended
	ok = false
	for _, b := range addDims.Blocks {
		for _, in := range b.Instrs {
			call, isC := in.(*ssa.Call)
			if !isC {
				continue
			}
			bi, isB := call.Common().Value.(*ssa.Builtin)
			if !isB || bi.Name() != "append" {
				continue
			}
			// append(X, shape...) where shape derives from Shape() and X carries the appended 1s
			second := call.Common().Args[1]
			if ct, isCT := second.(*ssa.ChangeType); isCT {
				second = ct.X
			}
			sh, isS := second.(*ssa.Call)
			if !isS || !sh.Common().IsInvoke() || sh.Common().Method.Name() != "Shape" {
				continue
			}
			// first arg: phi/append chain of constant ones
			first := call.Common().Args[0]
			hasOnes := false
			seen := map[ssa.Value]bool{}
			var walk func(v ssa.Value)
			walk = func(v ssa.Value) {
				if v == nil || seen[v] {
					return
				}
				seen[v] = true
				switch x := v.(type) {
				case *ssa.Phi:
					for _, e := range x.Edges {
						walk(e)
					}
				case *ssa.Call:
					if b2, isB2 := x.Common().Value.(*ssa.Builtin); isB2 && b2.Name() == "append" {
						for _, e := range varargElems(x.Common().Args[1]) {
							if k, isK := constInt(e); isK && k == 1 {
								hasOnes = true
							}
						}
						walk(x.Common().Args[0])
					}
				}
			}
			walk(first)
			if hasOnes {
				ok = true
			}
		}
	}
	c.decide(ok, "R20", "R20:adddims:ones-prepended", c.pos(addDims.Pos()), "new shape = 1,...,1 followed by the original shape", "extra dimensions are not prepended (shapes must be aligned at their last axes)")
	// M1: the lower-rank operand gets the extra dims, by the rank difference
	ok = true
	n := 0
	for _, b := range multiEq.Blocks {
		for _, in := range b.Instrs {
			call, isC := in.(*ssa.Call)
			if !isC || call.Common().StaticCallee() != addDims {
				continue
			}
			n++
			t := call.Common().Args[0]
			other := ssa.Value(multiEq.Params[0])
			if t == other {
				other = multiEq.Params[1]
			}
			// guard: rank(other) > rank(t)
			isRank := func(v ssa.Value, p ssa.Value) bool {
				lc, isC := v.(*ssa.Call)
				if !isC {
					return false
				}
				bi, isB := lc.Common().Value.(*ssa.Builtin)
				if !isB || bi.Name() != "len" {
					return false
				}
				sh, isS := lc.Common().Args[0].(*ssa.Call)
				return isS && sh.Common().IsInvoke() && sh.Common().Method.Name() == "Shape" && sh.Common().Value == p
			}
			g1 := false
			for _, g := range guardsOf(b) {
				for _, a := range atomsOf(g) {
					if (a.op == token.GTR && isRank(a.x, other) && isRank(a.y, t)) || (a.op == token.LSS && isRank(a.x, t) && isRank(a.y, other)) {
						g1 = true
					}
				}
			}
			diff, isSub := call.Common().Args[1].(*ssa.BinOp)
			if !g1 || !isSub || diff.Op != token.SUB || !isRank(diff.X, other) || !isRank(diff.Y, t) {
				ok = false
			}
		}
	}
	c.decide(ok && n == 2, "R20", "R20:multidir:rank-equalise", c.pos(multiEq.Pos()), "the operand with fewer axes gets rank difference extra leading axes (both directions)", "rank equalisation pads the wrong operand or by the wrong count")
}

// tensorMethod: name and receiver of a gorgonia tensor method call (interface invoke or static call on *Dense).
func tensorMethod(call *ssa.Call) (string, ssa.Value) {
	cc := call.Common()
	if cc.IsInvoke() {
		if cc.Method.Pkg() != nil && cc.Method.Pkg().Path() == pkgTensor {
			return cc.Method.Name(), cc.Value
		}
		return "", nil
	}
	if sc := cc.StaticCallee(); sc != nil && sc.Signature.Recv() != nil && fnPkgPath(sc) == pkgTensor && len(cc.Args) > 0 {
		return sc.Name(), cc.Args[0]
	}
	return "", nil
}

// unmodifiedCloneOf: v is Clone() of p (through the usual comma-ok assertion) and nothing mutates it.
func unmodifiedCloneOf(v ssa.Value, p ssa.Value) bool {
	inner := v
	if ex, ok := inner.(*ssa.Extract); ok && ex.Index == 0 {
		inner = ex.Tuple
	}
	ta, ok := inner.(*ssa.TypeAssert)
	if !ok {
		return false
	}
	call, ok := ta.X.(*ssa.Call)
	if !ok {
		return false
	}
	if name, recv := tensorMethod(call); name != "Clone" || recv != p {
		return false
	}
	for _, r := range *v.Referrers() {
		if c2, ok := r.(*ssa.Call); ok {
			if name, recv := tensorMethod(c2); recv == v {
				switch name {
				case "Reshape", "T", "UT", "Transpose", "SetAt", "Zero", "Memset", "SetShape":
					return false
				}
			}
		}
	}
	return true
}

// castAdmits: does the Cast operator's gate admit tensors of Go element type elem at input 0?
func (c *Ctx) castAdmits(elem string) bool {
	oi := c.opByName("Cast")
	if oi == nil {
		return true
	}
	t := c.gateTableOf(oi)
	if !t.rowsOK || len(t.rows) == 0 {
		return true
	}
	for name, g := range dtypeGo {
		if g == elem && has(t.rows[0], name) {
			return true
		}
	}
	return false
}

// ruleBackingFromData (R20:backing): a value derived from Tensor.Data() that is handed to
// tensor.WithBacking must be a slice for every tensor that can arrive: Data() of a rank-0 tensor is a
// bare value and WithBacking panics on it ("Expected a slice"). So the value must have passed the scalar
// wrapper, and the wrapper must have a case for every element type the operators in scope admit.
func ruleBackingFromData(c *Ctx, prop string) {
	wrapper, covered := c.scalarWrapper()
	if wrapper == nil {
		c.undecided("R20", "R20:backing:anchor", "", "no scalar-to-slice wrapper found in package ops")
		return
	}
	var roots []*ssa.Function
	admitted := map[string]bool{}
	type opReach struct {
		reach map[*ssa.Function]bool
		types map[string]bool
	}
	var perOp []opReach
	for _, name := range opsOfProp(prop) {
		oi := c.opByName(name)
		if oi == nil {
			continue
		}
		roots = append(roots, oi.methods["Apply"])
		or := opReach{reach: c.reachFrom([]*ssa.Function{oi.methods["Apply"]}), types: map[string]bool{}}
		for _, row := range c.gateTableOf(oi).rows {
			for _, d := range row {
				admitted[strings.ToLower(d)] = true
				or.types[strings.ToLower(d)] = true
			}
		}
		perOp = append(perOp, or)
	}
	// admittedAt: the element types of the operators in scope whose Apply reaches f
	admittedAt := func(f *ssa.Function) map[string]bool {
		out := map[string]bool{}
		hit := false
		for _, or := range perOp {
			if or.reach[f] {
				hit = true
				for d := range or.types {
					out[d] = true
				}
			}
		}
		if !hit || prop == "C14" {
			return admitted
		}
		return out
	}
	if prop == "C14" || prop == "C03" {
		for _, f := range c.libFns {
			if fnPkgPath(f) == pkgOps && f.Parent() == nil && f.Object() != nil && f.Object().Exported() && strings.Contains(f.Name(), "roadcast") {
				roots = append(roots, f)
			}
			if fnPkgPath(f) == pkgOps && f.Parent() == nil && f.Name() == "AddExtraDimsToTensor" {
				roots = append(roots, f)
			}
		}
		if prop == "C14" {
			// the helpers serve every operator: every element type a gate admits anywhere
			for _, oi := range c.operators() {
				if oi.control {
					continue
				}
				for _, row := range c.gateTableOf(oi).rows {
					for _, d := range row {
						admitted[strings.ToLower(d)] = true
					}
				}
			}
		}
	}
	reach := c.reachFrom(roots)
	scope := func(f *ssa.Function) bool { return reach[f] }
	var seeds, wseeds []ssa.Value
	for f := range reach {
		if strings.HasSuffix(c.fileOf(f.Pos()), ".pb.go") {
			continue
		}
		for _, b := range f.Blocks {
			for _, in := range b.Instrs {
				call, ok := in.(*ssa.Call)
				if !ok {
					continue
				}
				if nm, _ := tensorMethod(call); nm == "Data" {
					seeds = append(seeds, call)
				}
				if call.Common().StaticCallee() == wrapper {
					wseeds = append(wseeds, call)
				}
			}
		}
	}
	D := c.forwardSet(seeds, nil, scope)
	W := c.forwardSetCtx(wseeds, nil, scope, D)
	var fns []*ssa.Function
	for f := range reach {
		fns = append(fns, f)
	}
	sort.Slice(fns, func(i, j int) bool { return fname(fns[i]) < fname(fns[j]) })
	n := 0
	per := map[string]int{}
	for _, f := range fns {
		if f == wrapper || !isLibFn(f) {
			continue
		}
		for _, b := range f.Blocks {
			for _, in := range b.Instrs {
				call, ok := in.(*ssa.Call)
				if !ok {
					continue
				}
				o := calleeObj(call)
				if o == nil || qualName(o) != pkgTensor+".WithBacking" || len(call.Common().Args) == 0 {
					continue
				}
				v := call.Common().Args[0]
				if staticallySlice(v, 0) {
					continue
				}
				if mi, isMI := v.(*ssa.MakeInterface); isMI {
					v = mi.X
				}
				if !D.has(v) && !D.has(call.Common().Args[0]) {
					continue
				}
				n++
				fnKey := fname(f)
				per[fnKey]++
				key := fmt.Sprintf("R20:backing:%s#%d", fnKey, per[fnKey])
				site := c.pos(call.Pos())
				if !W.has(v) && !W.has(call.Common().Args[0]) {
					if prop == "C09" {
						c.note("R20", key, site, "Data() is used as backing without the scalar wrapper: a rank-0 input panics (rank 0 is outside this property's quantifier)")
						continue
					}
					c.violate("R20", key, site, "Data() of an operand is handed to tensor.WithBacking without the scalar wrapper: for a rank-0 tensor Data() is a bare value and WithBacking panics (\"Expected a slice\")")
					continue
				}
				var missing []string
				for d := range admittedAt(f) {
					if !covered[d] {
						missing = append(missing, d)
					}
				}
				sort.Strings(missing)
				c.decide(len(missing) == 0, "R20", key, site, "the backing passed the scalar wrapper, which has a case for every admitted element type",
					"the backing passed the scalar wrapper, but the wrapper has no case for "+strings.Join(missing, ", ")+" although operators in scope admit tensors of those types: a rank-0 tensor of such a type still arrives as a bare value and tensor.WithBacking panics")
			}
		}
	}
	c.counts["R20.backing_sites"] = n
	if n == 0 {
		c.discharge("R20", "R20:backing:none", "", fmt.Sprintf("no Data()-derived value reaches tensor.WithBacking in the %d functions in scope", len(reach)))
	}
}

// staticallySlice: an interface value that holds a Go slice on every path (MakeInterface of a slice, phi of such).
func staticallySlice(v ssa.Value, depth int) bool {
	if depth > 4 {
		return false
	}
	switch x := v.(type) {
	case *ssa.MakeInterface:
		_, ok := x.X.Type().Underlying().(*types.Slice)
		return ok
	case *ssa.Phi:
		for _, e := range x.Edges {
			if k, isK := e.(*ssa.Const); isK && k.Value == nil {
				continue
			}
			if !staticallySlice(e, depth+1) {
				return false
			}
		}
		return len(x.Edges) > 0
	}
	_, ok := v.Type().Underlying().(*types.Slice)
	return ok
}

// ruleExplicitShape (R26): a tensor built over a Go slice states its shape. gorgonia derives the shape
// from the backing when none is given, and derives the *scalar* shape () from a one-element slice: a
// list of one entry (the shape of a rank-1 tensor, a one-element attribute list) comes out rank 0.
func ruleExplicitShape(c *Ctx, prop string) {
	var roots []*ssa.Function
	for _, name := range opsOfProp(prop) {
		if oi := c.opByName(name); oi != nil {
			roots = append(roots, oi.methods["Apply"], oi.methods["Init"])
		}
	}
	reach := c.reachFrom(roots)
	var fns []*ssa.Function
	for f := range reach {
		if isLibFn(f) && !strings.HasSuffix(c.fileOf(f.Pos()), ".pb.go") {
			fns = append(fns, f)
		}
	}
	sort.Slice(fns, func(i, j int) bool { return fname(fns[i]) < fname(fns[j]) })
	n := 0
	per := map[string]int{}
	for _, f := range fns {
		for _, b := range f.Blocks {
			for _, in := range b.Instrs {
				nw, ok := in.(*ssa.Call)
				if !ok {
					continue
				}
				o := calleeObj(nw)
				if o == nil || qualName(o) != pkgTensor+".New" || len(nw.Common().Args) != 1 {
					continue
				}
				hasSliceBacking, hasShape := false, false
				for _, opt := range varargElems(nw.Common().Args[0]) {
					oc, ok := opt.(*ssa.Call)
					if !ok {
						continue
					}
					oo := calleeObj(oc)
					if oo == nil {
						continue
					}
					switch qualName(oo) {
					case pkgTensor + ".WithBacking":
						if len(oc.Common().Args) > 0 && staticallySlice(oc.Common().Args[0], 0) {
							hasSliceBacking = true
						}
					case pkgTensor + ".WithShape":
						hasShape = true
					}
				}
				if !hasSliceBacking {
					continue
				}
				n++
				fk := fname(f)
				per[fk]++
				c.decide(hasShape, "R26", fmt.Sprintf("R26:explicit-shape:%s#%d", fk, per[fk]), c.pos(nw.Pos()),
					"the tensor over a Go slice is given its shape explicitly",
					"a tensor is built over a Go slice without tensor.WithShape: gorgonia gives a one-element backing the scalar shape (), so a list with one entry (the shape of a rank-1 tensor, a one-element attribute) comes out as a rank-0 tensor")
			}
		}
	}
	c.counts["R26.slice_backed_tensors"] = n
}

// ruleR19Steps (R19:Slice:step-count, R19:Slice:empty-range) — preconditions of gorgonia's Tensor.Slice
// that the Slice operator has to establish for user-supplied starts/ends/steps. Read from
// gorgonia.org/tensor@v0.9.24 ap.go (AP.S):
//   - l.262: the number of elements along axis 0 is (end-start)/step rounded DOWN (rounded up only for
//     axes i > 0): [0:10:3] of a vector gives 3 elements, ONNX gives 4;
//   - l.268: a resulting extent <= 0 is "fixed" to 1: the empty range [2:2] yields element 2.
//
// So a step other than 1 and a range with start >= end must be refused or computed by the operator
// itself before Tensor.Slice is reached.
func ruleR19Steps(c *Ctx, prop string) {
	oi := c.opByName("Slice")
	if oi == nil {
		return
	}
	apply := oi.methods["Apply"]
	reach := map[*ssa.Function]bool{}
	for f := range c.reachFrom([]*ssa.Function{apply}) {
		if f == apply || recvNamed(f) == oi.named {
			reach[f] = true
		}
	}
	scope := func(f *ssa.Function) bool { return reach[f] || fnPkgPath(f) == pkgOps }
	taintOf := func(k int64) *taintSet {
		var seeds []ssa.Value
		for _, b := range apply.Blocks {
			for _, in := range b.Instrs {
				if ld, ok := in.(*ssa.UnOp); ok && sameInputLoad(ld, apply.Params[1], k) {
					seeds = append(seeds, ld)
				}
			}
		}
		return c.forwardSet(seeds, nil, scope)
	}
	tStart, tEnd, tStep := taintOf(1), taintOf(2), taintOf(4)
	var slicers []*ssa.Call
	for f := range reach {
		for _, b := range f.Blocks {
			for _, in := range b.Instrs {
				if cl, ok := in.(*ssa.Call); ok {
					if sc := cl.Common().StaticCallee(); sc != nil && sc.Name() == "NewSlicer" && fnPkgPath(sc) == pkgOps {
						slicers = append(slicers, cl)
					}
				}
			}
		}
	}
	if len(slicers) == 0 {
		c.undecided("R19", "R19:Slice:step-count", c.pos(apply.Pos()), "Slice no longer builds its slices with ops.NewSlicer: how starts/ends/steps reach Tensor.Slice cannot be followed")
		return
	}
	// rejecting tests on tainted values that every path to the slicer passes
	guarded := func(cl *ssa.Call, pred func(a atom, cond ssa.Value) bool) bool {
		check := func(b *ssa.BasicBlock) bool {
			for _, g := range guardsOf(b) {
				iff, ok := g.at.Instrs[len(g.at.Instrs)-1].(*ssa.If)
				if !ok || !c.edgeRejects(iff, !g.truth) {
					continue
				}
				for _, a := range atomsOf(g) {
					if pred(a, g.cond) {
						return true
					}
				}
			}
			// a validation loop that ran to completion before b: its header dominates b, b is outside the loop, and
			// inside the loop a test of the predicate rejects
			for _, h := range b.Parent().Blocks {
				if !h.Dominates(b) {
					continue
				}
				lb := loopBlocks(h)
				if len(lb) < 2 || lb[b] {
					continue
				}
				for x := range lb {
					if len(x.Instrs) == 0 {
						continue
					}
					iff, ok := x.Instrs[len(x.Instrs)-1].(*ssa.If)
					if !ok {
						continue
					}
					for _, truth := range []bool{true, false} {
						if !c.edgeRejects(iff, truth) {
							continue
						}
						for _, a := range atomsOf(guard{cond: iff.Cond, truth: !truth, at: x}) {
							if pred(a, iff.Cond) {
								return true
							}
						}
					}
				}
			}
			return false
		}
		if check(cl.Block()) {
			return true
		}
		// or the call of the enclosing method in Apply is guarded
		f := cl.Parent()
		for _, b := range apply.Blocks {
			for _, in := range b.Instrs {
				if call, ok := in.(*ssa.Call); ok && call.Common().StaticCallee() == f && check(b) {
					return true
				}
			}
		}
		return false
	}
	stepUser, rangeUser := false, false
	var site *ssa.Call
	for _, cl := range slicers {
		opt := varargElems(cl.Common().Args[1])
		if len(opt) >= 2 && tStep.has(opt[1]) {
			stepUser = true
			site = cl
		}
		if len(opt) >= 1 && tStart.has(cl.Common().Args[0]) && tEnd.has(opt[0]) {
			rangeUser = true
			site = cl
		}
	}
	if site == nil {
		site = slicers[0]
	}
	okStep := !stepUser || guarded(site, func(a atom, cond ssa.Value) bool {
		// step == 1 enforced, or a divisibility test involving the step
		if tStep.has(a.x) {
			if k, ok := constInt(a.y); ok && k == 1 && (a.op == token.EQL || a.op == token.LEQ) {
				return true
			}
		}
		for _, v := range []ssa.Value{a.x, a.y} {
			if b, ok := v.(*ssa.BinOp); ok && b.Op == token.REM && tStep.has(b.Y) {
				return true
			}
		}
		return false
	})
	c.decide(okStep, "R19", "R19:Slice:step-count", c.pos(site.Pos()),
		"user steps reach Tensor.Slice only as 1 or with a divisibility test",
		"a user-supplied step reaches gorgonia's Tensor.Slice unchecked: along axis 0 gorgonia takes (end-start)/step elements rounded down (ap.go AP.S), so [0:10:3] of a vector yields [0 3 6] where ONNX prescribes [0 3 6 9]")
	// steps below 1: gorgonia treats a negative step like step 1 (AP.S takes the `step > 0` branch only for positive
	// steps), lets a zero step through when the range has at most one element, and panics on [k:k:-1]; ONNX
	// prescribes the reversed (or an empty) selection. Whatever the operator does not implement has to be refused.
	okPos := !stepUser
	if stepUser {
		posGuard := func(b *ssa.BasicBlock) bool {
			for _, g := range guardsOf(b) {
				iff, ok := g.at.Instrs[len(g.at.Instrs)-1].(*ssa.If)
				if !ok || !c.edgeRejects(iff, !g.truth) {
					continue
				}
				cond := g.cond
				truth := g.truth
				for {
					if u, ok := cond.(*ssa.UnOp); ok && u.Op == token.NOT {
						cond, truth = u.X, !truth
						continue
					}
					break
				}
				if call, ok := cond.(*ssa.Call); ok && truth {
					if sc := call.Common().StaticCallee(); sc != nil && c.isRangeChecker(sc) && len(call.Common().Args) == 3 && tStep.has(call.Common().Args[0]) {
						if lo, ok := constInt(call.Common().Args[1]); ok && lo >= 1 {
							return true
						}
					}
					// a predicate over the list alone: by table, it answers true for no list with an entry below 1
					if sc := call.Common().StaticCallee(); sc != nil && len(call.Common().Args) == 1 && tStep.has(call.Common().Args[0]) && c.acceptsOnlyPositiveLists(sc) {
						return true
					}
				}
				for _, a := range atomsOf(g) {
					// on the accepted edge: step >= 1, step > 0, 1 <= step, 0 < step
					if k, ok := constInt(a.y); ok && tStep.has(a.x) && ((a.op == token.GEQ && k >= 1) || (a.op == token.GTR && k >= 0)) {
						return true
					}
					if k, ok := constInt(a.x); ok && tStep.has(a.y) && ((a.op == token.LEQ && k >= 1) || (a.op == token.LSS && k >= 0)) {
						return true
					}
				}
			}
			return false
		}
		okPos = posGuard(site.Block())
		if !okPos {
			f := site.Parent()
			for _, b := range apply.Blocks {
				for _, in := range b.Instrs {
					if call, ok := in.(*ssa.Call); ok && call.Common().StaticCallee() == f && posGuard(b) {
						okPos = true
					}
				}
			}
		}
		if !okPos {
			// a validation loop over the steps that completes before the slicers are built
			okPos = guarded(site, func(a atom, cond ssa.Value) bool {
				if k, ok := constInt(a.y); ok && tStep.has(a.x) && ((a.op == token.GEQ && k >= 1) || (a.op == token.GTR && k >= 0)) {
					return true
				}
				if k, ok := constInt(a.x); ok && tStep.has(a.y) && ((a.op == token.LEQ && k >= 1) || (a.op == token.LSS && k >= 0)) {
					return true
				}
				return false
			})
		}
	}
	c.decide(okPos, "R19", "R19:Slice:step-positive", c.pos(site.Pos()),
		"user steps reach Tensor.Slice only after a rejecting test that they are at least 1",
		"a user-supplied step reaches gorgonia's Tensor.Slice without a test that it is positive: gorgonia answers a negative step like step 1 ([0:3:-1] of [0..4] gives [0 1 2], ONNX an empty tensor), lets step 0 through for ranges of one element and panics on [k:k:-1] (slice bounds out of range) - a request the operator does not implement has to be refused with an error")
	okRange := !rangeUser || guarded(site, func(a atom, cond ssa.Value) bool {
		return (tStart.has(a.x) && tEnd.has(a.y) || tStart.has(a.y) && tEnd.has(a.x)) && (a.op == token.LSS || a.op == token.GTR || a.op == token.LEQ || a.op == token.GEQ)
	})
	c.decide(okRange, "R19", "R19:Slice:empty-range", c.pos(site.Pos()),
		"start < end is established before Tensor.Slice",
		"user-supplied start/end reach gorgonia's Tensor.Slice without a start < end test: gorgonia turns an extent <= 0 into 1 (ap.go AP.S), so the empty range [2:2] of a vector yields the element at 2 instead of an empty tensor or an error")
}

// ruleSliceAxisIndex (R19:Slice:shape-by-axis): entry i of starts/ends/steps belongs to axis axes[i]. Whatever
// Slice derives per entry from the data's shape (a clamp bound, a negative offset) must read the extent at the
// axis VALUE, not at the entry position i: `shape[i]` is right only for the default axes 0..n-1.
func ruleSliceAxisIndex(c *Ctx, prop string) {
	oi := c.opByName("Slice")
	if oi == nil {
		return
	}
	apply := oi.methods["Apply"]
	reach := map[*ssa.Function]bool{}
	for f := range c.reachFrom([]*ssa.Function{apply}) {
		if f == apply || recvNamed(f) == oi.named {
			reach[f] = true
		}
	}
	scope := func(f *ssa.Function) bool { return reach[f] || fnPkgPath(f) == pkgOps }
	var shapeSeeds, entrySeeds []ssa.Value
	for _, b := range apply.Blocks {
		for _, in := range b.Instrs {
			switch x := in.(type) {
			case *ssa.Call:
				if nm, recv := tensorMethod(x); nm == "Shape" && sameInputLoad(recv, apply.Params[1], 0) {
					shapeSeeds = append(shapeSeeds, x)
				}
			case *ssa.UnOp:
				for _, k := range []int64{1, 2, 3, 4} {
					if sameInputLoad(x, apply.Params[1], k) {
						entrySeeds = append(entrySeeds, x)
					}
				}
			}
		}
	}
	S := c.forwardSet(shapeSeeds, nil, scope)
	E := c.forwardSet(entrySeeds, nil, scope)
	n, bad, badSite := 0, "", ""
	for f := range reach {
		for _, l := range loopsOf(f) {
			if l.idx == nil {
				continue
			}
			lc, ok := l.bound.(*ssa.Call)
			if !ok {
				continue
			}
			bi, isB := lc.Common().Value.(*ssa.Builtin)
			if !isB || bi.Name() != "len" || !E.has(lc.Common().Args[0]) {
				continue
			}
			// a loop over the entries: the data's shape must not be read at the loop index itself
			for b := range loopBlocks(l.hdr) {
				for _, in := range b.Instrs {
					ia, ok := in.(*ssa.IndexAddr)
					if !ok || !S.has(ia.X) || E.has(ia.X) {
						continue
					}
					n++
					if ia.Index == l.idx {
						bad = "the data's shape is read at the position of an entry of starts/ends/steps instead of at the axis that entry belongs to (axes[i]): with axes other than 0..n-1 the bound of another axis is used, e.g. data 2x5, starts=[1], ends=[4], axes=[1] is clamped with extent 2"
						badSite = c.pos(ia.Pos())
					}
				}
			}
		}
	}
	c.decide(bad == "", "R19", "R19:Slice:shape-by-axis", firstNonEmpty(badSite, c.pos(apply.Pos())),
		fmt.Sprintf("no read of the data's shape at an entry position (%d shape reads inside loops over the entries)", n), bad)
}

// acceptsOnlyPositiveLists: a library function func([]int) bool that, walked over one- and two-element lists, answers
// true for lists of positive entries and false as soon as an entry is below 1.
func (c *Ctx) acceptsOnlyPositiveLists(f *ssa.Function) bool {
	if f == nil || !isLibFn(f) || len(f.Blocks) == 0 || f.Signature.Params().Len() != 1 || f.Signature.Results().Len() != 1 {
		return false
	}
	if bt, ok := f.Signature.Results().At(0).Type().Underlying().(*types.Basic); !ok || bt.Kind() != types.Bool {
		return false
	}
	if st, ok := f.Signature.Params().At(0).Type().Underlying().(*types.Slice); !ok || !isIntType(st.Elem()) {
		return false
	}
	n := 0
	for _, l := range [][]int64{{-3}, {0}, {1}, {2}, {7}, {1, 0}, {0, 1}, {2, -1}, {1, 1}, {3, 2}} {
		heap := newHeap()
		pl := make([]pval, len(l))
		pos := true
		for i, v := range l {
			pl[i] = pval{k: pInt, i: v}
			if v < 1 {
				pos = false
			}
		}
		p := &pinterp{c: c, budget: 20000}
		res, _ := p.run(f, []pval{heap.alloc(pl)}, 0, heap)
		if len(res) != 1 || res[0].k != pBool || res[0].b != pos {
			return false
		}
		n++
	}
	return n > 0
}
