package main

// propRules: which rules decide which property.
var propRules = map[string][]ruleSpec{
	"C06": {
		{"R12", "ONNX slot layout, gate roles, state threading, output shapes, time slice", ruleR12},
		{"R8", "attributes honoured or refused", ruleR8},
		{"R9c", "activations[k] covered by a length check", ruleR9Activations},
		{"R18", "no select-by-multiplication in activations", ruleR18},
		{"R10", "Repeat only as a guarded stretch", ruleR10},
		{"R6", "float32 admitted (T8)", ruleR6},
		{"R3", "initial states / weights not modified (E2)", ruleR3},
		{"R21", "attribute state read-only after Init", ruleR21},
		{"R24", "defaults replace optional inputs only when absent", ruleOptionalDefaults},
		{"R25", "contracts of the shared ops helpers this property's operators rely on", ruleHelpers},
		{"R5", "explicitly skipped (empty-name) inputs arrive as nil: input gathering (M6)", ruleR5},
		{"R26", "tensors built over Go slices state their shape", ruleExplicitShape},
	},
	"C16": {
		{"R11", "Conv batch-index pairing (K2, K3)", ruleR11},
		{"R12", "recurrent output reshape provenance and time slice (P6, P7)", ruleR12},
		{"R10", "Repeat only as a guarded stretch in per-sample operators", ruleR10},
		{"R21", "attribute state read-only after Init", ruleR21},
		{"R7t", "Transpose / Softmax / LogSoftmax are the single gorgonia call (no whole-tensor pre-processing)", ruleTermsShapeOps},
		{"R22", "the broadcast of elementwise operators is not decided by gorgonia's lax Shape.Eq", ruleR22},
		{"R23", "per-axis broadcast loops visit every axis", ruleR23},
		{"R25", "contracts of the shared ops helpers this property's operators rely on", ruleHelpers},
	},
	"C05": {
		{"R11", "Conv geometry: loop/coordinate pairing (K2,K3), index kinds (K1), auto_pad (K4)", ruleR11},
		{"R6", "float32/float64 admitted (T8)", ruleR6},
		{"R3", "operands (bias!) not modified (E2)", ruleR3},
		{"R21", "attribute state read-only after Init", ruleR21},
		{"R11o", "kernel-shape readers run after the dilation step (K6)", ruleConvOrdering},
		{"R11p", "derived paddings are never negative (K7)", ruleConvPadsNonNeg},
		{"R11f", "extent and coordinate formulas (K8)", ruleConvFormulas},
		{"R24", "defaults replace optional inputs only when absent", ruleOptionalDefaults},
		{"R25", "contracts of the shared ops helpers this property's operators rely on", ruleHelpers},
	},
	"C04": {
		{"R16", "dependency shape of Gemm / Scaler / LinearRegressor / MatMul", ruleR16},
		{"R10", "Repeat only as a guarded stretch (MatMul batch broadcasting)", ruleR10},
		{"R6", "float32 admitted (T8)", ruleR6},
		{"R3", "operands and attribute tensors not modified (E2)", ruleR3},
		{"R21", "attribute state read-only after Init", ruleR21},
		{"R24", "defaults replace optional inputs only when absent", ruleOptionalDefaults},
		{"R26", "tensors built over Go slices state their shape", ruleExplicitShape},
	},
	"C03": {
		{"R7", "operator -> kernel table, operand order, multidirectional mode, boolean truth tables", ruleR7Binary},
		{"R6", "required dtypes admitted (T8)", ruleR6},
		{"R10", "Repeat only as a guarded stretch", ruleR10},
		{"R22", "gorgonia's lax Shape.Eq does not decide shape matching", ruleR22},
		{"R23", "per-axis loops visit every axis", ruleR23},
		{"R20", "rank equalisation of the broadcast helpers", ruleR20Broadcast},
		{"R3", "operands not modified (E2)", ruleR3},
		{"R21", "attribute state read-only after Init", ruleR21},
		{"R20b", "Data() used as a tensor backing passed the scalar wrapper for every admitted type", ruleBackingFromData},
	},
	"C10": {
		{"R7", "operator -> function table, dtype-case/instantiation pairing, PRelu kernel shape", ruleR7Unary},
		{"R18", "no select-by-multiplication", ruleR18},
		{"R6", "required dtypes admitted (T8)", ruleR6},
		{"R20", "Data() passes the scalar wrapper before slice assertions", ruleR20Scalar},
		{"R3", "operands not modified (E2)", ruleR3},
		{"R21", "attribute state read-only after Init", ruleR21},
		{"R25", "contracts of the shared ops helpers this property's operators rely on", ruleHelpers},
		{"R20b", "Data() used as a tensor backing passed the scalar wrapper for every admitted type", ruleBackingFromData},
		{"R26", "tensors built over Go slices state their shape", ruleExplicitShape},
	},
	"C11": {
		{"R14", "Cast / Constant / ConstantOfShape tables", ruleR14},
		{"R13", "Constant's value tensor: decoder tables D1-D3 (data_type -> decoder -> typed field / raw reader widths)", ruleR13},
		{"R20", "source dtypes covered by the scalar wrapper", ruleR20Scalar},
		{"R21", "attribute state read-only after Init", ruleR21},
		{"R22", "gorgonia's lax Shape.Eq does not decide shape matching", ruleR22},
		{"R25", "contracts of the shared ops helpers this property's operators rely on", ruleHelpers},
		{"R20b", "Data() used as a tensor backing passed the scalar wrapper for every admitted type", ruleBackingFromData},
		{"R26", "tensors built over Go slices state their shape", ruleExplicitShape},
	},
	"C07": {
		{"R9", "user axes validated (R9a) and normalised (R9b)", ruleR9},
		{"R3", "clone before Reshape (E2)", ruleR3},
		{"R20", "Data() passes the scalar wrapper before slice assertions", ruleR20Scalar},
		{"R21", "attribute state read-only after Init", ruleR21},
		{"R22", "gorgonia's lax Shape.Eq does not decide shape matching", ruleR22},
		{"R25", "contracts of the shared ops helpers this property's operators rely on", ruleHelpers},
		{"R20b", "Data() used as a tensor backing passed the scalar wrapper for every admitted type", ruleBackingFromData},
		{"R26", "tensors built over Go slices state their shape", ruleExplicitShape},
	},
	"C08": {
		{"R9", "user axes/indices validated (R9a) and normalised (R9b)", ruleR9},
		{"R10", "Repeat only as a guarded stretch", ruleR10},
		{"R3", "operands not modified (E2)", ruleR3},
		{"R19", "Slice restores the rank gorgonia drops", ruleR19},
		{"R19s", "Slice establishes the preconditions of gorgonia's Tensor.Slice (step count, empty range)", ruleR19Steps},
		{"R20", "Data() passes the scalar wrapper before slice assertions", ruleR20Scalar},
		{"R21", "attribute state read-only after Init", ruleR21},
		{"R7t", "Transpose delegates to gorgonia", ruleTermsShapeOps},
		{"R22", "gorgonia's lax Shape.Eq does not decide shape matching", ruleR22},
		{"R25", "contracts of the shared ops helpers this property's operators rely on", ruleHelpers},
		{"R20b", "Data() used as a tensor backing passed the scalar wrapper for every admitted type", ruleBackingFromData},
		{"R26", "tensors built over Go slices state their shape", ruleExplicitShape},
	},
	"C09": {
		{"R9", "requested axes normalised before reaching gorgonia (R9b; R9a as notes)", ruleR9},
		{"R3", "operands not modified (E2)", ruleR3},
		{"R20", "keepdims <=> reshape; ArgMax int64", ruleR20Keepdims},
		{"R20s", "Data() passes the scalar wrapper before slice assertions", ruleR20Scalar},
		{"R21", "attribute state read-only after Init", ruleR21},
		{"R7t", "Softmax/LogSoftmax delegate to gorgonia on the requested axis", ruleTermsShapeOps},
		{"R9d", "every requested axis reaches the reduction", ruleAxesPreserved},
		{"R22", "gorgonia's lax Shape.Eq does not decide shape matching", ruleR22},
		{"R25", "contracts of the shared ops helpers this property's operators rely on", ruleHelpers},
		{"R20b", "Data() used as a tensor backing passed the scalar wrapper for every admitted type", ruleBackingFromData},
		{"R26", "tensors built over Go slices state their shape", ruleExplicitShape},
	},
	"C14": {
		{"R10", "Repeat only as a guarded stretch", ruleR10},
		{"R3", "sources never modified (E2)", ruleR3},
		{"R20", "unidirectional rank rule, first operand as is, ones prepended, rank equalisation", ruleR20Broadcast},
		{"R22", "gorgonia's lax Shape.Eq does not decide shape matching", ruleR22},
		{"R23", "per-axis loops visit every axis", ruleR23},
		{"R20b", "Data() used as a tensor backing passed the scalar wrapper for every admitted type", ruleBackingFromData},
	},
	"C18": {
		{"R15", "load path is panic-free", ruleR15},
		{"R13", "count/dims gate and unsupported types refused (D5, D6)", ruleR13},
		{"R5", "opset maximum + resolver + unknown operator propagation (M4, M9-M11)", ruleR5},
		{"R2", "operator getter miss path (M12)", ruleR2},
	},
	"C12": {
		{"R13", "weight decoding tables D1-D3 and gates D4-D6", ruleR13},
	},
	"C01": {
		{"R5", "Run/applyOp plumbing M2-M9, M13", ruleR5},
		{"R2", "registry and constructor freshness (M12)", ruleR2},
		{"R4", "node output names not interpreted by operators", ruleR4},
		{"R1", "no package-level state written", ruleR1},
	},
	"C13": {
		{"R17", "validateShapes structure V1-V8", ruleR17},
		{"R5", "validator runs first (M1)", ruleR5},
		{"R3", "validator touches no tensor (E2)", ruleR3},
		{"R22", "gorgonia's lax Shape.Eq does not decide shape matching", ruleR22},
		{"R3w", "the initializer map is never written after construction", ruleR3Weights},
	},
	"C02": {
		{"R3", "borrowed tensors / shared storage never mutated (E2)", ruleR3},
		{"R1", "no package-level state written after init", ruleR1},
		{"R5", "operators private to one node of one Run (M4), environment private (M2), Model immutable (M13)", ruleR5},
		{"R2", "constructors return new operators", ruleR2},
	},
	"C17": {
		{"R3", "shared storage (weights, protobuf) never written (E2)", ruleR3},
		{"R1", "no package-level state written; no goroutines/locks/unsafe", ruleR1},
		{"R5", "operators private to one node of one Run (M4), environment private (M2), Model immutable (M13)", ruleR5},
		{"R2", "constructors return new operators", ruleR2},
	},
	"C15": {
		{"R6", "operator gate tables T1-T8 (exhaustive over the registry)", ruleR6},
		{"R2", "registry and constructor freshness", ruleR2},
		{"R5", "the gate's result is what Apply receives (M5); a fresh operator per node (M4)", ruleR5},
	},
}

var contractBase = []string{
	"contract table for gorgonia.org/tensor, protobuf-go and the standard library (checker/contracts.go): which calls write header/data of which operand, which results alias which operand; an external symbol without a contract that receives a non-owned reference makes the check undecided",
	"go/types, go/ssa (with generic instantiation) and the CHA/VTA call graph model the program faithfully",
	"gorgonia and protobuf-go internals are not analysed (pools are sync.Pool, generated getters are reads)",
}

var propDocs = map[string]propDoc{
	"C03": {
		Explanation: "R7 (exhaustive over the 12 operators): every call of the shared driver in Apply is driver(inputs[0], inputs[1], K, MultidirectionalBroadcasting) and every success return of Apply is the result of such a call (no second path with another kernel or operand); K's returned term is the gorgonia kernel of the ONNX table applied to (A,B) in order, or - for And/Or/Xor - a closure whose truth table over {0,1}^2 is evaluated statically (0001/0111/0110); the driver's dynamic call op(x,y) has x from A / #0 and y from B / #1 of broadcast(A,B) in order, and the multidirectional mode runs the multidirectional helper; the boolean loop addresses A, B and the output with the same iterator coordinate. R6.T8 float32/float64/int32/int64 (bool) admitted at both positions. R10 Repeat only under extent==1; R23 the per-axis loops are left only when exhausted or with an error; R22 no (tensor.Shape).Eq in the broadcast path; R20 rank equalisation; R3/R21 operands and attribute state untouched. R20:backing: a Data()-derived value given to tensor.WithBacking on the broadcast path passed the scalar wrapper, which must cover every admitted element type (bool, uint8 included). NOT decided: IEEE/wrap-around values, element placement inside gorgonia.",
		Assumptions: contractBase,
		Exhaustive:  true,
	},
	"C04": {
		Explanation: "R16: the terms of every success return of Gemm/Scaler/LinearRegressor.Apply (SSA values rendered over gorgonia calls, inputs P1[k] and attribute fields) must equal the ONNX dependency shapes, with A/B = phi(input | Transpose(input)) whose Transpose edge is guarded by its own flag; any other success path is a violation. LinearRegressor.Init reshapes coefficients to (targets, n/targets) and transposes. MatMul: the batch-broadcast loop starts at len-3; R10 its Repeats are guarded by extent==1. R6.T8 float32 admitted; R8 attributes honoured or refused; R3/R21 operands, attribute tensors (which alias protobuf storage) and every receiver field untouched by Apply (gorgonia's Dot is contracted as transposing its second operand's header in place for vector x matrix). R24: a default replaces optional input k only on the edge where inputs[k] is nil. NOT decided: numeric accuracy, MatMul's vector promotion for every rank combination, gorgonia's MatMul/Transpose.",
		Assumptions: contractBase,
	},
	"C05": {
		Explanation: "R11 on Conv's methods. K1: every IndexAddr whose list has a known kind (FULL = Shape()/coords/make(len(FULL)), SPATIAL = strides/dilations/kernelShape/FULL[2:]/variadic coords, PADS = pads/make(2*spatial)) is classified by its index kind (CONST, NONSPATIAL = loop < 2, SPATIAL = loop < spatial count / range over a SPATIAL list, SPATIAL+2, SPATIAL+nSpatial, FULL-RANGE, PADS-RANGE) against a legality matrix. K2: per sliding-window function and spatial axis k: window start phi from 0 step strides[k] bounded by Shape(padded)[2+k]; output index start/strides[k] compared with outputShape[2+k] and stored at SetAt position 2+k. K3: batch index = window sample = SetAt position 0 over x.Shape()[0]; kernel[m:m+1] stored at position 1. K4: all AutoPadSetting constants are compared against in Apply's closure (at most one else-class) and Init rejects other strings. K8: output extent, dilated extent and dilated coordinate are compared, as polynomials over kind-labelled atoms (modulo + - * algebra; integer division opaque), with floor((X-K+pb+pe)/s)+1, k+(k-1)(d-1), old*d. K7: every value stored into a paddings list is provably >= 0 (constants, clamps, a - a/2 forms): a negative derived padding makes padInput request a negative dimension (panic). K6: every method reading the kernel's Shape() to size paddings/outputs receives the dilated kernel (the dilation call dominates it). R24: the bias default only replaces an absent bias. R8 attributes; R3 bias and kernel not modified; R21 Apply works on a copy of the operator. NOT decided: the multiply-accumulate, dilation zero insertion, padding by Concat.",
		Assumptions: contractBase,
	},
	"C06": {
		Explanation: "R12 per operator (RNN 1 gate, GRU 3, LSTM 4): P1 block extractors request (gates,3)/(2*gates,2)/(3,2) blocks and return block k as result k; P3 at every gate call the callee's parameter roles are derived from how it feeds its two Gemm helpers (input Gemm = the one receiving the time slice), then W and R must be the same block k of inputs[1]/inputs[2] and the biases the unordered pair {B[k],B[k+gates]} of inputs[3] (or its zero default), every slot used exactly once; P4 LSTM cell update/peepholes/activation roles, GRU state update term (1-z)(.)h + z(.)H_prev, reset-gate forms under linear_before_reset, Gemm helper literals {transB, alpha=beta=1}; P5 loop-carried state appended per step, Y_h/Y_c are Clone()s of the final phi and distinct objects; P2 initial states phi(inputs[5|6], zeros(1,batch,hidden)); P6 reshape argument terms; P7 X.Slice([t,t+1), nil, nil). R8 every handled attribute refused or stored in a field that is read; R9c activations[k] under a rejecting length check; R24: each optional input k (sequence_lens aside) is replaced by its default only on the edge inputs[k]==nil, independently per input. R18, R10, R3, R21, R6.T8. R25 helper contracts (ExtractMatrices cuts block i as [i*h,(i+1)*h) into result i; NewSlicer defaults and getters; NElements; Zeros/Ones); R5 M5/M6 explicitly skipped inputs arrive as nil. NOT decided: arithmetic of a step, float64 support, numeric whole-vs-split agreement.",
		Assumptions: contractBase,
	},
	"C10": {
		Explanation: "R7 unary (17 rows, exhaustive): generic closures: per Dtype case the instance's type argument equals the case's Go type and its body term is math.F(P0) with calls only into package math; Abs/Tanh terms; Sigmoid term Div(1,Add(1,Exp(Neg(x)))); Relu term MaxBetween(x,0); Not truth table 10; PRelu: UnidirectionalBroadcast(x, slope) in that order, every call of a kernel instance receives Data() of both broadcast results (no path around the broadcast) and, in every kernel instance, the stored element is phi(x, slope*x) with the product computed under x < 0 and both factors read at the element's own index. R18: no tensor.Mul with a comparison-kernel result as operand (positive control BadSelectByMul). R20 scalar wrapper before slice assertions. R6.T8, R3, R21. NOT decided: rounding error bounds, gorgonia's Tanh/Exp/Abs.",
		Assumptions: contractBase,
		Exhaustive:  true,
	},
	"C11": {
		Explanation: "R14 (AST + go/types, exhaustive): target switch: 10 numeric codes -> createNewBacking[B, Go(code)], 7 non-numeric codes and default -> error; source switch: 10 dtype cases assert []Go(dtype), default -> error, result WithShape(t.Shape()...); element converter out[i] = R(in[i]); alias-flow: every converter instantiation reachable from Cast.Apply is applied to the asserted backing itself; R20: the scalar wrapper covers every source type Cast's gate admits. Constant: name->getter->type table (value_float GetF float32, value_floats []float32, value_int int64, value_ints []int64, value TensorProto), refusals, one attribute exactly; a tensor backed by an attribute list is given WithShape(len(that list)) (gorgonia infers shape () for a one-element backing). ConstantOfShape: float32(0) default, Len()!=1 refused, non-positive extents refused, dtype from the value tensor. R13 D1-D3: the decoder tables (Constant's value tensor goes through them); R26 list-backed tensors state their shape; R25 helper contracts; R8; R21 Apply stores into no receiver field (no memoised result); R22 no lax Shape.Eq. NOT decided: nothing structural; conversion semantics are Go's.",
		Assumptions: []string{"go/types models the program faithfully", "Go's numeric conversions are the C-style conversions the property names (language specification)"},
		Exhaustive:  true,
	},
	"C16": {
		Explanation: "NOT decided: the property itself (numeric equality of batched and per-sample evaluation) - no static argument in reach bounds it. Decided are structural necessary conditions: R11.K2/K3 Conv's window sample index is the SetAt sample index over x.Shape()[0]; R12.P6 recurrent outputs are reshaped with X.Shape()[0], X.Shape()[1]; R12.P7 the per-step slice cuts axis 0 only; R10 every tensor.Repeat reachable from Conv/Gemm/MatMul/RNN/GRU/LSTM is guarded by extent==1; R21 Apply does not store input-derived state in the operator; R7t Transpose.Apply returns tensor.Transpose(input, perm...) on every success path (no shape-dependent shortcut); R22/R23 the broadcast of elementwise operators is not decided by the lax Shape.Eq (a (N,1) activation against a length-C weight is paired element-wise when N == C) and its per-axis loops visit every axis.",
		Assumptions: contractBase,
	},
	"C07": {
		Explanation: "R9 (forward taint from the frozen axis-source table: Flatten.axis, Squeeze inputs[1], Unsqueeze inputs[1]): R9a every Go-level use (index, slice bound, selection against a dimension index) of the user value is dominated by a rejecting lower AND upper bound on a value of the same taint set - at the use, at every call site passing the tainted value, on the tainted edges of a merge, or on the err==nil edge of a library callee that validates on every success return; ops.AllInRange-style checkers count two-sided unless a bound is an extreme constant. R9b the value used derives from `x + r` computed under `x < 0`, where r is derived (through parameters, closures and cells) from len(Shape()), Dims() or Shape()[k] of a tensor. R9c axis sets are sorted and a duplicate returns an error. R3 (E2) clone-before-Reshape: no Reshape on borrowed storage in the five operators. R20 a Data() value asserted to a slice type passes the scalar wrapper first. R26 Shape (and every tensor built over a Go slice) states its shape explicitly; R25 helper contracts (NElements, AnyToIntSlice, IfScalarToSlice, HasDuplicates). R22 no lax (tensor.Shape).Eq reachable from the five operators (a shape-already-right shortcut through it skips (n) <-> (n,1) reshapes). NOT decided: gorgonia's Reshape contract (row-major order kept, count mismatch rejected), processShape's -1 arithmetic.",
		Assumptions: contractBase,
	},
	"C08": {
		Explanation: "R9a/R9b as for C07 over the sources Concat.axis, Gather.axis, Gather inputs[1] (index data), Slice inputs[3], Transpose.perm (perm is exempt from R9b: no negative spelling), with axis contracts for gorgonia callees (Concat validates both sides, Transpose validates permutations, Slice/At validate ranges; a validating callee only counts when its error is handled). R10 every tensor.Repeat reachable from Expand.Apply is dominated by extent==1 of the repeated tensor at the repeated axis. R19 the view returned by Tensor.Slice is reshaped before Slice.Apply returns it; user steps reach Tensor.Slice only as 1 or after a divisibility test and user ranges only with start < end (gorgonia rounds the count down on axis 0 and turns an empty range into one element). R20 Data() passes the scalar wrapper before slice assertions. R3 operands not modified. R7t Transpose.Apply returns tensor.Transpose(input, perm...) on every success path; Expand.Apply returns the first result of the shared multidirectional broadcast helper applied to (input, fresh tensor of the requested shape). R22 no lax Shape.Eq reachable from the five operators except the audited ops.PairwiseAssign. NOT decided: ONNX index formulas, clamping, negative steps, data movement inside gorgonia.",
		Assumptions: contractBase,
	},
	"C09": {
		Explanation: "R9b over ArgMax.axis, ReduceMax.axes, ReduceMin.axes, Softmax.axis, LogSoftmax.axis with per-callee contracts (SoftMax/LogSoftMax resolve negative axes themselves; Argmax/Max/Min do not and treat -1 as all axes); R9a instances are notes. R20: the Reshape re-inserting reduced axes is control-dependent on the keepdims field (how the int64 attribute becomes the bool is not pinned); ArgMax's result backing is []int64; Data() of the reduced result passes the scalar wrapper. R3 operands not modified. R9d ReduceMax/ReduceMin hand gorgonia one list entry per requested axis (make(len(axes)) filled at the range index in every iteration, or an unconditional append): a filtered list changes which axes disappear and an empty list means all axes. R22 no lax Shape.Eq. R7t Softmax/LogSoftmax.Apply return the single gorgonia call on (input, normalised axis) on every success path. NOT decided: softmax numerics (gorgonia's SoftMax is not max-shifted and yields NaN for very large inputs - trusted base), ties/NaN in ArgMax, 'all axes when none given'.",
		Assumptions: contractBase,
	},
	"C14": {
		Explanation: "R10: each tensor.Repeat(t, axis, n) in package ops is dominated by an edge implying Shape(t')[axis] == 1 for t' phi-connected to t with the same axis value. R20: UnidirectionalBroadcast returns its first parameter (or an unmodified clone) as first result; its rank step succeeds only under rank(A) >= rank(B); AddExtraDimsToTensor's new shape is ones followed by the original shape; ReshapeTensorsForMultidirBroadcast pads the lower-rank operand by the rank difference in both directions. R3 (E2): no mutation site reachable from the exported helpers writes borrowed storage. NOT decided: element placement of gorgonia's Repeat.",
		Assumptions: contractBase,
	},
	"C01": {
		Explanation: "Rules over the interpreter (model.go, opset.go, registry), anchors found by role: M2 the environment map is made per Run and does not escape; M3 caller inputs take precedence over initializers (store ordering / miss guard) and every entry of Run's inputs is bound (the store runs in every iteration); M4 per node the operator is the direct result of getter(node.GetOpType()) in the same iteration, its error returns, the node loop visits every node and no iteration skips the application; M5 Init(n) -> gather(n.GetInput(), env) -> ValidateInputs(gathered) -> Apply(validated) -> bind(n.GetOutput(), results, env), each stage fed by the previous one, every error returned; M6 gather: exactly one append per name, \"\" => nil, present => comma-ok entry, absent => error; M7 bind: rejecting length check, env[names[i]] = results[i] same i, all i; M8 result map is fresh, keys from OutputNames(), values non-nil-checked with an error otherwise; M9 no error result dropped in package gonnx; M13 Model fields written only by the constructor; R2 registry constructors return new values, getter hit/miss paths; R4 node output names flow only into len(); R1 no package-level state written. NOT decided: operator values (C03-C11), equality with an independent evaluator.",
		Assumptions: []string{"go/types + go/ssa model the program faithfully", "the rules recognise today's factoring by role; if a role has no bearer the obligation is violated (property needs it) or undecided (only the rule's factoring assumption is gone)"},
	},
	"C12": {
		Explanation: "Decoder tables read from the type-checked program (exhaustive for D1-D3): D1 11 data_type cases -> decoder -> Go element type (types.Identical on the basic kind); D2 per decoder: typed field prescribed by ONNX, guarded by len(same field) > 0, narrowing helper out[i] = T(in[i]) for all i, else the raw reader of the same element type applied to RawData; D3 per raw reader: buffer length == compared length == decode width == sizeof(element), one element per byte for the byte-wise reader; D4 a short tail: reader returns a definitely non-nil error, or the count gate exists; D5 every value reaching tensor construction was decoded under an explicitly supported data_type case; D6 tensor construction is dominated (possibly through a helper whose parameters are labelled by backward derivation) by a rejecting equality between the element count of the decoded values and the product of the dims and a rejecting lower bound on every dim. NOT decided: out-of-range values in widened typed fields.",
		Assumptions: []string{"encoding/binary and bytes.Reader behave as documented", "gorgonia's tensor.New builds exactly the given shape over the given backing when its preconditions hold", "go/types + go/ssa model the program faithfully"},
		Exhaustive:  true,
	},
	"C13": {
		Explanation: "Rules on the shape validator's SSA/CFG (validator found by role): V1 iterates the declared input shapes; V2 back edges of the input loop only from the initializer-skip edge or the exhausted dimension loop, back edges of the dimension loop only from IsDynamic==true or equality edges, comparison only on the !IsDynamic edge; V3 comma-ok miss => error; V4 rejecting rank equality dominates every read of the received shape; V5 declared[i].Size vs int64(received[i]) at the same i over a full range loop, inequality => error; M1 validator is Run's first call on Run's own parameter, error returned, all other blocks on its nil edge; R3 (E2) no mutation site reachable from the validator writes borrowed or shared storage; V7 IsDynamic <=> dim_value == 0 and Size = dim_value in the shape extractor; V2 accept side: from the dynamic edge of a dimension no return is reachable (a symbolic dimension accepts any size, also one that differs from another axis with the same name). V8 InputShapes, InputDimSize and the validator all derive shapes from GetInput(). R3w: the map of initializers the validator consults is written only while the Model is constructed (a Run that stored into it would make later Runs skip validation for those names); R22 no lax Shape.Eq.",
		Assumptions: append([]string{"inputs declared without shape information are outside the property's quantifier"}, contractBase...),
	},
	"C18": {
		Explanation: "R15: L = library functions reachable from the Model constructors and the bytes->protobuf step (call graph). In L every potentially panicking instruction is enumerated (explicit panic, non-comma-ok type assertion, integer division, make with a non-len size, IndexAddr/Index/Slice, field reads through pointers, MapUpdate, dynamic calls, external calls) and discharged by: a dominating guard; range-index loops over a slice of the same length; constant indices into constant-size buffers; non-nil pointer reasoning (allocation, element of a repeated protobuf field, every load-path caller passes non-nil, success result of a callee); contracts (tensor.New by the R13:D6 gate, binary.UintN by the buffer length, reflect.Value.Len by a slice-typed operand, trusted stdlib readers). Generated getters: dereference only under x != nil. R13:D6 count/dims gate. R5: M10 model only on Params() and resolver success with the running maximum of GetVersion() over every import; M11 resolver miss => ErrUnsupportedOpsetVersion; M4 unknown operator error returned, no node skipped; M9 no dropped errors. R2: getter miss wraps ErrUnsupportedOperator. NOT decided: the protobuf decoder itself.",
		Assumptions: []string{"proto.Unmarshal never panics and never leaves nil elements in repeated message fields", "os.ReadFile, io.ReadAll, zip.File.Open, bytes.Reader do not panic", "gorgonia's tensor.New does not panic when every dim >= 1, the backing is a slice and the product of the dims equals its length", "go/types + go/ssa + call graph model the program faithfully"},
	},
	"C02": {
		Explanation: "Interprocedural origin/effect analysis (E2) over every hand-written library function (generic instances included): each SSA value carries the set of non-fresh origins (Borrowed(Run.inputs), Borrowed(op.inputs), Weights, Proto, Global(g)) x level (container, tensor header, element data) that may reach it; propagation through phi/field cells/containers/closures/calls to a fixpoint; gorgonia calls through a closed contract table. R3: every mutation site (Reshape/T/SetAt/Zero/Memset, arithmetic with WithReuse/UseUnsafe/WithIncr, element stores through Shape()/Data() slices, append/copy/sort/map updates, field stores on borrowed objects) must write storage with an empty origin set at the written level. R1: no package-level variable is stored to or written through outside package initialisers; the library has no goroutines/locks/unsafe. Positive controls (in-place Reshape, store through Shape(), WithReuse, UseUnsafe, mutation through a view, mutation two calls deep, memoising map) are analysed on every run and must be reported. NOT decided: bit-for-bit equality of results (follows from purity plus gorgonia's determinism, which is assumed); outputs that alias inputs or weights (Concat of one input, Constant) are not mutations by Run.",
		Assumptions: contractBase,
	},
	"C17": {
		Explanation: "Race freedom as an effect property: concurrent Runs on one Model share only the weight tensors (Model.parameters), the protobuf (Model.mp and everything reachable from it, including attribute slices wrapped without copying) and package variables. The same origin/effect analysis as C02, restricted to those shared roots: no reachable mutation site may write storage originating from Weights, Proto or a Global; no package-level variable is written after initialisation; no go statement, sync, sync/atomic or unsafe import in hand-written library files (if one appears the claim is withdrawn as undecided). With no write to shared storage there is no conflicting access pair in library code, for every schedule. NOT decided: gorgonia's and protobuf-go's internals.",
		Assumptions: contractBase,
	},
	"C15": {
		Explanation: "Static table evaluation over every registered operator (exhaustive): T1 arity bounds 0<=min<=max evaluated from the getter bodies; T2 len(constraints)>=max and rows non-empty (otherwise the generic gate indexes out of range); T3 ValidateInputs delegates exactly once to the generic gate with (receiver, inputs) and only adds error returns; T4 every constant index into inputs in Apply and helpers is < max; T5 every use of an optional input other than a nil test is dominated by its non-nil edge; T6 Concat's dynamic arity is established from len(inputs) before the delegate call; T7 the generic gate's stage order, counter semantics (success iff min<=n<=max, pad length = max), nil-only padding, same-index dtype lookup, and the dtype loop is left only when every input was looked at or with an error; T8 dtypes the property statements require are admitted; R2 registry completeness against the 55 pinned names and against the implementing types, constructor freshness (new heap value per lookup, no shared package state), getter hit/miss paths (miss => error wrapping ErrUnsupportedOperator). NOT decided: behaviour when nil is supplied at a required position; that gorgonia's Dtype() reports the element type.",
		Assumptions: []string{"go/types and go/ssa model the program faithfully", "package-level Min*/Max* values are never reassigned (checked by R1 under C01/C02/C17)", "tensor.Dtype values named in constraints are gorgonia's package variables"},
		Exhaustive:  true,
	},
}

// expectedControls lists control obligations that must be reported by the rules run for this invocation.
func (c *Ctx) expectedControls() []string { return c.wantControls }
