package main

// propRules: which rules decide which property.
var propRules = map[string][]ruleSpec{
	"C12": {
		{"R13", "weight decoding tables D1-D3 and gates D4-D6", ruleR13},
	},
	"C01": {
		{"R5", "Run/applyOp plumbing M2-M9, M13", ruleR5},
		{"R2", "registry and constructor freshness (M12)", ruleR2},
		{"R4", "node output names not interpreted by operators", ruleR4},
		{"R1", "no package-level state written", ruleR1},
	},
	"C13": {
		{"R17", "validateShapes structure V1-V8", ruleR17},
		{"R5", "validator runs first (M1)", ruleR5},
		{"R3", "validator touches no tensor (E2)", ruleR3},
	},
	"C02": {
		{"R3", "borrowed tensors / shared storage never mutated (E2)", ruleR3},
		{"R1", "no package-level state written after init", ruleR1},
	},
	"C17": {
		{"R3", "shared storage (weights, protobuf) never written (E2)", ruleR3},
		{"R1", "no package-level state written; no goroutines/locks/unsafe", ruleR1},
	},
	"C15": {
		{"R6", "operator gate tables T1-T8 (exhaustive over the registry)", ruleR6},
		{"R2", "registry and constructor freshness", ruleR2},
	},
}

var contractBase = []string{
	"contract table for gorgonia.org/tensor, protobuf-go and the standard library (checker/contracts.go): which calls write header/data of which operand, which results alias which operand; an external symbol without a contract that receives a non-owned reference makes the check undecided",
	"go/types, go/ssa (with generic instantiation) and the CHA/VTA call graph model the program faithfully",
	"gorgonia and protobuf-go internals are not analysed (pools are sync.Pool, generated getters are reads)",
}

var propDocs = map[string]propDoc{
	"C02": {
		Explanation: "Interprocedural origin/effect analysis (E2) over every hand-written library function (generic instances included): each SSA value carries the set of non-fresh origins (Borrowed(Run.inputs), Borrowed(op.inputs), Weights, Proto, Global(g)) x level (container, tensor header, element data) that may reach it; propagation through phi/field cells/containers/closures/calls to a fixpoint; gorgonia calls through a closed contract table. R3: every mutation site (Reshape/T/SetAt/Zero/Memset, arithmetic with WithReuse/UseUnsafe/WithIncr, element stores through Shape()/Data() slices, append/copy/sort/map updates, field stores on borrowed objects) must write storage with an empty origin set at the written level. R1: no package-level variable is stored to or written through outside package initialisers; the library has no goroutines/locks/unsafe. Positive controls (in-place Reshape, store through Shape(), WithReuse, UseUnsafe, mutation through a view, mutation two calls deep, memoising map) are analysed on every run and must be reported. NOT decided: bit-for-bit equality of results (follows from purity plus gorgonia's determinism, which is assumed); outputs that alias inputs or weights (Concat of one input, Constant) are not mutations by Run.",
		Assumptions: contractBase,
	},
	"C17": {
		Explanation: "Race freedom as an effect property: concurrent Runs on one Model share only the weight tensors (Model.parameters), the protobuf (Model.mp and everything reachable from it, including attribute slices wrapped without copying) and package variables. The same origin/effect analysis as C02, restricted to those shared roots: no reachable mutation site may write storage originating from Weights, Proto or a Global; no package-level variable is written after initialisation; no go statement, sync, sync/atomic or unsafe import in hand-written library files (if one appears the claim is withdrawn as undecided). With no write to shared storage there is no conflicting access pair in library code, for every schedule. NOT decided: gorgonia's and protobuf-go's internals.",
		Assumptions: contractBase,
	},
	"C15": {
		Explanation: "Static table evaluation over every registered operator (exhaustive): T1 arity bounds 0<=min<=max evaluated from the getter bodies; T2 len(constraints)>=max and rows non-empty (otherwise the generic gate indexes out of range); T3 ValidateInputs delegates exactly once to the generic gate with (receiver, inputs) and only adds error returns; T4 every constant index into inputs in Apply and helpers is < max; T5 every use of an optional input other than a nil test is dominated by its non-nil edge; T6 Concat's dynamic arity is established from len(inputs) before the delegate call; T7 the generic gate's stage order, counter semantics (success iff min<=n<=max, pad length = max), nil-only padding, same-index dtype lookup; T8 dtypes the property statements require are admitted; R2 registry completeness against the 55 pinned names and against the implementing types, constructor freshness (new heap value per lookup, no shared package state), getter hit/miss paths (miss => error wrapping ErrUnsupportedOperator). NOT decided: behaviour when nil is supplied at a required position; that gorgonia's Dtype() reports the element type.",
		Assumptions: []string{"go/types and go/ssa model the program faithfully", "package-level Min*/Max* values are never reassigned (checked by R1 under C01/C02/C17)", "tensor.Dtype values named in constraints are gorgonia's package variables"},
		Exhaustive:  true,
	},
}

// expectedControls lists control obligations that must be reported by the rules run for this invocation.
func (c *Ctx) expectedControls() []string { return c.wantControls }
