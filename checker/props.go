package main

// propRules: which rules decide which property.
var propRules = map[string][]ruleSpec{
	"C02": {
		{"R3", "borrowed tensors / shared storage never mutated (E2)", ruleR3},
		{"R1", "no package-level state written after init", ruleR1},
	},
	"C17": {
		{"R3", "shared storage (weights, protobuf) never written (E2)", ruleR3},
		{"R1", "no package-level state written; no goroutines/locks/unsafe", ruleR1},
	},
	"C15": {
		{"R6", "operator gate tables T1-T8 (exhaustive over the registry)", ruleR6},
		{"R2", "registry and constructor freshness", ruleR2},
	},
}

var propDocs = map[string]propDoc{
	"C15": {
		Explanation: "Static table evaluation over every registered operator (exhaustive): T1 arity bounds 0<=min<=max evaluated from the getter bodies; T2 len(constraints)>=max and rows non-empty (otherwise the generic gate indexes out of range); T3 ValidateInputs delegates exactly once to the generic gate with (receiver, inputs) and only adds error returns; T4 every constant index into inputs in Apply and helpers is < max; T5 every use of an optional input other than a nil test is dominated by its non-nil edge; T6 Concat's dynamic arity is established from len(inputs) before the delegate call; T7 the generic gate's stage order, counter semantics (success iff min<=n<=max, pad length = max), nil-only padding, same-index dtype lookup; T8 dtypes the property statements require are admitted; R2 registry completeness against the 55 pinned names and against the implementing types, constructor freshness (new heap value per lookup, no shared package state), getter hit/miss paths (miss => error wrapping ErrUnsupportedOperator). NOT decided: behaviour when nil is supplied at a required position; that gorgonia's Dtype() reports the element type.",
		Assumptions: []string{"go/types and go/ssa model the program faithfully", "package-level Min*/Max* values are never reassigned (checked by R1 under C01/C02/C17)", "tensor.Dtype values named in constraints are gorgonia's package variables"},
		Exhaustive:  true,
	},
}

// expectedControls lists control obligations that must be reported by the rules run for this invocation.
func (c *Ctx) expectedControls() []string { return c.wantControls }
