package main

import (
	"fmt"
	"go/token"
	"go/types"
	"os"
	"sort"
	"strings"

	"golang.org/x/tools/go/callgraph"
	"golang.org/x/tools/go/ssa"
)

// E2 — origin/effect propagation (see DESIGN §3.2).
//
// A token is "<root>#<level>", level ∈ {C (container / message structure), H (tensor header),
// D (element data)}. Fresh storage carries no token. Option values carry "OPT:<kind>:<token>".

type tokset map[string]struct{}

func (t tokset) add(s string) bool {
	if _, ok := t[s]; ok {
		return false
	}
	t[s] = struct{}{}
	return true
}
func (t tokset) addAll(o tokset) bool {
	ch := false
	for k := range o {
		if t.add(k) {
			ch = true
		}
	}
	return ch
}
func (t tokset) sorted() []string {
	out := make([]string, 0, len(t))
	for k := range t {
		out = append(out, k)
	}
	sort.Strings(out)
	return out
}

func lvl(tok string) byte {
	if i := strings.LastIndexByte(tok, '#'); i >= 0 && i+1 < len(tok) {
		return tok[i+1]
	}
	return 0
}
func rootOf(tok string) string {
	if i := strings.LastIndexByte(tok, '#'); i >= 0 {
		return tok[:i]
	}
	return tok
}
func isOpt(tok string) bool { return strings.HasPrefix(tok, "OPT:") }

// withLevels filters tokens by level letters (OPT tokens are dropped unless keepOpt).
func withLevels(t tokset, levels string, keepOpt bool) tokset {
	out := tokset{}
	for k := range t {
		if isOpt(k) {
			if keepOpt {
				out.add(k)
			}
			continue
		}
		if strings.IndexByte(levels, lvl(k)) >= 0 {
			out.add(k)
		}
	}
	return out
}

func rootTokens(root, levels string) tokset {
	t := tokset{}
	for i := 0; i < len(levels); i++ {
		t.add(root + "#" + string(levels[i]))
	}
	return t
}

type fieldKey struct {
	t *types.Named
	f int
}

// mutSite is one place where storage is written.
type mutSite struct {
	fn     *ssa.Function
	instr  ssa.Instruction
	what   string // "Reshape", "SetAt", "store", "append", "MapUpdate", "WithReuse" ...
	target ssa.Value
	levels string // which levels of the target are written
	viaOpt string // for option-carried targets: the OPT kind
	ord    int
}

type e2Result struct {
	tok     map[ssa.Value]tokset
	tuple   map[ssa.Value][]tokset
	sites   []mutSite
	unknown map[string][]string // unknown external -> sites
	passes  int
	nFuncs  int
	ext     map[string]int // external contract use counts
}

type e2 struct {
	c        *Ctx
	fns      []*ssa.Function
	inSet    map[*ssa.Function]bool
	tok      map[ssa.Value]tokset
	tuple    map[ssa.Value][]tokset
	param    map[*ssa.Function][]tokset
	freevar  map[*ssa.Function][]tokset
	ret      map[*ssa.Function][]tokset
	cell     map[fieldKey]tokset
	global   map[*ssa.Global]tokset
	changed  bool
	sites    map[ssa.Instruction][]mutSite
	unknown  map[string][]string
	ext      map[string]int
	calleeOf map[ssa.CallInstruction][]*ssa.Function
}

func (e *e2) get(v ssa.Value) tokset {
	if v == nil {
		return tokset{}
	}
	switch x := v.(type) {
	case *ssa.Parameter:
		fn := x.Parent()
		for i, p := range fn.Params {
			if p == x {
				return e.param[fn][i]
			}
		}
	case *ssa.FreeVar:
		fn := x.Parent()
		for i, p := range fn.FreeVars {
			if p == x {
				return e.freevar[fn][i]
			}
		}
	case *ssa.Global:
		return e.globalTok(x)
	case *ssa.Const, *ssa.Function, *ssa.Builtin:
		return tokset{}
	}
	if t, ok := e.tok[v]; ok {
		return t
	}
	t := tokset{}
	e.tok[v] = t
	return t
}

func (e *e2) globalTok(g *ssa.Global) tokset {
	if t, ok := e.global[g]; ok {
		return t
	}
	t := tokset{}
	if g.Pkg != nil && isLibPkgPath(g.Pkg.Pkg.Path()) {
		// the address of a library global: its content is package state
		t = rootTokens("Global("+shortPkg(g.Pkg.Pkg.Path())+"."+g.Name()+")", "CHD")
	}
	e.global[g] = t
	return t
}

func (e *e2) addTo(v ssa.Value, t tokset) {
	if len(t) == 0 {
		return
	}
	switch x := v.(type) {
	case *ssa.Parameter:
		fn := x.Parent()
		for i, p := range fn.Params {
			if p == x {
				if e.param[fn][i].addAll(t) {
					e.changed = true
				}
			}
		}
		return
	case *ssa.FreeVar:
		fn := x.Parent()
		for i, p := range fn.FreeVars {
			if p == x {
				if e.freevar[fn][i].addAll(t) {
					e.changed = true
				}
			}
		}
		return
	case *ssa.Global, *ssa.Const, *ssa.Function, *ssa.Builtin:
		return
	}
	if e.get(v).addAll(t) {
		e.changed = true
	}
}

func (e *e2) cellOf(k fieldKey) tokset {
	if t, ok := e.cell[k]; ok {
		return t
	}
	t := tokset{}
	e.cell[k] = t
	return t
}

func structOfPtr(t types.Type) (*types.Named, *types.Struct) {
	if p, ok := t.Underlying().(*types.Pointer); ok {
		t = p.Elem()
	}
	n, _ := t.(*types.Named)
	st, _ := t.Underlying().(*types.Struct)
	return n, st
}

// isTensorish: value may refer to a tensor object (interface or *Dense etc.).
func isTensorish(t types.Type) bool {
	if p, ok := t.(*types.Pointer); ok {
		t = p.Elem()
	}
	n, ok := t.(*types.Named)
	if !ok || n.Obj().Pkg() == nil {
		return false
	}
	if n.Obj().Pkg().Path() != pkgTensor {
		return false
	}
	switch n.Obj().Name() {
	case "Tensor", "Dense", "View", "DenseTensor", "Slicer":
		return true
	}
	return false
}

// isContainerOfRefs: slice/array/map whose elements are tensors, other containers, pointers or interfaces.
func isContainerOfRefs(t types.Type) bool {
	var el types.Type
	switch u := t.Underlying().(type) {
	case *types.Slice:
		el = u.Elem()
	case *types.Array:
		el = u.Elem()
	case *types.Map:
		el = u.Elem()
	case *types.Pointer:
		if a, ok := u.Elem().Underlying().(*types.Array); ok {
			el = a.Elem()
		} else {
			return false
		}
	default:
		return false
	}
	switch el.Underlying().(type) {
	case *types.Basic:
		return false
	case *types.Struct:
		return false
	}
	return true
}

// baseOf walks IndexAddr/Slice chains back to the container value.
func baseOf(addr ssa.Value) ssa.Value {
	for {
		switch x := addr.(type) {
		case *ssa.IndexAddr:
			addr = x.X
		case *ssa.Slice:
			addr = x.X
		case *ssa.ChangeType:
			addr = x.X
		case *ssa.Convert:
			// tensor.Shape <-> []int conversions keep the storage
			if _, ok := x.X.Type().Underlying().(*types.Slice); ok {
				addr = x.X
			} else {
				return addr
			}
		default:
			return addr
		}
	}
}

func (e *e2) recordSite(s mutSite) {
	for _, o := range e.sites[s.instr] {
		if o.what == s.what && o.target == s.target && o.levels == s.levels && o.viaOpt == s.viaOpt {
			return
		}
	}
	e.sites[s.instr] = append(e.sites[s.instr], s)
}

// runE2 computes the fixpoint over the given function set. entries seeds parameter tokens.
func (c *Ctx) runE2(fns []*ssa.Function, seed func(e *e2)) *e2Result {
	e := &e2{c: c, fns: fns, inSet: map[*ssa.Function]bool{}, tok: map[ssa.Value]tokset{}, tuple: map[ssa.Value][]tokset{},
		param: map[*ssa.Function][]tokset{}, freevar: map[*ssa.Function][]tokset{}, ret: map[*ssa.Function][]tokset{},
		cell: map[fieldKey]tokset{}, global: map[*ssa.Global]tokset{}, sites: map[ssa.Instruction][]mutSite{},
		unknown: map[string][]string{}, ext: map[string]int{}, calleeOf: map[ssa.CallInstruction][]*ssa.Function{}}
	for _, f := range fns {
		e.inSet[f] = true
		ps := make([]tokset, len(f.Params))
		for i := range ps {
			ps[i] = tokset{}
		}
		e.param[f] = ps
		fv := make([]tokset, len(f.FreeVars))
		for i := range fv {
			fv[i] = tokset{}
		}
		e.freevar[f] = fv
		rs := make([]tokset, f.Signature.Results().Len())
		for i := range rs {
			rs[i] = tokset{}
		}
		e.ret[f] = rs
	}
	// dynamic call resolution from the call graph, restricted to the function set
	for _, f := range fns {
		n := c.cg.Nodes[f]
		if n == nil {
			continue
		}
		for _, ed := range n.Out {
			if ed.Site == nil {
				continue
			}
			if ed.Site.Common().StaticCallee() != nil {
				continue
			}
			if e.inSet[ed.Callee.Func] && ed.Callee.Func.Blocks != nil {
				e.calleeOf[ed.Site] = append(e.calleeOf[ed.Site], ed.Callee.Func)
			}
		}
	}
	seed(e)
	passes := 0
	for {
		passes++
		e.changed = false
		for _, f := range fns {
			e.function(f)
		}
		if !e.changed || passes > 60 {
			break
		}
	}
	if dbg := os.Getenv("E2DUMP"); dbg != "" {
		for _, f := range fns {
			if !strings.HasSuffix(fname(f), dbg) {
				continue
			}
			fmt.Println("E2DUMP", fname(f), "inSet", e.inSet[f])
			for i, p := range f.Params {
				fmt.Printf("   param %s: %v\n", p.Name(), sortedKeysTok(e.param[f][i]))
			}
			for _, b := range f.Blocks {
				for _, in := range b.Instrs {
					if v, ok := in.(ssa.Value); ok {
						fmt.Printf("   %s = %s: %v\n", v.Name(), in.String(), sortedKeysTok(e.get(v)))
					}
				}
			}
			for i, r := range e.ret[f] {
				fmt.Printf("   ret %d: %v\n", i, sortedKeysTok(r))
			}
		}
	}
	res := &e2Result{tok: e.tok, tuple: e.tuple, unknown: e.unknown, passes: passes, nFuncs: len(fns), ext: e.ext}
	// materialise sites in deterministic order with ordinals per (function, what)
	var all []mutSite
	for _, ss := range e.sites {
		all = append(all, ss...)
	}
	sort.Slice(all, func(i, j int) bool {
		a, b := all[i], all[j]
		if fname(a.fn) != fname(b.fn) {
			return fname(a.fn) < fname(b.fn)
		}
		if a.instr.Pos() != b.instr.Pos() {
			return a.instr.Pos() < b.instr.Pos()
		}
		return a.what+a.levels < b.what+b.levels
	})
	ord := map[string]int{}
	for i := range all {
		k := fname(all[i].fn) + ":" + all[i].what
		ord[k]++
		all[i].ord = ord[k]
	}
	res.sites = all
	// final token view for targets
	res.tok = map[ssa.Value]tokset{}
	for _, s := range all {
		res.tok[s.target] = e.get(s.target)
	}
	return res
}

func (e *e2) function(f *ssa.Function) {
	for _, b := range f.Blocks {
		for _, in := range b.Instrs {
			e.instr(f, in)
		}
	}
}

func (e *e2) set(v ssa.Value, t tokset) {
	if len(t) == 0 {
		return
	}
	if e.get(v).addAll(t) {
		e.changed = true
	}
}

func (e *e2) instr(f *ssa.Function, in ssa.Instruction) {
	switch x := in.(type) {
	case *ssa.Alloc, *ssa.MakeSlice, *ssa.MakeMap, *ssa.MakeChan:
		// fresh
	case *ssa.Phi:
		for _, ed := range x.Edges {
			e.set(x, e.get(ed))
		}
	case *ssa.ChangeType:
		e.set(x, e.get(x.X))
	case *ssa.ChangeInterface:
		e.set(x, e.get(x.X))
	case *ssa.MakeInterface:
		e.set(x, e.get(x.X))
	case *ssa.Convert:
		switch x.Type().Underlying().(type) {
		case *types.Slice, *types.Pointer, *types.Interface:
			e.set(x, e.get(x.X))
		}
	case *ssa.SliceToArrayPointer:
		e.set(x, e.get(x.X))
	case *ssa.TypeAssert:
		if x.CommaOk {
			ts := e.tupleOf(x, 2)
			if ts[0].addAll(e.get(x.X)) {
				e.changed = true
			}
		} else {
			e.set(x, e.get(x.X))
		}
	case *ssa.Extract:
		if ts, ok := e.tuple[x.Tuple]; ok && x.Index < len(ts) {
			e.set(x, ts[x.Index])
		}
	case *ssa.Slice:
		e.set(x, e.get(x.X))
	case *ssa.IndexAddr:
		// address of an element: content tokens are the container's element tokens
		e.set(x, withLevels(e.get(x.X), "HD", true))
		if !isContainerOfRefs(x.X.Type()) {
			// storage slice ([]int from Shape, []float32 from Data): the element address IS the storage
			e.set(x, e.get(x.X))
		}
	case *ssa.Index:
		e.set(x, withLevels(e.get(x.X), "HD", true))
	case *ssa.Lookup:
		el := withLevels(e.get(x.X), "HD", true)
		if x.CommaOk {
			ts := e.tupleOf(x, 2)
			if ts[0].addAll(el) {
				e.changed = true
			}
		} else {
			e.set(x, el)
		}
	case *ssa.Range:
		e.set(x, e.get(x.X))
	case *ssa.Next:
		ts := e.tupleOf(x, 3)
		if r, ok := x.Iter.(*ssa.Range); ok {
			if ts[2].addAll(withLevels(e.get(r), "HD", true)) {
				e.changed = true
			}
		}
	case *ssa.FieldAddr:
		n, _ := structOfPtr(x.X.Type())
		t := tokset{}
		t.addAll(e.get(x.X))
		if n != nil {
			t.addAll(e.cellOf(fieldKey{n, x.Field}))
		}
		e.set(x, t)
	case *ssa.Field:
		n, _ := structOfPtr(x.X.Type())
		t := tokset{}
		t.addAll(e.get(x.X))
		if n != nil {
			t.addAll(e.cellOf(fieldKey{n, x.Field}))
		}
		e.set(x, t)
	case *ssa.UnOp:
		if x.Op == token.MUL {
			switch a := x.X.(type) {
			case *ssa.Global:
				e.set(x, e.globalTok(a))
			case *ssa.Alloc:
				// a local variable that lives in a cell because a function literal reads it: in the function that
				// owns it, a load sees the stores that reach it (the literals only read), not every store ever made
				if sts, ok := reachingStores(x, a); ok {
					for _, st := range sts {
						e.set(x, e.get(st.Val))
					}
				} else {
					e.set(x, e.get(x.X))
				}
			default:
				e.set(x, e.get(x.X))
			}
		}
	case *ssa.Store:
		e.store(f, x)
	case *ssa.MapUpdate:
		mt := e.get(x.Map)
		if len(withLevels(mt, "C", false)) > 0 {
			e.recordSite(mutSite{fn: f, instr: x, what: "MapUpdate", target: x.Map, levels: "C"})
		} else {
			e.recordSite(mutSite{fn: f, instr: x, what: "MapUpdate", target: x.Map, levels: "C"})
		}
		e.addTo(x.Map, withLevels(e.get(x.Value), "HD", true))
		e.flowBackToField(x.Map, withLevels(e.get(x.Value), "HD", true))
	case *ssa.MakeClosure:
		fn := x.Fn.(*ssa.Function)
		if e.inSet[fn] {
			for i, b := range x.Bindings {
				if e.freevar[fn][i].addAll(e.get(b)) {
					e.changed = true
				}
			}
		}
	case *ssa.Return:
		rs := e.ret[f]
		for i, r := range x.Results {
			if i < len(rs) && rs[i].addAll(e.get(r)) {
				e.changed = true
			}
		}
	case *ssa.Call:
		e.call(f, x, x)
	case *ssa.Defer:
		e.call(f, x, nil)
	case *ssa.Go:
		e.call(f, x, nil)
	case *ssa.Send:
		e.addTo(x.Chan, e.get(x.X))
	}
}

func (e *e2) tupleOf(v ssa.Value, n int) []tokset {
	ts, ok := e.tuple[v]
	if !ok || len(ts) < n {
		ts = make([]tokset, n)
		for i := range ts {
			ts[i] = tokset{}
		}
		e.tuple[v] = ts
	}
	return ts
}

// flowBackToField: when tokens are added to a container that was loaded from a struct field, the
// field cell must see them too.
func (e *e2) flowBackToField(v ssa.Value, t tokset) {
	if len(t) == 0 {
		return
	}
	if ld, ok := v.(*ssa.UnOp); ok && ld.Op == token.MUL {
		switch a := ld.X.(type) {
		case *ssa.FieldAddr:
			if n, _ := structOfPtr(a.X.Type()); n != nil {
				if e.cellOf(fieldKey{n, a.Field}).addAll(t) {
					e.changed = true
				}
			}
		case *ssa.Alloc:
			e.addTo(a, t)
		}
	}
}

func (e *e2) store(f *ssa.Function, x *ssa.Store) {
	vt := e.get(x.Val)
	switch a := x.Addr.(type) {
	case *ssa.Global:
		e.recordSite(mutSite{fn: f, instr: x, what: "store-global", target: a, levels: "C"})
		return
	case *ssa.Alloc:
		e.addTo(a, vt)
		return
	case *ssa.FieldAddr:
		n, _ := structOfPtr(a.X.Type())
		if n != nil {
			if e.cellOf(fieldKey{n, a.Field}).addAll(vt) {
				e.changed = true
			}
		}
		// writing a field of an object that is itself borrowed/shared - as the container (C), or as something that
		// was reached through one (an element of a list of messages, a sub-message of a shared protobuf: D)
		e.recordSite(mutSite{fn: f, instr: x, what: "store-field", target: a.X, levels: "CD"})
		return
	case *ssa.IndexAddr:
		base := baseOf(a)
		if isContainerOfRefs(a.X.Type()) {
			e.recordSite(mutSite{fn: f, instr: x, what: "store-elem", target: base, levels: "C"})
			el := withLevels(vt, "HD", true)
			e.addTo(base, el)
			e.flowBackToField(base, el)
			if b2, ok := base.(*ssa.UnOp); ok {
				_ = b2
			}
		} else {
			// element store into a storage slice: the slice may be a live shape or backing array
			e.recordSite(mutSite{fn: f, instr: x, what: "store-elem", target: base, levels: "HD"})
		}
		return
	default:
		// store through an arbitrary pointer (captured variable cell, *p = v)
		e.addTo(x.Addr, vt)
		if fv, ok := x.Addr.(*ssa.FreeVar); ok {
			_ = fv
		}
	}
}

func (e *e2) call(f *ssa.Function, in ssa.CallInstruction, val ssa.Value) {
	cc := in.Common()
	args := cc.Args
	// builtins
	if b, ok := cc.Value.(*ssa.Builtin); ok {
		switch b.Name() {
		case "append":
			if val != nil {
				t := tokset{}
				t.addAll(e.get(args[0]))
				if len(args) > 1 {
					if isContainerOfRefs(args[0].Type()) {
						t.addAll(withLevels(e.get(args[1]), "HD", true))
					} else if _, isStr := args[1].Type().Underlying().(*types.Basic); !isStr {
						// appended element values are copied: no alias to args[1]'s storage
					}
				}
				e.set(val, t)
			}
			// append may write into spare capacity of args[0]'s backing array
			if isContainerOfRefs(args[0].Type()) {
				e.recordSite(mutSite{fn: f, instr: in, what: "append", target: args[0], levels: "C"})
			} else {
				e.recordSite(mutSite{fn: f, instr: in, what: "append", target: args[0], levels: "HD"})
			}
		case "copy":
			if isContainerOfRefs(args[0].Type()) {
				e.recordSite(mutSite{fn: f, instr: in, what: "copy", target: args[0], levels: "C"})
				e.addTo(baseOf(args[0]), withLevels(e.get(args[1]), "HD", true))
			} else {
				e.recordSite(mutSite{fn: f, instr: in, what: "copy", target: args[0], levels: "HD"})
			}
		case "delete":
			e.recordSite(mutSite{fn: f, instr: in, what: "delete", target: args[0], levels: "C"})
		case "clear":
			e.recordSite(mutSite{fn: f, instr: in, what: "clear", target: args[0], levels: "CHD"})
		}
		return
	}
	// resolve callees
	var callees []*ssa.Function
	if sc := cc.StaticCallee(); sc != nil {
		if e.inSet[sc] && sc.Blocks != nil && !e.opaque(sc) {
			callees = []*ssa.Function{sc}
		} else if isLibFn(sc) || isControlFn(sc) {
			if sc.Blocks != nil && !e.opaque(sc) {
				// library function outside the analysed set (control pass excluded): treat as fresh/no effect
				return
			}
			e.external(f, in, val, sc.Object(), qualNameOfFn(sc))
			return
		} else {
			e.external(f, in, val, sc.Object(), qualNameOfFn(sc))
			return
		}
	} else if ds := e.calleeOf[in]; len(ds) > 0 {
		callees = ds
		// an invoke may also dispatch to external implementations (tensor.Tensor methods)
		if cc.IsInvoke() && !e.ifaceIsLib(cc.Value.Type()) {
			e.external(f, in, val, cc.Method, qualName(cc.Method))
		}
	} else if cc.IsInvoke() {
		e.external(f, in, val, cc.Method, qualName(cc.Method))
		return
	} else {
		// call of a function value with no library target
		if mc, ok := cc.Value.(*ssa.MakeClosure); ok {
			if fn := mc.Fn.(*ssa.Function); e.inSet[fn] {
				callees = []*ssa.Function{fn}
			}
		}
		if len(callees) == 0 {
			// a function value the analysis does not know (a gorgonia function handed in as a kernel): the reuse
			// options among its arguments say where it writes, whatever it is
			e.optionSitesOfUnknownCallee(f, in, val)
			return
		}
	}
	for _, cal := range callees {
		ps := e.param[cal]
		off := 0
		if cc.IsInvoke() {
			// receiver is cc.Value
			if len(ps) > 0 && ps[0].addAll(e.get(cc.Value)) {
				e.changed = true
			}
			off = 1
		}
		for i, a := range args {
			if i+off < len(ps) {
				if ps[i+off].addAll(e.get(a)) {
					e.changed = true
				}
			}
		}
		if val != nil {
			rs := e.ret[cal]
			// a result that is, on every return path, one and the same parameter handed back as it is (or nil) has
			// the origins of this call's argument, not of every caller's (UnidirectionalBroadcast returns A itself)
			pass := map[int]int{}
			if len(callees) == 1 && !cc.IsInvoke() {
				pass = passThroughResults(cal)
			}
			if len(rs) == 1 {
				if pi, ok := pass[0]; ok && pi < len(args) {
					e.set(val, e.get(args[pi]))
				} else {
					e.set(val, rs[0])
				}
			} else if len(rs) > 1 {
				ts := e.tupleOf(val, len(rs))
				for i := range rs {
					src := rs[i]
					if pi, ok := pass[i]; ok && pi < len(args) {
						src = e.get(args[pi])
					}
					if ts[i].addAll(src) {
						e.changed = true
					}
				}
			}
		}
	}
}

func (e *e2) ifaceIsLib(t types.Type) bool {
	n, ok := t.(*types.Named)
	return ok && n.Obj().Pkg() != nil && isLibPkgPath(n.Obj().Pkg().Path())
}

// opaque: generated protobuf code other than plain getters is not analysed.
func (e *e2) opaque(fn *ssa.Function) bool {
	if fnPkgPath(fn) != pkgOnnx {
		return false
	}
	file := e.c.fileOf(fn.Pos())
	if !strings.HasSuffix(file, ".pb.go") {
		return false
	}
	return !strings.HasPrefix(fn.Name(), "Get")
}

func qualNameOfFn(fn *ssa.Function) string {
	if o, ok := fn.Object().(*types.Func); ok {
		return qualName(o)
	}
	if fn.Origin() != nil {
		if o, ok := fn.Origin().Object().(*types.Func); ok {
			return qualName(o)
		}
	}
	return fnPkgPath(fn) + "." + fn.Name()
}

// witness returns one call-graph path from an entry point to fn.
func (c *Ctx) witness(entries []*ssa.Function, fn *ssa.Function) []string {
	isEntry := map[*ssa.Function]bool{}
	for _, e := range entries {
		isEntry[e] = true
	}
	type item struct {
		n    *callgraph.Node
		prev *item
	}
	start := c.cg.Nodes[fn]
	if start == nil {
		return []string{fname(fn)}
	}
	seen := map[*callgraph.Node]bool{start: true}
	q := []*item{{n: start}}
	for len(q) > 0 {
		it := q[0]
		q = q[1:]
		if isEntry[it.n.Func] {
			var path []string
			for p := it; p != nil; p = p.prev {
				path = append(path, fname(p.n.Func))
			}
			return path
		}
		var ins []*callgraph.Edge
		ins = append(ins, it.n.In...)
		sort.Slice(ins, func(i, j int) bool { return fname(ins[i].Caller.Func) < fname(ins[j].Caller.Func) })
		for _, ed := range ins {
			cf := ed.Caller.Func
			if !isLibFn(cf) && !isControlFn(cf) {
				continue
			}
			if !seen[ed.Caller] {
				seen[ed.Caller] = true
				q = append(q, &item{n: ed.Caller, prev: it})
			}
		}
	}
	return []string{fname(fn)}
}

func describeTokens(t tokset) string {
	roots := map[string]string{}
	for k := range t {
		if isOpt(k) {
			continue
		}
		roots[rootOf(k)] += string(lvl(k))
	}
	var out []string
	for _, r := range sortedKeys(roots) {
		ls := []byte(roots[r])
		sort.Slice(ls, func(i, j int) bool { return ls[i] < ls[j] })
		out = append(out, fmt.Sprintf("%s{%s}", r, string(ls)))
	}
	return strings.Join(out, ",")
}

// reachingStores: for a load of a scalar cell (an Alloc of a non-aggregate variable) in the function that owns the
// cell, the stores to the cell that can reach the load. ok=false when the cell is written anywhere else (through a
// function literal, through its address handed to a call) - the flow-insensitive reading applies then.
func reachingStores(ld *ssa.UnOp, a *ssa.Alloc) ([]*ssa.Store, bool) {
	if a.Parent() != ld.Parent() {
		return nil, false
	}
	if pt, ok := a.Type().Underlying().(*types.Pointer); ok {
		switch pt.Elem().Underlying().(type) {
		case *types.Struct, *types.Array:
			return nil, false
		}
	}
	for _, r := range *a.Referrers() {
		switch y := r.(type) {
		case *ssa.Store:
			if y.Addr != ssa.Value(a) {
				return nil, false // the address itself is stored somewhere
			}
		case *ssa.UnOp, *ssa.DebugRef:
		case *ssa.MakeClosure:
			fn, ok := y.Fn.(*ssa.Function)
			if !ok {
				return nil, false
			}
			for i, b := range y.Bindings {
				if b != ssa.Value(a) || i >= len(fn.FreeVars) {
					continue
				}
				for _, fr := range *fn.FreeVars[i].Referrers() {
					switch fr.(type) {
					case *ssa.UnOp, *ssa.DebugRef:
					default:
						return nil, false // the literal writes the variable or passes its address on
					}
				}
			}
		default:
			return nil, false
		}
	}
	var out []*ssa.Store
	seen := map[*ssa.BasicBlock]bool{}
	var scan func(b *ssa.BasicBlock, from int)
	scan = func(b *ssa.BasicBlock, from int) {
		for i := from; i >= 0; i-- {
			if st, ok := b.Instrs[i].(*ssa.Store); ok && st.Addr == ssa.Value(a) {
				out = append(out, st)
				return
			}
		}
		for _, p := range b.Preds {
			if !seen[p] {
				seen[p] = true
				scan(p, len(p.Instrs)-1)
			}
		}
	}
	blk := ld.Block()
	at := -1
	for i, in := range blk.Instrs {
		if in == ssa.Instruction(ld) {
			at = i
		}
	}
	if at < 0 {
		return nil, false
	}
	scan(blk, at-1)
	return out, true
}

var passThroughMemo = map[*ssa.Function]map[int]int{}

// passThroughResults: result index -> parameter index, for the results of fn that every return statement fills with
// that very parameter (the SSA parameter itself, not a value derived from it) or with nil.
func passThroughResults(fn *ssa.Function) map[int]int {
	if m, ok := passThroughMemo[fn]; ok {
		return m
	}
	out := map[int]int{}
	rets := returnsOf(fn)
	if len(rets) > 0 {
		n := len(rets[0].Results)
		for k := 0; k < n; k++ {
			pi, ok := -1, true
			for _, r := range rets {
				if k >= len(r.Results) {
					ok = false
					break
				}
				v := r.Results[k]
				if isNilConst(v) {
					continue
				}
				prm, isP := v.(*ssa.Parameter)
				if !isP {
					ok = false
					break
				}
				idx := -1
				for i, q := range fn.Params {
					if q == prm {
						idx = i
					}
				}
				if idx < 0 || (pi >= 0 && pi != idx) {
					ok = false
					break
				}
				pi = idx
			}
			if ok && pi >= 0 {
				out[k] = pi
			}
		}
	}
	passThroughMemo[fn] = out
	return out
}

// optionSitesOfUnknownCallee: WithReuse(t) / WithIncr(t) / UseUnsafe() among the arguments of a call whose callee is
// not known are honoured by every gorgonia function that takes FuncOpts: the result is written into t (into the first
// argument for UseUnsafe) and aliases it.
func (e *e2) optionSitesOfUnknownCallee(f *ssa.Function, in ssa.CallInstruction, val ssa.Value) {
	args := in.Common().Args
	alias := tokset{}
	for oi, op := range args {
		for k := range e.get(op) {
			if !isOpt(k) {
				continue
			}
			rest := strings.TrimPrefix(k, "OPT:")
			j := strings.IndexByte(rest, ':')
			if j < 0 {
				continue
			}
			kind, inner := rest[:j], rest[j+1:]
			switch kind {
			case "reuse", "incr":
				e.recordSite(mutSite{fn: f, instr: in, what: "call of a function value+With" + strings.Title(kind), target: args[oi], levels: "D", viaOpt: kind})
				if kind == "reuse" && inner != "" {
					alias.add(inner)
				}
			case "unsafe":
				if len(args) > 0 {
					e.recordSite(mutSite{fn: f, instr: in, what: "call of a function value+UseUnsafe", target: args[0], levels: "D"})
					alias.addAll(withLevels(e.get(args[0]), "HD", false))
				}
			}
		}
	}
	if val != nil && len(alias) > 0 {
		ts := e.tupleOf(val, 2)
		if ts[0].addAll(alias) {
			e.changed = true
		}
	}
}
