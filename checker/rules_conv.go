package main

import (
	"fmt"
	"go/constant"
	"go/token"
	"go/types"
	"sort"
	"strings"

	"golang.org/x/tools/go/ssa"
)

// R11 — Conv geometry discipline (C05, C16).

// varargOrdered returns the values stored into a variadic backing array, by index.
func varargOrdered(v ssa.Value) []ssa.Value {
	sl, ok := v.(*ssa.Slice)
	if !ok {
		return nil
	}
	al, ok := sl.X.(*ssa.Alloc)
	if !ok {
		return nil
	}
	type iv struct {
		i int64
		v ssa.Value
	}
	var items []iv
	for _, ref := range *al.Referrers() {
		ia, ok := ref.(*ssa.IndexAddr)
		if !ok {
			continue
		}
		k, ok := constInt(ia.Index)
		if !ok {
			continue
		}
		for _, r2 := range *ia.Referrers() {
			if st, ok := r2.(*ssa.Store); ok && st.Addr == ia {
				items = append(items, iv{k, st.Val})
			}
		}
	}
	sort.Slice(items, func(i, j int) bool { return items[i].i < items[j].i })
	var out []ssa.Value
	for _, it := range items {
		out = append(out, it.v)
	}
	return out
}

// fieldElem: v == recv.<field>[k] (load), returns k.
func fieldElem(v ssa.Value, recv ssa.Value, field string) (int64, bool) {
	ld, ok := v.(*ssa.UnOp)
	if !ok || ld.Op != token.MUL {
		return 0, false
	}
	ia, ok := ld.X.(*ssa.IndexAddr)
	if !ok {
		return 0, false
	}
	k, ok := constInt(ia.Index)
	if !ok {
		return 0, false
	}
	l2, ok := ia.X.(*ssa.UnOp)
	if !ok {
		return 0, false
	}
	fa, ok := l2.X.(*ssa.FieldAddr)
	if !ok || fa.X != recv {
		return 0, false
	}
	_, st := structOfPtr(fa.X.Type())
	if st == nil || st.Field(fa.Field).Name() != field {
		return 0, false
	}
	return k, true
}

// shapeElem: v == Shape(t)[k] (load) for tensor value t (or a stored shape value), returns (t-or-shape, k).
func shapeElem(v ssa.Value) (ssa.Value, int64, bool) {
	ld, ok := v.(*ssa.UnOp)
	if !ok || ld.Op != token.MUL {
		return nil, 0, false
	}
	ia, ok := ld.X.(*ssa.IndexAddr)
	if !ok {
		return nil, 0, false
	}
	k, ok := constInt(ia.Index)
	if !ok {
		return nil, 0, false
	}
	sh := ia.X
	if ct, ok := sh.(*ssa.ChangeType); ok {
		sh = ct.X
	}
	if call, ok := sh.(*ssa.Call); ok {
		if name, recv := tensorMethod(call); name == "Shape" {
			return recv, k, true
		}
		return call, k, true // a shape computed by a helper (getOutputShape)
	}
	return sh, k, true
}

func ruleR11(c *Ctx, prop string) {
	oi := c.opByName("Conv")
	if oi == nil {
		c.undecided("R11", "R11:anchor", "", "Conv operator not found")
		return
	}
	c.checkConvBroadcasts(oi)
	// getSubImage by role: method (tensor, int, ...int) -> (tensor, error)
	var subImage *ssa.Function
	var loops []*ssa.Function
	for _, f := range c.libFns {
		if recvNamed(f) != oi.named || f.Parent() != nil {
			continue
		}
		if f.Signature.Variadic() && f.Signature.Params().Len() == 3 && isTensorish(f.Signature.Params().At(0).Type()) {
			subImage = f
		}
	}
	if subImage == nil {
		c.undecided("R11", "R11:K2:anchor", c.pos(oi.named.Obj().Pos()), "no window extractor (tensor, batch, coords...) method on Conv")
		return
	}
	for _, f := range c.libFns {
		if recvNamed(f) != oi.named {
			continue
		}
		for _, b := range f.Blocks {
			for _, in := range b.Instrs {
				if cl, ok := in.(*ssa.Call); ok && cl.Common().StaticCallee() == subImage {
					loops = append(loops, f)
				}
			}
		}
	}
	if len(loops) < 2 {
		c.undecided("R11", "R11:K2:floor", c.pos(subImage.Pos()), fmt.Sprintf("%d sliding-window functions (floor 2)", len(loops)))
	}
	full := prop == "C05"
	for _, f := range loops {
		c.checkConvLoops(f, subImage, full)
	}
	c.checkSubImage(subImage)
	if full || prop == "C16" {
		// C16: an index of the wrong kind reads the batch size or the channel count where a spatial extent is meant
		// (or the other way round): the result of one sample then depends on how many samples share the batch
		c.checkConvIndexKinds(oi)
	}
	if full {
		c.checkAutoPad(oi)
	}
}

func (c *Ctx) checkConvLoops(f, subImage *ssa.Function, full bool) {
	recv := ssa.Value(f.Params[0])
	xPar := ssa.Value(f.Params[1])
	kPar := ssa.Value(f.Params[2])
	var sub, setAt *ssa.Call
	var outShape ssa.Value
	for _, b := range f.Blocks {
		for _, in := range b.Instrs {
			cl, ok := in.(*ssa.Call)
			if !ok {
				continue
			}
			if cl.Common().StaticCallee() == subImage {
				sub = cl
			}
			if name, _ := tensorMethod(cl); name == "SetAt" {
				setAt = cl
			}
			if sc := cl.Common().StaticCallee(); sc != nil && recvNamed(sc) == recvNamed(f) && outShape == nil {
				if n, ok := sc.Signature.Results().At(0).Type().(*types.Named); ok && sc.Signature.Results().Len() == 1 && n.Obj().Name() == "Shape" {
					outShape = cl
				}
			}
		}
	}
	fn := fname(f)
	if sub == nil || setAt == nil || outShape == nil {
		c.undecided("R11", "R11:K2:"+fn, c.pos(f.Pos()), "sliding-window loop nest not recognised (window extraction, SetAt and output shape)")
		return
	}
	padded := sub.Common().Args[1]
	batch := sub.Common().Args[2]
	coords := varargOrdered(sub.Common().Args[3])
	var setArgs []ssa.Value
	if setAt.Common().IsInvoke() {
		setArgs = varargOrdered(setAt.Common().Args[1])
	} else {
		setArgs = varargOrdered(setAt.Common().Args[2])
	}
	if len(setArgs) != len(coords)+2 {
		c.violate("R11", "R11:K2:"+fn+":arity", c.pos(setAt.Pos()), fmt.Sprintf("the result is stored at %d coordinates for %d spatial axes", len(setArgs), len(coords)))
		return
	}
	isStride := func(v ssa.Value, k int64) bool {
		kk, ok := fieldElem(v, recv, "strides")
		return ok && kk == k
	}
	for k, ck := range coords {
		key := fmt.Sprintf("R11:K2:%s:axis%d", fn, k)
		phi, ok := ck.(*ssa.Phi)
		if !ok {
			c.violate("R11", key, c.pos(sub.Pos()), "window coordinate is not a loop variable")
			continue
		}
		bad := ""
		// init and step
		okInit, okStep := false, false
		for _, e := range phi.Edges {
			if z, isK := constInt(e); isK && z == 0 {
				okInit = true
				continue
			}
			if add, isAdd := e.(*ssa.BinOp); isAdd && add.Op == token.ADD && add.X == ssa.Value(phi) && isStride(add.Y, int64(k)) {
				okStep = true
			}
		}
		if !okInit || !okStep {
			bad = fmt.Sprintf("window start along spatial axis %d does not advance from 0 by strides[%d]", k, k)
		}
		// bound: ck < Shape(padded)[2+k]
		if bad == "" {
			okB := false
			hdr := phi.Block()
			if iff, isIf := hdr.Instrs[len(hdr.Instrs)-1].(*ssa.If); isIf {
				if bo, isB := iff.Cond.(*ssa.BinOp); isB && bo.Op == token.LSS && bo.X == ssa.Value(phi) {
					if t, idx, ok := shapeElem(bo.Y); ok && t == padded && idx == int64(2+k) {
						okB = true
					} else if ok {
						bad = fmt.Sprintf("the loop over spatial axis %d of the padded input is bounded by extent %d of %s instead of extent %d of the padded input: windows are missed (non-square inputs; padded positions beyond the unpadded extent) or read past the edge", k, idx, c.term(t, 0), 2+k)
					}
				}
			}
			if !okB && bad == "" {
				bad = fmt.Sprintf("loop over spatial axis %d is not bounded by the padded input's extent on that axis", k)
			}
		}
		// output index at SetAt position 2+k: ck / strides[k], compared with outputShape[2+k]
		if bad == "" {
			o := setArgs[2+k]
			q, isQ := o.(*ssa.BinOp)
			switch {
			case !isQ || q.Op != token.QUO || q.X != ssa.Value(phi):
				bad = fmt.Sprintf("output coordinate %d is not derived from the window start on spatial axis %d", 2+k, k)
			case !isStride(q.Y, int64(k)):
				bad = fmt.Sprintf("output index on spatial axis %d is the window start divided by a stride other than strides[%d]: with different strides per axis results are stored in the wrong column", k, k)
			default:
				okCmp := false
				for _, r := range *q.Referrers() {
					if bo, isB := r.(*ssa.BinOp); isB && (bo.Op == token.GEQ || bo.Op == token.LSS) && bo.X == ssa.Value(q) {
						if t, idx, ok := shapeElem(bo.Y); ok && t == outShape && idx == int64(2+k) {
							okCmp = true
						}
					}
				}
				if !okCmp {
					bad = fmt.Sprintf("output index on spatial axis %d is not limited by the output extent of that axis", k)
				}
			}
		}
		c.decide(bad == "", "R11", key, c.pos(phi.Pos()), fmt.Sprintf("axis %d: start += strides[%d] while < padded extent %d; out index = start/strides[%d] < output extent %d, stored at position %d", k, k, 2+k, k, 2+k, 2+k), bad)
	}
	// K3: batch and kernel pairing
	keyB := "R11:K3:" + fn + ":batch"
	bphi, ok := batch.(*ssa.Phi)
	bad := ""
	if !ok || setArgs[0] != batch {
		bad = "the sample index used to cut the window is not the sample index the result is stored under"
	} else {
		hdr := bphi.Block()
		okB := false
		if iff, isIf := hdr.Instrs[len(hdr.Instrs)-1].(*ssa.If); isIf {
			if bo, isB := iff.Cond.(*ssa.BinOp); isB && bo.Op == token.LSS && bo.X == ssa.Value(bphi) {
				if t, idx, ok := shapeElem(bo.Y); ok && t == xPar && idx == 0 {
					okB = true
				}
			}
		}
		if !okB {
			bad = "the batch loop does not run over extent 0 of the input"
		}
	}
	c.decide(bad == "", "R11", keyB, c.pos(sub.Pos()), "one loop variable over x.Shape()[0] selects the window's sample and the output's sample", bad)
	keyM := "R11:K3:" + fn + ":kernel"
	bad = ""
	mphi, ok := setArgs[1].(*ssa.Phi)
	if !ok {
		bad = "output channel index is not a loop variable"
	} else {
		// kernel.Slice(NewSlicer(m, m+1))
		okS := false
		for _, r := range *mphi.Referrers() {
			if cl, isC := r.(*ssa.Call); isC {
				if sc := cl.Common().StaticCallee(); sc != nil && sc.Name() == "NewSlicer" && cl.Common().Args[0] == ssa.Value(mphi) {
					els := varargOrdered(cl.Common().Args[1])
					if len(els) == 1 {
						if add, isA := els[0].(*ssa.BinOp); isA && add.Op == token.ADD && add.X == ssa.Value(mphi) {
							if one, isK := constInt(add.Y); isK && one == 1 {
								okS = true
							}
						}
					}
				}
			}
		}
		hdr := mphi.Block()
		okB := false
		if iff, isIf := hdr.Instrs[len(hdr.Instrs)-1].(*ssa.If); isIf {
			if bo, isB := iff.Cond.(*ssa.BinOp); isB && bo.Op == token.LSS && bo.X == ssa.Value(mphi) {
				if t, idx, ok := shapeElem(bo.Y); ok && t == kPar && idx == 0 {
					okB = true
				}
			}
		}
		if !okS || !okB {
			bad = "the kernel that is applied is not kernel[m:m+1] for the output channel m it is stored under, over all kernel.Shape()[0] kernels"
		}
	}
	c.decide(bad == "", "R11", keyM, c.pos(setAt.Pos()), "kernel[m:m+1] is applied and stored at output channel m for every m < kernel.Shape()[0]", bad)
}

// ---- K1: dimension-index kinds ----------------------------------------------------------------

type dimKind int

const (
	kUnknown dimKind = iota
	kFull            // full-rank shape / coordinate vector
	kSpatial         // per-spatial-axis list
	kPads            // 2 * spatial
)

func (k dimKind) String() string { return [...]string{"?", "FULL", "SPATIAL", "PADS"}[k] }

type idxKind int

const (
	iUnknown idxKind = iota
	iConst
	iNonSpatial
	iSpatial
	iSpatialOff // nNonSpatialDims + spatial
	iPadsTail   // spatial + nSpatial
	iFullRange
	iPadsRange
	iSpatialPlusConst // spatial + k for a constant k other than the non-spatial offset
)

func (k idxKind) String() string {
	return [...]string{"?", "CONST", "NONSPATIAL", "SPATIAL", "SPATIAL+2", "SPATIAL+nSpatial", "FULL-RANGE", "PADS-RANGE", "SPATIAL+const"}[k]
}

type kindCtx struct {
	c    *Ctx
	recv ssa.Value
	memo map[ssa.Value]dimKind
	fn   *ssa.Function
	// kinds of parameters / results of Conv methods, from the frozen table
	paramKind map[string]map[int]dimKind
	retKind   map[string]dimKind
}

func (k *kindCtx) sliceKind(v ssa.Value, depth int) dimKind {
	if depth > 8 {
		return kUnknown
	}
	if r, ok := k.memo[v]; ok {
		return r
	}
	k.memo[v] = kUnknown
	res := kUnknown
	switch x := v.(type) {
	case *ssa.ChangeType:
		res = k.sliceKind(x.X, depth+1)
	case *ssa.Call:
		if name, _ := tensorMethod(x); name == "Shape" || name == "Coord" {
			res = kFull
		} else if name == "Clone" {
			if len(x.Common().Args) > 0 {
				res = k.sliceKind(x.Common().Args[0], depth+1)
			}
		} else if sc := x.Common().StaticCallee(); sc != nil {
			if sc.Name() == "Clone" && fnPkgPath(sc) == pkgTensor && len(x.Common().Args) > 0 {
				res = k.sliceKind(x.Common().Args[0], depth+1)
			} else if rk, ok := k.retKind[convRole(sc)]; ok {
				res = rk
			}
		}
	case *ssa.Slice:
		base := k.sliceKind(x.X, depth+1)
		if base == kFull && x.Low != nil {
			if lo, ok := constInt(x.Low); ok && lo == 2 && x.High == nil {
				res = kSpatial
			}
		} else if x.Low == nil && x.High == nil {
			res = base
		}
	case *ssa.UnOp:
		if fa, ok := x.X.(*ssa.FieldAddr); ok && fa.X == k.recv {
			_, st := structOfPtr(fa.X.Type())
			switch st.Field(fa.Field).Name() {
			case "strides", "dilations", "kernelShape":
				res = kSpatial
			case "pads":
				res = kPads
			}
		}
	case *ssa.MakeSlice:
		res = k.lenKind(x.Len, depth+1)
	case *ssa.Parameter:
		for i, p := range k.fn.Params {
			if p == x {
				if pk, ok := k.paramKind[convRole(k.fn)]; ok {
					res = pk[i]
				}
			}
		}
	case *ssa.Phi:
		for _, e := range x.Edges {
			if r := k.sliceKind(e, depth+1); r != kUnknown {
				res = r
			}
		}
	}
	k.memo[v] = res
	return res
}

// lenKind: which list length does an int value denote (len(FULL) -> kFull etc.)?
func (k *kindCtx) lenKind(v ssa.Value, depth int) dimKind {
	if depth > 8 {
		return kUnknown
	}
	switch x := v.(type) {
	case *ssa.Call:
		if b, ok := x.Common().Value.(*ssa.Builtin); ok && b.Name() == "len" {
			return k.sliceKind(x.Common().Args[0], depth+1)
		}
	case *ssa.BinOp:
		if x.Op == token.SUB {
			if two, ok := constInt(x.Y); ok && two == 2 && k.lenKind(x.X, depth+1) == kFull {
				return kSpatial
			}
		}
		if x.Op == token.MUL {
			if two, ok := constInt(x.Y); ok && two == 2 && k.lenKind(x.X, depth+1) == kSpatial {
				return kPads
			}
			if two, ok := constInt(x.X); ok && two == 2 && k.lenKind(x.Y, depth+1) == kSpatial {
				return kPads
			}
		}
	case *ssa.Phi:
		return kUnknown
	}
	return kUnknown
}

func (k *kindCtx) indexKind(v ssa.Value, depth int) idxKind {
	if depth > 8 {
		return iUnknown
	}
	if _, ok := constInt(v); ok {
		return iConst
	}
	// loop variable
	loopBound := func(idx ssa.Value) (ssa.Value, bool) {
		hdr := loopHeaderOfIndex(idx)
		if hdr == nil {
			return nil, false
		}
		if iff, ok := hdr.Instrs[len(hdr.Instrs)-1].(*ssa.If); ok {
			if bo, ok := iff.Cond.(*ssa.BinOp); ok && bo.Op == token.LSS && (bo.X == idx) {
				return bo.Y, true
			}
		}
		return nil, false
	}
	if b, ok := loopBound(v); ok {
		if n, isK := constInt(b); isK && n == 2 {
			return iNonSpatial
		}
		switch k.lenKind(b, depth+1) {
		case kFull:
			return iFullRange
		case kSpatial:
			return iSpatial
		case kPads:
			return iPadsRange
		}
		return iUnknown
	}
	if bo, ok := v.(*ssa.BinOp); ok && bo.Op == token.ADD {
		// 2 + i  /  i + nSpatial
		if two, isK := constInt(bo.X); isK && two == 2 && k.indexKind(bo.Y, depth+1) == iSpatial {
			return iSpatialOff
		}
		if two, isK := constInt(bo.Y); isK && two == 2 && k.indexKind(bo.X, depth+1) == iSpatial {
			return iSpatialOff
		}
		if kk, isK := constInt(bo.Y); isK && kk != 2 && k.indexKind(bo.X, depth+1) == iSpatial {
			return iSpatialPlusConst
		}
		if kk, isK := constInt(bo.X); isK && kk != 2 && k.indexKind(bo.Y, depth+1) == iSpatial {
			return iSpatialPlusConst
		}
		if k.indexKind(bo.X, depth+1) == iSpatial && k.lenKind(bo.Y, depth+1) == kSpatial {
			return iPadsTail
		}
		if k.indexKind(bo.Y, depth+1) == iSpatial && k.lenKind(bo.X, depth+1) == kSpatial {
			return iPadsTail
		}
	}
	return iUnknown
}

var legalIndex = map[dimKind]map[idxKind]bool{
	kFull:    {iConst: true, iNonSpatial: true, iFullRange: true, iSpatialOff: true},
	kSpatial: {iConst: true, iSpatial: true},
	kPads:    {iConst: true, iSpatial: true, iPadsTail: true, iPadsRange: true},
}

func (c *Ctx) checkConvIndexKinds(oi *opInfo) {
	n, nUnknown := 0, 0
	perFn := map[string]int{}
	var fns []*ssa.Function
	for _, f := range c.libFns {
		if recvNamed(f) == oi.named && f.Parent() == nil {
			fns = append(fns, f)
		}
	}
	sort.Slice(fns, func(i, j int) bool { return fname(fns[i]) < fname(fns[j]) })
	for _, f := range fns {
		if len(f.Params) == 0 {
			continue
		}
		kc := &kindCtx{c: c, recv: f.Params[0], memo: map[ssa.Value]dimKind{}, fn: f,
			paramKind: map[string]map[int]dimKind{
				"getSubImage":               {3: kSpatial},
				"getNewCoordsAfterDilation": {1: kFull},
			},
			retKind: map[string]dimKind{"getOutputShape": kFull, "getNewCoordsAfterDilation": kFull}}
		for _, b := range f.Blocks {
			for _, in := range b.Instrs {
				ia, ok := in.(*ssa.IndexAddr)
				if !ok {
					continue
				}
				if _, isArr := ia.X.Type().Underlying().(*types.Pointer); isArr {
					continue // variadic backing arrays
				}
				sk := kc.sliceKind(ia.X, 0)
				if sk == kUnknown {
					continue
				}
				n++
				ik := kc.indexKind(ia.Index, 0)
				perFn[fname(f)]++
				key := fmt.Sprintf("R11:K1:%s#%d", fname(f), perFn[fname(f)])
				if ik == iUnknown {
					nUnknown++
					c.note("R11", key, c.pos(ia.Pos()), fmt.Sprintf("%s list indexed by an index of unclassified kind", sk))
					continue
				}
				if ik == iConst && (sk == kSpatial || sk == kPads) && kc.inSpatialLoop(b) {
					c.violate("R11", key, c.pos(ia.Pos()), fmt.Sprintf("inside a loop over the spatial axes a %s list is read at a fixed position: every axis gets the value of one axis (wrong as soon as strides/kernel/pads differ per axis)", sk))
					continue
				}
				c.decide(legalIndex[sk][ik], "R11", key, c.pos(ia.Pos()), fmt.Sprintf("%s[%s]", sk, ik),
					kindMismatchWhy(sk, ik))
			}
		}
	}
	c.counts["R11.K1.index_expressions"] = n
	c.counts["R11.K1.unclassified"] = nUnknown
	if n < 30 {
		c.undecided("R11", "R11:K1:floor", "", fmt.Sprintf("only %d classified index expressions in Conv's methods (floor 30)", n))
	}
}

// ---- K4: auto_pad exhaustiveness ---------------------------------------------------------------

func (c *Ctx) checkAutoPad(oi *opInfo) {
	p := c.pkgByPath[pkgOpset13]
	var named *types.Named
	consts := map[string]string{} // const name -> value
	sc := p.Types.Scope()
	for _, nm := range sc.Names() {
		k, ok := sc.Lookup(nm).(*types.Const)
		if !ok {
			continue
		}
		n, ok := k.Type().(*types.Named)
		if !ok || n.Obj().Name() != "AutoPadSetting" {
			continue
		}
		named = n
		consts[nm] = constant.StringVal(k.Val())
	}
	if named == nil || len(consts) < 4 {
		c.undecided("R11", "R11:K4:anchor", "", "AutoPadSetting constants not found")
		return
	}
	// which values is the autoPad field compared with, anywhere in Conv's methods?
	compared := map[string]bool{}
	validated := false
	applyReach := c.reachFrom([]*ssa.Function{oi.methods["Apply"]})
	for _, f := range c.libFns {
		if recvNamed(f) != oi.named || !applyReach[f] {
			continue
		}
		for _, b := range f.Blocks {
			for _, in := range b.Instrs {
				bo, ok := in.(*ssa.BinOp)
				if !ok || (bo.Op != token.EQL && bo.Op != token.NEQ) {
					continue
				}
				for _, side := range [][2]ssa.Value{{bo.X, bo.Y}, {bo.Y, bo.X}} {
					k, isK := side[1].(*ssa.Const)
					if !isK || k.Value == nil || k.Value.Kind() != constant.String {
						continue
					}
					if !types.Identical(side[0].Type(), named) {
						continue
					}
					compared[constant.StringVal(k.Value)] = true
				}
			}
		}
	}
	// a membership test that rejects unknown values: an If on autoPad comparisons whose all-false edge rejects, in Init
	init := oi.methods["Init"]
	for _, b := range init.Blocks {
		if len(b.Instrs) == 0 {
			continue
		}
		if iff, ok := b.Instrs[len(b.Instrs)-1].(*ssa.If); ok {
			if bo, ok := iff.Cond.(*ssa.BinOp); ok && types.Identical(bo.X.Type(), named) {
				if (bo.Op == token.EQL && c.edgeRejects(iff, false)) || (bo.Op == token.NEQ && c.edgeRejects(iff, true)) {
					validated = true
				}
			}
		}
	}
	var names []string
	for nm := range consts {
		names = append(names, nm)
	}
	sort.Strings(names)
	var merged []string
	for _, nm := range names {
		if !compared[consts[nm]] {
			merged = append(merged, consts[nm])
		}
	}
	// one uncompared constant may be the "else" class; two or more share one behaviour
	if len(merged) <= 1 {
		c.discharge("R11", "R11:K4:autopad:distinguished", c.pos(oi.methods["Apply"].Pos()), "every auto_pad mode is told apart (at most one is the else-class)")
	} else {
		c.violate("R11", "R11:K4:autopad:"+strings.Join(merged, "~"), c.pos(oi.methods["Apply"].Pos()),
			"auto_pad modes "+strings.Join(merged, " and ")+" are never compared against: they are computed by the same code path, so one of them (VALID means no padding) gets the other's padding instead of being implemented or refused")
	}
	if !validated {
		// however the membership test is written: Init walked for declared and undeclared auto_pad strings
		if known, ok := c.autoPadTable(oi); known {
			validated = ok
		}
	}
	c.decide(validated, "R11", "R11:K4:autopad:unknown-refused", c.pos(init.Pos()), "an auto_pad string outside the declared modes is refused at Init",
		"an auto_pad value outside NOTSET/SAME_UPPER/SAME_LOWER/VALID is not refused: it silently gets the else-class padding")
}

// checkSubImage: the window extractor slices axis 0 at [batch, batch+1), takes every channel, and
// axis 2+i at [start_i, start_i + kernelShape[i]).
func (c *Ctx) checkSubImage(f *ssa.Function) {
	key := "R11:K3:" + fname(f) + ":slicers"
	var terms []string
	for _, b := range f.Blocks {
		for _, in := range b.Instrs {
			if cl, ok := in.(*ssa.Call); ok {
				if sc := cl.Common().StaticCallee(); sc != nil && sc.Name() == "NewSlicer" {
					terms = append(terms, c.term(cl, 0))
				}
			}
		}
	}
	okBatch, okSpatial := false, false
	for _, t := range terms {
		if t == "NewSlicer(P2,(P2+1))" {
			okBatch = true
		}
		if strings.HasPrefix(t, "NewSlicer(P3[") && strings.Contains(t, "+.kernelShape[") {
			okSpatial = true
		}
	}
	why := ""
	if !okBatch {
		why = "the window is not cut at [batch, batch+1) on axis 0 with the sample index it was asked for: every sample's output is computed from another (fixed) sample"
	} else if !okSpatial {
		why = "the window is not [start_i, start_i+kernelShape[i]) on the spatial axes"
	}
	c.decide(why == "", "R11", key, c.pos(f.Pos()), "slicers: [batch,batch+1), all channels, [start_i, start_i+kernel_i)", why+" (slicers: "+strings.Join(terms, "; ")+")")
}

// inSpatialLoop: block b lies in a loop whose induction variable ranges over the spatial axes.
func (k *kindCtx) inSpatialLoop(b *ssa.BasicBlock) bool {
	for _, h := range k.fn.Blocks {
		isHdr := false
		for _, p := range h.Preds {
			if h.Dominates(p) {
				isHdr = true
			}
		}
		if !isHdr || !h.Dominates(b) || h == b {
			continue
		}
		if !loopBlocks(h)[b] {
			continue
		}
		for _, in := range h.Instrs {
			if phi, ok := in.(*ssa.Phi); ok && isIntType(phi.Type()) {
				if k.indexKind(phi, 0) == iSpatial {
					return true
				}
				// range-style: phi + 1 is the index
				for _, r := range *phi.Referrers() {
					if bo, ok := r.(*ssa.BinOp); ok && bo.Op == token.ADD && k.indexKind(bo, 0) == iSpatial {
						return true
					}
				}
			}
		}
	}
	return false
}

func kindMismatchWhy(sk dimKind, ik idxKind) string {
	switch sk {
	case kFull:
		return fmt.Sprintf("a FULL list (one entry per tensor axis N,C,H,W..) is indexed with a %s index: spatial axis i of a tensor is axis 2+i of its shape, so this reads the batch/channel extents instead of the spatial ones (invisible on square fixtures)", ik)
	case kSpatial:
		return fmt.Sprintf("a SPATIAL list (one entry per spatial axis: strides, dilations, kernel shape) is indexed with a %s index: the entry of another axis (or none) is read", ik)
	default:
		return fmt.Sprintf("the pads list [x1_begin.., x1_end..] is indexed with a %s index: begin/end paddings of different axes are mixed", ik)
	}
}

// convRole names a method of the Conv operator by what it is, not by what it is called (a rename must not
// make the geometry rules lose their anchors): the signature of each helper is unique among Conv's methods.
func convRole(f *ssa.Function) string {
	if f == nil || f.Signature.Recv() == nil {
		if f != nil {
			return f.Name()
		}
		return ""
	}
	sig := f.Signature
	isInts := func(t types.Type) bool {
		sl, ok := t.Underlying().(*types.Slice)
		return ok && isIntType(sl.Elem())
	}
	np, nr := sig.Params().Len(), sig.Results().Len()
	switch {
	case np == 1 && nr == 1 && isInts(sig.Params().At(0).Type()) && isInts(sig.Results().At(0).Type()):
		return "getNewCoordsAfterDilation"
	case np == 2 && nr == 1 && isTensorish(sig.Params().At(0).Type()) && isTensorish(sig.Params().At(1).Type()) && isInts(sig.Results().At(0).Type()):
		return "getOutputShape"
	case np == 1 && nr == 2 && isTensorish(sig.Params().At(0).Type()) && isTensorish(sig.Results().At(0).Type()) && isErrorType(sig.Results().At(1).Type()) && callsNewDenseAndIterator(f):
		return "getDilatedKernel"
	case np == 3 && nr == 2 && sig.Variadic() && isTensorish(sig.Params().At(0).Type()) && isIntType(sig.Params().At(1).Type()):
		return "getSubImage"
	}
	return f.Name()
}

// callsNewDenseAndIterator: the dilation step builds a new dense kernel and walks the old one with an iterator
// (padInput has the same signature but neither).
func callsNewDenseAndIterator(f *ssa.Function) bool {
	newDense, iter := false, false
	for _, b := range f.Blocks {
		for _, in := range b.Instrs {
			if cl, ok := in.(*ssa.Call); ok {
				if sc := cl.Common().StaticCallee(); sc != nil && sc.Name() == "NewDense" {
					newDense = true
				}
				if nm, _ := tensorMethod(cl); nm == "Iterator" {
					iter = true
				}
			}
		}
	}
	return newDense && iter
}

// autoPadTable walks Conv.Init with the single attribute auto_pad = s: the four declared modes are accepted,
// other strings refused. known=false when a walk cannot be followed.
func (c *Ctx) autoPadTable(oi *opInfo) (known, ok bool) {
	st := c.libInit()
	onnxPkg := c.pkgByPath[pkgOnnx]
	init := oi.methods["Init"]
	if len(st.failed) > 0 || onnxPkg == nil || init == nil {
		return false, false
	}
	for _, cell := range []struct {
		s      string
		refuse bool
	}{{"NOTSET", false}, {"SAME_UPPER", false}, {"SAME_LOWER", false}, {"VALID", false}, {"NO_SUCH_MODE", true}, {"", true}, {"same_upper", true}, {"SAME", true}} {
		heap := st.heap.clone()
		b := &rtBuilder{c: c, heap: heap, onnx: onnxPkg.Types}
		at := b.obj(onnxPkg.Types, "AttributeProto", map[string]pval{"Name": {k: pStr, s: "auto_pad"}, "S": {k: pStr, s: cell.s}})
		node := b.obj(onnxPkg.Types, "NodeProto", map[string]pval{"Attribute": b.list(at)})
		recv := heap.newObj(oi.named)
		p := &pinterp{c: c, budget: 100000, objects: true, globals: st.globals}
		res, _ := p.run(init, []pval{recv, node}, 0, heap)
		if p.aborted || len(res) != 1 {
			return false, false
		}
		switch {
		case nonNilKind(res[0].k):
			if !cell.refuse {
				// a declared mode that Init refuses is a refusal the property allows ("implemented or refused")
				continue
			}
		case res[0].k == pNil:
			if cell.refuse {
				return true, false
			}
		default:
			return false, false
		}
	}
	return true, true
}

// checkConvBroadcasts (K10): the window and the kernel slice (and the output and the bias) are paired by the
// unidirectional helper with the data operand first: its shape is the reference. The multidirectional helper pads
// a window that lost an axis (gorgonia drops sliced unit extents) on the left and stretches BOTH operands, which
// turns a geometry the operator does not implement into a sum over channel pairs instead of a refusal.
func (c *Ctx) checkConvBroadcasts(oi *opInfo) {
	apply := oi.methods["Apply"]
	if apply == nil {
		return
	}
	key := "R11:K10:broadcast"
	bad, site, n := "", c.pos(apply.Pos()), 0
	for f := range c.reachFrom([]*ssa.Function{apply}) {
		if !isLibFn(f) || fnPkgPath(f) != pkgOpset13 {
			continue
		}
		if rn := recvNamed(f); rn != nil && rn != oi.named {
			continue // another operator reached through the call graph's over-approximation
		}
		for _, b := range f.Blocks {
			for _, in := range b.Instrs {
				cl, ok := in.(*ssa.Call)
				if !ok {
					continue
				}
				sc := cl.Common().StaticCallee()
				if sc == nil || fnPkgPath(sc) != pkgOps || sc.Parent() != nil {
					continue
				}
				switch sc.Name() {
				case "MultidirectionalBroadcast":
					bad, site = "Conv pairs its operands with the multidirectional broadcast helper: both operands are stretched, a window that lost a unit axis is padded on the left - unsupported geometries are computed differently instead of being refused", c.pos(cl.Pos())
				case "UnidirectionalBroadcast":
					n++
				}
			}
		}
	}
	if bad == "" && n == 0 {
		c.note("R11", key, site, "Conv no longer uses the broadcast helpers of package ops")
		return
	}
	c.decide(bad == "", "R11", key, site, fmt.Sprintf("%d pairings, all by the unidirectional helper", n), bad)
}
