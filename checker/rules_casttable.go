package main

// Cast by finite table (C11): ops.ConvertTensorDtype walked with an abstract tensor of every numeric element type
// (its data a list of token elements behind an interface) and every ONNX data type code as the target. A numeric
// target gives a tensor of the input's shape whose backing holds, position by position, the input's elements after
// exactly one conversion to the target's Go type (none for the same type); every other target, and every other
// source type, is refused - never a panic. How the dispatch is written does not matter.

import (
	"fmt"
	"go/types"
	"strings"

	"golang.org/x/tools/go/ssa"
)

type castTableRes struct {
	known bool
	bads  map[string]string // "target:<ONNX name>", "target:default", "source:<Dtype name>", "source:default", "direct", "shape", "elementwise"
	cells int
}

func (c *Ctx) castTable() castTableRes {
	if c.castMemo != nil {
		return *c.castMemo
	}
	r := c.castTable1()
	c.castMemo = &r
	return r
}

func (c *Ctx) castTable1() castTableRes {
	var conv *ssa.Function
	for _, f := range c.libFns {
		if fnPkgPath(f) == pkgOps && f.Parent() == nil && f.Signature.Recv() == nil && f.Name() == "ConvertTensorDtype" {
			conv = f
		}
	}
	st := c.libInit()
	if conv == nil || len(conv.Params) != 2 || len(st.failed) > 0 {
		return castTableRes{}
	}
	out := castTableRes{bads: map[string]string{}}
	setBad := func(k, v string) {
		if out.bads[k] == "" {
			out.bads[k] = v
		}
	}
	basic := map[string]types.BasicKind{"float32": types.Float32, "float64": types.Float64, "int8": types.Int8, "int16": types.Int16, "int32": types.Int32, "int64": types.Int64,
		"uint8": types.Uint8, "uint16": types.Uint16, "uint32": types.Uint32, "uint64": types.Uint64, "bool": types.Bool, "string": types.String, "complex64": types.Complex64}
	sources := []string{"Float32", "Float64", "Int8", "Int16", "Int32", "Int64", "Uint8", "Uint16", "Uint32", "Uint64", "Bool", "String", "Complex64"}
	cov := newCover(conv)
	for _, src := range sources {
		dt, ok := c.dtypeToken(src)
		if !ok {
			return castTableRes{}
		}
		srcGo, numericSrc := dtypeGo[src]
		if !numericSrc {
			srcGo = strings.ToLower(src)
		}
		for code := int64(-1); code <= 17; code++ {
			tname, known := c.enumName(code)
			if !known {
				tname = "default"
			}
			tgtGo, numericTgt := onnxNumeric[tname]
			heap := st.heap.clone()
			data := heap.alloc([]pval{{k: pTok, i: 0, s: "src"}, {k: pTok, i: 1, s: "src"}, {k: pTok, i: 2, s: "src"}})
			shape := heap.alloc([]pval{{k: pInt, i: 3}})
			in := pval{k: pAbs, i: 9101, s: "tensor"}
			p := &pinterp{c: c, budget: 300000, objects: true, globals: st.globals, cover: cov, listsAreSlicesOf: types.Typ[basic[srcGo]]}
			panicked := ""
			p.onPanic = func(fn *ssa.Function, instr ssa.Instruction, what string) { panicked = what }
			p.onInvoke = func(fn *ssa.Function, call *ssa.Call, recv pval, method string, args []pval, h *pheap) ([]pval, bool) {
				if recv.k != pAbs || recv.i != in.i {
					return nil, false
				}
				switch method {
				case "Dtype":
					return []pval{dt}, true
				case "Data":
					return []pval{data}, true
				case "Shape":
					return []pval{shape}, true
				}
				return nil, false
			}
			var backing []pval
			var shapeArg []pval
			nNew := 0
			p.extModel = func(key string, call *ssa.Call, ops []pval, h *pheap) ([]pval, bool) {
				switch key {
				case pkgTensor + ".WithBacking":
					if len(ops) >= 1 && ops[0].k == pList {
						backing = append([]pval{}, h.lists[ops[0].i]...)
					}
					return []pval{{k: pAbs, i: 1, s: "option"}}, true
				case pkgTensor + ".WithShape":
					if len(ops) == 1 && ops[0].k == pList {
						shapeArg = append([]pval{}, h.lists[ops[0].i]...)
					}
					return []pval{{k: pAbs, i: 2, s: "option"}}, true
				case pkgTensor + ".New":
					nNew++
					return []pval{{k: pAbs, i: 3, s: "tensor"}}, true
				}
				return nil, false
			}
			res, _ := p.run(conv, []pval{in, {k: pInt, i: code}}, 0, heap)
			desc := fmt.Sprintf("Cast of a %s tensor to %s (%d)", srcGo, tname, code)
			if panicked != "" {
				setBad("source:"+src, desc+" panics: "+panicked)
				if !numericSrc {
					setBad("source:default", desc+" panics: "+panicked)
				}
				out.cells++
				continue
			}
			if p.aborted || len(res) != 2 {
				return castTableRes{}
			}
			refused := nonNilKind(res[1].k)
			accepted := res[1].k == pNil || (res[1].k == pUnknown && nNew == 1 && res[0].k == pAbs)
			if !refused && !accepted {
				return castTableRes{}
			}
			out.cells++
			switch {
			case !numericSrc:
				if accepted {
					setBad("source:default", desc+" is computed: a non-numeric source is not refused")
				}
			case !numericTgt:
				if accepted {
					setBad("target:"+tname, desc+" is computed: the target is not a numeric type and must be refused")
				}
			case refused:
				setBad("target:"+tname, desc+" is refused")
				setBad("source:"+src, desc+" is refused")
			default:
				if len(shapeArg) != 1 || shapeArg[0].k != pInt || shapeArg[0].i != 3 {
					setBad("shape", desc+": the result is not built with the input's shape")
				}
				if len(backing) != 3 {
					setBad("elementwise", fmt.Sprintf("%s: %d input elements give %d output elements", desc, 3, len(backing)))
					continue
				}
				for i, e := range backing {
					if e.k != pTok {
						return castTableRes{}
					}
					if e.i != int64(i) {
						setBad("elementwise", fmt.Sprintf("%s: output element %d is input element %d", desc, i, e.i))
						continue
					}
					var convs []string
					other := false
					for _, stp := range strings.Split(e.s, "|")[1:] {
						if strings.HasPrefix(stp, "conv:") {
							convs = append(convs, strings.TrimPrefix(stp, "conv:"))
						} else if stp != "" {
							other = true
						}
					}
					switch {
					case other:
						setBad("elementwise", fmt.Sprintf("%s: the elements are not only converted (operations %q)", desc, e.s))
					case len(convs) == 0 && srcGo != tgtGo:
						setBad("target:"+tname, fmt.Sprintf("%s: the elements are not converted to %s", desc, tgtGo))
					case len(convs) >= 1 && convs[len(convs)-1] != tgtGo:
						setBad("target:"+tname, fmt.Sprintf("%s produces elements of type %q instead of %s: wrong element width or signedness", desc, convs[len(convs)-1], tgtGo))
					case len(convs) > 1:
						setBad("direct", fmt.Sprintf("%s: the values pass through %s before the target conversion, which is not exact for every source value", desc, strings.Join(convs[:len(convs)-1], ", ")))
					}
				}
			}
		}
	}
	if len(out.bads) == 0 {
		if unc := cov.uncovered(c); len(unc) > 0 {
			c.declined("Cast table", unc)
			return castTableRes{}
		}
	}
	out.known = true
	return out
}
