package main

import (
	"fmt"
	"go/constant"
	"go/token"
	"go/types"
	"sort"
	"strings"

	"golang.org/x/tools/go/ssa"
)

// R16 — affine operators' dependency shape (C04): Gemm, Scaler, LinearRegressor, MatMul.

// successTerms renders, for every success return of Apply, the single output tensor as a term,
// together with the nil-ness facts about optional inputs known on that path.
func (c *Ctx) successTerms(apply *ssa.Function) []string {
	var out []string
	// a method that only hands its operands and attributes to an unexported helper and returns what the helper
	// returns: the helper's result paths, with its parameters standing for the arguments
	if h, args := c.pureDelegate(apply); h != nil && len(c.termSubst) < 3 && c.expandHelpers {
		subst := map[*ssa.Parameter]string{}
		for i, p := range h.Params {
			if i < len(args) {
				subst[p] = c.term(args[i], 0)
			}
		}
		c.termSubst = append(c.termSubst, subst)
		defer func() { c.termSubst = c.termSubst[:len(c.termSubst)-1] }()
		return c.successTerms(h)
	}
	guardOf := func(b *ssa.BasicBlock) string {
		guard := ""
		for _, g := range guardsOf(b) {
			for _, a := range atomsOf(g) {
				if isNilConst(a.y) && (a.op == token.EQL || a.op == token.NEQ) {
					if t := c.term(a.x, 0); strings.HasPrefix(t, "P1[") || strings.HasPrefix(t, ".") {
						guard += "[" + t + a.op.String() + "nil]"
					}
				}
			}
		}
		return guard
	}
	// the single output computed by an unexported helper: the helper's result paths stand for it
	viaHelper := func(e ssa.Value) ([]string, bool) {
		ex, ok := e.(*ssa.Extract)
		if !ok || ex.Index != 0 || len(c.termSubst) >= 3 || !c.expandHelpers {
			return nil, false
		}
		call, ok := ex.Tuple.(*ssa.Call)
		if !ok {
			return nil, false
		}
		h := call.Common().StaticCallee()
		if h == nil || !isLibFn(h) || len(h.Blocks) == 0 || !inlineableHelper(h) || h.Signature.Results().Len() != 2 || !isTensorish(h.Signature.Results().At(0).Type()) {
			return nil, false
		}
		subst := map[*ssa.Parameter]string{}
		for i, p := range h.Params {
			if i < len(call.Common().Args) {
				subst[p] = c.term(call.Common().Args[i], 0)
			}
		}
		c.termSubst = append(c.termSubst, subst)
		defer func() { c.termSubst = c.termSubst[:len(c.termSubst)-1] }()
		return c.successTerms(h), true
	}
	for _, r := range returnsOf(apply) {
		if len(r.Results) != 2 || !isNilConst(r.Results[1]) && !c.errIsCallErr(r.Results[1]) {
			continue
		}
		sl, ok := r.Results[0].(*ssa.Slice)
		if !ok {
			if !isNilConst(r.Results[0]) {
				if isTensorish(r.Results[0].Type()) {
					out = append(out, guardOf(r.Block())+c.term(r.Results[0], 0))
				} else {
					out = append(out, c.term(r.Results[0], 0))
				}
			}
			continue
		}
		els := varargElems(sl)
		if len(els) == 1 {
			if sub, ok := viaHelper(els[0]); ok && len(sub) > 0 {
				g := guardOf(r.Block())
				for _, t := range sub {
					out = append(out, g+t)
				}
				continue
			}
		}
		var parts []string
		for _, e := range els {
			parts = append(parts, c.term(e, 0))
		}
		out = append(out, guardOf(r.Block())+strings.Join(parts, ";"))
	}
	return out
}

// errIsCallErr: the returned error is the error result of the call that produced the output (return x, err forms).
func (c *Ctx) errIsCallErr(v ssa.Value) bool {
	if ex, ok := v.(*ssa.Extract); ok {
		_, isCall := ex.Tuple.(*ssa.Call)
		return isCall
	}
	return false
}

func ruleR16(c *Ctx, prop string) {
	want := map[string][]string{
		"Gemm": {
			"[P1[2]==nil]Mul(MatMul(A,B),.alpha)",
			"[P1[2]!=nil]Add(UnidirectionalBroadcast(Mul(MatMul(A,B),.alpha),Mul(P1[2],.beta)),UnidirectionalBroadcast(Mul(MatMul(A,B),.alpha),Mul(P1[2],.beta))#1)",
		},
		"Scaler": {
			"Mul(UnidirectionalBroadcast(Sub(UnidirectionalBroadcast(P1[0],.offset),UnidirectionalBroadcast(P1[0],.offset)#1),.scale),UnidirectionalBroadcast(Sub(UnidirectionalBroadcast(P1[0],.offset),UnidirectionalBroadcast(P1[0],.offset)#1),.scale)#1)",
		},
		"LinearRegressor": {
			"[.intercepts==nil]MatMul(P1[0],.coefficients)",
			"[.intercepts!=nil]Add(UnidirectionalBroadcast(MatMul(P1[0],.coefficients),.intercepts),UnidirectionalBroadcast(MatMul(P1[0],.coefficients),.intercepts)#1)",
		},
	}
	c.expandHelpers = true
	defer func() { c.expandHelpers = false }()
	for _, name := range []string{"Gemm", "Scaler", "LinearRegressor"} {
		oi := c.opByName(name)
		key := "R16:shape:" + name
		if oi == nil {
			c.undecided("R16", key, "", "operator not found")
			continue
		}
		apply := oi.methods["Apply"]
		got := c.successTerms(apply)
		for i := range got {
			got[i] = strings.ReplaceAll(got[i], "phi(P1[0]|Transpose(P1[0]))", "A")
			got[i] = strings.ReplaceAll(got[i], "phi(P1[1]|Transpose(P1[1]))", "B")
		}
		ok := len(got) == len(want[name])
		if ok {
			for _, w := range want[name] {
				found := false
				for _, g := range got {
					if g == w {
						found = true
					}
				}
				ok = ok && found
			}
		}
		whyBad := fmt.Sprintf("%s's result paths do not have the ONNX dependency shape; computed: %s ; expected: %s", name, strings.Join(got, "  |  "), strings.Join(want[name], "  |  "))
		if !ok {
			// however Apply is factored: the output as a term over abstract operands, compared with the definition
			if known, tbad, cells := c.affineTable(name); known {
				ok, whyBad = tbad == "", tbad
				if ok {
					c.counts["R16.affine_table_cells"] += cells
				}
			}
		}
		c.decide(ok, "R16", key, c.pos(apply.Pos()), name+" returns exactly "+strings.Join(want[name], "  |  "), whyBad)
	}
	// Gemm: transposes are conditional on their own flag
	if oi := c.opByName("Gemm"); oi != nil {
		apply := oi.methods["Apply"]
		ok, why := true, ""
		for _, b := range apply.Blocks {
			for _, in := range b.Instrs {
				cl, isC := in.(*ssa.Call)
				if !isC {
					continue
				}
				sc := cl.Common().StaticCallee()
				if sc == nil || sc.Name() != "Transpose" || fnPkgPath(sc) != pkgTensor {
					continue
				}
				which := ""
				if sameInputLoad(cl.Common().Args[0], apply.Params[1], 0) {
					which = "transA"
				} else if sameInputLoad(cl.Common().Args[0], apply.Params[1], 1) {
					which = "transB"
				}
				flagOK := false
				for _, g := range guardsOf(b) {
					if ld, isLd := stripNot(g.cond).(*ssa.UnOp); isLd {
						if fa, isFA := ld.X.(*ssa.FieldAddr); isFA && fa.X == ssa.Value(apply.Params[0]) {
							_, st := structOfPtr(fa.X.Type())
							if st.Field(fa.Field).Name() == which && g.truth != isNegated(g.cond) {
								flagOK = true
							}
						}
					}
				}
				if which == "" || !flagOK {
					ok, why = false, "a transpose is applied to the wrong operand or under the wrong flag"
				}
			}
		}
		c.decide(ok, "R16", "R16:gemm:transpose-flags", c.pos(apply.Pos()), "inputs[0] is transposed exactly under transA, inputs[1] exactly under transB", why)
	}
	// LinearRegressor: coefficients reshaped to (targets, n/targets) then transposed, in Init
	if oi := c.opByName("LinearRegressor"); oi != nil {
		init := oi.methods["Init"]
		var reshape, tr *ssa.Call
		for _, b := range init.Blocks {
			for _, in := range b.Instrs {
				if cl, isC := in.(*ssa.Call); isC {
					switch name, _ := tensorMethod(cl); name {
					case "Reshape":
						reshape = cl
					case "T":
						tr = cl
					}
				}
			}
		}
		ok := reshape != nil && tr != nil && instrBefore(reshape, tr)
		why := "coefficients are not reshaped to (targets, features) and then transposed"
		if ok {
			args := varargElems(reshape.Common().Args[len(reshape.Common().Args)-1])
			if len(args) != 2 || c.term(args[0], 0) != ".targets" || !strings.Contains(c.term(args[1], 0), "/.targets") {
				ok = false
				why = "coefficients reshaped to " + fmt.Sprint(len(args)) + " dims that are not (targets, n/targets)"
			}
		}
		c.decide(ok, "R16", "R16:linreg:coefficients-layout", c.pos(init.Pos()), "coefficients.Reshape(targets, n/targets) then T(): X (N,F) x (F,targets)", why)
	}
	// MatMul: the batch-broadcast loop never visits the two matrix axes; promotions undone in reverse
	if oi := c.opByName("MatMul"); oi != nil {
		c.checkMatMul(oi)
	}
}

func (c *Ctx) checkMatMul(oi *opInfo) {
	apply := oi.methods["Apply"]
	// the broadcast helper: method with Repeat sites
	var bc *ssa.Function
	for f := range c.reachFrom([]*ssa.Function{apply}) {
		if recvNamed(f) != oi.named {
			continue
		}
		for _, b := range f.Blocks {
			for _, in := range b.Instrs {
				if cl, ok := in.(*ssa.Call); ok {
					if o := calleeObj(cl); o != nil && qualName(o) == pkgTensor+".Repeat" {
						if bc == nil || f.Pos() < bc.Pos() {
							bc = f // the first in source order: the verdict must not depend on the iteration order of a map
						}
					}
				}
			}
		}
	}
	key := "R16:matmul:batch-axes-only"
	if bc == nil {
		c.undecided("R16", key, c.pos(apply.Pos()), "no batch broadcasting step with Repeat found in MatMul")
		return
	}
	// the axis of every Repeat is a loop variable that starts at len(shape) - 3 and counts down to 0
	ok, why := true, ""
	for _, b := range bc.Blocks {
		for _, in := range b.Instrs {
			cl, isC := in.(*ssa.Call)
			if !isC {
				continue
			}
			if o := calleeObj(cl); o == nil || qualName(o) != pkgTensor+".Repeat" {
				continue
			}
			axis, isPhi := cl.Common().Args[1].(*ssa.Phi)
			if !isPhi {
				ok, why = false, "Repeat axis is not the loop variable"
				continue
			}
			startOK, stepOK, condOK := false, false, false
			if hdr := axis.Block(); len(hdr.Instrs) > 0 {
				if iff, isIf := hdr.Instrs[len(hdr.Instrs)-1].(*ssa.If); isIf {
					if bo, isB := iff.Cond.(*ssa.BinOp); isB && bo.X == ssa.Value(axis) {
						if k, isK := constInt(bo.Y); isK && (bo.Op == token.GEQ && k == 0 || bo.Op == token.GTR && k == -1) {
							condOK = true
						}
					}
				}
			}
			for _, e := range axis.Edges {
				if bo, isB := e.(*ssa.BinOp); isB && bo.Op == token.SUB {
					if k, isK := constInt(bo.Y); isK && k == 3 {
						if lc, isL := bo.X.(*ssa.Call); isL {
							if bi, isBi := lc.Common().Value.(*ssa.Builtin); isBi && bi.Name() == "len" {
								startOK = true
							}
						}
					}
					if k, isK := constInt(bo.Y); isK && k == 1 && bo.X == ssa.Value(axis) {
						stepOK = true // decrement
					}
				}
			}
			// nMatrixDims is a local constant 3: `len(shapeA) - nMatrixDims`
			if !startOK || !stepOK || !condOK {
				ok, why = false, fmt.Sprintf("the batch loop does not walk exactly the batch axes len(shape)-3, ..., 0 (start=%v step=%v bound=%v): a matrix axis would be stretched (an (..,1,K) operand tiled instead of multiplied), or batch axes that both operands have are neither stretched nor checked for compatibility", startOK, stepOK, condOK)
			}
		}
	}
	c.decide(ok, "R16", key, c.pos(bc.Pos()), "batch broadcasting walks the axes len-3 down to 0: every batch axis and never a matrix axis", why)

	// vector promotions: A (n) -> (1,n) prepended; B (n) -> (n,1) appended; each is undone on its own
	nMM := len(c.obls)
	c.checkMatMulUnpromote(apply)
	c.checkBatchedMatMul(oi)
	// the result shapes over a finite table of operand shapes, however promotion and batching are written
	if known, bad, cells := c.matmulTable(apply); known {
		if bad != "" {
			c.violate("R16", "R16:matmul:shape-table", c.pos(apply.Pos()), bad)
		} else {
			c.discharge("R16", "R16:matmul:shape-table", c.pos(apply.Pos()), fmt.Sprintf("%d pairs of operand shapes (rank 1..4, non-square, batch axes equal / 1 / missing, incompatible ones): numpy.matmul's shape or a refusal", cells))
			for i := nMM; i < len(c.obls); i++ {
				o := &c.obls[i]
				if (o.Status == StViolated || o.Status == StUndecided) && (o.Key == "R16:matmul:unpromote" || o.Key == "R16:matmul:batched-operands") {
					o.Status = StNote
					o.Why = "structural pattern not recognised (" + o.Why + "); the clause is decided by the finite table R16:matmul:shape-table"
				}
			}
		}
	}
	got := c.successTerms(apply)
	c.note("R16", "R16:matmul:terms", c.pos(apply.Pos()), strings.Join(got, " | "))
}

// checkMatMulUnpromote: MatMul.Apply remembers in two flags whether A / B was a vector that it promoted to a
// matrix. After the product each flag, independently of the other, leads to the Reshape that removes the axis it
// added: vector x vector must lose both (result rank 0). A switch / else-if between the two undoes only one.
func (c *Ctx) checkMatMulUnpromote(apply *ssa.Function) {
	key := "R16:matmul:unpromote"
	var flags []*ssa.Phi
	for _, b := range apply.Blocks {
		for _, in := range b.Instrs {
			phi, ok := in.(*ssa.Phi)
			if !ok || len(phi.Edges) != 2 {
				continue
			}
			if bt, isB := phi.Type().Underlying().(*types.Basic); !isB || bt.Kind() != types.Bool {
				continue
			}
			t, f := false, false
			for _, e := range phi.Edges {
				if k, isK := e.(*ssa.Const); isK && k.Value != nil && k.Value.Kind() == constant.Bool {
					if constant.BoolVal(k.Value) {
						t = true
					} else {
						f = true
					}
				}
			}
			if t && f {
				flags = append(flags, phi)
			}
		}
	}
	if len(flags) != 2 {
		c.undecided("R16", key, c.pos(apply.Pos()), fmt.Sprintf("%d promotion flags found in MatMul.Apply (2 expected: A was a vector, B was a vector)", len(flags)))
		return
	}
	bad := ""
	for i, fl := range flags {
		other := flags[1-i]
		found := false
		for _, r := range *fl.Referrers() {
			iff, ok := r.(*ssa.If)
			if !ok {
				continue
			}
			// the true branch reshapes the result
			reshapes := false
			seen := map[*ssa.BasicBlock]bool{}
			work := []*ssa.BasicBlock{iff.Block().Succs[0]}
			for len(work) > 0 && len(seen) < 8 {
				x := work[len(work)-1]
				work = work[:len(work)-1]
				if seen[x] || x == iff.Block().Succs[1] {
					continue
				}
				seen[x] = true
				for _, in := range x.Instrs {
					if cl, ok := in.(*ssa.Call); ok {
						if nm, _ := tensorMethod(cl); nm == "Reshape" {
							reshapes = true
						}
					}
				}
				work = append(work, x.Succs...)
			}
			if !reshapes {
				continue
			}
			found = true
			for _, g := range guardsOf(iff.Block()) {
				if stripNot(g.cond) == ssa.Value(other) {
					bad = "the axis added for one vector operand is only removed when the other operand was not a vector (the two un-promotions are alternatives of one switch / else-if): vector x vector keeps an axis and returns shape (1) instead of a scalar"
				}
			}
		}
		if !found && bad == "" {
			bad = "a promotion flag never leads to the Reshape that removes the added axis"
		}
	}
	c.decide(bad == "", "R16", key, c.pos(apply.Pos()), "each vector promotion is undone on its own", bad)
}

// checkBatchedMatMul: the per-matrix product of MatMul multiplies the slice of A with the slice of B, in that
// order, taken with the same slicers, into the slice of the output taken with those slicers; the output has
// A's rows and B's columns.
func (c *Ctx) checkBatchedMatMul(oi *opInfo) {
	key := "R16:matmul:batched-operands"
	var f *ssa.Function
	var mm *ssa.Call
	// the helper whose product takes slices (the batched path); a helper that multiplies whole tensors (all matrices
	// of a stack at once) is judged by the tables R44 / R16:matmul:shape-table. Candidates in source order, so that
	// the verdict does not depend on the iteration order of a map.
	type cand struct {
		g  *ssa.Function
		cl *ssa.Call
	}
	var cands []cand
	for g := range c.reachFrom([]*ssa.Function{oi.methods["Apply"]}) {
		if recvNamed(g) != oi.named || g == oi.methods["Apply"] {
			continue
		}
		for _, b := range g.Blocks {
			for _, in := range b.Instrs {
				if cl, ok := in.(*ssa.Call); ok {
					if o := calleeObj(cl); o != nil && qualName(o) == pkgTensor+".MatMul" {
						cands = append(cands, cand{g, cl})
					}
				}
			}
		}
	}
	sort.Slice(cands, func(i, j int) bool { return cands[i].cl.Pos() < cands[j].cl.Pos() })
	takesSlice := func(cl *ssa.Call) bool {
		for _, a := range cl.Common().Args[:2] {
			v := a
			if ci, isCI := v.(*ssa.ChangeInterface); isCI {
				v = ci.X
			}
			if ex, isEx := v.(*ssa.Extract); isEx {
				if sc, isCall := ex.Tuple.(*ssa.Call); isCall {
					if nm, _ := tensorMethod(sc); nm == "Slice" {
						return true
					}
				}
			}
		}
		return false
	}
	for _, cd := range cands {
		if len(cd.cl.Common().Args) >= 2 && takesSlice(cd.cl) {
			f, mm = cd.g, cd.cl
			break
		}
	}
	if mm == nil && len(cands) > 0 {
		f, mm = cands[0].g, cands[0].cl
	}
	if mm == nil || len(f.Params) < 3 {
		c.undecided("R16", key, c.pos(oi.methods["Apply"].Pos()), "no helper of MatMul multiplying matrix slices with tensor.MatMul found")
		return
	}
	A, B := f.Params[1], f.Params[2]
	sliceOf := func(v ssa.Value) (recv ssa.Value, slicers ssa.Value, ok bool) {
		if ci, isCI := v.(*ssa.ChangeInterface); isCI {
			v = ci.X
		}
		ex, isEx := v.(*ssa.Extract)
		if !isEx || ex.Index != 0 {
			return nil, nil, false
		}
		cl, isCall := ex.Tuple.(*ssa.Call)
		if !isCall {
			return nil, nil, false
		}
		nm, r := tensorMethod(cl)
		if nm != "Slice" {
			return nil, nil, false
		}
		return r, sliceArgs(cl), true
	}
	args := mm.Common().Args
	ra, sa, okA := sliceOf(args[0])
	rb, sb, okB := sliceOf(args[1])
	bad := ""
	switch {
	case !okA || !okB:
		bad = "the operands of the per-matrix product are not slices of the two tensors"
	case ra != ssa.Value(A) || rb != ssa.Value(B):
		bad = "the per-matrix product does not multiply (slice of A) x (slice of B) in that order"
	case sa != sb:
		bad = "the two operands of the per-matrix product are cut with different slicers"
	}
	if bad == "" {
		// the product is written into the slice of the output cut with the same slicers
		okOut := false
		for _, opt := range varargElems(args[len(args)-1]) {
			oc, isCall := opt.(*ssa.Call)
			if !isCall {
				continue
			}
			if o := calleeObj(oc); o != nil && qualName(o) == pkgTensor+".WithReuse" {
				if _, so, ok := sliceOf(oc.Common().Args[0]); ok && so == sa {
					okOut = true
				}
			}
		}
		if !okOut {
			bad = "the product is not written into the output slice cut with the same slicers as the operands"
		}
	}
	c.decide(bad == "", "R16", key, c.pos(mm.Pos()), "out[s] = A[s] x B[s] for the same slicers s", bad)
}

// pureDelegate: every return of f hands on all results of one and the same call of an unexported library helper
// (return h(...), possibly preceded by straight-line argument preparation): that helper and the call's arguments.
func (c *Ctx) pureDelegate(f *ssa.Function) (*ssa.Function, []ssa.Value) {
	rets := returnsOf(f)
	if len(rets) != 1 || len(f.Blocks) > 3 {
		return nil, nil
	}
	r := rets[0]
	var call *ssa.Call
	for i, v := range r.Results {
		ex, ok := v.(*ssa.Extract)
		if !ok || ex.Index != i {
			return nil, nil
		}
		cl, ok := ex.Tuple.(*ssa.Call)
		if !ok || (call != nil && cl != call) {
			return nil, nil
		}
		call = cl
	}
	if call == nil {
		return nil, nil
	}
	h := call.Common().StaticCallee()
	if h == nil || !isLibFn(h) || len(h.Blocks) == 0 || !inlineableHelper(h) || h.Signature.Results().Len() != len(r.Results) {
		return nil, nil
	}
	return h, call.Common().Args
}
