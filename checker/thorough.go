package main

import (
	"bufio"
	"encoding/json"
	"fmt"
	"os"
	"os/exec"
	"path/filepath"
	"sort"
	"strings"
	"sync"

	"golang.org/x/tools/go/packages"
)

// crossArch re-lists the library packages for the Makefile's other targets and requires the same
// file set (there are no build-tagged files today; one that appears must be covered, not skipped).
func crossArch(c *Ctx, repo string) map[string]any {
	res := map[string]any{}
	base := c.libFiles()
	res["amd64_files"] = len(base)
	for _, arch := range []string{"386", "arm64"} {
		env := append(os.Environ(), "GOFLAGS=-mod=mod", "GOPROXY=off", "GOSUMDB=off", "GOTOOLCHAIN=local", "GOWORK=off", "GOARCH="+arch)
		cfg := &packages.Config{Mode: packages.NeedName | packages.NeedFiles | packages.NeedCompiledGoFiles, Dir: repo, Env: env}
		pkgs, err := packages.Load(cfg, "./...")
		if err != nil {
			res["mismatch"] = fmt.Sprintf("GOARCH=%s load failed: %v", arch, err)
			return res
		}
		var files []string
		for _, p := range pkgs {
			if !isLibPkgPath(p.PkgPath) {
				continue
			}
			for _, f := range p.CompiledGoFiles {
				rel, _ := filepath.Rel(repo, f)
				files = append(files, rel)
			}
			// also ignored files would indicate build constraints
			for _, f := range p.IgnoredFiles {
				rel, _ := filepath.Rel(repo, f)
				if strings.HasSuffix(rel, ".go") && !strings.HasSuffix(rel, "_test.go") {
					res["mismatch"] = fmt.Sprintf("GOARCH=%s ignores %s (build constraint): file set differs per target", arch, rel)
				}
			}
		}
		sort.Strings(files)
		res[arch+"_files"] = len(files)
		if strings.Join(files, "\n") != strings.Join(base, "\n") {
			res["mismatch"] = fmt.Sprintf("GOARCH=%s file set differs from amd64", arch)
		}
	}
	return res
}

// replayMutants applies each /verif/mutants/<prop>-*.patch to a scratch copy of the repo's current
// working tree (outside /repo and /verif, removed afterwards), re-runs this checker on it and
// compares the violated keys with the "# expect:" header of the patch. Informational: a mismatch is
// recorded in evidence, it does not change the verdict on /repo.
func replayMutants(repo, prop, verifDir string) map[string]any {
	res := map[string]any{}
	pats, _ := filepath.Glob(filepath.Join(verifDir, "mutants", "*.patch"))
	sort.Strings(pats)
	self, err := os.Executable()
	if err != nil {
		res["error"] = err.Error()
		return res
	}
	var rows []map[string]any
	nOK, nMiss, nSkip := 0, 0, 0
	// independently seeded changes are replayed like mutants (expectation in expect.json)
	seedExpect := map[string][2]any{}
	seeds, _ := filepath.Glob(filepath.Join(verifDir, "seeded", "*", "patch.diff"))
	sort.Strings(seeds)
	for _, sp := range seeds {
		var e struct {
			Properties []string `json:"properties"`
			Expect     string   `json:"expect"`
		}
		if b, err := os.ReadFile(filepath.Join(filepath.Dir(sp), "expect.json")); err == nil && json.Unmarshal(b, &e) == nil {
			seedExpect[sp] = [2]any{e.Properties, e.Expect}
			pats = append(pats, sp)
		}
	}
	type job struct {
		p      string
		expect string
		seeded bool
	}
	var jobs []job
	for _, p := range pats {
		props, expect := mutantHeader(p)
		if se, ok := seedExpect[p]; ok {
			props, expect = se[0].([]string), se[1].(string)
		}
		applies := false
		for _, q := range props {
			if q == prop {
				applies = true
			}
		}
		if !applies {
			continue
		}
		_, isSeed := seedExpect[p]
		jobs = append(jobs, job{p, expect, isSeed})
	}
	// replay in parallel (each replay is an independent process on its own scratch copy)
	results := make([]map[string]any, len(jobs))
	outcome := make([]int, len(jobs)) // 0 ok, 1 mismatch, 2 skipped
	sem := make(chan struct{}, 6)
	var wg sync.WaitGroup
	for i, j := range jobs {
		wg.Add(1)
		sem <- struct{}{}
		go func(i int, j job) {
			defer wg.Done()
			defer func() { <-sem }()
			results[i], outcome[i] = replayOne(self, repo, prop, verifDir, j.p, j.expect, j.seeded)
		}(i, j)
	}
	wg.Wait()
	for i := range jobs {
		rows = append(rows, results[i])
		switch outcome[i] {
		case 0:
			nOK++
		case 1:
			nMiss++
		default:
			nSkip++
		}
	}
	res["mutants"] = rows
	res["as_expected"] = nOK
	res["mismatch"] = nMiss
	res["skipped"] = nSkip
	fmt.Printf("  mutant replay: %d as expected, %d mismatch, %d skipped\n", nOK, nMiss, nSkip)
	return res
}

// replayOne applies one patch to a scratch copy, runs the checker on it and compares with the expectation.
func replayOne(self, repo, prop, verifDir, p, expect string, seeded bool) (map[string]any, int) {
	row := map[string]any{"mutant": filepath.Base(p), "expect": expect}
	if seeded {
		row["mutant"] = "seeded/" + filepath.Base(filepath.Dir(p))
	}
	res := 0
	tmp, err := os.MkdirTemp("", "gonnx-mut-")
	if err != nil {
		row["result"] = "skipped: " + err.Error()
		return row, 2
	}
	func() {
		defer os.RemoveAll(tmp)
		scratch := filepath.Join(tmp, "repo")
		if out, err := exec.Command("rsync", "-a", "--exclude", ".git", repo+"/", scratch+"/").CombinedOutput(); err != nil {
			row["result"] = "skipped: copy failed: " + string(out)
			res = 2
			return
		}
		cmd := exec.Command("patch", "-p1", "-s", "--no-backup-if-mismatch", "-i", p)
		cmd.Dir = scratch
		if out, err := cmd.CombinedOutput(); err != nil {
			row["result"] = "skipped: patch does not apply to the current tree: " + firstLine(string(out))
			res = 2
			return
		}
		ev := filepath.Join(tmp, "ev.json")
		cmd = exec.Command(self, "-repo", scratch, "-property", prop, "-tier", "quick", "-evidence", ev, "-verif", filepath.Join(tmp, "noverif"))
		// known findings still apply (same keys), but evidence/violations go to tmp
		os.MkdirAll(filepath.Join(tmp, "noverif"), 0o755)
		if b, err := os.ReadFile(filepath.Join(verifDir, "known_findings.json")); err == nil {
			os.WriteFile(filepath.Join(tmp, "noverif", "known_findings.json"), b, 0o644)
		}
		out, _ := cmd.CombinedOutput()
		code := cmd.ProcessState.ExitCode()
		var evd struct {
			Coverage struct {
				ViolatedKeys []string `json:"violated_keys"`
			} `json:"coverage"`
		}
		if b, err := os.ReadFile(ev); err == nil {
			json.Unmarshal(b, &evd)
		}
		got := evd.Coverage.ViolatedKeys
		row["exit"] = code
		row["violated_keys"] = got
		ok := false
		if expect == "silent" {
			ok = code == 0
		} else {
			for _, k := range got {
				if strings.Contains(k, expect) {
					ok = true
				}
			}
			ok = ok && code == 1
		}
		if ok {
			row["result"] = "as expected"
			res = 0
		} else {
			row["result"] = "MISMATCH"
			row["output_tail"] = tail(string(out), 5)
			res = 1
		}
	}()
	return row, res
}

func firstLine(s string) string {
	if i := strings.IndexByte(s, '\n'); i >= 0 {
		return s[:i]
	}
	return s
}

func tail(s string, n int) []string {
	ls := strings.Split(strings.TrimSpace(s), "\n")
	if len(ls) > n {
		ls = ls[len(ls)-n:]
	}
	return ls
}

// mutantHeader reads "# properties: C02 C17" and "# expect: <key substring>|silent" from a patch.
func mutantHeader(path string) (props []string, expect string) {
	f, err := os.Open(path)
	if err != nil {
		return nil, ""
	}
	defer f.Close()
	sc := bufio.NewScanner(f)
	for sc.Scan() {
		l := sc.Text()
		if !strings.HasPrefix(l, "#") {
			break
		}
		l = strings.TrimSpace(strings.TrimPrefix(l, "#"))
		if strings.HasPrefix(l, "properties:") {
			props = strings.Fields(strings.TrimPrefix(l, "properties:"))
		}
		if strings.HasPrefix(l, "expect:") {
			expect = strings.TrimSpace(strings.TrimPrefix(l, "expect:"))
		}
	}
	return
}
